/- Helper lemmas for C17 (column-accessor naming). Core Lean only. -/
import Serif.Model.Names

namespace Serif.Names

/-! ### characters -/

theorem isU_iff {c : Char} : isU c = true ↔ c = '_' := by simp [isU]

theorem isU_underscore : isU '_' = true := by decide
theorem isDigit_underscore : isDigit '_' = false := by decide
theorem okChar_underscore : okChar '_' = true := by decide
theorem isLower_c : isLower 'c' = true := by decide
theorem okChar_c : okChar 'c' = true := by decide

theorem isDigit_not_isU {c : Char} (h : isDigit c = true) : isU c = false := by
  cases hu : isU c with
  | false => rfl
  | true => rw [isU_iff.mp hu] at h; exact absurd h (by decide)

theorem isLower_not_isU {c : Char} (h : isLower c = true) : isU c = false := by
  cases hu : isU c with
  | false => rfl
  | true => rw [isU_iff.mp hu] at h; exact absurd h (by decide)

theorem isLower_not_isDigit {c : Char} (h : isLower c = true) : isDigit c = false := by
  simp only [isLower, isDigit, Bool.and_eq_true, decide_eq_true_eq] at *
  cases hd : (decide (48 ≤ c.toNat) && decide (c.toNat ≤ 57)) with
  | false => rfl
  | true => simp only [Bool.and_eq_true, decide_eq_true_eq] at hd; omega

theorem isDigit_okChar {c : Char} (h : isDigit c = true) : okChar c = true := by simp [okChar, h]
theorem isLower_okChar {c : Char} (h : isLower c = true) : okChar c = true := by simp [okChar, h]

/-- a character of `[a-z0-9_]` that is not `_` and not a digit is a letter -/
theorem okChar_cases {c : Char} (h : okChar c = true) : isLower c = true ∨ isDigit c = true ∨ isU c = true := by
  simp only [okChar, Bool.or_eq_true] at h
  rcases h with (h | h) | h <;> simp [h]

/-- `[a-z0-9_]` is ASCII: this is why Python's Unicode-aware `str.isdigit()` / `\d` coincide with
    ASCII digits on everything that survives the substitution step -/
theorem okChar_ascii {c : Char} (h : okChar c = true) : c.toNat < 128 := by
  rcases okChar_cases h with h | h | h
  · simp only [isLower, Bool.and_eq_true, decide_eq_true_eq] at h; omega
  · simp only [isDigit, Bool.and_eq_true, decide_eq_true_eq] at h; omega
  · rw [isU_iff.mp h]; decide

/-! ### decimal numerals -/

theorem digitChar_isDigit (d : Nat) : isDigit (digitChar d) = true := by
  unfold digitChar; split <;> decide

theorem digitChar_val {d : Nat} (h : d < 10) : (digitChar d).toNat - 48 = d := by
  have : d = 0 ∨ d = 1 ∨ d = 2 ∨ d = 3 ∨ d = 4 ∨ d = 5 ∨ d = 6 ∨ d = 7 ∨ d = 8 ∨ d = 9 := by omega
  rcases this with h | h | h | h | h | h | h | h | h | h <;> subst h <;> decide

theorem revDigits_ne_nil (f n : Nat) : revDigits f n ≠ [] := by
  cases f <;> simp [revDigits] <;> split <;> simp

theorem revDigits_all (f n : Nat) : ∀ c ∈ revDigits f n, isDigit c = true := by
  induction f generalizing n with
  | zero => simp [revDigits, digitChar_isDigit]
  | succ f ih =>
    simp only [revDigits]
    split
    · simp [digitChar_isDigit]
    · intro c hc
      rcases List.mem_cons.mp hc with rfl | hc
      · exact digitChar_isDigit _
      · exact ih _ c hc

theorem revDigits_val (f n : Nat) (h : n ≤ f) : valLE (revDigits f n) = n := by
  induction f generalizing n with
  | zero =>
    have : n = 0 := by omega
    subst this; decide
  | succ f ih =>
    simp only [revDigits]
    split
    · rename_i hlt; simp [valLE, digitChar_val hlt]
    · rename_i hge
      simp only [valLE]
      rw [ih (n / 10) (by omega), digitChar_val (Nat.mod_lt _ (by decide))]
      omega

theorem showNat_ne_nil (n : Nat) : showNat n ≠ [] := by
  simp [showNat, revDigits_ne_nil]

theorem showNat_all (n : Nat) : ∀ c ∈ showNat n, isDigit c = true := by
  intro c hc
  exact revDigits_all n n c (by simpa [showNat] using hc)

theorem showNat_reverse (n : Nat) : (showNat n).reverse = revDigits n n := by simp [showNat]

theorem natOfDigits_showNat (n : Nat) : natOfDigits (showNat n) = n := by
  simp [natOfDigits, showNat_reverse, revDigits_val]

theorem showNat_inj {a b : Nat} (h : showNat a = showNat b) : a = b := by
  have := congrArg natOfDigits h
  simpa [natOfDigits_showNat] using this

theorem allDigits_showNat (n : Nat) : allDigits (showNat n) = true := by
  simp only [allDigits, Bool.and_eq_true, Bool.not_eq_true', List.all_eq_true]
  refine ⟨?_, showNat_all n⟩
  cases h : showNat n with
  | nil => exact absurd h (showNat_ne_nil n)
  | cons _ _ => rfl

theorem allDigits_iff {s : Str} : allDigits s = true ↔ s ≠ [] ∧ ∀ c ∈ s, isDigit c = true := by
  cases s <;> simp [allDigits]

/-! ### substitution and stripping -/

theorem subRuns_ok (b : Bool) (s : Str) : ∀ c ∈ subRuns b s, okChar c = true := by
  induction s generalizing b with
  | nil => simp [subRuns]
  | cons x xs ih =>
    simp only [subRuns]
    split
    · rename_i hx
      intro c hc
      rcases List.mem_cons.mp hc with rfl | hc
      · exact hx
      · exact ih _ c hc
    · split
      · exact ih _
      · intro c hc
        rcases List.mem_cons.mp hc with rfl | hc
        · exact okChar_underscore
        · exact ih _ c hc

/-- after the substitution only ASCII remains -/
theorem subRuns_ascii (b : Bool) (s : Str) : ∀ c ∈ subRuns b s, c.toNat < 128 :=
  fun c hc => okChar_ascii (subRuns_ok b s c hc)

/-- the substitution leaves a string over `[a-z0-9_]` alone -/
theorem subRuns_id (b : Bool) (s : Str) (h : ∀ c ∈ s, okChar c = true) : subRuns b s = s := by
  induction s generalizing b with
  | nil => rfl
  | cons x xs ih =>
    have hx : okChar x = true := h x List.mem_cons_self
    simp only [subRuns, hx, if_true]
    rw [ih false (fun c hc => h c (List.mem_cons_of_mem _ hc))]

theorem rstripU_cons (c : Char) (cs : Str) :
    rstripU (c :: cs) = if isU c && (rstripU cs).isEmpty then [] else c :: rstripU cs := by
  simp [rstripU]

theorem rstripU_mem (s : Str) : ∀ c ∈ rstripU s, c ∈ s := by
  induction s with
  | nil => simp [rstripU]
  | cons x xs ih =>
    rw [rstripU_cons]
    split
    · simp
    · intro c hc
      rcases List.mem_cons.mp hc with rfl | hc
      · exact List.mem_cons_self
      · exact List.mem_cons_of_mem _ (ih c hc)

/-- the last character of a right-stripped string is not `_` -/
theorem rstripU_getLast (s : Str) : (rstripU s).getLast? ≠ some '_' := by
  induction s with
  | nil => simp [rstripU]
  | cons x xs ih =>
    rw [rstripU_cons]
    split
    · simp
    · rename_i hx
      cases hr : rstripU xs with
      | nil =>
        simp only [hr, List.isEmpty_nil, Bool.and_true, Bool.not_eq_true] at hx
        simp only [List.getLast?_singleton, ne_eq, Option.some.injEq]
        intro h; rw [h] at hx; exact absurd hx (by decide)
      | cons y ys =>
        rw [List.getLast?_cons_cons, ← hr]; exact ih

theorem rstripU_append_U (s : Str) : rstripU (s ++ ['_']) = rstripU s := by
  simp [rstripU, List.foldr_append, isU_underscore]

/-- right-stripping leaves a string alone whose last character is not `_` -/
theorem rstripU_id (s : Str) (h : s.getLast? ≠ some '_') : rstripU s = s := by
  induction s with
  | nil => rfl
  | cons x xs ih =>
    rw [rstripU_cons]
    cases xs with
    | nil =>
      simp only [List.getLast?_singleton, ne_eq, Option.some.injEq] at h
      have : isU x = false := by
        cases hu : isU x with
        | false => rfl
        | true => exact absurd (isU_iff.mp hu) h
      simp [this, rstripU]
    | cons y ys =>
      rw [List.getLast?_cons_cons] at h
      rw [ih h]; simp

theorem lstripU_mem (s : Str) : ∀ c ∈ lstripU s, c ∈ s :=
  fun _ hc => (List.dropWhile_sublist _).subset hc

theorem lstripU_head (s : Str) : ∀ c, (lstripU s).head? = some c → isU c = false := by
  induction s with
  | nil => simp [lstripU]
  | cons x xs ih =>
    intro c
    simp only [lstripU, List.dropWhile_cons]
    split
    · exact ih c
    · rename_i hx
      simp only [List.head?_cons, Option.some.injEq]
      rintro rfl; simpa using hx

theorem lstripU_id (s : Str) (h : ∀ c, s.head? = some c → isU c = false) : lstripU s = s := by
  cases s with
  | nil => rfl
  | cons x xs =>
    have := h x rfl
    simp [lstripU, this]

/-- what survives stripping: a non-empty string over `[a-z0-9_]` that neither starts nor ends with `_` -/
structure Clean (a : Str) : Prop where
  ne : a ≠ []
  ok : ∀ c ∈ a, okChar c = true
  head : ∀ c, a.head? = some c → isU c = false
  last : a.getLast? ≠ some '_'

theorem stripU_head (s : Str) : ∀ c, (stripU s).head? = some c → isU c = false := by
  intro c hc
  unfold stripU at hc
  cases hl : lstripU s with
  | nil => rw [hl] at hc; simp [rstripU] at hc
  | cons x xs =>
    have hx : isU x = false := lstripU_head s x (by rw [hl]; rfl)
    rw [hl, rstripU_cons] at hc
    simp only [hx, Bool.false_and, Bool.false_eq_true, if_false, List.head?_cons, Option.some.injEq] at hc
    rw [← hc]; exact hx

theorem stripU_clean (s : Str) (hok : ∀ c ∈ s, okChar c = true) (hne : stripU s ≠ []) : Clean (stripU s) where
  ne := hne
  ok := fun c hc => hok c (lstripU_mem s c (rstripU_mem _ c hc))
  head := stripU_head s
  last := rstripU_getLast _

theorem Clean.stripU_id {a : Str} (h : Clean a) : stripU a = a := by
  unfold stripU; rw [lstripU_id a h.head, rstripU_id a h.last]

theorem Clean.sanitize {a : Str} (h : Clean a) : sanitizeCore a = some (finish a) := by
  unfold sanitizeCore
  simp only [subRuns_id false a h.ok, h.stripU_id]
  cases a with
  | nil => exact absurd rfl h.ne
  | cons _ _ => rfl

/-- every output of `sanitizeCore` is `finish` of a clean string -/
theorem sanitize_some {s r : Str} (h : sanitizeCore s = some r) : ∃ a, Clean a ∧ r = finish a := by
  unfold sanitizeCore at h
  simp only at h
  split at h
  · cases h
  · rename_i hne
    refine ⟨_, stripU_clean _ (subRuns_ok false s) ?_, (Option.some.inj h).symm⟩
    intro he; rw [he] at hne; exact hne rfl

/-! ### the indexed-accessor pattern `^.+__\d+$` -/

theorem getLast?_append_ne (l l' : Str) (h : l' ≠ []) : (l ++ l').getLast? = l'.getLast? := by
  rw [List.getLast?_append]
  cases h' : l'.getLast? with
  | none => exact absurd (List.getLast?_eq_none_iff.mp h') h
  | some y => rfl

theorem endsWithU_append_U (x : Str) : endsWithU (x ++ ['_']) = true := by simp [endsWithU]

theorem endsWithU_iff {s : Str} : endsWithU s = true ↔ ∃ x, s = x ++ ['_'] := by
  constructor
  · intro h
    simp only [endsWithU, beq_iff_eq] at h
    exact List.getLast?_eq_some_iff.mp h
  · rintro ⟨x, rfl⟩; exact endsWithU_append_U x

theorem endsWithU_false_iff {s : Str} : endsWithU s = false ↔ s.getLast? ≠ some '_' := by
  simp [endsWithU]

theorem matchesIndexed_append_U (x : Str) : matchesIndexed (x ++ ['_']) = false := by
  simp [matchesIndexed, matchesIndexedRev, isDigit_underscore]

theorem takeWhile_digits_append (ds r : Str) (hd : ∀ c ∈ ds, isDigit c = true)
    (hr : ∀ c, r.head? = some c → isDigit c = false) : (ds ++ r).takeWhile isDigit = ds := by
  rw [List.takeWhile_append_of_pos hd]
  cases r with
  | nil => simp
  | cons x xs => simp [hr x rfl]

theorem dropWhile_digits_append (ds r : Str) (hd : ∀ c ∈ ds, isDigit c = true)
    (hr : ∀ c, r.head? = some c → isDigit c = false) : (ds ++ r).dropWhile isDigit = r := by
  rw [List.dropWhile_append_of_pos hd]
  cases r with
  | nil => simp
  | cons x xs => simp [hr x rfl]

/-- a non-empty digit run in front of (the reversed) rest: only the rest decides -/
theorem matchesIndexedRev_digits (ds r : Str) (hd : ∀ c ∈ ds, isDigit c = true) (hne : ds ≠ [])
    (hr : ∀ c, r.head? = some c → isDigit c = false) :
    matchesIndexedRev (ds ++ r) = sepThenMore r := by
  unfold matchesIndexedRev
  rw [takeWhile_digits_append ds r hd hr, dropWhile_digits_append ds r hd hr]
  cases ds with
  | nil => exact absurd rfl hne
  | cons _ _ => simp

/-- `p ++ "__" ++ digits` with `p` non-empty matches the pattern -/
theorem matchesIndexed_build (p ds : Str) (hp : p ≠ []) (hd : allDigits ds = true) :
    matchesIndexed (p ++ '_' :: '_' :: ds) = true := by
  obtain ⟨hne, hall⟩ := allDigits_iff.mp hd
  have e : (p ++ '_' :: '_' :: ds).reverse = ds.reverse ++ ('_' :: '_' :: p.reverse) := by simp
  unfold matchesIndexed
  rw [e, matchesIndexedRev_digits _ _ (by simpa using hall) (by simpa using hne)
    (by intro c hc; simp at hc; rw [← hc]; exact isDigit_underscore)]
  cases hr : p.reverse with
  | nil => simp at hr; exact absurd hr hp
  | cons x xs => simp [sepThenMore, isU_underscore]

/-- `"col" ++ digits` does not match the pattern -/
theorem matchesIndexed_col (ds : Str) (hd : allDigits ds = true) :
    matchesIndexed ('c' :: 'o' :: 'l' :: ds) = false := by
  obtain ⟨hne, hall⟩ := allDigits_iff.mp hd
  have e : ('c' :: 'o' :: 'l' :: ds).reverse = ds.reverse ++ ['l', 'o', 'c'] := by simp
  unfold matchesIndexed
  rw [e, matchesIndexedRev_digits _ _ (by simpa using hall) (by simpa using hne)
    (by intro c hc; simp at hc; rw [← hc]; decide)]
  decide

/-! ### side conditions on the reserved list, checked by the kernel on the generated constant -/

theorem reserved_suffix_free : ∀ n ∈ reserved, n ++ ['_'] ∉ reserved := by decide +kernel

theorem reserved_not_colDigits : ∀ n ∈ reserved, isColDigits n = false := by decide +kernel

theorem mem_reserved_iff {c : Str} : reserved.contains c = true ↔ c ∈ reserved := by
  simp

/-! ### steps 4–6 -/

theorem isIdent_iff {s : Str} : isIdent s = true ↔ ∃ c cs, s = c :: cs ∧ isLower c = true ∧ ∀ x ∈ cs, okChar x = true := by
  cases s with
  | nil => simp [isIdent]
  | cons c cs =>
    simp only [isIdent, Bool.and_eq_true, List.all_eq_true]
    constructor
    · rintro ⟨h1, h2⟩; exact ⟨c, cs, rfl, h1, h2⟩
    · rintro ⟨c', cs', e, h1, h2⟩; cases e; exact ⟨h1, h2⟩

theorem isIdent_append_U {s : Str} (h : isIdent s = true) : isIdent (s ++ ['_']) = true := by
  obtain ⟨c, cs, rfl, hc, hcs⟩ := isIdent_iff.mp h
  refine isIdent_iff.mpr ⟨c, cs ++ ['_'], rfl, hc, ?_⟩
  intro x hx
  rcases List.mem_append.mp hx with hx | hx
  · exact hcs x hx
  · simp at hx; rw [hx]; exact okChar_underscore

theorem Clean.prefixC {a : Str} (h : Clean a) : Clean (prefixC a) ∧ isIdent (prefixC a) = true := by
  cases a with
  | nil => exact absurd rfl h.ne
  | cons x xs =>
    have hx : okChar x = true := h.ok x List.mem_cons_self
    have hu : isU x = false := h.head x rfl
    simp only [Names.prefixC]
    split
    · refine ⟨⟨by simp, ?_, ?_, ?_⟩, ?_⟩
      · intro c hc
        rcases List.mem_cons.mp hc with rfl | hc
        · exact okChar_c
        · exact h.ok c hc
      · intro c hc; simp at hc; rw [← hc]; decide
      · rw [List.getLast?_cons_cons]; exact h.last
      · exact isIdent_iff.mpr ⟨'c', x :: xs, rfl, isLower_c, h.ok⟩
    · rename_i hd
      refine ⟨h, isIdent_iff.mpr ⟨x, xs, rfl, ?_, fun c hc => h.ok c (List.mem_cons_of_mem _ hc)⟩⟩
      rcases okChar_cases hx with h1 | h1 | h1
      · exact h1
      · exact absurd h1 hd
      · rw [hu] at h1; cases h1

theorem prefixC_of_ident {b : Str} (h : isIdent b = true) : prefixC b = b := by
  obtain ⟨c, cs, rfl, hc, _⟩ := isIdent_iff.mp h
  simp [prefixC, isLower_not_isDigit hc]

theorem finish_prefixC {a : Str} (h : Clean a) : finish (prefixC a) = finish a := by
  unfold finish; rw [prefixC_of_ident h.prefixC.2]

theorem guardIndexed_ident {b : Str} (h : isIdent b = true) : isIdent (guardIndexed b) = true := by
  unfold guardIndexed; split
  · exact isIdent_append_U h
  · exact h

theorem guardReserved_ident {b : Str} (h : isIdent b = true) : isIdent (guardReserved b) = true := by
  unfold guardReserved; split
  · exact isIdent_append_U h
  · exact h

theorem guardIndexed_not_matches (b : Str) : matchesIndexed (guardIndexed b) = false := by
  unfold guardIndexed; split
  · exact matchesIndexed_append_U b
  · rename_i h; simpa using h

theorem guardReserved_not_matches {c : Str} (h : matchesIndexed c = false) :
    matchesIndexed (guardReserved c) = false := by
  unfold guardReserved; split
  · exact matchesIndexed_append_U c
  · exact h

theorem guardReserved_not_reserved (c : Str) : guardReserved c ∉ reserved := by
  unfold guardReserved; split
  · rename_i h; exact reserved_suffix_free c (mem_reserved_iff.mp h)
  · rename_i h; exact fun hm => h (mem_reserved_iff.mpr hm)

theorem finish_ident {a : Str} (h : Clean a) : isIdent (finish a) = true :=
  guardReserved_ident (guardIndexed_ident h.prefixC.2)

theorem finish_not_matches (a : Str) : matchesIndexed (finish a) = false :=
  guardReserved_not_matches (guardIndexed_not_matches _)

theorem finish_not_reserved (a : Str) : finish a ∉ reserved := guardReserved_not_reserved _

theorem guardReserved_of_mem {c : Str} (h : c ∈ reserved) : guardReserved c = c ++ ['_'] := by
  simp [guardReserved, h]

theorem guardReserved_of_not_mem {c : Str} (h : c ∉ reserved) : guardReserved c = c := by
  simp [guardReserved, h]

/-- the four ways `finish` can end -/
theorem finish_cases {a : Str} (_h : Clean a) :
    (finish a = prefixC a ∧ matchesIndexed (prefixC a) = false ∧ prefixC a ∉ reserved) ∨
    (finish a = prefixC a ++ ['_'] ∧ matchesIndexed (prefixC a) = true) ∨
    (finish a = prefixC a ++ ['_'] ∧ matchesIndexed (prefixC a) = false ∧ prefixC a ∈ reserved) ∨
    (finish a = (prefixC a ++ ['_']) ++ ['_'] ∧ matchesIndexed (prefixC a) = true) := by
  have hfin : finish a = guardReserved (guardIndexed (prefixC a)) := rfl
  rcases Bool.eq_false_or_eq_true (matchesIndexed (prefixC a)) with hm | hm
  · have hg : guardIndexed (prefixC a) = prefixC a ++ ['_'] := by simp [guardIndexed, hm]
    rw [hfin, hg]
    by_cases hr : prefixC a ++ ['_'] ∈ reserved
    · exact Or.inr (Or.inr (Or.inr ⟨guardReserved_of_mem hr, hm⟩))
    · exact Or.inr (Or.inl ⟨guardReserved_of_not_mem hr, hm⟩)
  · have hg : guardIndexed (prefixC a) = prefixC a := by simp [guardIndexed, hm]
    rw [hfin, hg]
    by_cases hr : prefixC a ∈ reserved
    · exact Or.inr (Or.inr (Or.inl ⟨guardReserved_of_mem hr, hm, hr⟩))
    · exact Or.inl ⟨guardReserved_of_not_mem hr, hm, hr⟩

/-! ### bases: the outputs of `sanitizeCore` -/

/-- `b` is the sanitised form of some string -/
def Base (b : Str) : Prop := ∃ s, sanitizeCore s = some b

theorem Base.ident {b : Str} (h : Base b) : isIdent b = true := by
  obtain ⟨s, hs⟩ := h
  obtain ⟨a, ha, rfl⟩ := sanitize_some hs
  exact finish_ident ha

theorem Base.not_matches {b : Str} (h : Base b) : matchesIndexed b = false := by
  obtain ⟨s, hs⟩ := h
  obtain ⟨a, _, rfl⟩ := sanitize_some hs
  exact finish_not_matches a

theorem Base.not_reserved {b : Str} (h : Base b) : b ∉ reserved := by
  obtain ⟨s, hs⟩ := h
  obtain ⟨a, _, rfl⟩ := sanitize_some hs
  exact finish_not_reserved a

theorem Base.ne_nil {b : Str} (h : Base b) : b ≠ [] := by
  obtain ⟨c, cs, rfl, _⟩ := isIdent_iff.mp h.ident
  simp

/-! ### `col<N>_` -/

theorem colNDigits_some {x ds : Str} (h : colNDigits x = some ds) :
    x = 'c' :: 'o' :: 'l' :: (ds ++ ['_']) ∧ allDigits ds = true := by
  unfold colNDigits at h
  split at h
  · rename_i hc
    simp only [Bool.and_eq_true, beq_iff_eq] at hc
    obtain ⟨⟨h3, he⟩, hd⟩ := hc
    have hds : (x.drop 3).dropLast = ds := Option.some.inj h
    have hx : x = ['c', 'o', 'l'] ++ x.drop 3 := by rw [← h3, List.take_append_drop]
    have hne : x.drop 3 ≠ [] := by
      intro e; rw [e] at hd; simp [allDigits] at hd
    have hl : (x.drop 3).getLast? = some '_' := by
      have : x.getLast? = some '_' := by simpa [endsWithU] using he
      rw [hx, getLast?_append_ne _ _ hne] at this
      exact this
    obtain ⟨ys, hys⟩ := List.getLast?_eq_some_iff.mp hl
    have : ds = ys := by rw [← hds, hys, List.dropLast_concat]
    subst this
    refine ⟨?_, by rw [← hds]; exact hd⟩
    rw [hx, hys]; rfl
  · cases h

theorem colNDigits_build (ds : Str) (hd : allDigits ds = true) :
    colNDigits ('c' :: 'o' :: 'l' :: (ds ++ ['_'])) = some ds := by
  have e : ('c' :: 'o' :: 'l' :: (ds ++ ['_'])) = ('c' :: 'o' :: 'l' :: ds) ++ ['_'] := rfl
  have he : endsWithU ('c' :: 'o' :: 'l' :: (ds ++ ['_'])) = true := by rw [e]; exact endsWithU_append_U _
  unfold colNDigits
  simp [he, hd]

theorem colNDigits_colN (i : Nat) : colNDigits (colN i) = some (showNat i) :=
  colNDigits_build _ (allDigits_showNat i)

/-- a sanitised user name never has the shape `col<digits>_` of a generated accessor -/
theorem finish_colNDigits {a : Str} (h : Clean a) : colNDigits (finish a) = none := by
  cases hc : colNDigits (finish a) with
  | none => rfl
  | some ds =>
    exfalso
    obtain ⟨hx, hd⟩ := colNDigits_some hc
    have hb := h.prefixC.1
    have e : ('c' :: 'o' :: 'l' :: (ds ++ ['_'])) = ('c' :: 'o' :: 'l' :: ds) ++ ['_'] := rfl
    rw [e] at hx
    rcases finish_cases h with ⟨hf, _, _⟩ | ⟨hf, hm⟩ | ⟨hf, _, hr⟩ | ⟨hf, _⟩
    · rw [hf] at hx
      exact hb.last (List.getLast?_eq_some_iff.mpr ⟨_, hx⟩)
    · rw [hf] at hx
      have := List.append_cancel_right hx
      rw [this, matchesIndexed_col ds hd] at hm; cases hm
    · rw [hf] at hx
      have := List.append_cancel_right hx
      have hcd := reserved_not_colDigits _ hr
      rw [this] at hcd
      simp [isColDigits, hd] at hcd
    · rw [hf] at hx
      have := List.append_cancel_right hx
      obtain ⟨hne, hall⟩ := allDigits_iff.mp hd
      have hl : ('c' :: 'o' :: 'l' :: ds).getLast? = some '_' := List.getLast?_eq_some_iff.mpr ⟨_, this.symm⟩
      have e2 : ('c' :: 'o' :: 'l' :: ds) = ['c', 'o', 'l'] ++ ds := rfl
      rw [e2, getLast?_append_ne _ _ hne] at hl
      have hmem : '_' ∈ ds := List.mem_of_getLast? hl
      exact absurd (hall _ hmem) (by decide)

theorem Base.colNDigits_none {b : Str} (h : Base b) : colNDigits b = none := by
  obtain ⟨s, hs⟩ := h
  obtain ⟨a, ha, rfl⟩ := sanitize_some hs
  exact finish_colNDigits ha

theorem Base.ne_colN {b : Str} (h : Base b) (i : Nat) : b ≠ colN i := by
  intro e; have := h.colNDigits_none; rw [e, colNDigits_colN] at this; cases this

theorem colN_eq (i : Nat) : colN i = ('c' :: 'o' :: 'l' :: showNat i) ++ ['_'] := rfl

theorem colN_inj {i j : Nat} (h : colN i = colN j) : i = j := by
  rw [colN_eq, colN_eq] at h
  have := List.append_cancel_right h
  simp only [List.cons.injEq, true_and] at this
  exact showNat_inj this

theorem colN_not_matches (i : Nat) : matchesIndexed (colN i) = false := by
  rw [colN_eq]; exact matchesIndexed_append_U _

theorem colN_ident (i : Nat) : isIdent (colN i) = true := by
  refine isIdent_iff.mpr ⟨'c', 'o' :: 'l' :: (showNat i ++ ['_']), rfl, by decide, ?_⟩
  intro x hx
  simp only [List.mem_cons, List.mem_append, List.not_mem_nil, or_false] at hx
  rcases hx with rfl | rfl | hx | rfl
  · decide
  · decide
  · exact isDigit_okChar (showNat_all i x hx)
  · decide

/-! ### the indexed form `base__idx` and its fixed point -/

/-- what `rpartition('__')` leaves in front of the suffix of `indexed b i` -/
def attrBase (b : Str) : Str := if endsWithU b then b.dropLast else b

theorem indexed_eq (b : Str) (i : Nat) : indexed b i = attrBase b ++ '_' :: '_' :: showNat i := by
  unfold indexed attrBase
  rcases Bool.eq_false_or_eq_true (endsWithU b) with h | h
  · obtain ⟨x, rfl⟩ := endsWithU_iff.mp h
    simp [h]
  · simp [h]

theorem attrBase_ne_nil {b : Str} (h : isIdent b = true) : attrBase b ≠ [] := by
  obtain ⟨c, cs, rfl, hc, _⟩ := isIdent_iff.mp h
  unfold attrBase
  split
  · rename_i he
    obtain ⟨x, hx⟩ := endsWithU_iff.mp he
    rw [hx, List.dropLast_concat]
    intro e; subst e
    simp only [List.nil_append, List.cons.injEq] at hx
    rw [hx.1] at hc; exact absurd hc (by decide)
  · simp

theorem indexed_reverse (b : Str) (i : Nat) :
    (indexed b i).reverse = revDigits i i ++ '_' :: '_' :: (attrBase b).reverse := by
  rw [indexed_eq]; simp [showNat_reverse]

theorem indexed_matches {b : Str} (h : isIdent b = true) (i : Nat) : matchesIndexed (indexed b i) = true := by
  rw [indexed_eq]; exact matchesIndexed_build _ _ (attrBase_ne_nil h) (allDigits_showNat i)

theorem indexed_inj {b b' : Str} {i j : Nat} (h : indexed b i = indexed b' j) : i = j := by
  have hr := congrArg (fun s => (List.reverse s).takeWhile isDigit) h
  simp only [indexed_reverse] at hr
  have hu : ∀ (r : Str) c, ('_' :: r).head? = some c → isDigit c = false := by
    intro r c hc; simp at hc; rw [← hc]; exact isDigit_underscore
  rw [takeWhile_digits_append _ _ (revDigits_all i i) (hu _),
      takeWhile_digits_append _ _ (revDigits_all j j) (hu _)] at hr
  have := congrArg valLE hr
  rwa [revDigits_val i i (Nat.le_refl _), revDigits_val j j (Nat.le_refl _)] at this

theorem indexed_ne_colN {b : Str} (h : isIdent b = true) (i j : Nat) : indexed b i ≠ colN j := by
  intro e; have := indexed_matches h i; rw [e, colN_not_matches] at this; cases this

/-- sanitising the part of `base__idx` in front of `__idx` gives the base back -/
theorem finish_fixed {a : Str} (h : Clean a) : sanitizeCore (attrBase (finish a)) = some (finish a) := by
  have hb := h.prefixC.1
  have hs : sanitizeCore (prefixC a) = some (finish a) := by rw [hb.sanitize, finish_prefixC h]
  rcases finish_cases h with ⟨hf, _, _⟩ | ⟨hf, _⟩ | ⟨hf, _, _⟩ | ⟨hf, _⟩
  · have : attrBase (finish a) = prefixC a := by
      unfold attrBase
      rw [hf, endsWithU_false_iff.mpr hb.last]; simp
    rw [this, hs]
  · have : attrBase (finish a) = prefixC a := by
      unfold attrBase; rw [hf, endsWithU_append_U]; simp
    rw [this, hs]
  · have : attrBase (finish a) = prefixC a := by
      unfold attrBase; rw [hf, endsWithU_append_U]; simp
    rw [this, hs]
  · have : attrBase (finish a) = prefixC a ++ ['_'] := by
      unfold attrBase; rw [hf, endsWithU_append_U]; simp
    rw [this]
    have hok : ∀ c ∈ prefixC a ++ ['_'], okChar c = true := by
      intro c hc
      rcases List.mem_append.mp hc with hc | hc
      · exact hb.ok c hc
      · simp at hc; rw [hc]; exact okChar_underscore
    have hstrip : stripU (prefixC a ++ ['_']) = prefixC a := by
      unfold stripU
      rw [lstripU_id, rstripU_append_U, rstripU_id _ hb.last]
      intro c hc
      cases hp : prefixC a with
      | nil => exact absurd hp hb.ne
      | cons x xs => rw [hp] at hc; simp at hc; rw [← hc]; exact hb.head x (by rw [hp]; rfl)
    unfold sanitizeCore
    simp only [subRuns_id false _ hok, hstrip]
    have hne : (prefixC a).isEmpty = false := by
      cases hp : prefixC a with
      | nil => exact absurd hp hb.ne
      | cons _ _ => rfl
    simp [hne, finish_prefixC h]

theorem Base.fixed {b : Str} (h : Base b) : sanitizeCore (attrBase b) = some b := by
  obtain ⟨s, hs⟩ := h
  obtain ⟨a, ha, rfl⟩ := sanitize_some hs
  exact finish_fixed ha

/-! ### `rpartition('__')` and `_parse_indexed_attr` -/

theorem rpartRev_spec {r s b : Str} (h : rpartRev r = some (s, b)) : r = s ++ '_' :: '_' :: b := by
  induction r generalizing s b with
  | nil => simp [rpartRev] at h
  | cons c rest ih =>
    simp only [rpartRev] at h
    split at h
    · rename_i hc
      simp only [Bool.and_eq_true, beq_iff_eq] at hc
      cases h
      cases rest with
      | nil => simp at hc
      | cons y ys =>
        simp only [List.head?_cons, Option.some.injEq] at hc
        simp [isU_iff.mp hc.1, hc.2]
    · cases hr : rpartRev rest with
      | none => simp [hr] at h
      | some p =>
        obtain ⟨s', b'⟩ := p
        simp only [hr, Option.some.injEq, Prod.mk.injEq] at h
        obtain ⟨rfl, rfl⟩ := h
        rw [ih hr]; rfl

theorem rpartRev_digits (ds r : Str) (hd : ∀ c ∈ ds, isDigit c = true) :
    rpartRev (ds ++ '_' :: '_' :: r) = some (ds, r) := by
  induction ds with
  | nil => simp [rpartRev, isU_underscore]
  | cons d ds ih =>
    have hdu : isU d = false := isDigit_not_isU (hd d List.mem_cons_self)
    simp only [List.cons_append, rpartRev, hdu, Bool.false_and, Bool.false_eq_true, if_false]
    rw [ih (fun c hc => hd c (List.mem_cons_of_mem _ hc))]

theorem rpartition_spec {s b suf : Str} (h : rpartition s = some (b, suf)) : s = b ++ '_' :: '_' :: suf := by
  unfold rpartition at h
  cases hr : rpartRev s.reverse with
  | none => simp [hr] at h
  | some p =>
    obtain ⟨sr, br⟩ := p
    simp only [hr, Option.some.injEq, Prod.mk.injEq] at h
    obtain ⟨rfl, rfl⟩ := h
    have := congrArg List.reverse (rpartRev_spec hr)
    simpa using this

theorem rpartition_indexed (b : Str) (i : Nat) :
    rpartition (indexed b i) = some (attrBase b, showNat i) := by
  unfold rpartition
  rw [indexed_reverse, rpartRev_digits _ _ (revDigits_all i i)]
  simp [showNat]

/-- an identifier that does not look like `name__digits` is parsed as a plain attribute -/
theorem parse_plain {a : Str} (hi : isIdent a = true) (hm : matchesIndexed a = false) :
    parseIndexedAttr a = .plain := by
  unfold parseIndexedAttr
  cases hr : rpartition a with
  | none => rfl
  | some p =>
    obtain ⟨base, suffix⟩ := p
    simp only
    split
    · rename_i hd
      exfalso
      have ha := rpartition_spec hr
      by_cases hb : base = []
      · subst hb
        obtain ⟨c, cs, e, hc, _⟩ := isIdent_iff.mp hi
        rw [e] at ha
        simp only [List.nil_append, List.cons.injEq] at ha
        rw [ha.1] at hc; exact absurd hc (by decide)
      · rw [ha, matchesIndexed_build base suffix hb hd] at hm; cases hm
    · rfl

theorem parse_indexed {b : Str} (hb : Base b) (i : Nat) :
    parseIndexedAttr (indexed b i) = .indexed (some b) i := by
  unfold parseIndexedAttr
  rw [rpartition_indexed]
  have hne : (attrBase b).isEmpty = false := by
    cases h : attrBase b with
    | nil => exact absurd h (attrBase_ne_nil hb.ident)
    | cons _ _ => rfl
  simp [allDigits_showNat, hne, hb.fixed, natOfDigits_showNat]

/-! ### the accessors assigned by `_build_column_map` -/

theorem baseOf_base {nm : Option Str} {b : Str} (h : baseOf nm = some b) : Base b := by
  cases nm with
  | none => simp [baseOf] at h
  | some n => exact ⟨n, h⟩

theorem stepAcc_cases (seen : List Str) (idx : Nat) (nm : Option Str) :
    (baseOf nm = none ∧ stepAcc seen idx nm = (colN idx, seen)) ∨
    (∃ b, baseOf nm = some b ∧ b ∉ seen ∧ stepAcc seen idx nm = (b, b :: seen)) ∨
    (∃ b, baseOf nm = some b ∧ b ∈ seen ∧ stepAcc seen idx nm = (indexed b idx, seen)) := by
  unfold stepAcc
  cases hb : baseOf nm with
  | none => exact Or.inl ⟨rfl, rfl⟩
  | some b =>
    by_cases hm : b ∈ seen
    · exact Or.inr (Or.inr ⟨b, rfl, hm, by simp [hm]⟩)
    · exact Or.inr (Or.inl ⟨b, rfl, hm, by simp [hm]⟩)

theorem stepAcc_seen_mono (seen : List Str) (idx : Nat) (nm : Option Str) :
    ∀ x ∈ seen, x ∈ (stepAcc seen idx nm).2 := by
  intro x hx
  rcases stepAcc_cases seen idx nm with ⟨_, e⟩ | ⟨b, _, _, e⟩ | ⟨b, _, _, e⟩ <;> rw [e] <;> simp [hx]

theorem accessorsFrom_length (idx : Nat) (seen : List Str) (names : List (Option Str)) :
    (accessorsFrom idx seen names).length = names.length := by
  induction names generalizing idx seen with
  | nil => rfl
  | cons nm rest ih => simp [accessorsFrom, ih]

/-- every accessor has one of three shapes: generated `col<j>_`, a fresh base, or `base__j` -/
theorem mem_accessorsFrom {idx : Nat} {seen : List Str} {names : List (Option Str)} {a : Str}
    (h : a ∈ accessorsFrom idx seen names) :
    ∃ j, idx ≤ j ∧ (a = colN j ∨ (Base a ∧ a ∉ seen) ∨ ∃ b, Base b ∧ a = indexed b j) := by
  induction names generalizing idx seen with
  | nil => simp [accessorsFrom] at h
  | cons nm rest ih =>
    simp only [accessorsFrom, List.mem_cons] at h
    rcases h with h | h
    · refine ⟨idx, Nat.le_refl _, ?_⟩
      rcases stepAcc_cases seen idx nm with ⟨_, e⟩ | ⟨b, hb, hn, e⟩ | ⟨b, hb, _, e⟩
      · rw [e] at h; exact Or.inl h
      · rw [e] at h; subst h; exact Or.inr (Or.inl ⟨baseOf_base hb, hn⟩)
      · rw [e] at h; exact Or.inr (Or.inr ⟨b, baseOf_base hb, h⟩)
    · obtain ⟨j, hj, hf⟩ := ih h
      refine ⟨j, by omega, ?_⟩
      rcases hf with hf | ⟨hb, hn⟩ | hf
      · exact Or.inl hf
      · exact Or.inr (Or.inl ⟨hb, fun hm => hn (stepAcc_seen_mono seen idx nm a hm)⟩)
      · exact Or.inr (Or.inr hf)

/-- distinctness: no two columns get the same accessor -/
theorem accessorsFrom_nodup (idx : Nat) (seen : List Str) (names : List (Option Str)) :
    (accessorsFrom idx seen names).Nodup := by
  induction names generalizing idx seen with
  | nil => simp [accessorsFrom]
  | cons nm rest ih =>
    simp only [accessorsFrom, List.nodup_cons]
    refine ⟨?_, ih _ _⟩
    intro hmem
    obtain ⟨j, hj, hf⟩ := mem_accessorsFrom hmem
    rcases stepAcc_cases seen idx nm with ⟨_, e⟩ | ⟨b, hb, _, e⟩ | ⟨b, hb, _, e⟩
    · -- generated name `col<idx>_`
      rw [e] at hf
      rcases hf with hf | ⟨hb, _⟩ | ⟨b, hb, hf⟩
      · have := colN_inj hf; omega
      · exact hb.ne_colN idx rfl
      · exact indexed_ne_colN hb.ident j idx hf.symm
    · -- a fresh base: it is in `seen` from now on
      rw [e] at hf
      simp only at hf
      rcases hf with hf | ⟨_, hn⟩ | ⟨b', hb', hf⟩
      · exact (baseOf_base hb).ne_colN j hf
      · exact hn List.mem_cons_self
      · have := indexed_matches hb'.ident j
        rw [← hf, (baseOf_base hb).not_matches] at this; cases this
    · -- `base__idx`
      rw [e] at hf
      simp only at hf
      rcases hf with hf | ⟨hb', _⟩ | ⟨b', _, hf⟩
      · exact indexed_ne_colN (baseOf_base hb).ident idx j hf
      · have := indexed_matches (baseOf_base hb).ident idx
        rw [hb'.not_matches] at this; cases this
      · have := indexed_inj hf; omega

/-- the accessor at position `k`, by the base of that column -/
theorem accessorsFrom_get {idx : Nat} {seen : List Str} {names : List (Option Str)} {k : Nat} {a : Str}
    (h : (accessorsFrom idx seen names)[k]? = some a) :
    ∃ nm, names[k]? = some nm ∧
      ((baseOf nm = none ∧ a = colN (idx + k)) ∨ baseOf nm = some a ∨
       ∃ b, baseOf nm = some b ∧ a = indexed b (idx + k)) := by
  induction names generalizing idx seen k with
  | nil => simp [accessorsFrom] at h
  | cons nm rest ih =>
    cases k with
    | zero =>
      simp only [accessorsFrom, List.getElem?_cons_zero, Option.some.injEq] at h
      refine ⟨nm, rfl, ?_⟩
      rcases stepAcc_cases seen idx nm with ⟨hb, e⟩ | ⟨b, hb, _, e⟩ | ⟨b, hb, _, e⟩
      · rw [e] at h; exact Or.inl ⟨hb, h.symm⟩
      · rw [e] at h; subst h; exact Or.inr (Or.inl hb)
      · rw [e] at h; exact Or.inr (Or.inr ⟨b, hb, h.symm⟩)
    | succ k =>
      simp only [accessorsFrom, List.getElem?_cons_succ] at h
      obtain ⟨nm', hn, hf⟩ := ih h
      refine ⟨nm', by simpa using hn, ?_⟩
      have e : idx + 1 + k = idx + (k + 1) := by omega
      rw [e] at hf; exact hf

/-! ### the dictionary -/

/-- `l` paired with `idx, idx+1, …` -/
def withIdx (idx : Nat) : List Str → Dict Str Nat
  | [] => []
  | a :: rest => (a, idx) :: withIdx (idx + 1) rest

theorem keys_withIdx (idx : Nat) (l : List Str) : Dict.keys (withIdx idx l) = l := by
  induction l generalizing idx with
  | nil => rfl
  | cons a rest ih => simp [withIdx, Dict.keys] at *; exact ih _

theorem upsert_not_mem (m : Dict Str Nat) (a : Str) (f : Option Nat → Nat) (h : a ∉ Dict.keys m) :
    Dict.upsert m a f = m ++ [(a, f none)] := by
  induction m with
  | nil => rfl
  | cons p rest ih =>
    obtain ⟨k, v⟩ := p
    simp only [Dict.keys, List.map_cons, List.mem_cons, not_or] at h
    have hk : ¬ k = a := fun e => h.1 e.symm
    simp only [Dict.upsert, hk, if_false, List.cons_append, List.cons.injEq, true_and]
    exact ih (by simpa [Dict.keys] using h.2)

theorem buildFrom_eq (idx : Nat) (seen : List Str) (m : Dict Str Nat) (names : List (Option Str))
    (h : ∀ a ∈ accessorsFrom idx seen names, a ∉ Dict.keys m) :
    buildFrom idx seen m names = m ++ withIdx idx (accessorsFrom idx seen names) := by
  induction names generalizing idx seen m with
  | nil => simp [buildFrom, accessorsFrom, withIdx]
  | cons nm rest ih =>
    have hnd := accessorsFrom_nodup idx seen (nm :: rest)
    simp only [accessorsFrom, List.nodup_cons] at hnd
    simp only [buildFrom, accessorsFrom, withIdx]
    have h0 : (stepAcc seen idx nm).1 ∉ Dict.keys m := h _ (by simp [accessorsFrom])
    rw [upsert_not_mem m _ _ h0, ih]
    · simp
    · intro a ha
      simp only [Dict.keys, List.map_append, List.map_cons, List.map_nil, List.mem_append,
        List.mem_cons, List.not_mem_nil, or_false, not_or]
      refine ⟨?_, fun e => hnd.1 (e ▸ ha)⟩
      have := h a (by simp [accessorsFrom, ha])
      simpa [Dict.keys] using this

/-- the column map is the list of accessors paired with their positions -/
theorem buildColumnMap_eq (names : List (Option Str)) :
    buildColumnMap names = withIdx 0 (accessors names) := by
  unfold buildColumnMap accessors
  rw [buildFrom_eq 0 [] [] names (by simp [Dict.keys])]; rfl

theorem get?_withIdx {l : List Str} (hnd : l.Nodup) (idx k : Nat) {a : Str} (h : l[k]? = some a) :
    Dict.get? (withIdx idx l) a = some (idx + k) := by
  induction l generalizing idx k with
  | nil => simp at h
  | cons x rest ih =>
    simp only [List.nodup_cons] at hnd
    cases k with
    | zero =>
      simp only [List.getElem?_cons_zero, Option.some.injEq] at h
      simp [withIdx, Dict.get?, h]
    | succ k =>
      simp only [List.getElem?_cons_succ] at h
      have hne : ¬ x = a := fun e => hnd.1 (e ▸ List.mem_of_getElem? h)
      simp only [withIdx, Dict.get?, hne, if_false]
      rw [ih hnd.2 (idx + 1) k h]; congr 1; omega

theorem get?_withIdx_mem {l : List Str} {idx : Nat} {a : Str} {v : Nat}
    (h : Dict.get? (withIdx idx l) a = some v) : ∃ k, l[k]? = some a ∧ v = idx + k := by
  induction l generalizing idx with
  | nil => simp [withIdx, Dict.get?] at h
  | cons x rest ih =>
    simp only [withIdx, Dict.get?] at h
    split at h
    · rename_i e; exact ⟨0, by simp [e], by simpa using (Option.some.inj h).symm⟩
    · obtain ⟨k, hk, hv⟩ := ih h
      exact ⟨k + 1, by simpa using hk, by omega⟩

/-- the map sends the accessor of column `k` to `k` -/
theorem map_get (names : List (Option Str)) {k : Nat} {a : Str} (h : (accessors names)[k]? = some a) :
    Dict.get? (buildColumnMap names) a = some k := by
  rw [buildColumnMap_eq]
  have := get?_withIdx (l := accessors names) (accessorsFrom_nodup 0 [] names) 0 k h
  simpa using this

theorem getOr_eq (m : Dict Str Nat) (a : Str) : getOr m a = Dict.get? m a := by
  unfold getOr; split <;> simp_all

/-! ### resolution of an advertised accessor -/

theorem accessors_get {names : List (Option Str)} {k : Nat} {a : Str} (h : (accessors names)[k]? = some a) :
    ∃ nm, names[k]? = some nm ∧
      ((baseOf nm = none ∧ a = colN k) ∨ baseOf nm = some a ∨ ∃ b, baseOf nm = some b ∧ a = indexed b k) := by
  have := accessorsFrom_get (idx := 0) (seen := []) h
  simpa using this

theorem resolveIndexed_own {names : List (Option Str)} {k : Nat} {nm : Option Str} {b : Str}
    (hn : names[k]? = some nm) (hb : baseOf nm = some b) : resolveIndexed names (some b) k = .col k := by
  have hk : k < names.length := by
    rcases Nat.lt_or_ge k names.length with h | h
    · exact h
    · rw [List.getElem?_eq_none h] at hn; cases hn
  have hg : names.getD k none = nm := by simp [List.getD, hn]
  cases nm with
  | none => simp [baseOf] at hb
  | some n =>
    have : baseForIndexed (some n) = some b := hb
    have hge : names[k] = some n := by
      have e := List.getElem?_eq_getElem hk
      rw [e] at hn; exact Option.some.inj hn
    simp [resolveIndexed, hk, hge, this]

theorem lt_of_getElem? {α} {l : List α} {k : Nat} {x : α} (h : l[k]? = some x) : k < l.length := by
  rcases Nat.lt_or_ge k l.length with h' | h'
  · exact h'
  · rw [List.getElem?_eq_none h'] at h; cases h

/-- `Table.__getattr__` with the map of the current names sends the accessor of column `k` to column `k` -/
theorem resolveAttr_own {names : List (Option Str)} {k : Nat} {a : Str} (h : (accessors names)[k]? = some a) :
    resolveAttr names (buildColumnMap names) a = .col k := by
  obtain ⟨nm, hn, hf⟩ := accessors_get h
  have hk := lt_of_getElem? hn
  unfold resolveAttr
  rcases hf with ⟨_, rfl⟩ | hb | ⟨b, hb, rfl⟩
  · rw [parse_plain (colN_ident k) (colN_not_matches k)]
    simp [colNDigits_colN, natOfDigits_showNat, hk]
  · have hB := baseOf_base hb
    rw [parse_plain hB.ident hB.not_matches]
    simp [hB.colNDigits_none, getOr_eq, map_get names h]
  · rw [parse_indexed (baseOf_base hb) k]
    exact resolveIndexed_own hn hb

/-- the same for the column lookup of `Table.__setattr__` -/
theorem resolveSetAttr_own {names : List (Option Str)} {k : Nat} {a : Str} (h : (accessors names)[k]? = some a) :
    resolveSetAttr names (buildColumnMap names) a = .col k := by
  obtain ⟨nm, hn, hf⟩ := accessors_get h
  unfold resolveSetAttr
  rcases hf with ⟨_, rfl⟩ | hb | ⟨b, hb, rfl⟩
  · rw [parse_plain (colN_ident k) (colN_not_matches k)]
    simp [getOr_eq, map_get names h]
  · have hB := baseOf_base hb
    rw [parse_plain hB.ident hB.not_matches]
    simp [getOr_eq, map_get names h]
  · rw [parse_indexed (baseOf_base hb) k]
    exact resolveIndexed_own hn hb

theorem resolveSetItem_own {names : List (Option Str)} {k : Nat} {a : Str} (h : (accessors names)[k]? = some a) :
    resolveSetItem (buildColumnMap names) a = .col k := by
  simp [resolveSetItem, getOr_eq, map_get names h]

theorem resolveRow_own {names : List (Option Str)} {k : Nat} {a : Str} (h : (accessors names)[k]? = some a) :
    resolveRow (buildColumnMap names) a = .col k := by
  simp [resolveRow, map_get names h]

/-- every accessor is a valid identifier -/
theorem accessor_ident {names : List (Option Str)} {a : Str} (h : a ∈ accessors names) : isIdent a = true := by
  obtain ⟨j, _, hf⟩ := mem_accessorsFrom h
  rcases hf with rfl | ⟨hb, _⟩ | ⟨b, hb, rfl⟩
  · exact colN_ident j
  · exact hb.ident
  · obtain ⟨c, cs, e, hc, hcs⟩ := isIdent_iff.mp hb.ident
    refine isIdent_iff.mpr ⟨c, cs ++ ((if endsWithU b then [] else ['_']) ++ '_' :: showNat j), by simp [indexed, e], hc, ?_⟩
    intro x hx
    simp only [List.mem_append, List.mem_cons] at hx
    rcases hx with hx | hx | rfl | hx
    · exact hcs x hx
    · split at hx
      · cases hx
      · simp at hx; rw [hx]; exact okChar_underscore
    · exact okChar_underscore
    · exact isDigit_okChar (showNat_all j x hx)

/-! more side conditions on the reserved list -/

theorem reserved_not_matches : ∀ n ∈ reserved, matchesIndexed n = false := by decide +kernel
theorem reserved_not_colN : ∀ n ∈ reserved, colNDigits n = none := by decide +kernel

/-- no accessor is a reserved Vector/Table attribute name -/
theorem accessor_not_reserved {names : List (Option Str)} {a : Str} (h : a ∈ accessors names) : a ∉ reserved := by
  obtain ⟨j, _, hf⟩ := mem_accessorsFrom h
  rcases hf with rfl | ⟨hb, _⟩ | ⟨b, hb, rfl⟩
  · intro hm; have := reserved_not_colN _ hm; rw [colNDigits_colN] at this; cases this
  · exact hb.not_reserved
  · intro hm; have := reserved_not_matches _ hm; rw [indexed_matches hb.ident] at this; cases this

/-! ### the dot row of repr -/

theorem sanitizeCore_nil : sanitizeCore [] = none := by decide

theorem truthy_cases (nm : Option Str) :
    (truthyBase nm = none ∧ baseOf nm = none) ∨ truthyBase nm = some (baseOf nm) := by
  cases nm with
  | none => exact Or.inl ⟨rfl, rfl⟩
  | some n =>
    cases n with
    | nil => exact Or.inl ⟨rfl, sanitizeCore_nil⟩
    | cons c cs => exact Or.inr rfl

/-- `_compute_headers` recomputes, independently, exactly the accessors of the shown columns -/
theorem headersFrom_eq (idx : Nat) (seen : List Str) (shown : List Nat) (names : List (Option Str)) :
    headersFrom idx seen shown names = shownAccessorsFrom idx shown (accessorsFrom idx seen names) := by
  induction names generalizing idx seen with
  | nil => rfl
  | cons nm rest ih =>
    simp only [headersFrom, accessorsFrom, shownAccessorsFrom]
    rcases truthy_cases nm with ⟨ht, hb⟩ | ht
    · simp only [ht, stepAcc, hb]
      split <;> simp [ih]
    · rw [ht]
      cases hb : baseOf nm with
      | none => simp only [stepAcc, hb]; split <;> simp [ih]
      | some b =>
        simp only [stepAcc, hb, setAdd]
        by_cases hm : seen.contains b = true
        · simp only [hm, if_true]; split <;> simp [ih]
        · simp only [hm]; split <;> simp [ih]

theorem computeHeaders_eq (names : List (Option Str)) (shown : List Nat) :
    computeHeaders names shown = shownAccessors names shown := headersFrom_eq 0 [] shown names

/-! ### string indexing and renames -/

theorem stringIndex_of_first {cols : List (Option Name)} {key : Name} {i : Nat}
    (h : firstOccurrence cols key = some i) : stringIndex cols key = some i := by
  unfold stringIndex; unfold firstOccurrence at h; rw [h]

/-- `rename_column` touches exactly the first column whose stored name equals `old` -/
theorem renameFirst_eq (old new : Option Name) (cols : List (Option Name)) :
    renameFirst old new cols = (cols.findIdx? (fun c => sameName c old)).map (fun i => cols.set i new) := by
  induction cols with
  | nil => rfl
  | cons c rest ih =>
    simp only [renameFirst, List.findIdx?_cons]
    split
    · simp
    · rw [ih]
      cases rest.findIdx? (fun c => sameName c old) <;> simp

theorem renameFirst_length {old new : Option Name} {cols cols' : List (Option Name)}
    (h : renameFirst old new cols = some cols') : cols'.length = cols.length := by
  rw [renameFirst_eq] at h
  cases hf : cols.findIdx? (fun c => sameName c old) with
  | none => simp [hf] at h
  | some i => simp [hf] at h; rw [← h]; simp

/-! ### the cached map -/

theorem any_id_map_false {α} (l : List α) : (l.map (fun _ => false)).any id = false := by
  induction l <;> simp_all

theorem fresh_mkTable (cols : List (Option Name)) : Fresh (mkTable cols) :=
  ⟨by simp [mkTable], fun _ => rfl⟩

theorem rebuild_Fresh (s : TState) : Fresh (rebuild s) :=
  ⟨by simp [rebuild], fun _ => rfl⟩

theorem rebuild_cols (s : TState) : (rebuild s).cols = s.cols := rfl
theorem rebuild_cache (s : TState) : (rebuild s).cache = buildColumnMap s.lowers := rfl

/-- after `_fresh_column_map()` the cached map is the map of the current names -/
theorem fresh_spec {s : TState} (h : Fresh s) :
    (fresh s).cols = s.cols ∧ (fresh s).cache = buildColumnMap s.lowers ∧ Fresh (fresh s) := by
  unfold fresh
  split
  · exact ⟨rfl, rfl, rebuild_Fresh s⟩
  · rename_i hw
    exact ⟨rfl, h.2 (by simpa using hw), h⟩

theorem fresh_lowers {s : TState} (h : Fresh s) : (fresh s).lowers = s.lowers := by
  unfold TState.lowers; rw [(fresh_spec h).1]

theorem any_set_true (w : List Bool) (i : Nat) (h : i < w.length) : (w.set i true).any id = true := by
  induction w generalizing i with
  | nil => simp at h
  | cons b rest ih =>
    cases i with
    | zero => simp
    | succ i => simp only [List.set_cons_succ, List.any_cons]; rw [ih i (by simpa using h)]; simp

theorem view_Fresh {s : TState} (h : Fresh s) (i : Nat) (new : Option Name) :
    Fresh { s with cols := s.cols.set i new, wild := setWild s.wild i } := by
  refine ⟨by simp [setWild, h.1], ?_⟩
  intro hw
  rcases Nat.lt_or_ge i s.wild.length with hi | hi
  · simp only [setWild] at hw; rw [any_set_true _ _ hi] at hw; cases hw
  · have e1 : s.wild.set i true = s.wild := List.set_eq_of_length_le hi
    have e2 : s.cols.set i new = s.cols := List.set_eq_of_length_le (by rw [← h.1]; exact hi)
    simp only [setWild, e1] at hw
    simp only [TState.lowers, e2]
    exact h.2 hw

/-- the invariant survives every operation -/
theorem step_Fresh {s : TState} (h : Fresh s) (op : Op) : Fresh (step s op).1 := by
  have hf := fresh_spec h
  cases op with
  | rename old new =>
    simp only [step]; split
    · exact h
    · exact rebuild_Fresh _
  | renames pairs =>
    simp only [step]; split
    · exact h
    · exact rebuild_Fresh _
  | view i new =>
    simp only [step]; split
    · exact view_Fresh h i new
    · exact h
  | viewAttr attr new =>
    simp only [step]; split
    · exact view_Fresh hf.2.2 _ new
    · exact hf.2.2
  | replace attr =>
    simp only [step]; split
    · exact rebuild_Fresh _
    · exact hf.2.2
  | append nm => exact fresh_mkTable _
  | dir => exact rebuild_Fresh _
  | getattr attr => exact hf.2.2
  | row attr => exact hf.2.2
  | setitem key => exact hf.2.2

theorem run_Fresh {s : TState} (h : Fresh s) (ops : List Op) : Fresh (run s ops).1 := by
  induction ops generalizing s with
  | nil => exact h
  | cons op rest ih => exact ih (step_Fresh h op)

theorem keys_buildColumnMap (names : List (Option Str)) : Dict.keys (buildColumnMap names) = accessors names := by
  rw [buildColumnMap_eq, keys_withIdx]

/-! ### lookups on a table with the invariant -/

theorem step_getattr_own {s : TState} (h : Fresh s) {k : Nat} {a : Str}
    (ha : (accessors s.lowers)[k]? = some a) : (step s (.getattr a)).2 = .look (.col k) := by
  simp only [step]; rw [fresh_lowers h, (fresh_spec h).2.1, resolveAttr_own ha]

theorem step_row_own {s : TState} (h : Fresh s) {k : Nat} {a : Str}
    (ha : (accessors s.lowers)[k]? = some a) : (step s (.row a)).2 = .look (.col k) := by
  simp only [step]; rw [(fresh_spec h).2.1, resolveRow_own ha]

theorem step_setitem_own {s : TState} (h : Fresh s) {k : Nat} {a : Str}
    (ha : (accessors s.lowers)[k]? = some a) : (step s (.setitem a)).2 = .look (.col k) := by
  simp only [step]; rw [(fresh_spec h).2.1, resolveSetItem_own ha]

theorem step_replace_own {s : TState} (h : Fresh s) {k : Nat} {a : Str}
    (ha : (accessors s.lowers)[k]? = some a) :
    (step s (.replace a)).2 = .look (.col k) ∧ (step s (.replace a)).1.cols = s.cols := by
  simp only [step]; rw [fresh_lowers h, (fresh_spec h).2.1, resolveSetAttr_own ha]
  exact ⟨rfl, (fresh_spec h).1⟩

theorem step_dir {s : TState} : (step s .dir).2 = .names (accessors s.lowers) ∧ (step s .dir).1.cols = s.cols := by
  refine ⟨?_, rfl⟩
  simp only [step, rebuild_cache, keys_buildColumnMap]

theorem step_viewAttr_own {s : TState} (h : Fresh s) {k : Nat} {a : Str} (new : Option Name)
    (ha : (accessors s.lowers)[k]? = some a) :
    (step s (.viewAttr a new)).2 = .done ∧ (step s (.viewAttr a new)).1.cols = s.cols.set k new := by
  simp only [step]; rw [fresh_lowers h, (fresh_spec h).2.1, resolveAttr_own ha]
  exact ⟨rfl, by rw [(fresh_spec h).1]⟩

/-- lookups never touch the stored names -/
theorem step_lookup_cols {s : TState} (h : Fresh s) (a : Str) :
    (step s (.getattr a)).1.cols = s.cols ∧ (step s (.row a)).1.cols = s.cols ∧
    (step s (.setitem a)).1.cols = s.cols ∧ (step s (.replace a)).1.cols = s.cols := by
  refine ⟨(fresh_spec h).1, (fresh_spec h).1, (fresh_spec h).1, ?_⟩
  simp only [step]; split
  · exact (fresh_spec h).1
  · exact (fresh_spec h).1

theorem accessors_length (names : List (Option Str)) : (accessors names).length = names.length :=
  accessorsFrom_length 0 [] names

theorem unnamed_accessor {names : List (Option Str)} {k : Nat} (h : names[k]? = some none) :
    (accessors names)[k]? = some (colN k) := by
  have hk := lt_of_getElem? h
  have hk' : k < (accessors names).length := by rw [accessors_length]; exact hk
  have e := List.getElem?_eq_getElem hk'
  obtain ⟨nm, hn, hf⟩ := accessors_get e
  rw [h] at hn; cases hn
  rcases hf with ⟨_, hf⟩ | hf | ⟨b, hf, _⟩
  · rw [e, hf]
  · simp [baseOf] at hf
  · simp [baseOf] at hf

/-- fixed points of the sanitiser -/
theorem sanitize_fixed {s r : Str} (h : sanitizeCore s = some r) :
    (endsWithU r = false → sanitizeCore r = some r) ∧ (endsWithU r = true → sanitizeCore r.dropLast = some r) := by
  have := Base.fixed ⟨s, h⟩
  unfold attrBase at this
  constructor
  · intro he; simpa [he] using this
  · intro he; simpa [he] using this

end Serif.Names
