/- Memo coherence of the heap model (used by Props/C16). -/
import Serif.Proofs.ObjHeap
import Serif.Model.Fingerprint

namespace Serif.Heap

variable (fpOf : VecVal → Int) (comb : List Int → Int)

theorem coherent_empty : Coherent fpOf Heap.empty := by
  intro o v m h; simp [Heap.empty] at h

theorem coherent_upd_none (h : Heap) (o : Nat) (v : VecVal) (c : Coherent fpOf h) :
    Coherent fpOf { h with objs := upd h.objs o (some (.vec v none)) } := by
  intro k w m hk
  simp only at hk
  by_cases e : k = o
  · subst e; simp at hk
  · rw [upd_ne _ _ _ _ e] at hk; exact c k w m hk

theorem coherent_upd_tab (h : Heap) (o : Nat) (cols : List Nat) (c : Coherent fpOf h) :
    Coherent fpOf { h with objs := upd h.objs o (some (.tab cols)) } := by
  intro k w m hk
  simp only at hk
  by_cases e : k = o
  · subst e; simp at hk
  · rw [upd_ne _ _ _ _ e] at hk; exact c k w m hk

theorem coherent_roots (h : Heap) (r : Nat → Option Nat) (c : Coherent fpOf h) :
    Coherent fpOf { h with roots := r } := c

theorem coherent_allocVec (h : Heap) (v : VecVal) (c : Coherent fpOf h) : Coherent fpOf (h.allocVec v).1 :=
  coherent_upd_none fpOf h h.next v c

theorem coherent_allocVecs (h : Heap) (vs : List VecVal) (c : Coherent fpOf h) : Coherent fpOf (h.allocVecs vs).1 := by
  induction vs generalizing h with
  | nil => exact c
  | cons v vs ih => simp only [allocVecs]; exact ih _ (coherent_allocVec fpOf h v c)

theorem coherent_alloc (h : Heap) (a : AbsVal) (c : Coherent fpOf h) : Coherent fpOf (h.alloc a).1 := by
  cases a with
  | vec v => exact coherent_allocVec fpOf h v c
  | tab cols =>
    simp only [alloc]
    exact coherent_upd_tab fpOf _ _ _ (coherent_allocVecs fpOf h cols c)

theorem coherent_setVec (h : Heap) (o : Nat) (v : VecVal) (c : Coherent fpOf h) : Coherent fpOf (h.setVec o v) := by
  unfold setVec; split
  · exact coherent_upd_none fpOf h o v c
  · exact c

theorem coherent_setVecs (h : Heap) (os : List Nat) (vs : List VecVal) (c : Coherent fpOf h) :
    Coherent fpOf (h.setVecs os vs) := by
  induction os generalizing h vs with
  | nil => simpa [setVecs] using c
  | cons o os ih =>
    cases vs with
    | nil => simpa [setVecs] using c
    | cons v vs => simp only [setVecs]; exact ih _ _ (coherent_setVec fpOf h o v c)

theorem coherent_memo (h : Heap) (o : Nat) (c : Coherent fpOf h) : Coherent fpOf (memo fpOf h o) := by
  unfold memo; split
  · rename_i v fp0 hv
    intro k w m hk
    simp only at hk
    by_cases e : k = o
    · subst e; simp at hk; obtain ⟨rfl, rfl⟩ := hk; rfl
    · rw [upd_ne _ _ _ _ e] at hk; exact c k w m hk
  · exact c

theorem coherent_memo_foldl (cols : List Nat) (h : Heap) (c : Coherent fpOf h) :
    Coherent fpOf (cols.foldl (memo fpOf) h) := by
  induction cols generalizing h with
  | nil => exact c
  | cons x xs ih => exact ih _ (coherent_memo fpOf h x c)

/-- every step keeps every set memo equal to the fingerprint of the current contents -/
theorem coherent_step (h : Heap) (op : HOp) (c : Coherent fpOf h) : Coherent fpOf (step fpOf h op) := by
  cases op with
  | derive dst val => simp only [step]; exact coherent_alloc fpOf h val c
  | getCol dst t j =>
    simp only [step]; split
    · split
      · split
        · exact c
        · exact c
      · exact c
    · exact c
  | setAttr t j src =>
    simp only [step]; split
    · split
      · split
        · exact coherent_upd_tab fpOf _ _ _ (coherent_allocVec fpOf h _ c)
        · exact c
      · exact c
    · exact c
  | mutate r v => simp only [step]; split; exact coherent_setVec fpOf h _ v c; exact c
  | tabMutate t vs =>
    simp only [step]; split
    · split
      · exact coherent_setVecs fpOf h _ vs c
      · exact c
    · exact c
  | drop r => exact c
  | fingerprint r =>
    simp only [step]; split
    · rename_i o ho
      split
      · rename_i v fp0 hv
        have := coherent_memo fpOf h o c
        unfold memo at this; rw [hv] at this; exact this
      · exact coherent_memo_foldl fpOf _ h c
      · exact c
    · exact c
  | noop => exact c

theorem coherent_run (ops : List HOp) (h : Heap) (c : Coherent fpOf h) : Coherent fpOf (run fpOf h ops) := by
  induction ops generalizing h with
  | nil => exact c
  | cons op ops ih => exact ih _ (coherent_step fpOf h op c)

/-- under coherence `fingerprint()` is a function of what the object shows -/
theorem fpRead_eq (h : Heap) (c : Coherent fpOf h) (o : Nat) :
    fpRead fpOf comb h o = (h.abs o).map (fpAbs fpOf comb) := by
  have elem : ∀ x, (match h.obj x with
      | some (.vec _ (some m)) => some m
      | some (.vec v none) => some (fpOf v)
      | _ => none) = (h.vecOf x).map fpOf := by
    intro x
    unfold vecOf
    cases hx : h.obj x with
    | none => rfl
    | some ob =>
      cases ob with
      | tab _ => rfl
      | vec v m =>
        cases m with
        | none => rfl
        | some m => simp only [Option.map_some]; rw [c x v m hx]
  unfold fpRead abs
  cases ho : h.obj o with
  | none => rfl
  | some ob =>
    cases ob with
    | vec v m =>
      cases m with
      | none => rfl
      | some m => simp only [Option.map_some, fpAbs]; rw [c o v m ho]
    | tab cols =>
      simp only [Option.map_some, fpAbs]
      congr 2
      rw [List.map_filterMap]
      exact filterMap_congr' (fun x _ => elem x)

end Serif.Heap
