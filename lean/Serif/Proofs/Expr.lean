/- Helper lemmas for C03 (truthfulness is preserved by every operation of Serif/Model/Expr.lean). -/
import Serif.Model.Expr
import Serif.Proofs.DType

namespace Serif.X

/-! ### `belongs` -/

theorem belongs_of_join_absorb (v K : Kind) (n : Bool) (h : v.join K = K) :
    belongs ⟨K, n⟩ (.ty v) = true := by
  cases v <;> cases K <;> simp_all [belongs, Kind.join, Kind.isNumeric, Kind.isTemporal]

theorem belongs_self (k : Kind) (n : Bool) : belongs ⟨k, n⟩ (.ty k) = true := by
  simp [belongs]

theorem belongs_object (n : Bool) (v : Kind) : belongs ⟨.object, n⟩ (.ty v) = true := by
  simp [belongs]

theorem belongs_ty_nullable (k v : Kind) (n n' : Bool) :
    belongs ⟨k, n⟩ (.ty v) = belongs ⟨k, n'⟩ (.ty v) := by
  simp [belongs]

theorem belongs_none (d : DType) : belongs d .none = d.nullable := rfl

/-- `validate_scalar` accepts exactly the values that belong, for every kind except `object`
    (an `object` column is never validated: the code skips the call) -/
theorem validates_eq_belongs (d : DType) (t : Tag) (h : d.kind ≠ .object) :
    validates d t = belongs d t := by
  obtain ⟨k, n⟩ := d
  cases t with
  | none => rfl
  | ty v =>
    cases k <;> cases v <;> simp_all [validates, belongs, Kind.join, Kind.isNumeric, Kind.isTemporal]

theorem infer_eq_inferSpec (l : List Tag) : infer l = inferSpec l := by
  unfold infer inferSpec
  rw [fold_none]
  cases kindsOf l <;> simp

theorem infer_singleton (k : Kind) : infer [.ty k] = ⟨k, false⟩ := by
  simp [infer, inferStep, inferKind]

/-! ### inference is truthful -/

theorem truthful_some_iff (ts : List Tag) (d : DType) :
    truthful ts (some d) = true ↔ ∀ t ∈ ts, belongs d t = true := by
  simp [truthful, List.all_eq_true]

theorem infer_truthful (ts : List Tag) : truthful ts (some (infer ts)) = true := by
  rw [truthful_some_iff, infer_eq_inferSpec]
  intro t ht
  unfold inferSpec
  cases hk : kindsOf ts with
  | nil =>
    cases t with
    | none => rfl
    | ty v => exact belongs_object _ _
  | cons k ks =>
    cases t with
    | none => simp [belongs, ht]
    | ty v =>
      have hv : v ∈ k :: ks := by
        rw [← hk]; simp only [kindsOf, List.mem_filterMap]; exact ⟨_, ht, rfl⟩
      have h := join_absorb_mem (k :: ks) v k hv
      simp only [List.foldl_cons, Kind.join_idem] at h
      exact belongs_of_join_absorb _ _ _ h

theorem truthful_nil (dt : Option DType) : truthful [] dt = true := by
  cases dt <;> simp [truthful]

theorem truthful_mono {ts ts' : List Tag} {dt : Option DType} (h : ∀ t ∈ ts', t ∈ ts)
    (ht : truthful ts dt = true) : truthful ts' dt = true := by
  cases dt with
  | none => rfl
  | some d =>
    rw [truthful_some_iff] at *
    exact fun t h' => ht t (h t h')

/-! ### the constructor -/

theorem mk_none_truthful (ts : List Tag) (n : Option String) : (mkVec ts none n).truthful = true := by
  unfold mkVec AVec.truthful
  cases ts with
  | nil => rfl
  | cons t ts => simp only [List.isEmpty_cons]; exact infer_truthful _

theorem mk_some_truthful (ts : List Tag) (d : DType) (n : Option String) :
    (mkVec ts (some d) n).truthful = truthful ts (some d) := rfl

theorem mk_infer_truthful (ts : List Tag) (n : Option String) :
    (mkVec ts (some (infer ts)) n).truthful = true := infer_truthful ts

/-- dtype kept unless there are elements to infer from: the shape of `__radd__`, unary, `<<` -/
theorem mk_keep_truthful (ts : List Tag) (dt : Option DType) (n : Option String) :
    (mkVec ts (if ts.isEmpty then dt else some (infer ts)) n).truthful = true := by
  cases ts with
  | nil =>
    cases dt <;> simp [mkVec, AVec.truthful, truthful]
  | cons t ts => simp only [List.isEmpty_cons]; exact infer_truthful _

theorem copyWith_truthful (v : AVec) (ts : List Tag) (hv : v.truthful = true)
    (h : ∀ t ∈ ts, t ∈ v.tags) : (v.copyWith ts).truthful = true := by
  have e : v.copyWith ts = mkVec ts v.dtype v.name := rfl
  rw [e]
  unfold AVec.truthful at hv
  cases hd : v.dtype with
  | none => exact mk_none_truthful _ _
  | some d =>
    rw [mk_some_truthful]
    rw [hd] at hv
    exact truthful_mono h hv

theorem copy_truthful (v : AVec) (hv : v.truthful = true) : v.copy.truthful = true :=
  copyWith_truthful v v.tags hv (fun _ h => h)

theorem truthful_name (v : AVec) (n : Option String) : ({ v with name := n } : AVec).truthful = v.truthful := rfl

/-! ### selections -/

theorem gather_mem {α : Type} (l : List α) (idx : List Nat) (r : List α) (h : gather l idx = some r) :
    ∀ x ∈ r, x ∈ l := by
  induction idx generalizing r with
  | nil => simp [gather] at h; subst h; simp
  | cons i is ih =>
    simp only [gather] at h
    split at h
    · rename_i x xs hx hxs
      cases h
      intro y hy
      rcases List.mem_cons.mp hy with rfl | hy
      · exact List.mem_of_getElem? hx
      · exact ih xs hxs y hy
    · cases h

theorem selMask_mem {α : Type} (m : List Bool) (l : List α) : ∀ x ∈ selMask m l, x ∈ l := by
  induction m generalizing l with
  | nil => simp [selMask]
  | cons b bs ih =>
    cases l with
    | nil => simp [selMask]
    | cons y ys =>
      simp only [selMask]
      intro x hx
      split at hx
      · rcases List.mem_cons.mp hx with rfl | hx
        · exact List.mem_cons_self
        · exact List.mem_cons_of_mem _ (ih ys x hx)
      · exact List.mem_cons_of_mem _ (ih ys x hx)

end Serif.X

namespace Serif.X

/-! ### scalar results -/

theorem collect_ok_mem (rs : List SRes) (ts : List Tag) (h : collect rs = .ok ts) :
    ∀ t ∈ ts, SRes.ok t ∈ rs := by
  induction rs generalizing ts with
  | nil => simp [collect] at h; subst h; simp
  | cons r rs ih =>
    cases r with
    | ok t0 =>
      simp only [collect] at h
      split at h
      · rename_i ts' hts
        cases h
        intro t ht
        rcases List.mem_cons.mp ht with rfl | ht
        · exact List.mem_cons_self
        · exact List.mem_cons_of_mem _ (ih ts' hts t ht)
      · cases h
    | typeErr => simp [collect] at h
    | err => simp [collect] at h

theorem mapRes_ok_mem (f : Nat → Tag → SRes) (i : Nat) (xs : List Tag) (t : Tag)
    (h : SRes.ok t ∈ mapRes f i xs) :
    (t = .none ∧ Tag.none ∈ xs) ∨ ∃ x ∈ xs, x ≠ .none ∧ ∃ j, f j x = .ok t := by
  induction xs generalizing i with
  | nil => simp [mapRes] at h
  | cons x xs ih =>
    simp only [mapRes, List.mem_cons] at h
    rcases h with h | h
    · by_cases hx : x = .none
      · simp only [hx, if_true] at h
        cases h
        exact Or.inl ⟨rfl, by simp [hx]⟩
      · simp only [hx, if_false] at h
        exact Or.inr ⟨x, List.mem_cons_self, hx, i, h.symm⟩
    · rcases ih (i + 1) h with ⟨h1, h2⟩ | ⟨y, hy, hne, j, hj⟩
      · exact Or.inl ⟨h1, List.mem_cons_of_mem _ h2⟩
      · exact Or.inr ⟨y, List.mem_cons_of_mem _ hy, hne, j, hj⟩

/-! ### arithmetic, comparison, unary: typed by inference (or the object fallback), whatever the operands -/

theorem finishArith_truthful (sf : Bool) (n : Nat) (rs : List SRes) (r : AVec)
    (h : finishArith sf n rs = .ok r) : r.truthful = true := by
  unfold finishArith at h
  split at h
  · cases h; exact mk_infer_truthful _ _
  · split at h
    · cases h
    · cases h
      rw [mk_some_truthful, truthful_some_iff]
      intro t ht
      rw [List.eq_of_mem_replicate ht]
      exact belongs_object _ _
  · cases h

theorem finishKeep_truthful (a : AVec) (nm : Option String) (rs : List SRes) (r : AVec)
    (h : finishKeep a nm rs = .ok r) : r.truthful = true := by
  unfold finishKeep at h
  split at h
  · cases h; exact mk_keep_truthful _ _ _
  · cases h
  · cases h

theorem finishPlain_truthful (rs : List SRes) (r : AVec) (h : finishPlain rs = .ok r) :
    r.truthful = true := by
  unfold finishPlain at h
  split at h
  · cases h; exact mk_none_truthful _ _
  · cases h
  · cases h

theorem finishCmp_truthful (rs : List SRes) (r : AVec) (h : finishCmp rs = .ok r) :
    r.truthful = true := by
  unfold finishCmp at h
  split at h
  · cases h
    rw [mk_some_truthful, truthful_some_iff]
    intro t ht
    simp only [List.mem_map] at ht
    obtain ⟨_, _, rfl⟩ := ht
    exact belongs_self _ _
  · cases h

theorem arithVV_truthful (ρ : Oracle) (s c : Nat) (op : AOp) (a b r : AVec)
    (h : arithVV ρ s c op a b = .ok r) : r.truthful = true := by
  unfold arithVV at h
  repeat' split at h
  all_goals first
    | cases h
    | exact finishPlain_truthful _ _ h
    | exact finishArith_truthful _ _ _ _ h

theorem arithVO_truthful (ρ : Oracle) (s c : Nat) (op : AOp) (a r : AVec) (o : Other)
    (h : arithVO ρ s c op a o = .ok r) : r.truthful = true := by
  unfold arithVO at h
  repeat' split at h
  all_goals first
    | cases h
    | exact finishPlain_truthful _ _ h
    | exact finishKeep_truthful _ _ _ _ h
    | exact finishArith_truthful _ _ _ _ h

theorem cmpVV_truthful (ρ : Oracle) (s : Nat) (a b r : AVec) (h : cmpVV ρ s a b = .ok r) :
    r.truthful = true := by
  unfold cmpVV at h
  split at h
  · cases h
  · exact finishCmp_truthful _ _ h

theorem cmpVO_truthful (ρ : Oracle) (s : Nat) (a r : AVec) (o : Other) (h : cmpVO ρ s a o = .ok r) :
    r.truthful = true := by
  unfold cmpVO at h
  repeat' split at h
  all_goals first
    | cases h
    | exact finishCmp_truthful _ _ h

theorem unary_truthful (ρ : Oracle) (s : Nat) (a r : AVec) (h : unary ρ s a = .ok r) :
    r.truthful = true := finishKeep_truthful _ _ _ _ h

end Serif.X

namespace Serif.X

/-! ### cast, fillna, dropna, isna, to_object -/

theorem cast_truthful (ρ : Oracle) (hρ : CastSound ρ) (s : Nat) (k : Kind) (a r : AVec)
    (h : cast ρ s k a = .ok r) : r.truthful = true := by
  unfold cast at h
  split at h
  · rename_i ts hts
    cases h
    rw [mk_some_truthful, truthful_some_iff]
    intro t ht
    rcases mapRes_ok_mem _ _ _ _ (collect_ok_mem _ _ hts t ht) with ⟨rfl, hn⟩ | ⟨x, hx, hne, j, hj⟩
    · simp [belongs, hn]
    · unfold castOne at hj
      split at hj
      · rename_i hc
        cases hj
        obtain ⟨rfl, _⟩ := hc
        exact belongs_self _ _
      · split at hj
        · rename_i hc
          cases hj
          obtain ⟨rfl, rfl⟩ := hc
          exact belongs_self _ _
        · split at hj
          · rename_i hc
            cases hj
            obtain ⟨rfl, rfl⟩ := hc
            exact belongs_self _ _
          · rw [hρ _ _ _ _ _ hj]; exact belongs_self _ _
  · cases h

theorem mem_fillWith (t : Tag) (ts : List Tag) (x : Tag) (h : x ∈ fillWith t ts) :
    (x ∈ ts ∧ x ≠ .none) ∨ (x = t ∧ Tag.none ∈ ts) := by
  simp only [fillWith, List.mem_map] at h
  obtain ⟨y, hy, rfl⟩ := h
  by_cases hn : y = .none
  · subst hn; right; simp [hy]
  · left; simp [hn, hy]

theorem mem_convertTo (k : Kind) (ts : List Tag) (x : Tag) (h : x ∈ convertTo k ts) :
    x = .none ∨ x = .ty k := by
  simp only [convertTo, List.mem_map] at h
  obtain ⟨y, _, rfl⟩ := h
  by_cases hn : y = .none <;> simp [hn]

theorem fillna_truthful (t : Tag) (a r : AVec) (ha : a.truthful = true) (h : fillna t a = .ok r) :
    r.truthful = true := by
  unfold fillna at h
  split at h
  · cases h; exact mk_none_truthful _ _
  · rename_i d hd
    unfold AVec.truthful at ha
    rw [hd, truthful_some_iff] at ha
    split at h
    · -- promotion path
      rename_i hc
      obtain ⟨hobj, htn, hval⟩ := hc
      dsimp only at h
      split at h
      · cases h
      · rename_i k' hp
        cases h
        cases t with
        | none => exact absurd rfl htn
        | ty kt =>
          rw [infer_singleton]
          have hne : d.kind ≠ kt := by
            intro e
            have : validates d (.ty kt) = true := by simp [validates, e]
            rw [this] at hval; cases hval
          rw [mk_some_truthful, truthful_some_iff]
          intro x hx
          rcases mem_fillWith _ _ _ hx with ⟨hx1, hx2⟩ | ⟨rfl, _⟩
          · simp only [promoteTags, hne, if_false] at hx1
            rcases mem_convertTo _ _ _ hx1 with rfl | rfl
            · exact absurd rfl hx2
            · exact belongs_self _ _
          · exact belongs_self _ _
    · rename_i hc
      cases h
      rw [mk_some_truthful, truthful_some_iff]
      intro x hx
      cases x with
      | none => simp [belongs, hx]
      | ty v =>
        rcases mem_fillWith _ _ _ hx with ⟨hx1, _⟩ | ⟨rfl, _⟩
        · rw [belongs_ty_nullable _ _ _ d.nullable]; exact ha _ hx1
        · rw [belongs_ty_nullable _ _ _ d.nullable]
          by_cases hobj : d.kind = .object
          · have : d = ⟨.object, d.nullable⟩ := by cases d; simp_all
            show belongs ⟨d.kind, d.nullable⟩ (.ty v) = true
            rw [hobj]; exact belongs_object _ _
          · have hv : validates d (.ty v) = true := by
              cases hvv : validates d (.ty v) with
              | true => rfl
              | false => exact absurd ⟨hobj, by simp, hvv⟩ hc
            rw [validates_eq_belongs d _ hobj] at hv
            exact hv

theorem dropna_truthful (a r : AVec) (ha : a.truthful = true) (h : dropna a = .ok r) :
    r.truthful = true := by
  unfold dropna at h
  split at h
  · cases h; exact mk_none_truthful _ _
  · rename_i d hd
    cases h
    unfold AVec.truthful at ha
    rw [hd, truthful_some_iff] at ha
    rw [mk_some_truthful, truthful_some_iff]
    intro x hx
    simp only [List.mem_filter, decide_eq_true_eq] at hx
    cases x with
    | none => exact absurd rfl hx.2
    | ty v => rw [belongs_ty_nullable _ _ _ d.nullable]; exact ha _ hx.1

theorem isna_truthful (a : AVec) : (isna a).truthful = true := by
  unfold isna
  rw [mk_some_truthful, truthful_some_iff]
  intro t ht
  simp only [List.mem_map] at ht
  obtain ⟨_, _, rfl⟩ := ht
  exact belongs_self _ _

theorem toObject_truthful (a : AVec) : (toObject a).truthful = true := by
  unfold toObject
  rw [mk_some_truthful, truthful_some_iff]
  intro t ht
  cases t with
  | none => simp [belongs, ht]
  | ty v => exact belongs_object _ _

/-! ### copy-based operations -/

theorem sortV_truthful (p : List Nat) (a r : AVec) (ha : a.truthful = true) (h : sortV p a = .ok r) :
    r.truthful = true := by
  unfold sortV at h
  split at h
  · rename_i ts hts
    cases h
    exact copyWith_truthful a ts ha (gather_mem _ _ _ hts)
  · cases h

theorem getIdx_truthful (idx : List Nat) (a r : AVec) (ha : a.truthful = true) (h : getIdx idx a = .ok r) :
    r.truthful = true := by
  unfold getIdx at h
  split at h
  · rename_i ts hts
    cases h
    exact copyWith_truthful a ts ha (gather_mem _ _ _ hts)
  · cases h

theorem getMask_truthful (m : List Bool) (a r : AVec) (ha : a.truthful = true) (h : getMask m a = .ok r) :
    r.truthful = true := by
  unfold getMask at h
  split at h
  · cases h
  · cases h
    exact copyWith_truthful a _ ha (selMask_mem _ _)

theorem getV_truthful (m : List Bool) (idx : List Nat) (a k r : AVec) (ha : a.truthful = true)
    (h : getV m idx a k = .ok r) : r.truthful = true := by
  unfold getV at h
  repeat' split at h
  all_goals first
    | cases h
    | exact getMask_truthful _ _ _ ha h
    | exact getIdx_truthful _ _ _ ha h

/-! ### concatenation -/

theorem lshiftVV_truthful (a b r : AVec) (h : lshiftVV a b = .ok r) : r.truthful = true := by
  unfold lshiftVV at h
  repeat' split at h
  all_goals first
    | (cases h; exact mk_keep_truthful _ _ _)
    | cases h

theorem lshiftVO_truthful (a r : AVec) (o : Other) (h : lshiftVO a o = .ok r) : r.truthful = true := by
  unfold lshiftVO at h
  repeat' split at h
  all_goals first
    | (cases h; exact mk_keep_truthful _ _ _)
    | (cases h; exact mk_infer_truthful _ _)
    | cases h

end Serif.X

namespace Serif.X

/-! ### in-place assignment -/

theorem belongs_nullable_up (k : Kind) (n : Bool) (x : Tag) (h : belongs ⟨k, n⟩ x = true) :
    belongs ⟨k, true⟩ x = true := by
  cases x with
  | none => rfl
  | ty v => rw [belongs_ty_nullable _ _ _ n]; exact h

theorem belongs_promotable (k k' : Kind) (n : Bool) (x : Tag) (hp : promotable k k' = true)
    (h : belongs ⟨k, n⟩ x = true) : belongs ⟨k', n⟩ x = true := by
  cases x with
  | none => exact h
  | ty v =>
    simp only [promotable, Bool.or_eq_true, Bool.and_eq_true, decide_eq_true_eq] at hp
    rcases hp with ((⟨rfl, rfl⟩ | ⟨rfl, rfl⟩) | ⟨rfl, rfl⟩) | ⟨rfl, rfl⟩ <;>
      cases v <;> simp_all [belongs, Kind.join, Kind.isNumeric, Kind.isTemporal]

theorem promotable_ne_object (k k' : Kind) (hp : promotable k k' = true) : k' ≠ .object := by
  simp only [promotable, Bool.or_eq_true, Bool.and_eq_true, decide_eq_true_eq] at hp
  rcases hp with ((⟨_, rfl⟩ | ⟨_, rfl⟩) | ⟨_, rfl⟩) | ⟨_, rfl⟩ <;> simp

/-- the dtype worked out by `__setitem__` admits everything the old dtype admitted and every new value -/
theorem setTarget_spec (vs : List Tag) (d target : DType) (hobj : d.kind ≠ .object)
    (h : setTarget d vs = .ok target) :
    (∀ x, belongs d x = true → belongs target x = true) ∧ (∀ v ∈ vs, belongs target v = true) := by
  induction vs generalizing d with
  | nil => simp only [setTarget] at h; cases h; exact ⟨fun _ hx => hx, by simp⟩
  | cons v vs ih =>
    cases v with
    | none =>
      simp only [setTarget] at h
      obtain ⟨m, hv⟩ := ih ⟨d.kind, true⟩ hobj h
      refine ⟨fun x hx => m x (belongs_nullable_up d.kind d.nullable x hx), ?_⟩
      intro v hv'
      rcases List.mem_cons.mp hv' with rfl | hv'
      · exact m _ rfl
      · exact hv v hv'
    | ty k =>
      simp only [setTarget] at h
      split at h
      · rename_i hval
        obtain ⟨m, hv⟩ := ih _ hobj h
        refine ⟨m, ?_⟩
        intro v hv'
        rcases List.mem_cons.mp hv' with rfl | hv'
        · rw [validates_eq_belongs d _ hobj] at hval; exact m _ hval
        · exact hv v hv'
      · split at h
        · rename_i hp
          obtain ⟨m, hv⟩ := ih ⟨k, d.nullable⟩ (promotable_ne_object _ _ hp) h
          refine ⟨fun x hx => m x (belongs_promotable _ _ _ _ hp hx), ?_⟩
          intro v hv'
          rcases List.mem_cons.mp hv' with rfl | hv'
          · exact m _ (belongs_self _ _)
          · exact hv v hv'
        · cases h

theorem promoteVec_some (a b k : Kind) (h : promoteVec a b = some k) : k = b := by
  unfold promoteVec at h
  repeat' split at h
  all_goals first
    | (cases h; simp_all; done)
    | cases h

theorem mem_writeAll (ts : List Tag) (ups : List (Nat × Tag)) (x : Tag) (h : x ∈ writeAll ts ups) :
    x ∈ ts ∨ x ∈ ups.map (·.2) := by
  induction ups generalizing ts with
  | nil => exact Or.inl h
  | cons u us ih =>
    obtain ⟨i, v⟩ := u
    simp only [writeAll] at h
    rcases ih _ h with h | h
    · rcases List.mem_or_eq_of_mem_set h with h | rfl
      · exact Or.inl h
      · exact Or.inr (by simp)
    · exact Or.inr (by simp only [List.map_cons, List.mem_cons]; exact Or.inr h)

theorem setitem_truthful (ups : List (Nat × Tag)) (a r : AVec) (ha : a.truthful = true)
    (h : setitem ups a = .ok r) : r.truthful = true := by
  unfold setitem at h
  split at h
  · cases h
  split at h
  · cases h; exact ha
  split at h
  · -- no dtype
    rename_i hd
    cases h
    simp [AVec.truthful, truthful, hd]
  · rename_i d hd
    unfold AVec.truthful at ha
    rw [hd, truthful_some_iff] at ha
    split at h
    · -- object column: nothing is validated, a None makes it nullable
      rename_i hobj
      cases h
      simp only [AVec.truthful]
      rw [truthful_some_iff]
      intro x hx
      have hk : ∀ n, (if d.nullable = false ∧ (ups.map (·.2)).contains Tag.none = true
          then ({ d with nullable := true } : DType) else d) = n → n.kind = .object := by
        intro n hn; subst hn; split <;> simp [hobj]
      cases x with
      | ty v =>
        generalize hd' : (if d.nullable = false ∧ (ups.map (·.2)).contains Tag.none = true
          then ({ d with nullable := true } : DType) else d) = d'
        have := hk d' hd'
        obtain ⟨k', n'⟩ := d'
        simp only at this
        subst this
        exact belongs_object _ _
      | none =>
        simp only [belongs]
        rcases mem_writeAll _ _ _ hx with hx | hx
        · have := ha _ hx
          simp only [belongs] at this
          split <;> simp [this]
        · have hc : (ups.map (·.2)).contains Tag.none = true := by
            rw [List.contains_eq_mem]; simpa using hx
          split
          · rfl
          · rename_i hcond
            cases hn : d.nullable with
            | true => rfl
            | false => exact absurd ⟨hn, hc⟩ hcond
    · rename_i hobj
      split at h
      · cases h
      · rename_i target htar
        obtain ⟨mono, hnew⟩ := setTarget_spec _ _ _ hobj htar
        split at h
        · cases h
        · rename_i k' hp
          cases h
          have hk := promoteVec_some _ _ _ hp
          subst hk
          -- the final dtype is the target
          have hfin : (if target.nullable = true ∧ (⟨target.kind, d.nullable⟩ : DType).nullable = false
              then ({ (⟨target.kind, d.nullable⟩ : DType) with nullable := true } : DType)
              else ⟨target.kind, d.nullable⟩) = target := by
            obtain ⟨tk, tn⟩ := target
            cases tn <;> cases hdn : d.nullable <;> simp
            -- target not nullable although the old dtype was: impossible
            have := mono .none (by simpa [belongs] using hdn)
            simp [belongs] at this
          simp only [AVec.truthful]
          rw [hfin, truthful_some_iff]
          intro x hx
          rcases mem_writeAll _ _ _ hx with hx | hx
          · unfold promoteTags at hx
            split at hx
            · exact mono x (ha x hx)
            · simp only [convertTo, List.mem_map] at hx
              obtain ⟨y, hy, rfl⟩ := hx
              by_cases hyn : y = .none
              · simp only [hyn, if_true]; exact mono _ (hyn ▸ ha y hy)
              · simp only [hyn, if_false]
                obtain ⟨tk, tn⟩ := target
                exact belongs_self _ _
          · exact hnew x hx

end Serif.X

namespace Serif.X

/-! ### tables -/

theorem tab_truthful_iff (cs : List AVec) : (Obj.tab cs).truthful = true ↔ ∀ c ∈ cs, c.truthful = true := by
  simp [Obj.truthful, List.all_eq_true]

theorem tableOf_truthful (cs : List AVec) (o : Obj) (hc : ∀ c ∈ cs, c.truthful = true)
    (h : tableOf cs = .ok o) : o.truthful = true := by
  unfold tableOf at h
  split at h
  · cases h
    rw [tab_truthful_iff]
    intro c hc'
    simp only [List.mem_map] at hc'
    obtain ⟨c0, h0, rfl⟩ := hc'
    exact copy_truthful _ (hc c0 h0)
  · cases h

theorem vectorOfVecs_truthful (cs : List AVec) (o : Obj) (hc : ∀ c ∈ cs, c.truthful = true)
    (h : vectorOfVecs cs = .ok o) : o.truthful = true := by
  unfold vectorOfVecs at h
  split at h
  · cases h; exact mk_none_truthful _ _
  · split at h
    · exact tableOf_truthful _ _ hc h
    · cases h

theorem mapM'_forall {α β : Type} (f : α → Res β) (P : α → Prop) (Q : β → Prop)
    (hf : ∀ x y, P x → f x = .ok y → Q y) (xs : List α) (ys : List β)
    (hx : ∀ x ∈ xs, P x) (h : mapM' f xs = .ok ys) : ∀ y ∈ ys, Q y := by
  induction xs generalizing ys with
  | nil => simp only [mapM'] at h; cases h; simp
  | cons x xs ih =>
    simp only [mapM'] at h
    split at h
    · cases h
    · rename_i y hy
      split at h
      · cases h
      · rename_i ys' hys
        cases h
        intro z hz
        rcases List.mem_cons.mp hz with rfl | hz
        · exact hf x _ (hx x List.mem_cons_self) hy
        · exact ih ys' (fun x' h' => hx x' (List.mem_cons_of_mem _ h')) hys z hz

theorem mapIdxM_forall {α β : Type} (f : Nat → α → Res β) (P : α → Prop) (Q : β → Prop)
    (hf : ∀ i x y, P x → f i x = .ok y → Q y) (xs : List α) (i : Nat) (ys : List β)
    (hx : ∀ x ∈ xs, P x) (h : mapIdxM f i xs = .ok ys) : ∀ y ∈ ys, Q y := by
  induction xs generalizing ys i with
  | nil => simp only [mapIdxM] at h; cases h; simp
  | cons x xs ih =>
    simp only [mapIdxM] at h
    split at h
    · cases h
    · rename_i y hy
      split at h
      · cases h
      · rename_i ys' hys
        cases h
        intro z hz
        rcases List.mem_cons.mp hz with rfl | hz
        · exact hf i x _ (hx x List.mem_cons_self) hy
        · exact ih (i + 1) ys' (fun x' h' => hx x' (List.mem_cons_of_mem _ h')) hys z hz

theorem colsOrSelf_truthful (o : Obj) (h : o.truthful = true) : ∀ c ∈ o.colsOrSelf, c.truthful = true := by
  cases o with
  | vec v => simp [Obj.colsOrSelf]; exact h
  | tab cs => exact (tab_truthful_iff cs).mp h

theorem rshift_truthful (x y o : Obj) (hx : x.truthful = true) (hy : y.truthful = true)
    (h : rshift x y = .ok o) : o.truthful = true := by
  have hxs := colsOrSelf_truthful x hx
  have hys := colsOrSelf_truthful y hy
  unfold rshift at h
  split at h
  · -- vec, vec
    repeat' split at h
    all_goals first
      | (refine vectorOfVecs_truthful _ _ ?_ h
         intro c hc
         simp only [List.mem_cons, List.not_mem_nil, or_false] at hc
         rcases hc with rfl | rfl
         · exact hx
         · exact hy)
      | cases h
  · repeat' split at h
    all_goals first
      | (refine vectorOfVecs_truthful _ _ ?_ h
         intro c hc
         rcases List.mem_cons.mp hc with rfl | hc
         · exact hx
         · exact hys c hc)
      | cases h
  · refine vectorOfVecs_truthful _ _ ?_ h
    intro c hc
    rcases List.mem_append.mp hc with hc | hc
    · exact hxs c hc
    · exact hys c hc

theorem rshiftO_truthful (x o : Obj) (ot : Other) (hx : x.truthful = true)
    (h : rshiftO x ot = .ok o) : o.truthful = true := by
  have hxs := colsOrSelf_truthful x hx
  unfold rshiftO at h
  repeat' split at h
  all_goals first
    | (refine vectorOfVecs_truthful _ _ ?_ h
       intro c hc
       simp only [List.mem_cons, List.mem_append, List.not_mem_nil, or_false] at hc
       rcases hc with hc | rfl
       · first | exact hxs c hc | (subst hc; exact hx)
       · exact mk_none_truthful _ _)
    | cases h

theorem zipNames_truthful (ns : List String) (vs : List AVec) (hv : ∀ v ∈ vs, v.truthful = true) :
    ∀ c ∈ zipNames ns vs, c.truthful = true := by
  induction ns generalizing vs with
  | nil => simp [zipNames]
  | cons n ns ih =>
    cases vs with
    | nil => simp [zipNames]
    | cons v vs =>
      simp only [zipNames, List.mem_cons]
      rintro c (rfl | hc)
      · rw [truthful_name]; exact copy_truthful _ (hv v List.mem_cons_self)
      · exact ih vs (fun v' h' => hv v' (List.mem_cons_of_mem _ h')) c hc

theorem rshiftDict_truthful (ns : List String) (cs vs : List AVec) (o : Obj)
    (hc : ∀ c ∈ cs, c.truthful = true) (hv : ∀ v ∈ vs, v.truthful = true)
    (h : rshiftDict ns cs vs = .ok o) : o.truthful = true := by
  unfold rshiftDict at h
  repeat' split at h
  all_goals first
    | (refine tableOf_truthful _ _ ?_ h
       intro c hc'
       rcases List.mem_append.mp hc' with hc' | hc'
       · exact hc c hc'
       · exact zipNames_truthful _ _ hv c hc')
    | cases h

theorem zipLeaf_truthful (ns : List String) (cols : List (List Tag)) :
    ∀ c ∈ zipLeaf ns cols, c.truthful = true := by
  induction ns generalizing cols with
  | nil => simp [zipLeaf]
  | cons n ns ih =>
    cases cols with
    | nil => simp [zipLeaf]
    | cons c cs =>
      simp only [zipLeaf, List.mem_cons]
      rintro x (rfl | hx)
      · exact mk_none_truthful _ _
      · exact ih cs x hx

theorem zipCols_truthful (ns : List String) (cols : List (List Tag)) :
    ∀ c ∈ zipCols ns cols, c.truthful = true := by
  induction ns generalizing cols with
  | nil => simp [zipCols]
  | cons n ns ih =>
    cases cols with
    | nil => simp [zipCols]
    | cons c cs =>
      simp only [zipCols, List.mem_cons]
      rintro x (rfl | hx)
      · exact mk_none_truthful _ _
      · exact ih cs x hx

theorem tableDict_truthful (ns : List String) (cols : List (List Tag)) (o : Obj)
    (h : tableDict ns cols = .ok o) : o.truthful = true := by
  unfold tableDict at h
  split at h
  · cases h
  · exact tableOf_truthful _ _ (zipLeaf_truthful _ _) h

theorem rowSel_truthful (f : AVec → Res AVec) (hf : ∀ c r, c.truthful = true → f c = .ok r → r.truthful = true)
    (cs : List AVec) (o : Obj) (hc : ∀ c ∈ cs, c.truthful = true) (h : rowSel f cs = .ok o) :
    o.truthful = true := by
  unfold rowSel at h
  split at h
  · cases h
  · rename_i cs' hcs
    exact vectorOfVecs_truthful _ _
      (mapM'_forall f (fun c => c.truthful = true) (fun c => c.truthful = true) hf cs cs' hc hcs) h

theorem selCols_truthful (js : List Nat) (cs : List AVec) (o : Obj) (hc : ∀ c ∈ cs, c.truthful = true)
    (h : selCols js cs = .ok o) : o.truthful = true := by
  unfold selCols at h
  split at h
  · cases h
  · rename_i sel hsel
    exact tableOf_truthful _ _ (fun c hc' => hc c (gather_mem _ _ _ hsel c hc')) h

theorem selCol_truthful (j : Nat) (cs : List AVec) (o : Obj) (hc : ∀ c ∈ cs, c.truthful = true)
    (h : selCol j cs = .ok o) : o.truthful = true := by
  unfold selCol at h
  split at h
  · cases h
  · rename_i c hj
    cases h
    exact hc c (List.mem_of_getElem? hj)

end Serif.X

namespace Serif.X

theorem rowOf_truthful (i : Nat) (cs : List AVec) (o : Obj) (hc : ∀ c ∈ cs, c.truthful = true)
    (h : rowOf i cs = .ok o) : o.truthful = true := by
  unfold rowOf at h
  split at h
  · cases h
  · rename_i xs hxs
    cases h
    -- every collected (element, dtype) pair is truthful on its own
    have hp : ∀ p ∈ xs, belongs p.2 p.1 = true := by
      refine mapM'_forall _ (fun c => c.truthful = true) (fun p => belongs p.2 p.1 = true) ?_ cs xs hc hxs
      intro c p hct hcp
      split at hcp
      · rename_i x hx
        cases hcp
        unfold AVec.truthful at hct
        cases hd : c.dtype with
        | none =>
          simp only [Option.getD_none]
          cases x with
          | none => rfl
          | ty v => exact belongs_object _ _
        | some d =>
          rw [hd, truthful_some_iff] at hct
          exact hct x (List.mem_of_getElem? hx)
      · cases hcp
    show truthful _ (some _) = true
    rw [truthful_some_iff]
    intro t ht
    simp only [List.mem_map] at ht
    obtain ⟨p, hpm, rfl⟩ := ht
    have hb := hp p hpm
    cases xs with
    | nil => cases hpm
    | cons q rest =>
      obtain ⟨qx, qd⟩ := q
      dsimp only
      split
      · rename_i hall
        -- homogeneous kinds
        have hk : p.2.kind = qd.kind := by
          rcases List.mem_cons.mp hpm with rfl | hm
          · rfl
          · have := List.all_eq_true.mp hall p hm
            simpa using this
        obtain ⟨px, pd⟩ := p
        cases px with
        | none =>
          simp only [belongs] at hb ⊢
          simp only [List.any_eq_true]
          exact ⟨(.none, pd), hpm, hb⟩
        | ty v =>
          obtain ⟨pk, pn⟩ := pd
          simp only at hk
          subst hk
          rw [belongs_ty_nullable _ _ _ pn]; exact hb
      · cases hpx : p.1 with
        | none => rfl
        | ty v => exact belongs_object _ _

theorem tarithO_truthful (ρ : Oracle) (s : Nat) (op : AOp) (cs : List AVec) (ot : Other) (o : Obj)
    (h : tarithO ρ s op cs ot = .ok o) : o.truthful = true := by
  unfold tarithO at h
  split at h
  · cases h
  · rename_i rs hrs
    refine tableOf_truthful _ _ ?_ h
    refine mapIdxM_forall _ (fun _ => True) (fun r => r.truthful = true) ?_ cs 0 rs (fun _ _ => trivial) hrs
    intro j c r _ hr
    split at hr
    · rename_i r0 h0
      cases hr
      rw [truthful_name]; exact arithVO_truthful _ _ _ _ _ _ _ h0
    · cases hr

theorem tarithV_truthful (ρ : Oracle) (s : Nat) (op : AOp) (cs : List AVec) (b : AVec) (o : Obj)
    (h : tarithV ρ s op cs b = .ok o) : o.truthful = true := by
  unfold tarithV at h
  split at h
  · cases h
  · rename_i rs hrs
    refine tableOf_truthful _ _ ?_ h
    refine mapIdxM_forall _ (fun _ => True) (fun r => r.truthful = true) ?_ cs 0 rs (fun _ _ => trivial) hrs
    intro j c r _ hr
    split at hr
    · rename_i r0 h0
      cases hr
      rw [truthful_name]; exact arithVV_truthful _ _ _ _ _ _ _ h0
    · cases hr

theorem zipArith_truthful (ρ : Oracle) (s : Nat) (op : AOp) (j : Nat) (ls rs out : List AVec)
    (h : zipArith ρ s op j ls rs = .ok out) : ∀ c ∈ out, c.truthful = true := by
  induction ls generalizing rs j out with
  | nil => simp only [zipArith] at h; cases h; simp
  | cons l ls ih =>
    cases rs with
    | nil => simp only [zipArith] at h; cases h; simp
    | cons r rs =>
      simp only [zipArith] at h
      split at h
      · cases h
      · rename_i x hx
        split at h
        · cases h
        · rename_i xs hxs
          cases h
          intro c hc
          rcases List.mem_cons.mp hc with rfl | hc
          · rw [truthful_name]; exact arithVV_truthful _ _ _ _ _ _ _ hx
          · exact ih _ _ _ hxs c hc

theorem tarithT_truthful (ρ : Oracle) (s : Nat) (op : AOp) (ls rs : List AVec) (o : Obj)
    (h : tarithT ρ s op ls rs = .ok o) : o.truthful = true := by
  unfold tarithT at h
  split at h
  · cases h
  · split at h
    · cases h
    · rename_i cs hcs
      exact tableOf_truthful _ _ (zipArith_truthful _ _ _ _ _ _ _ hcs) h

theorem transposeT_truthful (cs : List AVec) (o : Obj) (h : transposeT cs = .ok o) : o.truthful = true := by
  unfold transposeT at h
  refine tableOf_truthful _ _ ?_ h
  intro c hc
  simp only [List.mem_map] at hc
  obtain ⟨_, _, rfl⟩ := hc
  exact mk_none_truthful _ _

theorem join_truthful (k : JoinKind) (pairs : List (Option Nat × Option Nat)) (ls rs : List AVec) (o : Obj)
    (h : join k pairs ls rs = .ok o) : o.truthful = true := by
  unfold join at h
  cases k <;> dsimp only at h <;> split at h
  all_goals first
    | (cases h; rfl)
    | (refine tableOf_truthful _ _ ?_ h
       intro c hc
       simp only [List.mem_append, List.mem_map] at hc
       rcases hc with ⟨_, _, rfl⟩ | ⟨_, _, rfl⟩ <;> exact mk_none_truthful _ _)

theorem aggregate_truthful (ρ : Oracle) (s : Nat) (w : Bool) (a : AggArgs) (rg : List Nat) (ng : Nat)
    (cs : List AVec) (o : Obj) (h : aggregate ρ s w a rg ng cs = .ok o) : o.truthful = true := by
  unfold aggregate at h
  split at h
  · cases h
  · dsimp only at h
    split at h
    · cases h
    · exact tableOf_truthful _ _ (zipCols_truthful _ _) h

theorem sortT_truthful (p : List Nat) (cs : List AVec) (o : Obj) (h : sortT p cs = .ok o) :
    o.truthful = true := by
  unfold sortT at h
  split at h
  · refine tableOf_truthful _ _ ?_ h
    intro c hc
    simp only [List.mem_map] at hc
    obtain ⟨_, _, rfl⟩ := hc
    exact mk_none_truthful _ _
  · split at h
    · cases h
    · rename_i cs' hcs
      refine tableOf_truthful _ _ ?_ h
      refine mapM'_forall _ (fun _ => True) (fun r => r.truthful = true) ?_ cs cs' (fun _ _ => trivial) hcs
      intro c r _ hr
      split at hr
      · cases hr; exact mk_none_truthful _ _
      · cases hr

theorem tabSet_truthful (j : Nat) (ups : List (Nat × Tag)) (cs : List AVec) (o : Obj)
    (hc : ∀ c ∈ cs, c.truthful = true)
    (h : tabSet j ups cs = .ok o) : o.truthful = true := by
  unfold tabSet at h
  split at h
  · cases h
  · rename_i c hj
    split at h
    · cases h
    · rename_i c' hc'
      cases h
      rw [tab_truthful_iff]
      intro x hx
      rcases List.mem_or_eq_of_mem_set hx with hx | rfl
      · exact hc x hx
      · exact setitem_truthful _ _ _ (hc c (List.mem_of_getElem? hj)) hc'

theorem csv_truthful (hdr : Option (List String)) (rows : List (List Tag)) (o : Obj)
    (h : csv hdr rows = .ok o) : o.truthful = true := by
  unfold csv at h
  dsimp only at h
  split at h
  · cases h; rfl
  · split at h
    · refine tableOf_truthful _ _ ?_ h
      intro c hc
      simp only [List.mem_map] at hc
      obtain ⟨_, _, rfl⟩ := hc
      exact mk_none_truthful _ _
    · refine tableOf_truthful _ _ ?_ h
      intro c hc
      simp only [List.mem_map] at hc
      obtain ⟨_, _, rfl⟩ := hc
      exact mk_none_truthful _ _

end Serif.X

namespace Serif.X

/-! ### one step, and whole programs -/

theorem wrap_ok (r : Res AVec) (o : Obj) (h : wrap r = .ok o) : ∃ v, r = .ok v ∧ o = .vec v := by
  unfold wrap at h
  split at h
  · cases h; exact ⟨_, rfl, rfl⟩
  · cases h

theorem vecs_truthful (os : List Obj) (vs : List AVec) (h : vecs os = some vs)
    (ho : ∀ o ∈ os, o.truthful = true) : ∀ v ∈ vs, v.truthful = true := by
  induction os generalizing vs with
  | nil => simp only [vecs] at h; cases h; simp
  | cons o os ih =>
    cases o with
    | tab cs => simp [vecs] at h
    | vec v =>
      simp only [vecs, Option.map_eq_some_iff] at h
      obtain ⟨vs', hvs, rfl⟩ := h
      intro x hx
      rcases List.mem_cons.mp hx with rfl | hx
      · exact ho (.vec x) List.mem_cons_self
      · exact ih vs' hvs (fun o' h' => ho o' (List.mem_cons_of_mem _ h')) x hx

/-- every operation returns a truthful object when its operands are truthful
    (for constructors that return instances of their class) -/
theorem step_truthful (ρ : Oracle) (hρ : CastSound ρ) (op : Op) (args : List Obj) (o : Obj)
    (hargs : ∀ a ∈ args, a.truthful = true)
    (h : step ρ op args = .ok o) : o.truthful = true := by
  unfold step at h
  split at h
  · cases h; exact mk_none_truthful _ _                                       -- leaf
  · exact tableDict_truthful _ _ _ h                                          -- dict
  · exact csv_truthful _ _ _ h                                                -- csv
  · obtain ⟨v, hv, rfl⟩ := wrap_ok _ _ h; exact arithVV_truthful _ _ _ _ _ _ _ hv
  · obtain ⟨v, hv, rfl⟩ := wrap_ok _ _ h; exact arithVO_truthful _ _ _ _ _ _ _ hv
  · obtain ⟨v, hv, rfl⟩ := wrap_ok _ _ h; exact cmpVV_truthful _ _ _ _ _ hv
  · obtain ⟨v, hv, rfl⟩ := wrap_ok _ _ h; exact cmpVO_truthful _ _ _ _ _ hv
  · obtain ⟨v, hv, rfl⟩ := wrap_ok _ _ h; exact unary_truthful _ _ _ _ hv
  · obtain ⟨v, hv, rfl⟩ := wrap_ok _ _ h; exact cast_truthful _ hρ _ _ _ _ hv   -- cast
  · obtain ⟨v, hv, rfl⟩ := wrap_ok _ _ h
    exact fillna_truthful _ _ _ (hargs _ List.mem_cons_self) hv
  · obtain ⟨v, hv, rfl⟩ := wrap_ok _ _ h
    exact dropna_truthful _ _ (hargs _ List.mem_cons_self) hv
  · cases h; exact isna_truthful _
  · cases h; exact toObject_truthful _                                          -- to_object
  · cases h; exact copy_truthful _ (hargs _ List.mem_cons_self)
  · obtain ⟨v, hv, rfl⟩ := wrap_ok _ _ h
    exact sortV_truthful _ _ _ (hargs _ List.mem_cons_self) hv
  · obtain ⟨v, hv, rfl⟩ := wrap_ok _ _ h
    exact getIdx_truthful _ _ _ (hargs _ List.mem_cons_self) hv
  · obtain ⟨v, hv, rfl⟩ := wrap_ok _ _ h
    exact getMask_truthful _ _ _ (hargs _ List.mem_cons_self) hv
  · obtain ⟨v, hv, rfl⟩ := wrap_ok _ _ h
    exact getV_truthful _ _ _ _ _ (hargs _ List.mem_cons_self) hv
  · obtain ⟨v, hv, rfl⟩ := wrap_ok _ _ h                                      -- setitem
    exact setitem_truthful _ _ _ (hargs _ List.mem_cons_self) hv
  · obtain ⟨v, hv, rfl⟩ := wrap_ok _ _ h; exact lshiftVV_truthful _ _ _ hv
  · obtain ⟨v, hv, rfl⟩ := wrap_ok _ _ h; exact lshiftVO_truthful _ _ _ hv
  · exact rshift_truthful _ _ _ (hargs _ List.mem_cons_self)
      (hargs _ (List.mem_cons_of_mem _ List.mem_cons_self)) h
  · exact rshiftO_truthful _ _ _ (hargs _ List.mem_cons_self) h
  · split at h                                                                 -- rshiftDict
    · rename_i vs' hvs
      exact rshiftDict_truthful _ _ _ _ ((tab_truthful_iff _).mp (hargs _ List.mem_cons_self))
        (vecs_truthful _ _ hvs (fun o' h' => hargs o' (List.mem_cons_of_mem _ h'))) h
    · cases h
  · split at h                                                                 -- table
    · rename_i vs' hvs
      exact tableOf_truthful _ _ (vecs_truthful _ _ hvs hargs) h
    · cases h
  · exact selCol_truthful _ _ _ ((tab_truthful_iff _).mp (hargs _ List.mem_cons_self)) h
  · exact selCols_truthful _ _ _ ((tab_truthful_iff _).mp (hargs _ List.mem_cons_self)) h
  · exact rowOf_truthful _ _ _ ((tab_truthful_iff _).mp (hargs _ List.mem_cons_self)) h
  · exact rowSel_truthful _ (fun c r hc hr => getIdx_truthful _ _ _ hc hr) _ _
      ((tab_truthful_iff _).mp (hargs _ List.mem_cons_self)) h
  · exact rowSel_truthful _ (fun c r hc hr => getMask_truthful _ _ _ hc hr) _ _
      ((tab_truthful_iff _).mp (hargs _ List.mem_cons_self)) h
  · exact rowSel_truthful _ (fun c r hc hr => getV_truthful _ _ _ _ _ hc hr) _ _
      ((tab_truthful_iff _).mp (hargs _ List.mem_cons_self)) h
  · exact tarithT_truthful _ _ _ _ _ _ h
  · exact tarithV_truthful _ _ _ _ _ _ h
  · exact tarithO_truthful _ _ _ _ _ _ h
  · exact transposeT_truthful _ _ h
  · exact join_truthful _ _ _ _ _ h
  · exact aggregate_truthful _ _ _ _ _ _ _ _ h
  · exact sortT_truthful _ _ _ h
  · exact tabSet_truthful _ _ _ _ ((tab_truthful_iff _).mp (hargs _ List.mem_cons_self)) h
  · cases h

theorem closed_aux (ρ : Oracle) (hρ : CastSound ρ) :
    (∀ e o, eval ρ e = .ok o → o.truthful = true) ∧
    (∀ es os, evalArgs ρ es = .ok os → ∀ o ∈ os, o.truthful = true) := by
  have node : ∀ op args, (∀ os, evalArgs ρ args = .ok os → ∀ o ∈ os, o.truthful = true) →
      ∀ o, eval ρ (.node op args) = .ok o → o.truthful = true := by
    intro op args ih o he
    simp only [eval] at he
    split at he
    · rename_i os hos
      exact step_truthful ρ hρ op os o (ih os hos) he
    · cases he
  have nil : ∀ os, evalArgs ρ .nil = .ok os → ∀ o ∈ os, o.truthful = true := by
    intro os he
    simp only [evalArgs] at he
    cases he
    simp
  have cons : ∀ e es, (∀ o, eval ρ e = .ok o → o.truthful = true) →
      (∀ os, evalArgs ρ es = .ok os → ∀ o ∈ os, o.truthful = true) →
      ∀ os, evalArgs ρ (.cons e es) = .ok os → ∀ o ∈ os, o.truthful = true := by
    intro e es ihe ihes os he
    simp only [evalArgs] at he
    split at he
    · cases he
    · rename_i o ho
      split at he
      · cases he
      · rename_i os' hos
        cases he
        intro x hx
        rcases List.mem_cons.mp hx with rfl | hx
        · exact ihe _ ho
        · exact ihes os' hos x hx
  refine ⟨fun e => ?_, fun es => ?_⟩
  · exact Expr.rec (motive_1 := fun e => ∀ o, eval ρ e = .ok o → o.truthful = true)
      (motive_2 := fun es => ∀ os, evalArgs ρ es = .ok os → ∀ o ∈ os, o.truthful = true) node nil cons e
  · exact Args.rec (motive_1 := fun e => ∀ o, eval ρ e = .ok o → o.truthful = true)
      (motive_2 := fun es => ∀ os, evalArgs ρ es = .ok os → ∀ o ∈ os, o.truthful = true) node nil cons es

end Serif.X

namespace Serif.X

/-- writing an element back into its own position is accepted and changes nothing -/
theorem setitem_writeback (a : AVec) (ha : a.truthful = true) (i : Nat) (hi : i < a.tags.length) :
    setitem [(i, a.tags[i])] a = .ok a := by
  have hset : writeAll a.tags [(i, a.tags[i])] = a.tags := by simp [writeAll]
  have hany : ([(i, a.tags[i])] : List (Nat × Tag)).any (fun u => decide (a.tags.length ≤ u.1)) = false := by
    simp; omega
  unfold setitem
  rw [hany]
  simp only [Bool.false_eq_true, if_false, List.isEmpty_cons]
  cases hd : a.dtype with
  | none =>
    simp only [hset]
    congr 1
    obtain ⟨t, dt, n⟩ := a
    simp_all
  | some d =>
    simp only
    by_cases hobj : d.kind = .object
    · rw [if_pos hobj]
      simp only [hset, List.map_cons, List.map_nil]
      unfold AVec.truthful at ha
      rw [hd, truthful_some_iff] at ha
      have hb := ha _ (List.getElem_mem hi)
      have hd' : (if d.nullable = false ∧ [a.tags[i]].contains Tag.none = true
          then ({ d with nullable := true } : DType) else d) = d := by
        split
        · rename_i hc
          obtain ⟨hn, hc⟩ := hc
          have hx : a.tags[i] = .none := by
            have := hc
            simp at this
            first | exact this | exact this.symm
          rw [hx] at hb
          simp only [belongs] at hb
          rw [hb] at hn; cases hn
        · rfl
      rw [hd']
      congr 1
      obtain ⟨t, dt, n⟩ := a
      simp_all
    · simp only [hobj, if_false, List.map_cons, List.map_nil]
      unfold AVec.truthful at ha
      rw [hd, truthful_some_iff] at ha
      have hb := ha _ (List.getElem_mem hi)
      have htar : setTarget d [a.tags[i]] = .ok d := by
        cases hx : a.tags[i] with
        | none =>
          rw [hx] at hb
          simp only [belongs] at hb
          simp only [setTarget]
          congr 1
          cases d; simp_all
        | ty k =>
          rw [hx] at hb
          rw [← validates_eq_belongs d _ hobj] at hb
          simp [setTarget, hb]
      rw [htar]
      simp only [promoteVec, if_true, promoteTags, hset]
      congr 1
      obtain ⟨tags, dtype, name⟩ := a
      simp only at hd
      subst hd
      cases d with
      | mk k n => cases n <;> simp

end Serif.X


