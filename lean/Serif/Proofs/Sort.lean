/- Helper lemmas for C14: stable insertion sort, iterated sorts, lexicographic order, uniqueness. -/
import Serif.Model.Sort

namespace Serif.Sort

section generic
variable {α : Type}

/-! ### `ins` / `isort`: permutation, sortedness -/

theorem isort_cons (le : α → α → Bool) (x : α) (xs : List α) :
    isort le (x :: xs) = ins le x (isort le xs) := rfl

theorem isort_nil (le : α → α → Bool) : isort le ([] : List α) = [] := rfl

theorem ins_perm (le : α → α → Bool) (x : α) (l : List α) : (ins le x l).Perm (x :: l) := by
  induction l with
  | nil => simp [ins]
  | cons y ys ih =>
    simp only [ins]; split
    · exact List.Perm.refl _
    · exact (List.Perm.cons y ih).trans (List.Perm.swap x y ys)

theorem isort_perm (le : α → α → Bool) (l : List α) : (isort le l).Perm l := by
  induction l with
  | nil => simp [isort]
  | cons x xs ih => exact (ins_perm le x _).trans (List.Perm.cons x ih)

theorem TotalPreorder.refl {le : α → α → Bool} (h : TotalPreorder le) (a : α) : le a a = true := by
  rcases h.total a a with h | h <;> exact h

theorem ins_sorted {le : α → α → Bool} (h : TotalPreorder le) (x : α) (l : List α)
    (hl : l.Pairwise (fun a b => le a b = true)) :
    (ins le x l).Pairwise (fun a b => le a b = true) := by
  induction l with
  | nil => simp [ins]
  | cons y ys ih =>
    simp only [ins]; split
    · rename_i hxy
      refine List.Pairwise.cons ?_ hl
      intro z hz
      rcases List.mem_cons.mp hz with rfl | hz
      · exact hxy
      · exact h.trans _ _ _ hxy ((List.pairwise_cons.mp hl).1 z hz)
    · rename_i hxy
      have hyx : le y x = true := by
        rcases h.total x y with h1 | h1
        · exact absurd h1 hxy
        · exact h1
      have ⟨hy, hys⟩ := List.pairwise_cons.mp hl
      refine List.Pairwise.cons ?_ (ih hys)
      intro z hz
      have : z ∈ x :: ys := (ins_perm le x ys).mem_iff.mp hz
      rcases List.mem_cons.mp this with rfl | hz
      · exact hyx
      · exact hy z hz

theorem isort_sorted {le : α → α → Bool} (h : TotalPreorder le) (l : List α) :
    (isort le l).Pairwise (fun a b => le a b = true) := by
  induction l with
  | nil => simp [isort]
  | cons x xs ih => exact ins_sorted h x _ ih

/-- an already sorted list is left alone -/
theorem isort_of_sorted {le : α → α → Bool} (l : List α) (hl : l.Pairwise (fun a b => le a b = true)) :
    isort le l = l := by
  induction l with
  | nil => rfl
  | cons x xs ih =>
    have ⟨hx, hxs⟩ := List.pairwise_cons.mp hl
    rw [isort_cons, ih hxs]
    cases xs with
    | nil => rfl
    | cons y ys => simp [ins, hx y List.mem_cons_self]

/-! ### stability: a class of tied elements passes through `isort` untouched -/

theorem eqv_trans_false {le : α → α → Bool} (h : TotalPreorder le) {a x y : α}
    (hx : eqv le a x = true) (hy : eqv le a y = true) : le x y = true := by
  simp only [eqv, Bool.and_eq_true] at hx hy
  exact h.trans _ _ _ hx.2 hy.1

theorem filter_ins_eqv {le : α → α → Bool} (h : TotalPreorder le) (a x : α) (m : List α) :
    (ins le x m).filter (eqv le a) = (x :: m).filter (eqv le a) := by
  induction m with
  | nil => rfl
  | cons y ys ih =>
    simp only [ins]; split
    · rfl
    · rename_i hxy
      rw [List.filter_cons, ih]
      by_cases hy : eqv le a y = true
      · have hx : eqv le a x = false := by
          cases hx : eqv le a x with
          | false => rfl
          | true => exact absurd (eqv_trans_false h hx hy) hxy
        simp [hx, hy]
      · simp [List.filter_cons, hy]

theorem filter_isort_eqv {le : α → α → Bool} (h : TotalPreorder le) (a : α) (l : List α) :
    (isort le l).filter (eqv le a) = l.filter (eqv le a) := by
  induction l with
  | nil => rfl
  | cons x xs ih =>
    rw [isort_cons, filter_ins_eqv h, List.filter_cons, List.filter_cons, ih]

/-! ### iterated sorts -/

theorem sortKeys_nil (l : List α) : sortKeys ([] : List (α → α → Bool)) l = l := rfl

theorem sortKeys_cons (le : α → α → Bool) (rest : List (α → α → Bool)) (l : List α) :
    sortKeys (le :: rest) l = isort le (sortKeys rest l) := by
  simp [sortKeys, List.foldl_append]

theorem sortKeys_perm (les : List (α → α → Bool)) (l : List α) : (sortKeys les l).Perm l := by
  induction les with
  | nil => exact List.Perm.refl _
  | cons le rest ih => rw [sortKeys_cons]; exact (isort_perm le _).trans ih

/-! ### the lexicographic order -/

theorem lexLE_totalPreorder {les : List (α → α → Bool)} (h : ∀ le ∈ les, TotalPreorder le) :
    TotalPreorder (lexLE les) := by
  induction les with
  | nil => exact ⟨fun _ _ => Or.inl rfl, fun _ _ _ _ _ => rfl⟩
  | cons le rest ih =>
    have hle := h le List.mem_cons_self
    have hr := ih (fun l hl => h l (List.mem_cons_of_mem _ hl))
    constructor
    · intro a b
      simp only [lexLE]
      rcases hle.total a b with h1 | h1 <;> rcases hr.total a b with h2 | h2 <;>
        cases h3 : le a b <;> cases h4 : le b a <;> simp_all
    · intro a b c hab hbc
      simp only [lexLE, Bool.and_eq_true, Bool.or_eq_true, Bool.not_eq_true'] at hab hbc ⊢
      refine ⟨hle.trans _ _ _ hab.1 hbc.1, ?_⟩
      cases hca : le c a with
      | false => exact Or.inl rfl
      | true =>
        right
        have hcb : le c b = true := hle.trans _ _ _ hca hab.1
        have hba : le b a = true := hle.trans _ _ _ hbc.1 hca
        have h1 : lexLE rest a b = true := by
          rcases hab.2 with h | h
          · rw [hba] at h; cases h
          · exact h
        have h2 : lexLE rest b c = true := by
          rcases hbc.2 with h | h
          · rw [hcb] at h; cases h
          · exact h
        exact hr.trans _ _ _ h1 h2

theorem eqv_lexLE (les : List (α → α → Bool)) (a b : α) :
    eqv (lexLE les) a b = allTied les a b := by
  induction les with
  | nil => rfl
  | cons le rest ih =>
    simp only [allTied, ← ih]
    simp only [eqv, lexLE]
    cases le a b <;> cases le b a <;> simp

theorem allTied_refl {les : List (α → α → Bool)} (h : ∀ le ∈ les, TotalPreorder le) (a : α) :
    allTied les a a = true := by
  rw [← eqv_lexLE]
  simp [eqv, (lexLE_totalPreorder h).refl a]

/-- stability of the whole loop: the elements tied with `a` on every key come out in input order -/
theorem filter_sortKeys_allTied {les : List (α → α → Bool)} (h : ∀ le ∈ les, TotalPreorder le)
    (a : α) (l : List α) :
    (sortKeys les l).filter (allTied les a) = l.filter (allTied les a) := by
  induction les with
  | nil => rfl
  | cons le rest ih =>
    have hle := h le List.mem_cons_self
    have hr := ih (fun l hl => h l (List.mem_cons_of_mem _ hl))
    rw [sortKeys_cons]
    have e : allTied (le :: rest) a = fun x => allTied rest a x && eqv le a x := by
      funext x; simp [allTied, Bool.and_comm]
    rw [e, ← List.filter_filter, filter_isort_eqv hle, List.filter_filter]
    have e2 : (fun x => allTied rest a x && eqv le a x) = fun x => eqv le a x && allTied rest a x := by
      funext x; exact Bool.and_comm _ _
    rw [e2, ← List.filter_filter, hr, List.filter_filter]

theorem pair_sublist_filter {p : α → Bool} {a b : α} {l : List α} (h : [a, b].Sublist l)
    (ha : p a = true) (hb : p b = true) : [a, b].Sublist (l.filter p) := by
  have := h.filter p
  simpa [List.filter_cons, ha, hb] using this

/-- iterated stable sorts from the last key to the first realise the lexicographic order -/
theorem sortKeys_sorted {les : List (α → α → Bool)} (h : ∀ le ∈ les, TotalPreorder le) (l : List α) :
    (sortKeys les l).Pairwise (fun a b => lexLE les a b = true) := by
  induction les with
  | nil => rw [List.pairwise_iff_forall_sublist]; intros; rfl
  | cons le rest ih =>
    have hle := h le List.mem_cons_self
    have hr := ih (fun l hl => h l (List.mem_cons_of_mem _ hl))
    rw [sortKeys_cons, List.pairwise_iff_forall_sublist]
    intro a b hab
    have h1 : le a b = true :=
      (List.pairwise_iff_forall_sublist.mp (isort_sorted hle (sortKeys rest l))) hab
    simp only [lexLE, Bool.and_eq_true, Bool.or_eq_true, Bool.not_eq_true']
    refine ⟨h1, ?_⟩
    cases h2 : le b a with
    | false => exact Or.inl rfl
    | true =>
      right
      have ea : eqv le a a = true := by simp [eqv, hle.refl a]
      have eb : eqv le a b = true := by simp [eqv, h1, h2]
      have s1 := pair_sublist_filter hab ea eb
      rw [filter_isort_eqv hle] at s1
      exact (List.pairwise_iff_forall_sublist.mp hr) (s1.trans List.filter_sublist)

/-! ### uniqueness: the contract determines the result -/

theorem unique_stable_sorted {le : α → α → Bool} (h : TotalPreorder le) :
    ∀ (r₁ r₂ : List α), r₁.Perm r₂ →
      r₁.Pairwise (fun a b => le a b = true) → r₂.Pairwise (fun a b => le a b = true) →
      (∀ a ∈ r₁, r₁.filter (eqv le a) = r₂.filter (eqv le a)) → r₁ = r₂ := by
  intro r₁
  induction r₁ with
  | nil => intro r₂ hp _ _ _; exact (List.nil_perm.mp hp).symm
  | cons x xs ih =>
    intro r₂ hp h1 h2 hf
    cases r₂ with
    | nil => exact absurd hp.symm (by simp)
    | cons y ys =>
      have ⟨hx, hxs⟩ := List.pairwise_cons.mp h1
      have ⟨hy, hys⟩ := List.pairwise_cons.mp h2
      -- x and y are both minimal, hence tied
      have hxy : le x y = true := by
        have : y ∈ x :: xs := hp.mem_iff.mpr List.mem_cons_self
        rcases List.mem_cons.mp this with rfl | hm
        · exact h.refl _
        · exact hx y hm
      have hyx : le y x = true := by
        have : x ∈ y :: ys := hp.mem_iff.mp List.mem_cons_self
        rcases List.mem_cons.mp this with rfl | hm
        · exact h.refl _
        · exact hy x hm
      have e := hf x List.mem_cons_self
      have exx : eqv le x x = true := by simp [eqv, h.refl x]
      have exy : eqv le x y = true := by simp [eqv, hxy, hyx]
      simp only [List.filter_cons, exx, exy, if_true] at e
      have hxy' : x = y := (List.cons.inj e).1
      subst hxy'
      have hp' : xs.Perm ys := List.Perm.cons_inv hp
      congr 1
      apply ih ys hp' hxs hys
      intro a ha
      have e := hf a (List.mem_cons_of_mem _ ha)
      simp only [List.filter_cons] at e
      split at e
      · exact (List.cons.inj e).2
      · exact e

theorem sortKeys_unique {les : List (α → α → Bool)} (h : ∀ le ∈ les, TotalPreorder le) (l p : List α)
    (hp : p.Perm l) (hs : p.Pairwise (fun a b => lexLE les a b = true))
    (hf : ∀ a ∈ l, p.filter (allTied les a) = l.filter (allTied les a)) :
    p = sortKeys les l := by
  have hL := lexLE_totalPreorder h
  apply unique_stable_sorted hL p (sortKeys les l) (hp.trans (sortKeys_perm les l).symm) hs
    (sortKeys_sorted h l)
  intro a ha
  have e : eqv (lexLE les) a = allTied les a := by funext b; exact eqv_lexLE les a b
  rw [e, filter_sortKeys_allTied h]
  exact hf a (hp.mem_iff.mp ha)

/-- the loop over the keys is one stable sort by the lexicographic order -/
theorem sortKeys_eq_isort_lexLE {les : List (α → α → Bool)} (h : ∀ le ∈ les, TotalPreorder le) (l : List α) :
    sortKeys les l = isort (lexLE les) l := by
  have hL := lexLE_totalPreorder h
  symm
  apply sortKeys_unique h l _ (isort_perm _ l) (isort_sorted hL l)
  intro a _
  have e : allTied les a = eqv (lexLE les) a := by funext b; exact (eqv_lexLE les a b).symm
  rw [e, filter_isort_eqv hL]

theorem sortKeys_idem {les : List (α → α → Bool)} (h : ∀ le ∈ les, TotalPreorder le) (l : List α) :
    sortKeys les (sortKeys les l) = sortKeys les l := by
  rw [sortKeys_eq_isort_lexLE h (sortKeys les l)]
  exact isort_of_sorted _ (sortKeys_sorted h l)

/-! ### the executable checks mean what they say -/

theorem pairwiseB_iff (r : α → α → Bool) (l : List α) :
    pairwiseB r l = true ↔ l.Pairwise (fun a b => r a b = true) := by
  induction l with
  | nil => simp [pairwiseB]
  | cons x xs ih => simp [pairwiseB, ih, List.all_eq_true]

theorem checkSorted_iff [BEq α] [LawfulBEq α] (les : List (α → α → Bool)) (l p : List α) :
    checkSorted les l p = true ↔
      p.Perm l ∧ p.Pairwise (fun a b => lexLE les a b = true) ∧
      ∀ a ∈ l, p.filter (allTied les a) = l.filter (allTied les a) := by
  simp [checkSorted, pairwiseB_iff, List.isPerm_iff, List.all_eq_true, and_assoc]

/-- relations that agree pointwise give the same sort -/
theorem sortKeys_congr {les les' : List (α → α → Bool)} (h : les = les') (l : List α) :
    sortKeys les l = sortKeys les' l := by rw [h]

end generic

/-! ### the key order of one column -/

theorem specLE_totalPreorder (rev naLast : Bool) : TotalPreorder (specLE rev naLast) := by
  constructor
  · intro a b
    cases a <;> cases b <;> cases rev <;> cases naLast <;> simp [specLE] <;> omega
  · intro a b c
    cases a <;> cases b <;> cases c <;> cases rev <;> cases naLast <;> simp [specLE] <;> omega

/-- a relation on cells pulled back along a cell function is a total preorder again -/
theorem TotalPreorder.comap {α β : Type} {le : β → β → Bool} (h : TotalPreorder le) (f : α → β) :
    TotalPreorder (fun a b => le (f a) (f b)) :=
  ⟨fun _ _ => h.total _ _, fun _ _ _ => h.trans _ _ _⟩

theorem specRowLE_totalPreorder (naLast : Bool) (kr : List Cell × Bool) :
    TotalPreorder (specRowLE naLast kr) :=
  (specLE_totalPreorder kr.2 naLast).comap (cellAt kr.1)

theorem specElemLE_totalPreorder (rev naLast : Bool) : TotalPreorder (specElemLE rev naLast) :=
  (specLE_totalPreorder rev naLast).comap (fun e : Elem => e.1)

/-- A flag that puts None where `naLast != rev` says makes Python's tuple order the specified one. -/
theorem pyLE_eq_specLE (flag : Bool → Bool) (rev naLast : Bool)
    (hn : flag true = (naLast != rev)) (hv : flag false = (naLast == rev)) (a b : Cell) :
    pyLE flag rev a b = specLE rev naLast a b := by
  cases a <;> cases b <;> cases rev <;> cases naLast <;>
    simp [pyLE, keyLt, valLt, specLE, hn, hv] <;>
    (rename_i x y; by_cases h : x ≤ y <;> by_cases h' : y ≤ x <;> simp [h, h'] <;> omega)

theorem flagOK_spec {tbl : Bool → Bool → Bool → Bool} (h : flagOK tbl = true) (rev naLast : Bool) :
    tbl true rev naLast = (naLast != rev) ∧ tbl false rev naLast = (naLast == rev) := by
  simp only [flagOK, List.all_cons, List.all_nil, Bool.and_true, Bool.and_eq_true, beq_iff_eq] at h
  cases rev <;> cases naLast <;> simp_all

theorem pyLE_table_eq_specLE {tbl : Bool → Bool → Bool → Bool} (h : flagOK tbl = true) (rev naLast : Bool)
    (a b : Cell) : pyLE (fun n => tbl n rev naLast) rev a b = specLE rev naLast a b :=
  pyLE_eq_specLE _ rev naLast (flagOK_spec h rev naLast).1 (flagOK_spec h rev naLast).2 a b

/-! ### table level -/

theorem rowLE_eq_spec {tbl : Bool → Bool → Bool → Bool} (h : flagOK tbl = true) (naLast : Bool)
    (kr : List Cell × Bool) : rowLE tbl naLast kr = specRowLE naLast kr := by
  funext i j; exact pyLE_table_eq_specLE h kr.2 naLast _ _

theorem sortIndices_eq_spec {tbl : Bool → Bool → Bool → Bool} (h : flagOK tbl = true) (naLast : Bool)
    (keys : List (List Cell × Bool)) (n : Nat) :
    sortIndices tbl naLast keys n = sortKeys (keys.map (specRowLE naLast)) (List.range n) := by
  unfold sortIndices
  congr 1
  exact List.map_congr_left (fun kr _ => rowLE_eq_spec h naLast kr)

theorem specRows_totalPreorder (naLast : Bool) (keys : List (List Cell × Bool)) :
    ∀ le ∈ keys.map (specRowLE naLast), TotalPreorder le := by
  intro le hle
  rcases List.mem_map.mp hle with ⟨kr, _, rfl⟩
  exact specRowLE_totalPreorder naLast kr

theorem elemLE_eq_spec {tbl : Bool → Bool → Bool → Bool} (h : flagOK tbl = true) (rev naLast : Bool) :
    elemLE tbl rev naLast = specElemLE rev naLast := by
  funext a b; exact pyLE_table_eq_specLE h rev naLast _ _

theorem sortByVector_eq_spec {tbl : Bool → Bool → Bool → Bool} (h : flagOK tbl = true) (rev naLast : Bool)
    (data : List Elem) : sortByVector tbl rev naLast data = sortKeys [specElemLE rev naLast] data := by
  rw [sortKeys_cons, sortKeys_nil, sortByVector, elemLE_eq_spec h]

theorem specElems_totalPreorder (rev naLast : Bool) :
    ∀ le ∈ [specElemLE rev naLast], TotalPreorder le := by
  intro le hle
  rw [List.mem_singleton.mp hle]
  exact specElemLE_totalPreorder rev naLast

theorem pair_sublist_range {i j n : Nat} (hij : i < j) (hj : j < n) : [i, j].Sublist (List.range n) := by
  induction n with
  | zero => omega
  | succ n ih =>
    rw [List.range_succ]
    by_cases h : j < n
    · exact (ih h).trans (List.sublist_append_left _ _)
    · have : j = n := by omega
      subst this
      have h1 : [i].Sublist (List.range j) := List.singleton_sublist.mpr (List.mem_range.mpr hij)
      exact h1.append (List.Sublist.refl [j])

theorem gather_range {β : Type} (d : β) (src : List β) : gather d src (List.range src.length) = src := by
  apply List.ext_getElem
  · simp [gather]
  · intro i h1 h2
    simp [gather, h2]

/-! ### sorting commutes with renaming the elements (used for idempotence at table level) -/

theorem ins_map {α β : Type} (f : β → α) (le : α → α → Bool) (x : β) (l : List β) :
    (ins (fun a b => le (f a) (f b)) x l).map f = ins le (f x) (l.map f) := by
  induction l with
  | nil => rfl
  | cons y ys ih =>
    simp only [ins, List.map_cons]
    split <;> simp [ih]

theorem isort_map {α β : Type} (f : β → α) (le : α → α → Bool) (l : List β) :
    (isort (fun a b => le (f a) (f b)) l).map f = isort le (l.map f) := by
  induction l with
  | nil => rfl
  | cons x xs ih => rw [isort_cons, ins_map, ih, List.map_cons, isort_cons]

theorem sortKeys_map {α β : Type} (f : β → α) (les : List (α → α → Bool)) (l : List β) :
    (sortKeys (les.map (fun le a b => le (f a) (f b))) l).map f = sortKeys les (l.map f) := by
  induction les with
  | nil => rfl
  | cons le rest ih => rw [List.map_cons, sortKeys_cons, isort_map, ih, sortKeys_cons]

theorem map_inj_on {α β : Type} (f : β → α) :
    ∀ (l₁ l₂ : List β), (∀ a ∈ l₁, ∀ b ∈ l₂, f a = f b → a = b) → l₁.map f = l₂.map f → l₁ = l₂ := by
  intro l₁
  induction l₁ with
  | nil => intro l₂ _ h; cases l₂ with
    | nil => rfl
    | cons _ _ => simp at h
  | cons x xs ih =>
    intro l₂ hinj h
    cases l₂ with
    | nil => simp at h
    | cons y ys =>
      simp only [List.map_cons, List.cons.injEq] at h
      have hxy := hinj x List.mem_cons_self y List.mem_cons_self h.1
      rw [hxy, ih ys (fun a ha b hb => hinj a (List.mem_cons_of_mem _ ha) b (List.mem_cons_of_mem _ hb)) h.2]

/-- cell of new row `i` after the key column was taken through the index list `p` -/
theorem cellAt_gather (col : List Cell) (p : List Nat) (hlen : col.length = p.length) (i : Nat) :
    cellAt (gather none col p) i = cellAt col (p.getD i p.length) := by
  simp only [cellAt, gather, List.getD_eq_getElem?_getD, List.getElem?_map]
  by_cases h : i < p.length
  · simp [h]
  · have h' : p.length ≤ i := Nat.le_of_not_lt h
    simp [List.getElem?_eq_none h', hlen]

theorem map_getD_range (p : List Nat) (d : Nat) : (List.range p.length).map (p.getD · d) = p :=
  gather_range d p

theorem getD_inj_of_nodup {p : List Nat} (hp : p.Nodup) {i j : Nat} (hi : i < p.length) (hj : j < p.length)
    (h : p.getD i p.length = p.getD j p.length) : i = j := by
  simp only [List.getD_eq_getElem?_getD, List.getElem?_eq_getElem hi, List.getElem?_eq_getElem hj,
    Option.getD_some] at h
  exact (List.getElem_inj hp).mp h

theorem resolve_lengths {n : Nat} : ∀ {ks : List KeySrc} {cols : List (List Cell)},
    resolve n ks = .ok cols → ∀ c ∈ cols, c.length = n := by
  intro ks
  induction ks with
  | nil => intro cols h; cases h; intro c hc; cases hc
  | cons k ks ih =>
    intro cols h
    cases k with
    | missing => cases h
    | bad => cases h
    | cells c =>
      simp only [resolve] at h
      split at h
      · cases h
      · rename_i hlen
        split at h
        · rename_i cs hcs
          cases h
          intro c' hc'
          rcases List.mem_cons.mp hc' with rfl | hm
          · simpa using hlen
          · exact ih hcs c' hm
        · cases h

theorem validate_lengths {n : Nat} {by_ : ByArg} {rev : RevArg} {keys : List (List Cell × Bool)}
    (hv : validate n by_ rev = .ok keys) : ∀ kr ∈ keys, kr.1.length = n := by
  unfold validate at hv
  split at hv
  · cases hv
  · unfold validateKeys at hv
    split at hv
    · cases hv
    · split at hv
      · cases hv
      · rename_i cols hcols
        cases hv
        intro kr hkr
        exact resolve_lengths hcols kr.1 (List.of_mem_zip hkr).1

theorem resolve_isOk_iff (n : Nat) (ks : List KeySrc) :
    (∃ cols, resolve n ks = .ok cols) ↔ ks.all (keyOK n) = true := by
  induction ks with
  | nil => simp [resolve]
  | cons k ks ih =>
    cases k with
    | missing => simp [resolve, keyOK]
    | bad => simp [resolve, keyOK]
    | cells c =>
      simp only [resolve, List.all_cons, Bool.and_eq_true, ← ih, keyOK]
      by_cases hc : c.length = n
      · simp only [hc, bne_self_eq_false, Bool.false_eq_true, if_false, beq_self_eq_true, true_and]
        constructor
        · rintro ⟨cols, h⟩
          split at h
          · exact ⟨_, ‹_›⟩
          · cases h
        · rintro ⟨cs, h⟩
          exact ⟨c :: cs, by simp [h]⟩
      · have : (c.length != n) = true := by simp [hc]
        simp [this, hc]

theorem validateKeys_isOk_iff (n : Nat) (rev : RevArg) (ks : List KeySrc) :
    (∃ keys, validateKeys n rev ks = .ok keys) ↔ (revOK ks.length rev && ks.all (keyOK n)) = true := by
  rw [Bool.and_eq_true, ← resolve_isOk_iff]
  unfold validateKeys
  cases rev with
  | one b =>
    simp only [normRev, revOK, true_and]
    constructor
    · rintro ⟨keys, h⟩; split at h
      · cases h
      · exact ⟨_, ‹_›⟩
    · rintro ⟨cols, h⟩; exact ⟨_, by rw [h]⟩
  | many bs =>
    simp only [normRev, revOK]
    by_cases hb : bs.length = ks.length
    · simp only [hb, bne_self_eq_false, Bool.false_eq_true, if_false, beq_self_eq_true, true_and]
      constructor
      · rintro ⟨keys, h⟩; split at h
        · cases h
        · exact ⟨_, ‹_›⟩
      · rintro ⟨cols, h⟩; exact ⟨_, by rw [h]⟩
    · have : (bs.length != ks.length) = true := by simp [hb]
      simp [this, hb]
  | other => simp [normRev, revOK]

theorem validate_isOk_iff (n : Nat) (by_ : ByArg) (rev : RevArg) :
    (∃ keys, validate n by_ rev = .ok keys) ↔ wellFormed n by_ rev = true := by
  cases by_ with
  | single k => simpa [validate, wellFormed, normBy, keysOf] using validateKeys_isOk_iff n rev [k]
  | seq ks =>
    cases ks with
    | nil => simp [validate, wellFormed, normBy, keysOf]
    | cons k ks => simpa [validate, wellFormed, normBy, keysOf] using validateKeys_isOk_iff n rev (k :: ks)
  | other => simp [validate, wellFormed, normBy, keysOf]

/-- re-sorting the sorted table (key columns taken through the first result) moves nothing -/
theorem resort_identity (naLast : Bool) (keys : List (List Cell × Bool)) (n : Nat)
    (hlen : ∀ kr ∈ keys, kr.1.length = n) :
    sortKeys ((keys.map (fun kr => (gather none kr.1
        (sortKeys (keys.map (specRowLE naLast)) (List.range n)), kr.2))).map (specRowLE naLast)) (List.range n)
      = List.range n := by
  have htp := specRows_totalPreorder naLast keys
  generalize hp : sortKeys (keys.map (specRowLE naLast)) (List.range n) = p
  have hperm : p.Perm (List.range n) := hp ▸ sortKeys_perm _ _
  have hpl : p.length = n := by simpa using hperm.length_eq
  have hnd : p.Nodup := hperm.nodup_iff.mpr List.nodup_range
  have hles : (keys.map (fun kr => (gather none kr.1 p, kr.2))).map (specRowLE naLast)
      = (keys.map (specRowLE naLast)).map (fun le a b => le (p.getD a p.length) (p.getD b p.length)) := by
    rw [List.map_map, List.map_map]
    apply List.map_congr_left
    intro kr hkr
    funext a b
    simp only [Function.comp, specRowLE]
    rw [cellAt_gather _ _ ((hlen kr hkr).trans hpl.symm), cellAt_gather _ _ ((hlen kr hkr).trans hpl.symm)]
  rw [hles]
  apply map_inj_on (p.getD · p.length)
  · intro a ha b hb hab
    have ha' : a < p.length := by
      have := (sortKeys_perm _ _).mem_iff.mp ha
      rw [hpl]; exact List.mem_range.mp this
    have hb' : b < p.length := by rw [hpl]; exact List.mem_range.mp hb
    exact getD_inj_of_nodup hnd ha' hb' hab
  · rw [sortKeys_map]
    have e : (List.range n).map (p.getD · p.length) = p := by rw [← hpl]; exact map_getD_range p _
    rw [e, ← hp, sortKeys_idem htp]

theorem sortByTable_ok {tbl : Bool → Bool → Bool → Bool} {n : Nat} {by_ : ByArg} {rev : RevArg} {naLast : Bool}
    {keys : List (List Cell × Bool)} (hv : validate n by_ rev = .ok keys) :
    sortByTable tbl n by_ rev naLast = .ok (sortIndices tbl naLast keys n) := by
  simp [sortByTable, hv]

end Serif.Sort
