/- Case-analysis lemmas about the kind lattice (slow to check, kept apart). -/
import Serif.Model.DType

namespace Serif

theorem Kind.join_comm (a b : Kind) : a.join b = b.join a := by
  cases a <;> cases b <;> simp [Kind.join, Kind.isNumeric, Kind.isTemporal, eq_comm]
  rename_i n m
  by_cases h : n = m <;> simp [h]

theorem Kind.join_idem (a : Kind) : a.join a = a := by
  simp [Kind.join]

theorem Kind.join_assoc (a b c : Kind) : (a.join b).join c = a.join (b.join c) := by
  cases a <;> cases b <;> cases c <;>
    simp [Kind.join, Kind.isNumeric, Kind.isTemporal] <;> grind


/-! ### `promote` is "join the kind, or the nullable flag" -/

theorem promote_ty (d : DType) (v : Kind) :
    promote d (.ty v) = { kind := d.kind.join v, nullable := d.nullable } := by
  obtain ⟨k, n⟩ := d
  cases k <;> cases v <;> simp [promote, Kind.join, Kind.isNumeric, Kind.isTemporal] <;> grind

theorem promote_none (d : DType) :
    promote d .none = { kind := d.kind, nullable := true } := by
  obtain ⟨k, n⟩ := d
  cases n <;> simp [promote]


end Serif
