/- Helper lemmas about the CSV model (used by Props/C19). -/
import Serif.Model.Csv
import Serif.Proofs.DType

namespace Serif.Csv

variable {τ ν : Type}

theorem specCell_eq (O : Oracle τ ν) (rec : List τ) (c : Nat) :
    specCell O rec c = cellAt O rec c := by
  unfold specCell cellAt
  by_cases h : c < rec.length
  · simp [h]
  · simp [h]

theorem column_length (O : Oracle τ ν) (rows : List (List τ)) (c : Nat) :
    (column O rows c).length = rows.length := by
  simp [column]

theorem column_getElem? (O : Oracle τ ν) (rows : List (List τ)) (c r : Nat) :
    (column O rows c)[r]? = (rows[r]?).map (fun rec => specCell O rec c) := by
  simp only [column, List.getElem?_map]
  cases rows[r]? with
  | none => rfl
  | some rec => simp only [Option.map_some, specCell_eq]

theorem column_nil (O : Oracle τ ν) (c : Nat) : column O ([] : List (List τ)) c = [] := rfl

/-- header of the table: the first record verbatim, or generated names -/
def headerOf (O : Oracle τ ν) (hasHeader : Bool) (first : List τ) : List String :=
  if hasHeader then first.map O.raw else colNames first.length

/-- both branches of `readCsv` (header only / at least one data record) in one closed form -/
theorem readCsv_cons (O : Oracle τ ν) (hh : Bool) (first : List τ) (rest : List (List τ)) :
    readCsv O hh (first :: rest) =
      (headerOf O hh first).mapIdx
        (fun c h => { name := h, data := column O (dataRecords hh (first :: rest)) c }) := by
  unfold readCsv headerOf dataRecords
  cases hh <;> simp only [Bool.false_eq_true, if_false, if_true, List.drop_one, List.tail_cons]
  · simp
  · cases rest with
    | nil =>
      simp only [List.isEmpty_nil, if_true, column_nil]
      apply List.ext_getElem?
      intro i
      simp [List.getElem?_mapIdx]
    | cons r rs => simp

theorem readCsv_length (O : Oracle τ ν) (hh : Bool) (first : List τ) (rest : List (List τ)) :
    (readCsv O hh (first :: rest)).length = (headerOf O hh first).length := by
  rw [readCsv_cons]; simp

theorem readCsv_getElem? (O : Oracle τ ν) (hh : Bool) (first : List τ) (rest : List (List τ)) (c : Nat) :
    (readCsv O hh (first :: rest))[c]? =
      ((headerOf O hh first)[c]?).map
        (fun h => { name := h, data := column O (dataRecords hh (first :: rest)) c }) := by
  rw [readCsv_cons, List.getElem?_mapIdx]

theorem names_readCsv (O : Oracle τ ν) (hh : Bool) (first : List τ) (rest : List (List τ)) :
    names (readCsv O hh (first :: rest)) = headerOf O hh first := by
  rw [readCsv_cons]
  apply List.ext_getElem?
  intro i
  simp only [names, List.getElem?_map, List.getElem?_mapIdx]
  cases (headerOf O hh first)[i]? <;> rfl

theorem mem_readCsv_data_length (O : Oracle τ ν) (hh : Bool) (all : List (List τ))
    (col : Column ν) (h : col ∈ readCsv O hh all) :
    col.data.length = (dataRecords hh all).length := by
  cases all with
  | nil => simp [readCsv] at h
  | cons first rest =>
    rw [readCsv_cons] at h
    obtain ⟨i, hi, rfl⟩ := List.mem_mapIdx.mp h
    simp [column_length]

theorem infer_eq_inferSpec (l : List Tag) : infer l = inferSpec l := by
  unfold infer inferSpec
  rw [fold_none]
  cases kindsOf l <;> simp

end Serif.Csv
