/- Lemmas about pure tables (used by Props/C02). -/
import Serif.Model.Tab

namespace List
theorem filterMap_congr_of_mem {α β : Type} {f g : α → Option β} {l : List α} (h : ∀ x ∈ l, f x = g x) :
    l.filterMap f = l.filterMap g := by
  induction l with
  | nil => rfl
  | cons a l ih =>
    simp only [List.filterMap_cons, h a List.mem_cons_self]
    rw [ih (fun x hx => h x (List.mem_cons_of_mem _ hx))]
end List

namespace Serif.Tab
variable {α : Type}

theorem rectB_iff (cols : List (List α)) (n : Nat) : rectB cols n = true ↔ Rect cols n := by
  simp [rectB, Rect]

theorem row_eq_map (cols : List (List α)) (n i : Nat) (h : Rect cols n) (hi : i < n) :
    (row cols i).length = cols.length ∧
    ∀ j (hj : j < cols.length), (row cols i)[j]? = (cols[j]'hj)[i]? := by
  induction cols with
  | nil => simp [row]
  | cons c cs ih =>
    have hc : c.length = n := h c List.mem_cons_self
    have hcs : Rect cs n := fun x hx => h x (List.mem_cons_of_mem _ hx)
    obtain ⟨l, g⟩ := ih hcs
    have hci : c[i]? = some (c[i]'(by omega)) := List.getElem?_eq_getElem (by omega)
    constructor
    · simp only [row, List.filterMap_cons, hci, List.length_cons]; simp only [row] at l; rw [l]
    · intro j hj
      simp only [row, List.filterMap_cons, hci]
      cases j with
      | zero => simp
      | succ j =>
        simp only [List.getElem?_cons_succ, List.getElem_cons_succ]
        exact g j (by simpa using hj)


theorem row_length (cols : List (List α)) (n i : Nat) (h : Rect cols n) (hi : i < n) :
    (row cols i).length = cols.length := (row_eq_map cols n i h hi).1

theorem rows_length (cols : List (List α)) (n : Nat) : (rows cols n).length = n := by
  simp [rows]

theorem rows_getElem? (cols : List (List α)) (n i : Nat) (hi : i < n) :
    (rows cols n)[i]? = some (row cols i) := by
  simp [rows, hi]

/-- outside the table there is no row -/
theorem rows_getElem?_none (cols : List (List α)) (n i : Nat) (hi : n ≤ i) : (rows cols n)[i]? = none := by
  simp [rows, hi]

theorem appendRows_length (a b : List (List α)) (h : a.length = b.length) : (appendRows a b).length = a.length := by
  induction a generalizing b with
  | nil => cases b <;> simp [appendRows]
  | cons c cs ih =>
    cases b with
    | nil => simp at h
    | cons d ds => simp only [appendRows, List.length_cons]; rw [ih ds (by simpa using h)]

theorem appendRows_getElem? (a b : List (List α)) (h : a.length = b.length) (j : Nat) (hj : j < a.length) :
    (appendRows a b)[j]? = some (a[j] ++ b[j]'(h ▸ hj)) := by
  induction a generalizing b j with
  | nil => simp at hj
  | cons c cs ih =>
    cases b with
    | nil => simp at h
    | cons d ds =>
      cases j with
      | zero => simp [appendRows]
      | succ j =>
        simp only [appendRows, List.getElem?_cons_succ, List.getElem_cons_succ]
        exact ih ds (by simpa using h) j (by simpa using hj)

theorem appendRows_rect (a b : List (List α)) (n m : Nat) (ha : Rect a n) (hb : Rect b m) :
    Rect (appendRows a b) (n + m) := by
  induction a generalizing b with
  | nil => cases b <;> simp [appendRows, Rect]
  | cons c cs ih =>
    cases b with
    | nil => simp [appendRows, Rect]
    | cons d ds =>
      intro x hx
      simp only [appendRows, List.mem_cons] at hx
      rcases hx with rfl | hx
      · simp [ha c List.mem_cons_self, hb d List.mem_cons_self]
      · exact ih ds (fun y hy => ha y (List.mem_cons_of_mem _ hy)) (fun y hy => hb y (List.mem_cons_of_mem _ hy)) x hx

theorem rowSel_length (idxs : List Nat) (cols : List (List α)) : (rowSel idxs cols).length = cols.length := by
  simp [rowSel]

theorem sel_length (idxs : List Nat) (c : List α) (h : ∀ i ∈ idxs, i < c.length) :
    (idxs.filterMap (fun i => c[i]?)).length = idxs.length := by
  induction idxs with
  | nil => rfl
  | cons i is ih =>
    have hi : i < c.length := h i List.mem_cons_self
    simp only [List.filterMap_cons, List.getElem?_eq_getElem hi, List.length_cons]
    rw [ih (fun x hx => h x (List.mem_cons_of_mem _ hx))]

theorem sel_getElem? (idxs : List Nat) (c : List α) (h : ∀ i ∈ idxs, i < c.length) (k : Nat) (hk : k < idxs.length) :
    (idxs.filterMap (fun i => c[i]?))[k]? = c[idxs[k]]? := by
  induction idxs generalizing k with
  | nil => simp at hk
  | cons i is ih =>
    have hi : i < c.length := h i List.mem_cons_self
    simp only [List.filterMap_cons, List.getElem?_eq_getElem hi]
    cases k with
    | zero => simp [List.getElem?_eq_getElem hi]
    | succ k =>
      simp only [List.getElem?_cons_succ, List.getElem_cons_succ]
      exact ih (fun x hx => h x (List.mem_cons_of_mem _ hx)) k (by simpa using hk)

theorem rowSel_rect (idxs : List Nat) (cols : List (List α)) (n : Nat) (h : Rect cols n) (hi : ∀ i ∈ idxs, i < n) :
    Rect (rowSel idxs cols) idxs.length := by
  intro x hx
  simp only [rowSel, List.mem_map] at hx
  obtain ⟨c, hc, rfl⟩ := hx
  exact sel_length idxs c (fun i him => by rw [h c hc]; exact hi i him)

/-- a row selection applies to every column alike: row k of the selection is row `idxs[k]` of the table -/
theorem rowSel_row (idxs : List Nat) (cols : List (List α)) (n : Nat) (h : Rect cols n) (hi : ∀ i ∈ idxs, i < n)
    (k : Nat) (hk : k < idxs.length) : row (rowSel idxs cols) k = row cols idxs[k] := by
  induction cols with
  | nil => simp [row, rowSel]
  | cons c cs ih =>
    have hc : c.length = n := h c List.mem_cons_self
    have hcs : Rect cs n := fun x hx => h x (List.mem_cons_of_mem _ hx)
    have e := sel_getElem? idxs c (fun i him => by rw [hc]; exact hi i him) k hk
    have ih' := ih hcs
    simp only [row, rowSel, List.map_cons, List.filterMap_cons] at ih' ⊢
    rw [e, ih']

theorem filterMap_some_range (c : List α) : (List.range c.length).filterMap (fun i => c[i]?) = c := by
  apply List.ext_getElem?
  intro k
  by_cases hk : k < c.length
  · have := sel_getElem? (List.range c.length) c (by simp) k (by simpa using hk)
    rw [this]; simp
  · have h1 : ((List.range c.length).filterMap (fun i => c[i]?)).length = c.length := by
      rw [sel_length _ _ (by simp)]; simp
    rw [List.getElem?_eq_none (by omega), List.getElem?_eq_none (by omega)]

/-- transposing twice gives back the columns (for a table with at least one column; a table without columns has
    no rows, so both sides have no cells) -/
theorem transpose_transpose_cols (cols : List (List α)) (n : Nat) (h : Rect cols n) :
    transpose (transpose cols n) cols.length = cols := by
  unfold transpose
  apply List.ext_getElem?
  intro j
  by_cases hj : j < cols.length
  · rw [rows_getElem? _ _ _ hj, List.getElem?_eq_getElem hj]
    congr 1
    -- row j of the list of rows = column j
    have hcj : (cols[j]).length = n := h _ (List.getElem_mem hj)
    have : row (rows cols n) j = (List.range n).filterMap (fun i => (cols[j])[i]?) := by
      simp only [row, rows, List.filterMap_map]
      apply List.filterMap_congr_of_mem
      intro i hi
      have hi' : i < n := by simpa using hi
      simp only [Function.comp]
      exact (row_eq_map cols n i h hi').2 j hj
    rw [this, ← hcj]
    exact filterMap_some_range _
  · rw [rows_getElem?_none _ _ _ (by omega), List.getElem?_eq_none (by omega)]

end Serif.Tab
