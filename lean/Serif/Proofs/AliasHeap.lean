/- Invariant lemmas for the alias-registry model (used by Props/C15). -/
import Serif.Model.AliasHeap

namespace Serif
namespace AState

/-- the registry is exact: the live references registered under a storage identity are exactly the live
    objects using that storage, each once; dead references are ignored -/
structure RegExact (st : AState) : Prop where
  users : ∀ s o, st.store o = some s → o ∈ st.reg s
  exact : ∀ s o, o ∈ st.reg s → st.alive o = true → st.store o = some s
  nodup : ∀ s, (st.liveRefs s).Nodup
  fresh : ∀ o, st.next ≤ o → st.store o = none ∧ ∀ s, o ∉ st.reg s

/-- the same, except that the live object `o` is registered nowhere (the state between `unregister` and `register`) -/
structure RegExactExcept (st : AState) (o : Nat) : Prop where
  absent : ∀ s, o ∉ st.reg s
  users : ∀ s o', o' ≠ o → st.store o' = some s → o' ∈ st.reg s
  exact : ∀ s o', o' ∈ st.reg s → st.alive o' = true → st.store o' = some s
  nodup : ∀ s, (st.liveRefs s).Nodup
  fresh : ∀ o', st.next ≤ o' → o' ≠ o → st.store o' = none ∧ ∀ s, o' ∉ st.reg s
  lt : o < st.next

theorem mem_liveRefs (st : AState) (s o : Nat) : o ∈ st.liveRefs s ↔ o ∈ st.reg s ∧ st.alive o = true := by
  simp [liveRefs]

theorem RegExact.mem_liveRefs_iff {st : AState} (h : RegExact st) (s o : Nat) :
    o ∈ st.liveRefs s ↔ st.store o = some s := by
  rw [mem_liveRefs]
  constructor
  · rintro ⟨a, b⟩; exact h.exact s o a b
  · intro e; exact ⟨h.users s o e, by simp [alive, e]⟩

theorem regExact_init : RegExact init := by
  constructor <;> simp [init, liveRefs]

@[simp] theorem setData_store (st : AState) (s : Nat) (c : List Nat) : (st.setData s c).store = st.store := rfl
@[simp] theorem setData_reg (st : AState) (s : Nat) (c : List Nat) : (st.setData s c).reg = st.reg := rfl
@[simp] theorem setData_next (st : AState) (s : Nat) (c : List Nat) : (st.setData s c).next = st.next := rfl

theorem setData_exact (st : AState) (s : Nat) (c : List Nat) (h : RegExact st) : RegExact (st.setData s c) :=
  ⟨h.users, h.exact, h.nodup, h.fresh⟩

/-- `register` completes the protocol -/
theorem register_exact (st : AState) (o s : Nat) (h : RegExactExcept st o) (ho : st.store o = some s) :
    RegExact (st.register o s) := by
  have hnot : ¬ o ∈ st.liveRefs s := fun hm => h.absent s ((mem_liveRefs st s o).mp hm).1
  have hreg : st.register o s = st.setReg s (st.liveRefs s ++ [o]) := by
    simp [register, hnot]
  rw [hreg]
  have halive : st.alive o = true := by simp [alive, ho]
  constructor
  · intro s' o' hs
    simp only [setReg] at hs ⊢
    by_cases e : o' = o
    · subst e
      rw [ho] at hs; cases hs
      simp
    · have := h.users s' o' e hs
      split
      · rename_i es; subst es
        exact List.mem_append_left _ ((mem_liveRefs st s' o').mpr ⟨this, by simp [alive, hs]⟩)
      · exact this
  · intro s' o' hm ha
    simp only [setReg, alive] at hm ha ⊢
    split at hm
    · rename_i es; subst es
      rcases List.mem_append.mp hm with hm | hm
      · exact h.exact s' o' ((mem_liveRefs st s' o').mp hm).1 ha
      · simp at hm; subst hm; exact ho
    · exact h.exact s' o' hm ha
  · intro s'
    simp only [liveRefs, setReg]
    split
    · rename_i es; subst es
      rw [List.filter_append]
      have e1 : List.filter (fun x => (st.setReg s' (st.liveRefs s' ++ [o])).alive x) (st.liveRefs s') = st.liveRefs s' := by
        apply List.filter_eq_self.mpr
        intro a ha
        exact ((mem_liveRefs st s' a).mp ha).2
      have e2 : List.filter (fun x => (st.setReg s' (st.liveRefs s' ++ [o])).alive x) [o] = [o] := by
        simp [List.filter, alive, setReg, ho]
      show (List.filter (fun x => (st.setReg s' (st.liveRefs s' ++ [o])).alive x) (st.liveRefs s')
            ++ List.filter (fun x => (st.setReg s' (st.liveRefs s' ++ [o])).alive x) [o]).Nodup
      rw [e1, e2]
      apply List.nodup_append.mpr
      refine ⟨h.nodup s', by simp, ?_⟩
      intro a ha b hb
      simp at hb; subst hb
      intro e; subst e; exact hnot ha
    · exact h.nodup s'
  · intro o' ho'
    have hne : o' ≠ o := by have := h.lt; simp only [setReg] at ho'; omega
    obtain ⟨a, b⟩ := h.fresh o' ho' hne
    refine ⟨a, ?_⟩
    intro s'
    simp only [setReg]
    split
    · rename_i es; subst es
      intro hm
      rcases List.mem_append.mp hm with hm | hm
      · exact b s' ((mem_liveRefs st s' o').mp hm).1
      · simp at hm; exact hne hm
    · exact b s'


/-- `unregister` followed by pointing the object at new storage: the object is registered nowhere, all else exact -/
theorem unregister_setStore_except (st : AState) (o s s' : Nat) (h : RegExact st) (ho : st.store o = some s) :
    RegExactExcept ((st.unregister o s).setStore o (some s')) o := by
  have hmem : o ∈ st.reg s := h.users s o ho
  have hne : (st.reg s).isEmpty = false := by
    cases hr : st.reg s with
    | nil => rw [hr] at hmem; cases hmem
    | cons _ _ => rfl
  have hun : st.unregister o s = st.setReg s ((st.liveRefs s).filter (· != o)) := by
    simp [unregister, hne]
  have halive : st.alive o = true := by simp [alive, ho]
  have hlt : o < st.next := by
    rcases Nat.lt_or_ge o st.next with l | l
    · exact l
    · have := (h.fresh o l).1; rw [ho] at this; cases this
  -- aliveness is unchanged by the two updates
  have alive_eq' : ∀ (L : List Nat) x, ((st.setReg s L).setStore o (some s')).alive x = st.alive x := by
    intro L x
    simp only [alive, setStore, setReg]
    split
    · rename_i e; subst e; simp [ho]
    · rfl
  have alive_eq : ∀ x, ((st.setReg s ((st.liveRefs s).filter (· != o))).setStore o (some s')).alive x = st.alive x :=
    fun x => alive_eq' _ x
  rw [hun]
  constructor
  · intro s''
    simp only [setStore, setReg]
    split
    · simp
    · rename_i es
      intro hm
      have := h.exact s'' o hm halive
      rw [ho] at this; cases this; exact es rfl
  · intro s'' o' hne' hs
    simp only [setStore, setReg] at hs ⊢
    rw [if_neg hne'] at hs
    have := h.users s'' o' hs
    split
    · rename_i es; subst es
      simp only [List.mem_filter, bne_iff_ne, ne_eq]
      exact ⟨(mem_liveRefs st s'' o').mpr ⟨this, by simp [alive, hs]⟩, hne'⟩
    · exact this
  · intro s'' o' hm ha
    rw [alive_eq] at ha
    simp only [setStore, setReg] at hm ⊢
    have hm' : o' ∈ st.reg s'' ∧ o' ≠ o := by
      split at hm
      · rename_i es; subst es
        simp only [List.mem_filter, bne_iff_ne, ne_eq] at hm
        exact ⟨((mem_liveRefs st s'' o').mp hm.1).1, hm.2⟩
      · refine ⟨hm, ?_⟩
        intro e; subst e
        have := h.exact s'' o' hm halive
        rw [ho] at this; cases this; rename_i es; exact es rfl
    rw [if_neg hm'.2]
    exact h.exact s'' o' hm'.1 ha
  · intro s''
    have : ((st.setReg s ((st.liveRefs s).filter (· != o))).setStore o (some s')).liveRefs s''
        = if s'' = s then (st.liveRefs s).filter (· != o) else st.liveRefs s'' := by
      simp only [liveRefs]
      rw [List.filter_congr (fun x _ => alive_eq' _ x)]
      simp only [setStore, setReg]
      split
      · rw [List.filter_filter]
        simp only [List.filter_filter]
        congr 1; funext x; cases st.alive x <;> simp
      · rfl
    rw [this]
    split
    · exact (h.nodup s).sublist List.filter_sublist
    · exact h.nodup s''
  · intro o' ho' hne'
    simp only [setStore, setReg] at ho' ⊢
    obtain ⟨a, b⟩ := h.fresh o' ho'
    refine ⟨by rw [if_neg hne']; exact a, ?_⟩
    intro s''
    split
    · rename_i es; subst es
      intro hm
      simp only [List.mem_filter] at hm
      exact b s'' ((mem_liveRefs st s'' o').mp hm.1).1
    · exact b s''
  · exact hlt

theorem swapStorage_exact (st : AState) (o s' : Nat) (h : RegExact st) : RegExact (st.swapStorage o s') := by
  unfold swapStorage
  cases ho : st.store o with
  | none => exact h
  | some s =>
    simp only
    apply register_exact _ _ _ (unregister_setStore_except st o s s' h ho)
    simp [setStore]

theorem checkWritable_exact (st : AState) (s : Nat) (h : RegExact st) : RegExact (st.checkWritable s).1 := by
  unfold checkWritable
  split
  · exact h
  · simp only
    have lr : ∀ s'', (st.setReg s (st.liveRefs s)).liveRefs s'' = st.liveRefs s'' := by
      intro s''
      have al : ∀ (L : List Nat) x, (st.setReg s L).alive x = st.alive x := fun _ _ => rfl
      simp only [liveRefs]
      rw [List.filter_congr (fun x _ => al _ x)]
      simp only [setReg]
      split
      · rename_i e; subst e; rw [List.filter_filter]; congr 1; funext x; simp
      · rfl
    constructor
    · intro s'' o hs
      simp only [setReg] at hs ⊢
      split
      · rename_i e; subst e; exact (h.mem_liveRefs_iff s'' o).mpr hs
      · exact h.users s'' o hs
    · intro s'' o hm ha
      simp only [setReg, alive] at hm ha ⊢
      split at hm
      · rename_i e; subst e; exact (h.mem_liveRefs_iff s'' o).mp hm
      · exact h.exact s'' o hm ha
    · intro s''; rw [lr]; exact h.nodup s''
    · intro o ho
      simp only [setReg] at ho ⊢
      obtain ⟨a, b⟩ := h.fresh o ho
      refine ⟨a, ?_⟩
      intro s''
      split
      · rename_i e; subst e; intro hm; exact b s'' ((mem_liveRefs st s'' o).mp hm).1
      · exact b s''

theorem drop_exact (st : AState) (o : Nat) (h : RegExact st) : RegExact (st.setStore o none) := by
  constructor
  · intro s o' hs
    simp only [setStore] at hs ⊢
    split at hs
    · cases hs
    · exact h.users s o' hs
  · intro s o' hm ha
    simp only [setStore, alive] at hm ha ⊢
    split at ha
    · simp at ha
    · rename_i e; rw [if_neg e]; exact h.exact s o' hm ha
  · intro s
    have : (st.setStore o none).liveRefs s = (st.liveRefs s).filter (· != o) := by
      simp only [liveRefs, List.filter_filter]
      congr 1; funext x
      simp only [alive, setStore]
      by_cases e : x = o
      · subst e; simp
      · simp [e]
    rw [this]
    exact (h.nodup s).sublist List.filter_sublist
  · intro o' ho'
    simp only [setStore] at ho' ⊢
    obtain ⟨a, b⟩ := h.fresh o' ho'
    refine ⟨?_, b⟩
    split
    · rfl
    · exact a

theorem create_exact (st : AState) (s : Nat) (c : List Nat) (h : RegExact st) : RegExact (st.step (.create s c)).1 := by
  simp only [step]
  apply register_exact
  · have hf := h.fresh st.next (Nat.le_refl _)
    have alive_eq : ∀ x, x ≠ st.next → ((({ st with next := st.next + 1 } : AState).setData s c).setStore st.next (some s)).alive x = st.alive x := by
      intro x hx; simp [alive, setStore, hx]
    constructor
    · intro s''; exact hf.2 s''
    · intro s'' o' hne hs
      simp only [setStore, setData_store] at hs
      rw [if_neg hne] at hs
      exact h.users s'' o' hs
    · intro s'' o' hm ha
      have hne : o' ≠ st.next := fun e => hf.2 s'' (e ▸ hm)
      rw [alive_eq o' hne] at ha
      simp only [setStore, setData_store]
      rw [if_neg hne]
      exact h.exact s'' o' hm ha
    · intro s''
      have : ((({ st with next := st.next + 1 } : AState).setData s c).setStore st.next (some s)).liveRefs s'' = st.liveRefs s'' := by
        simp only [liveRefs]
        apply List.filter_congr
        intro x hx
        exact alive_eq x (fun e => hf.2 s'' (e ▸ hx))
      rw [this]; exact h.nodup s''
    · intro o' ho' hne
      simp only [setStore, setData_store, setData_next] at ho' ⊢
      obtain ⟨a, b⟩ := h.fresh o' (by omega)
      exact ⟨by rw [if_neg hne]; exact a, b⟩
    · show st.next < st.next + 1; omega
  · simp [setStore]

/-- **the registry stays exact under every operation**, whatever storage identities the interpreter hands out -/
theorem step_exact (st : AState) (op : AOp) (h : RegExact st) : RegExact (st.step op).1 := by
  cases op with
  | create s c => exact create_exact st s c h
  | swap o s' c =>
    simp only [step]
    split
    · exact h
    · exact swapStorage_exact _ o s' (setData_exact st s' c h)
  | write o s' c =>
    simp only [step]
    split
    · exact h
    · split
      · exact swapStorage_exact _ o s' (setData_exact st s' c h)
      · split
        · exact swapStorage_exact _ o s' (setData_exact _ s' c (checkWritable_exact st _ h))
        · exact checkWritable_exact st _ h
  | drop o => exact drop_exact st o h

theorem run_exact (ops : List AOp) (st : AState) (h : RegExact st) : RegExact (st.run ops) := by
  induction ops generalizing st with
  | nil => exact h
  | cons op ops ih => exact ih _ (step_exact st op h)


theorem checkWritable_store (st : AState) (s : Nat) : (st.checkWritable s).1.store = st.store := by
  unfold checkWritable; split <;> rfl

theorem checkWritable_data (st : AState) (s : Nat) : (st.checkWritable s).1.data = st.data := by
  unfold checkWritable; split <;> rfl

theorem checkWritable_view (st : AState) (s x : Nat) : (st.checkWritable s).1.view x = st.view x := by
  simp [view, checkWritable_store, checkWritable_data]

end AState
end Serif
