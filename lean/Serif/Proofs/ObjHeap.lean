/- Frame and invariant lemmas for the object-identity model (used by Props/C01, C16). -/
import Serif.Model.ObjHeap

namespace Serif

theorem filterMap_congr' {α β : Type} {f g : α → Option β} {l : List α} (h : ∀ x ∈ l, f x = g x) :
    l.filterMap f = l.filterMap g := by
  induction l with
  | nil => rfl
  | cons a l ih =>
    simp only [List.filterMap_cons, h a List.mem_cons_self]
    rw [ih (fun x hx => h x (List.mem_cons_of_mem _ hx))]

theorem nodup_set_of_not_mem {α : Type} (l : List α) (j : Nat) (a : α) (nd : l.Nodup) (ha : a ∉ l) :
    (l.set j a).Nodup := by
  induction l generalizing j with
  | nil => simp
  | cons b l ih =>
    cases j with
    | zero =>
      simp only [List.set_cons_zero, List.nodup_cons] at nd ⊢
      exact ⟨fun h => ha (List.mem_cons_of_mem _ h), nd.2⟩
    | succ j =>
      simp only [List.set_cons_succ, List.nodup_cons] at nd ⊢
      refine ⟨fun h => ?_, ih j nd.2 (fun h => ha (List.mem_cons_of_mem _ h))⟩
      rcases List.mem_or_eq_of_mem_set h with h1 | h1
      · exact nd.1 h1
      · exact ha (by rw [h1]; exact List.mem_cons_self)

namespace Heap

@[simp] theorem upd_same {α} (f : Nat → Option α) (k : Nat) (v : Option α) : upd f k v k = v := by
  simp [upd]

theorem upd_ne {α} (f : Nat → Option α) (k k' : Nat) (v : Option α) (h : k' ≠ k) : upd f k v k' = f k' := by
  simp [upd, h]

/-- `abs o` depends only on `objs o` and on `vecOf` of its columns -/
theorem abs_congr (h h' : Heap) (o : Nat) (ho : h'.objs o = h.objs o)
    (hc : ∀ c ∈ h.columnsOf o, h'.vecOf c = h.vecOf c) : h'.abs o = h.abs o := by
  unfold abs obj
  rw [ho]
  cases hobj : h.objs o with
  | none => rfl
  | some ob =>
    cases ob with
    | vec v fp => rfl
    | tab cols =>
      simp only
      congr 2
      apply filterMap_congr'
      intro c hcmem
      apply hc
      simp [columnsOf, obj, hobj, hcmem]

theorem vecOf_congr (h h' : Heap) (c : Nat) (hc : h'.objs c = h.objs c) : h'.vecOf c = h.vecOf c := by
  simp [vecOf, obj, hc]

/-- writing object `w` does not change what an independent object shows -/
theorem abs_setVec_indep (h : Heap) (o w : Nat) (v : VecVal) (hi : h.indep o w = true) :
    (h.setVec w v).abs o = h.abs o := by
  simp only [indep, Bool.and_eq_true, bne_iff_ne, ne_eq, Bool.not_eq_true', List.contains_eq_mem,
    decide_eq_false_iff_not] at hi
  unfold setVec
  split
  · apply abs_congr
    · exact upd_ne _ _ _ _ hi.1
    · intro c hc
      apply vecOf_congr
      apply upd_ne
      intro e; subst e; exact hi.2 hc
  · rfl

/-- a written vector object shows the written value -/
theorem abs_setVec_self (h : Heap) (w : Nat) (v v0 : VecVal) (fp : Option Int)
    (hw : h.objs w = some (.vec v0 fp)) : (h.setVec w v).abs w = some (.vec v) := by
  simp [setVec, obj, hw, abs]

theorem setVec_objs_ne (h : Heap) (w k : Nat) (v : VecVal) (hk : k ≠ w) : (h.setVec w v).objs k = h.objs k := by
  unfold setVec; split
  · exact upd_ne _ _ _ _ hk
  · rfl

theorem setVec_roots (h : Heap) (w : Nat) (v : VecVal) : (h.setVec w v).roots = h.roots := by
  unfold setVec; split <;> rfl

theorem setVec_next (h : Heap) (w : Nat) (v : VecVal) : (h.setVec w v).next = h.next := by
  unfold setVec; split <;> rfl

/-- `setVec` keeps the kind of every object (vectors stay vectors, tables keep their column ids) -/
theorem setVec_tab (h : Heap) (w k : Nat) (v : VecVal) (cols : List Nat) :
    (h.setVec w v).objs k = some (.tab cols) ↔ h.objs k = some (.tab cols) := by
  unfold setVec
  split
  · rename_i v0 fp hw
    by_cases hk : k = w
    · subst hk; simp [obj] at hw; simp [hw]
    · simp [upd_ne _ _ _ _ hk]
  · rfl

theorem setVec_isVec (h : Heap) (w k : Nat) (v : VecVal) :
    (∃ x fp, (h.setVec w v).objs k = some (.vec x fp)) ↔ (∃ x fp, h.objs k = some (.vec x fp)) := by
  unfold setVec
  split
  · rename_i v0 fp hw
    by_cases hk : k = w
    · subst hk; simp [obj] at hw; simp [hw]
    · simp [upd_ne _ _ _ _ hk]
  · rfl

theorem setVec_none (h : Heap) (w k : Nat) (v : VecVal) : (h.setVec w v).objs k = none ↔ h.objs k = none := by
  unfold setVec
  split
  · rename_i v0 fp hw
    by_cases hk : k = w
    · subst hk; simp [obj] at hw; simp [hw]
    · simp [upd_ne _ _ _ _ hk]
  · rfl


/-! ### well-formed heaps -/

/-- invariant of every reachable heap -/
structure WF (h : Heap) : Prop where
  /-- ids at or above `next` are unused -/
  fresh : ∀ k, h.next ≤ k → h.objs k = none
  /-- handles point at allocated objects -/
  roots_lt : ∀ r o, h.roots r = some o → o < h.next
  /-- table columns are vector objects -/
  cols_vec : ∀ o cols, h.objs o = some (.tab cols) → ∀ c ∈ cols, ∃ v fp, h.objs c = some (.vec v fp)
  /-- ownership: an object is a column of at most one table … -/
  own : ∀ o1 o2 c1 c2 c, h.objs o1 = some (.tab c1) → h.objs o2 = some (.tab c2) → c ∈ c1 → c ∈ c2 → o1 = o2
  /-- … and at most once -/
  nodup : ∀ o cols, h.objs o = some (.tab cols) → cols.Nodup

theorem WF.lt_of_some {h : Heap} (wf : WF h) {k : Nat} {ob : Obj} (hk : h.objs k = some ob) : k < h.next := by
  rcases Nat.lt_or_ge k h.next with h1 | h1
  · exact h1
  · rw [wf.fresh k h1] at hk; cases hk

theorem wf_empty : WF empty := by
  constructor <;> simp [empty]

/-! #### allocation -/

theorem allocVec_objs_lt (h : Heap) (v : VecVal) (k : Nat) (hk : k ≠ h.next) :
    (h.allocVec v).1.objs k = h.objs k := by
  simp [allocVec, upd, hk]

theorem allocVec_wf (h : Heap) (v : VecVal) (wf : WF h) : WF (h.allocVec v).1 := by
  have hn : ∀ k ob, h.objs k = some ob → k ≠ h.next := fun k ob hk => Nat.ne_of_lt (wf.lt_of_some hk)
  constructor
  · intro k hk
    simp only [allocVec] at hk ⊢
    rw [upd_ne _ _ _ _ (by omega)]; exact wf.fresh k (by omega)
  · intro r o hr
    simp only [allocVec] at hr ⊢
    have := wf.roots_lt r o hr; omega
  · intro o cols ho c hc
    simp only [allocVec] at ho ⊢
    by_cases e : o = h.next
    · subst e; simp at ho
    · rw [upd_ne _ _ _ _ e] at ho
      obtain ⟨x, fp, hx⟩ := wf.cols_vec o cols ho c hc
      exact ⟨x, fp, by rw [upd_ne _ _ _ _ (hn _ _ hx)]; exact hx⟩
  · intro o1 o2 c1 c2 c h1 h2 m1 m2
    simp only [allocVec] at h1 h2
    by_cases e1 : o1 = h.next
    · subst e1; simp at h1
    · by_cases e2 : o2 = h.next
      · subst e2; simp at h2
      · rw [upd_ne _ _ _ _ e1] at h1; rw [upd_ne _ _ _ _ e2] at h2
        exact wf.own o1 o2 c1 c2 c h1 h2 m1 m2
  · intro o cols ho
    simp only [allocVec] at ho
    by_cases e : o = h.next
    · subst e; simp at ho
    · rw [upd_ne _ _ _ _ e] at ho; exact wf.nodup o cols ho

theorem allocVec_next (h : Heap) (v : VecVal) : (h.allocVec v).1.next = h.next + 1 := rfl
theorem allocVec_id (h : Heap) (v : VecVal) : (h.allocVec v).2 = h.next := rfl
theorem allocVec_roots (h : Heap) (v : VecVal) : (h.allocVec v).1.roots = h.roots := rfl
theorem allocVec_new (h : Heap) (v : VecVal) : (h.allocVec v).1.objs h.next = some (.vec v none) := by
  simp [allocVec]

/-- facts about allocating a list of vectors: ids are `next, next+1, …`, old objects untouched -/
theorem allocVecs_spec (h : Heap) (vs : List VecVal) (wf : WF h) :
    WF (h.allocVecs vs).1 ∧
    (h.allocVecs vs).1.next = h.next + vs.length ∧
    (h.allocVecs vs).1.roots = h.roots ∧
    (∀ k, k < h.next → (h.allocVecs vs).1.objs k = h.objs k) ∧
    (h.allocVecs vs).2 = List.range' h.next vs.length ∧
    (h.allocVecs vs).2.filterMap (h.allocVecs vs).1.vecOf = vs ∧
    (∀ k, h.next ≤ k → k < h.next + vs.length → ∃ x fp, (h.allocVecs vs).1.objs k = some (.vec x fp)) := by
  induction vs generalizing h with
  | nil => simp [allocVecs, wf]; intro k h1 h2; omega
  | cons v vs ih =>
    have wf1 := allocVec_wf h v wf
    obtain ⟨a, b, c, d, e, f, g⟩ := ih (h.allocVec v).1 wf1
    simp only [allocVecs]
    refine ⟨a, ?_, ?_, ?_, ?_, ?_, ?_⟩
    · rw [b, allocVec_next]; simp; omega
    · rw [c, allocVec_roots]
    · intro k hk
      rw [d k (by rw [allocVec_next]; omega)]
      exact allocVec_objs_lt h v k (by omega)
    · rw [e, allocVec_next, allocVec_id]; simp [List.range'_succ]
    · simp only [List.filterMap_cons]
      have : (allocVecs (h.allocVec v).1 vs).1.vecOf (h.allocVec v).2 = some v := by
        unfold vecOf obj
        rw [d _ (by rw [allocVec_id, allocVec_next]; omega), allocVec_id, allocVec_new]
      rw [this, f]
    · intro k h1 h2
      by_cases ek : k = h.next
      · subst ek
        exact ⟨v, none, by rw [d _ (by rw [allocVec_next]; omega), allocVec_new]⟩
      · exact g k (by rw [allocVec_next]; omega) (by rw [allocVec_next]; simp at h2; omega)

/-- allocation of a fresh object graph: well-formedness is kept, nothing old is touched, and the new object
    shows exactly the requested value -/
theorem alloc_spec (h : Heap) (a : AbsVal) (wf : WF h) :
    WF (h.alloc a).1 ∧
    h.next ≤ (h.alloc a).2 ∧ (h.alloc a).2 < (h.alloc a).1.next ∧
    (h.alloc a).1.roots = h.roots ∧
    (∀ k, k < h.next → (h.alloc a).1.objs k = h.objs k) ∧
    (h.alloc a).1.abs (h.alloc a).2 = some a := by
  cases a with
  | vec v =>
    refine ⟨allocVec_wf h v wf, Nat.le_refl _, ?_, rfl, ?_, ?_⟩
    · show h.next < h.next + 1; omega
    · intro k hk; exact allocVec_objs_lt h v k (by omega)
    · show (h.allocVec v).1.abs h.next = _
      simp [abs, obj, allocVec_new]
  | tab cols =>
    obtain ⟨a, b, c, d, e, f, g⟩ := allocVecs_spec h cols wf
    simp only [alloc]
    generalize hh1 : h.allocVecs cols = p at a b c d e f g
    obtain ⟨h1, os⟩ := p
    simp only at a b c d e f g ⊢
    have hos : ∀ c ∈ os, h.next ≤ c ∧ c < h1.next := by
      intro c hc; rw [e] at hc; rw [b]; simpa [List.mem_range'_1] using hc
    refine ⟨?_, ?_, ?_, c, ?_, ?_⟩
    · constructor
      · intro k hk; simp only at hk ⊢
        rw [upd_ne _ _ _ _ (by omega)]; exact a.fresh k (by omega)
      · intro r o hr; simp only at hr ⊢
        have := a.roots_lt r o hr; omega
      · intro o cs ho x hx
        simp only at ho ⊢
        by_cases eo : o = h1.next
        · subst eo; simp at ho; subst ho
          obtain ⟨y, fp, hy⟩ := g x (hos x hx).1 (by rw [← b]; exact (hos x hx).2)
          exact ⟨y, fp, by rw [upd_ne _ _ _ _ (Nat.ne_of_lt (hos x hx).2)]; exact hy⟩
        · rw [upd_ne _ _ _ _ eo] at ho
          obtain ⟨y, fp, hy⟩ := a.cols_vec o cs ho x hx
          exact ⟨y, fp, by rw [upd_ne _ _ _ _ (Nat.ne_of_lt (a.lt_of_some hy))]; exact hy⟩
      · intro o1 o2 c1 c2 x h1' h2' m1 m2
        simp only at h1' h2'
        -- a table of `h1` lives below `h.next`, and so do its columns
        have old : ∀ o cs, h1.objs o = some (.tab cs) → ∀ y ∈ cs, y < h.next := by
          intro o cs ho y hy
          have ho_lt : o < h.next := by
            rcases Nat.lt_or_ge o h.next with l | l
            · exact l
            · have := a.lt_of_some ho
              obtain ⟨z, fp, hz⟩ := g o l (by rw [← b]; exact this)
              rw [hz] at ho; cases ho
          rw [d o ho_lt] at ho
          obtain ⟨z, fp, hz⟩ := wf.cols_vec o cs ho y hy
          exact wf.lt_of_some hz
        by_cases e1 : o1 = h1.next <;> by_cases e2 : o2 = h1.next
        · rw [e1, e2]
        · subst e1; simp at h1'; subst h1'
          rw [upd_ne _ _ _ _ e2] at h2'
          have := old o2 c2 h2' x m2; have := (hos x m1).1; omega
        · subst e2; simp at h2'; subst h2'
          rw [upd_ne _ _ _ _ e1] at h1'
          have := old o1 c1 h1' x m1; have := (hos x m2).1; omega
        · rw [upd_ne _ _ _ _ e1] at h1'; rw [upd_ne _ _ _ _ e2] at h2'
          exact a.own o1 o2 c1 c2 x h1' h2' m1 m2
      · intro o cs ho
        simp only at ho
        by_cases eo : o = h1.next
        · subst eo; simp at ho; subst ho; rw [e]; exact List.nodup_range'
        · rw [upd_ne _ _ _ _ eo] at ho; exact a.nodup o cs ho
    · show h.next ≤ h1.next; omega
    · show h1.next < h1.next + 1; omega
    · intro k hk
      show upd h1.objs h1.next _ k = _
      rw [upd_ne _ _ _ _ (by omega)]; exact d k hk
    · simp only [abs, obj, upd_same]
      congr 2
      rw [← f]
      apply filterMap_congr'
      intro x hx
      apply vecOf_congr
      exact upd_ne _ _ _ _ (Nat.ne_of_lt (hos x hx).2)


/-! #### well-formedness is preserved by every step -/

theorem wf_bind_root (h : Heap) (r o : Nat) (wf : WF h) (ho : o < h.next) :
    WF { h with roots := upd h.roots r (some o) } := by
  refine ⟨wf.fresh, ?_, wf.cols_vec, wf.own, wf.nodup⟩
  intro r' o' hr
  simp only [upd] at hr
  split at hr
  · cases hr; exact ho
  · exact wf.roots_lt r' o' hr

theorem wf_drop_root (h : Heap) (r : Nat) (wf : WF h) : WF { h with roots := upd h.roots r none } := by
  refine ⟨wf.fresh, ?_, wf.cols_vec, wf.own, wf.nodup⟩
  intro r' o' hr
  simp only [upd] at hr
  split at hr
  · cases hr
  · exact wf.roots_lt r' o' hr

/-- replacing the fields of a vector object (content and/or memo) keeps the heap well-formed -/
theorem wf_upd_vec (h : Heap) (o : Nat) (v0 v : VecVal) (fp0 fp : Option Int) (wf : WF h)
    (ho : h.objs o = some (.vec v0 fp0)) : WF { h with objs := upd h.objs o (some (.vec v fp)) } := by
  have tabs : ∀ k cs, upd h.objs o (some (.vec v fp)) k = some (.tab cs) → h.objs k = some (.tab cs) := by
    intro k cs hk
    by_cases e : k = o
    · subst e; simp at hk
    · rwa [upd_ne _ _ _ _ e] at hk
  constructor
  · intro k hk; simp only at hk ⊢
    have : k ≠ o := by have := wf.lt_of_some ho; omega
    rw [upd_ne _ _ _ _ this]; exact wf.fresh k hk
  · exact wf.roots_lt
  · intro t cs ht c hc
    obtain ⟨x, f, hx⟩ := wf.cols_vec t cs (tabs t cs ht) c hc
    simp only
    by_cases e : c = o
    · subst e; exact ⟨v, fp, by simp⟩
    · exact ⟨x, f, by rw [upd_ne _ _ _ _ e]; exact hx⟩
  · intro o1 o2 c1 c2 c h1 h2 m1 m2
    exact wf.own o1 o2 c1 c2 c (tabs _ _ h1) (tabs _ _ h2) m1 m2
  · intro t cs ht; exact wf.nodup t cs (tabs t cs ht)

theorem setVec_wf (h : Heap) (o : Nat) (v : VecVal) (wf : WF h) : WF (h.setVec o v) := by
  unfold setVec
  split
  · rename_i v0 fp0 ho
    exact wf_upd_vec h o v0 v fp0 none wf ho
  · exact wf

theorem setVecs_wf (h : Heap) (os : List Nat) (vs : List VecVal) (wf : WF h) : WF (h.setVecs os vs) := by
  induction os generalizing h vs with
  | nil => simpa [setVecs] using wf
  | cons o os ih =>
    cases vs with
    | nil => simpa [setVecs] using wf
    | cons v vs => simp only [setVecs]; exact ih _ _ (setVec_wf h o v wf)

theorem memo_wf (fpOf : VecVal → Int) (h : Heap) (oc : Nat) (wf : WF h) : WF (memo fpOf h oc) := by
  unfold memo
  split
  · rename_i v fp0 ho
    exact wf_upd_vec h oc v v fp0 _ wf ho
  · exact wf

theorem memo_foldl_wf (fpOf : VecVal → Int) (cols : List Nat) (h : Heap) (wf : WF h) :
    WF (cols.foldl (memo fpOf) h) := by
  induction cols generalizing h with
  | nil => exact wf
  | cons c cs ih => exact ih _ (memo_wf fpOf h c wf)

theorem step_wf (fpOf : VecVal → Int) (h : Heap) (op : HOp) (wf : WF h) : WF (step fpOf h op) := by
  cases op with
  | derive dst val =>
    obtain ⟨a, _, c, _, _, _⟩ := alloc_spec h val wf
    simp only [step]
    exact wf_bind_root _ _ _ a c
  | getCol dst t j =>
    simp only [step]
    split
    · rename_i ot hot
      split
      · rename_i cols hcols
        split
        · rename_i oc hoc
          apply wf_bind_root _ _ _ wf
          obtain ⟨x, f, hx⟩ := wf.cols_vec ot cols hcols oc (List.mem_of_getElem? hoc)
          exact wf.lt_of_some hx
        · exact wf
      · exact wf
    · exact wf
  | setAttr t j src =>
    simp only [step]
    split
    · rename_i ot os hot hos
      split
      · rename_i cols sv hcols hsv
        split
        · rename_i oc hoc
          -- allocate the copy, then swap it in
          have hoc_mem : oc ∈ cols := List.mem_of_getElem? hoc
          have hj : j < cols.length := by
            rcases List.getElem?_eq_some_iff.mp hoc with ⟨hj, _⟩; exact hj
          generalize hnm : (h.vecOf oc).bind (·.name) = nm
          have wf1 := allocVec_wf h { sv with name := nm } wf
          have hot_lt : ot < h.next := wf.lt_of_some hcols
          have hcols1 : (h.allocVec { sv with name := nm }).1.objs ot = some (.tab cols) := by
            rw [allocVec_objs_lt _ _ _ (by omega)]; exact hcols
          simp only [allocVec_id]
          -- abbreviations
          generalize hh1 : (h.allocVec { sv with name := nm }).1 = h1 at wf1 hcols1
          have hnext1 : h1.next = h.next + 1 := by rw [← hh1]; rfl
          have hnew : h1.objs h.next = some (.vec { sv with name := nm } none) := by rw [← hh1]; exact allocVec_new _ _
          have colslt : ∀ o cs, h1.objs o = some (.tab cs) → ∀ y ∈ cs, y < h.next := by
            intro o cs ho y hy
            have ho' : h.objs o = some (.tab cs) := by
              by_cases e : o = h.next
              · subst e; rw [hnew] at ho; cases ho
              · rw [← hh1, allocVec_objs_lt _ _ _ e] at ho; exact ho
            obtain ⟨z, fp, hz⟩ := wf.cols_vec o cs ho' y hy
            exact wf.lt_of_some hz
          have tabs : ∀ k cs, k ≠ ot → upd h1.objs ot (some (.tab (cols.set j h.next))) k = some (.tab cs) →
              h1.objs k = some (.tab cs) := by
            intro k cs hk hh; rwa [upd_ne _ _ _ _ hk] at hh
          constructor
          · intro k hk; simp only at hk ⊢
            rw [upd_ne _ _ _ _ (by omega)]; exact wf1.fresh k hk
          · exact wf1.roots_lt
          · intro o cs ho c hc
            simp only at ho ⊢
            by_cases eo : o = ot
            · subst eo; simp at ho; subst ho
              rcases List.mem_or_eq_of_mem_set hc with hm | he
              · obtain ⟨x, f, hx⟩ := wf1.cols_vec o cols hcols1 c hm
                have : c ≠ o := by intro e; subst e; rw [hcols1] at hx; cases hx
                exact ⟨x, f, by rw [upd_ne _ _ _ _ this]; exact hx⟩
              · subst he
                exact ⟨_, none, by rw [upd_ne _ _ _ _ (by omega)]; exact hnew⟩
            · obtain ⟨x, f, hx⟩ := wf1.cols_vec o cs (tabs o cs eo ho) c hc
              have : c ≠ ot := by intro e; subst e; rw [hcols1] at hx; cases hx
              exact ⟨x, f, by rw [upd_ne _ _ _ _ this]; exact hx⟩
          · intro o1 o2 c1 c2 c h1' h2' m1 m2
            simp only at h1' h2'
            by_cases e1 : o1 = ot <;> by_cases e2 : o2 = ot
            · rw [e1, e2]
            · subst e1; simp at h1'; subst h1'
              have h2'' := tabs o2 c2 e2 h2'
              rcases List.mem_or_eq_of_mem_set m1 with hm | he
              · exact wf1.own o1 o2 cols c2 c hcols1 h2'' hm m2
              · subst he; have := colslt o2 c2 h2'' _ m2; omega
            · subst e2; simp at h2'; subst h2'
              have h1'' := tabs o1 c1 e1 h1'
              rcases List.mem_or_eq_of_mem_set m2 with hm | he
              · exact wf1.own o1 o2 c1 cols c h1'' hcols1 m1 hm
              · subst he; have := colslt o1 c1 h1'' _ m1; omega
            · exact wf1.own o1 o2 c1 c2 c (tabs _ _ e1 h1') (tabs _ _ e2 h2') m1 m2
          · intro o cs ho
            simp only at ho
            by_cases eo : o = ot
            · subst eo; simp at ho; subst ho
              have nd := wf1.nodup o cols hcols1
              have notin : h.next ∉ cols := fun hm => by have := colslt o cols hcols1 _ hm; omega
              exact nodup_set_of_not_mem cols j h.next nd notin
            · exact wf1.nodup o cs (tabs o cs eo ho)
        · exact wf
      · exact wf
    · exact wf
  | mutate r v =>
    simp only [step]; split
    · exact setVec_wf _ _ _ wf
    · exact wf
  | tabMutate t vs =>
    simp only [step]; split
    · split
      · exact setVecs_wf _ _ _ wf
      · exact wf
    · exact wf
  | drop r => exact wf_drop_root h r wf
  | fingerprint r =>
    simp only [step]; split
    · rename_i o ho
      split
      · rename_i v fp0 hv
        exact wf_upd_vec h o v v fp0 _ wf hv
      · rename_i cols hc
        exact memo_foldl_wf fpOf cols h wf
      · exact wf
    · exact wf
  | noop => exact wf

theorem run_wf (fpOf : VecVal → Int) (ops : List HOp) (h : Heap) (wf : WF h) : WF (run fpOf h ops) := by
  induction ops generalizing h with
  | nil => exact wf
  | cons op ops ih => exact ih _ (step_wf fpOf h op wf)


/-! #### memoising a fingerprint changes what no object shows -/

theorem abs_upd_memo (h : Heap) (c : Nat) (v : VecVal) (fp0 fp : Option Int)
    (hc : h.objs c = some (.vec v fp0)) (o : Nat) :
    ({ h with objs := upd h.objs c (some (.vec v fp)) } : Heap).abs o = h.abs o := by
  have hv : ∀ x, ({ h with objs := upd h.objs c (some (.vec v fp)) } : Heap).vecOf x = h.vecOf x := by
    intro x
    unfold vecOf obj
    by_cases e : x = c
    · subst e; simp [hc]
    · simp [upd_ne _ _ _ _ e]
  unfold abs obj
  by_cases e : o = c
  · subst e; simp [hc]
  · simp only [upd_ne _ _ _ _ e]
    cases h.objs o with
    | none => rfl
    | some ob =>
      cases ob with
      | vec _ _ => rfl
      | tab cols =>
        simp only
        congr 2
        exact filterMap_congr' (fun x _ => hv x)

theorem memo_abs (fpOf : VecVal → Int) (g : Heap) (c o : Nat) : (memo fpOf g c).abs o = g.abs o := by
  unfold memo
  split
  · rename_i v fp0 hv
    exact abs_upd_memo g c v fp0 _ hv o
  · rfl

theorem memo_roots (fpOf : VecVal → Int) (g : Heap) (c : Nat) : (memo fpOf g c).roots = g.roots := by
  unfold memo; split <;> rfl

theorem memo_foldl_abs (fpOf : VecVal → Int) (cols : List Nat) (g : Heap) (o : Nat) :
    (cols.foldl (memo fpOf) g).abs o = g.abs o := by
  induction cols generalizing g with
  | nil => rfl
  | cons c cs ih => simp only [List.foldl_cons]; rw [ih, memo_abs]

theorem memo_foldl_roots (fpOf : VecVal → Int) (cols : List Nat) (g : Heap) :
    (cols.foldl (memo fpOf) g).roots = g.roots := by
  induction cols generalizing g with
  | nil => rfl
  | cons c cs ih => simp only [List.foldl_cons]; rw [ih, memo_roots]

end Heap
end Serif
