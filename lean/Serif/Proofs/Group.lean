/- Helper lemmas for the group-by model (used by Props/C12, Props/C13). -/
import Serif.Model.Group

namespace Serif

/-! ### insertion-ordered dictionary -/
namespace Dict
variable {κ ν : Type} [DecidableEq κ]

theorem get?_upsert (d : Dict κ ν) (k k' : κ) (f : Option ν → ν) :
    Dict.get? (Dict.upsert d k f) k' = if k = k' then some (f (Dict.get? d k)) else Dict.get? d k' := by
  induction d with
  | nil => simp [upsert, get?]
  | cons p rest ih =>
    obtain ⟨a, v⟩ := p
    by_cases h : a = k
    · subst h
      by_cases h' : a = k' <;> simp [upsert, get?, h']
    · by_cases h' : a = k'
      · subst h'
        have : ¬ k = a := fun e => h e.symm
        simp [upsert, get?, h, this]
      · simp [upsert, get?, h, h', ih]

theorem keys_upsert (d : Dict κ ν) (k : κ) (f : Option ν → ν) :
    Dict.keys (Dict.upsert d k f) = if k ∈ Dict.keys d then Dict.keys d else Dict.keys d ++ [k] := by
  induction d with
  | nil => simp [upsert, keys]
  | cons p rest ih =>
    obtain ⟨a, v⟩ := p
    by_cases h : a = k
    · subst h; simp [upsert, keys]
    · have hk : ¬ k = a := fun e => h e.symm
      simp only [keys] at ih
      simp only [upsert, h, if_false, keys, List.map_cons, List.mem_cons, hk, false_or, ih]
      split <;> simp [*]

theorem get?_eq_none_of_not_mem (d : Dict κ ν) (k : κ) (h : k ∉ Dict.keys d) : Dict.get? d k = none := by
  induction d with
  | nil => rfl
  | cons p rest ih =>
    obtain ⟨a, v⟩ := p
    simp only [keys, List.map_cons, List.mem_cons, not_or] at h
    have : ¬ a = k := fun e => h.1 e.symm
    simp only [get?, this, if_false]
    exact ih h.2

theorem get?_isSome_of_mem (d : Dict κ ν) (k : κ) (h : k ∈ Dict.keys d) : (Dict.get? d k).isSome := by
  induction d with
  | nil => simp [keys] at h
  | cons p rest ih =>
    obtain ⟨a, v⟩ := p
    by_cases e : a = k
    · simp [get?, e]
    · simp only [keys, List.map_cons, List.mem_cons] at h
      rcases h with h | h
      · exact absurd h.symm e
      · simp only [get?, e, if_false]; exact ih h

/-- a dictionary with distinct keys is its key list paired with the looked-up values -/
theorem eq_map_keys (d : Dict κ ν) (dflt : ν) (h : (Dict.keys d).Nodup) :
    d = (Dict.keys d).map (fun k => (k, (Dict.get? d k).getD dflt)) := by
  induction d with
  | nil => rfl
  | cons p rest ih =>
    obtain ⟨a, v⟩ := p
    simp only [keys, List.map_cons, List.nodup_cons] at h
    simp only [keys, List.map_cons, get?, if_true, Option.getD_some, List.cons.injEq, true_and]
    rw [List.map_map]
    conv => lhs; rw [ih h.2]
    simp only [keys, List.map_map]
    apply List.map_congr_left
    intro p hp
    have : ¬ a = p.1 := by
      intro e; apply h.1; rw [e]; exact List.mem_map.mpr ⟨p, hp, rfl⟩
    simp [this]

end Dict

namespace Group
variable {κ : Type} [DecidableEq κ]

/-! ### `dedup` : distinct keys in first-appearance order -/

theorem mem_dedup (l : List κ) (x : κ) : x ∈ dedup l ↔ x ∈ l := by
  induction l with
  | nil => simp [dedup]
  | cons k ks ih =>
    simp only [dedup, List.mem_cons, List.mem_filter, decide_eq_true_eq, ih]
    by_cases h : x = k <;> simp [h]

theorem dedup_nodup (l : List κ) : (dedup l).Nodup := by
  induction l with
  | nil => simp [dedup]
  | cons k ks ih =>
    simp only [dedup, List.nodup_cons, List.mem_filter, decide_eq_true_eq]
    exact ⟨fun h => h.2 rfl, ih.filter _⟩

theorem dedup_sublist (l : List κ) : (dedup l).Sublist l := by
  induction l with
  | nil => simp [dedup]
  | cons k ks ih =>
    simp only [dedup]
    exact List.Sublist.cons_cons _ (List.Sublist.trans List.filter_sublist ih)

/-- the distinct keys are ordered by the position of their first occurrence -/
theorem dedup_sorted_by_first_index (l : List κ) :
    (dedup l).Pairwise (fun a b => l.idxOf a < l.idxOf b) := by
  induction l with
  | nil => simp [dedup]
  | cons k ks ih =>
    simp only [dedup, List.pairwise_cons, List.mem_filter, decide_eq_true_eq]
    constructor
    · intro b hb
      have : (k == b) = false := by simp; exact fun e => hb.2 e.symm
      simp [List.idxOf_cons, this]
    · have h1 := ih.filter (fun x => decide (x ≠ k))
      refine List.Pairwise.imp_of_mem ?_ h1
      intro a b ha hb hab
      simp only [List.mem_filter, decide_eq_true_eq] at ha hb
      have e1 : (k == a) = false := by simp; exact fun e => ha.2 e.symm
      have e2 : (k == b) = false := by simp; exact fun e => hb.2 e.symm
      simp [List.idxOf_cons, e1, e2, hab]

/-! ### the partition loop -/

/-- row indices `i, i+1, …` at which `k` occurs in `ks` -/
def matchesFrom : List κ → Nat → κ → List Nat
  | [], _, _ => []
  | x :: xs, i, k => if x = k then i :: matchesFrom xs (i + 1) k else matchesFrom xs (i + 1) k

def bucket (d : Dict κ (List Nat)) (k : κ) : List Nat := (Dict.get? d k).getD []

theorem bucket_addRow (d : Dict κ (List Nat)) (k' k : κ) (i : Nat) :
    bucket (addRow d k' i) k = if k' = k then bucket d k ++ [i] else bucket d k := by
  unfold bucket addRow
  rw [Dict.get?_upsert]
  by_cases h : k' = k
  · subst h
    cases Dict.get? d k' <;> simp
  · simp [h]

theorem bucket_partitionFrom (ks : List κ) (i : Nat) (d : Dict κ (List Nat)) (k : κ) :
    bucket (partitionFrom ks i d) k = bucket d k ++ matchesFrom ks i k := by
  induction ks generalizing i d with
  | nil => simp [partitionFrom, matchesFrom]
  | cons x xs ih =>
    simp only [partitionFrom, matchesFrom]
    rw [ih, bucket_addRow]
    by_cases h : x = k <;> simp [h]

theorem keys_addRow (d : Dict κ (List Nat)) (k : κ) (i : Nat) :
    Dict.keys (addRow d k i) = if k ∈ Dict.keys d then Dict.keys d else Dict.keys d ++ [k] :=
  Dict.keys_upsert d k _

theorem keys_partitionFrom (ks : List κ) (i : Nat) (d : Dict κ (List Nat)) :
    Dict.keys (partitionFrom ks i d) =
      Dict.keys d ++ (dedup ks).filter (fun x => decide (x ∉ Dict.keys d)) := by
  induction ks generalizing i d with
  | nil => simp [partitionFrom, dedup]
  | cons k ks ih =>
    simp only [partitionFrom, dedup]
    rw [ih, keys_addRow]
    by_cases h : k ∈ Dict.keys d
    · simp only [h, if_true, List.filter_cons, not_true_eq_false, decide_false, Bool.false_eq_true,
        if_false, List.filter_filter, List.append_cancel_left_eq]
      apply List.filter_congr
      intro x _
      by_cases hx : x ∈ Dict.keys d
      · simp [hx]
      · have : x ≠ k := fun e => hx (e ▸ h)
        simp [hx, this]
    · simp only [h, if_false, List.filter_cons, not_false_eq_true, decide_true, if_true,
        List.filter_filter, List.append_assoc, List.singleton_append, List.append_cancel_left_eq,
        List.cons.injEq, true_and]
      apply List.filter_congr
      intro x _
      by_cases hx : x ∈ Dict.keys d <;> by_cases hk : x = k <;> simp [hx, hk]

theorem matchesFrom_eq_map (ks : List κ) (i : Nat) (k : κ) :
    matchesFrom ks i k = (rowsOf ks k).map (· + i) := by
  induction ks generalizing i with
  | nil => simp [matchesFrom, rowsOf]
  | cons x xs ih =>
    simp only [matchesFrom, rowsOf, List.length_cons, List.range_succ_eq_map, List.filter_cons,
      List.getElem?_cons_zero, Option.some.injEq, List.filter_map]
    have hf : (List.filter ((fun i => decide ((x :: xs)[i]? = some k)) ∘ Nat.succ) (List.range xs.length))
        = rowsOf xs k := by
      unfold rowsOf
      apply List.filter_congr
      intro j _
      simp
    rw [hf, ih (i + 1)]
    by_cases h : x = k
    · simp [h, List.map_map, Nat.add_comm, Nat.add_left_comm]
    · simp [h, List.map_map]
      intro a _; omega

theorem matchesFrom_zero (ks : List κ) (k : κ) : matchesFrom ks 0 k = rowsOf ks k := by
  rw [matchesFrom_eq_map]; simp

/-- `group_items` in closed form: one entry per distinct key, in first-appearance order,
    holding exactly the rows with that key, ascending -/
theorem partition_eq (keys : List κ) :
    partition keys = (dedup keys).map (fun k => (k, rowsOf keys k)) := by
  have hk : Dict.keys (partition keys) = dedup keys := by
    unfold partition
    rw [keys_partitionFrom]
    simp [Dict.keys]
  have hn : (Dict.keys (partition keys)).Nodup := hk ▸ dedup_nodup keys
  rw [Dict.eq_map_keys (partition keys) [] hn, hk]
  apply List.map_congr_left
  intro k _
  have := bucket_partitionFrom keys 0 [] k
  simp only [bucket, Dict.get?, Option.getD_none, List.nil_append] at this
  unfold partition
  rw [this, matchesFrom_zero]

theorem mem_rowsOf (keys : List κ) (k : κ) (i : Nat) : i ∈ rowsOf keys k ↔ keys[i]? = some k := by
  simp only [rowsOf, List.mem_filter, List.mem_range, decide_eq_true_eq]
  constructor
  · exact fun h => h.2
  · intro h
    refine ⟨?_, h⟩
    by_cases hl : i < keys.length
    · exact hl
    · rw [List.getElem?_eq_none (by omega)] at h; cases h

theorem rowsOf_ascending (keys : List κ) (k : κ) : (rowsOf keys k).Pairwise (· < ·) :=
  List.Pairwise.sublist List.filter_sublist List.pairwise_lt_range

theorem rowsOf_ne_nil (keys : List κ) (k : κ) (h : k ∈ keys) : rowsOf keys k ≠ [] := by
  obtain ⟨i, hi, e⟩ := List.getElem_of_mem h
  intro hn
  have : i ∈ rowsOf keys k := (mem_rowsOf keys k i).mpr (by rw [List.getElem?_eq_getElem hi, e])
  rw [hn] at this; cases this

/-! ### gathering by index = grouping by hand -/

theorem matchesFrom_ge (ks : List κ) (i : Nat) (k : κ) : ∀ j ∈ matchesFrom ks i k, i ≤ j := by
  induction ks generalizing i with
  | nil => simp [matchesFrom]
  | cons x xs ih =>
    intro j hj
    simp only [matchesFrom] at hj
    split at hj
    · rcases List.mem_cons.mp hj with rfl | h
      · exact Nat.le_refl _
      · exact Nat.le_of_succ_le (ih _ _ h)
    · exact Nat.le_of_succ_le (ih _ _ hj)

theorem gather_out_of_range {α : Type} (data : List α) (rows : List Nat)
    (h : ∀ j ∈ rows, data.length ≤ j) : gather data rows = [] := by
  induction rows with
  | nil => rfl
  | cons r rs ih =>
    have h0 := h r List.mem_cons_self
    have : data[r]? = none := List.getElem?_eq_none h0
    simp only [gather, List.filterMap_cons, this]
    exact ih (fun j hj => h j (List.mem_cons_of_mem _ hj))

theorem groupVals_nil_left {α : Type} (data : List α) (k : κ) : groupVals ([] : List κ) data k = [] := by
  cases data <;> rfl

theorem groupVals_nil_right {α : Type} (ks : List κ) (k : κ) : groupVals ks ([] : List α) k = [] := by
  cases ks <;> rfl

theorem gather_matchesFrom {α : Type} (ks : List κ) (k : κ) (pre data : List α) :
    gather (pre ++ data) (matchesFrom ks pre.length k) = groupVals ks data k := by
  induction ks generalizing pre data with
  | nil => simp [matchesFrom, gather, groupVals_nil_left]
  | cons x xs ih =>
    cases data with
    | nil =>
      rw [groupVals_nil_right]
      apply gather_out_of_range
      intro j hj
      simpa using matchesFrom_ge _ _ _ j hj
    | cons v vs =>
      have hsplit : pre ++ v :: vs = (pre ++ [v]) ++ vs := by simp
      have hlen : (pre ++ [v]).length = pre.length + 1 := by simp
      have hrec := ih (pre ++ [v]) vs
      rw [hlen, ← hsplit] at hrec
      simp only [matchesFrom, groupVals]
      by_cases h : x = k
      · simp only [h, if_true, gather, List.filterMap_cons]
        have : (pre ++ v :: vs)[pre.length]? = some v := by simp
        rw [this]
        simp only [gather] at hrec
        rw [hrec]
      · simp only [h, if_false]
        exact hrec

/-- the values gathered through the row indices of `k` are the values of the rows whose key is `k` -/
theorem gather_rowsOf {α : Type} (keys : List κ) (data : List α) (k : κ) :
    gather data (rowsOf keys k) = groupVals keys data k := by
  have := gather_matchesFrom keys k [] data
  simpa [matchesFrom_zero] using this

/-- `aggregate_col` with any function = textbook group-by -/
theorem aggCol_partition {α β : Type} (data : List α) (keys : List κ) (f : List α → β) :
    aggCol data (partition keys) f = aggSpec data keys f := by
  unfold aggCol aggSpec
  rw [partition_eq, List.map_map]
  apply List.map_congr_left
  intro k _
  simp [gather_rowsOf]

theorem callLog_partition {α : Type} (data : List α) (keys : List κ) :
    callLog data (partition keys) = (dedup keys).map (fun k => groupVals keys data k) := by
  unfold callLog
  rw [partition_eq, List.map_map]
  apply List.map_congr_left
  intro k _
  simp [gather_rowsOf]

/-! ### window -/

theorem upsert_of_not_mem {ν : Type} (d : Dict κ ν) (k : κ) (f : Option ν → ν) (h : k ∉ Dict.keys d) :
    Dict.upsert d k f = d ++ [(k, f none)] := by
  induction d with
  | nil => rfl
  | cons p rest ih =>
    obtain ⟨a, v⟩ := p
    simp only [Dict.keys, List.map_cons, List.mem_cons, not_or] at h
    have : ¬ a = k := fun e => h.1 e.symm
    simp only [Dict.upsert, this, if_false, List.cons_append, List.cons.injEq, true_and]
    exact ih h.2

theorem foldl_upsert_fresh {ν : Type} (gs : List (κ × List Nat)) (F : κ × List Nat → ν) (acc : Dict κ ν)
    (hn : (gs.map (·.1)).Nodup) (hd : ∀ g ∈ gs, g.1 ∉ Dict.keys acc) :
    gs.foldl (fun out g => Dict.upsert out g.1 (fun _ => F g)) acc = acc ++ gs.map (fun g => (g.1, F g)) := by
  induction gs generalizing acc with
  | nil => simp
  | cons g gs ih =>
    simp only [List.map_cons, List.nodup_cons] at hn
    simp only [List.foldl_cons]
    rw [upsert_of_not_mem _ _ _ (hd g List.mem_cons_self), ih _ hn.2]
    · simp
    · intro g' hg'
      simp only [Dict.keys, List.map_append, List.map_cons, List.map_nil, List.mem_append,
        List.mem_singleton, not_or]
      refine ⟨hd g' (List.mem_cons_of_mem _ hg'), ?_⟩
      intro e
      exact hn.1 (e ▸ List.mem_map.mpr ⟨g', hg', rfl⟩)

theorem computeGroupValues_partition {α β : Type} (data : List α) (keys : List κ) (f : List α → β) :
    computeGroupValues data (partition keys) f =
      (dedup keys).map (fun k => (k, f (groupVals keys data k))) := by
  unfold computeGroupValues
  rw [foldl_upsert_fresh]
  · rw [partition_eq]
    simp [List.map_map, Function.comp_def, gather_rowsOf]
  · rw [partition_eq]
    simpa [List.map_map, Function.comp_def] using dedup_nodup keys
  · intro g _; simp [Dict.keys]

theorem get?_map_pair {ν : Type} (l : List κ) (G : κ → ν) (k : κ) (h : k ∈ l) :
    Dict.get? (l.map (fun k => (k, G k))) k = some (G k) := by
  induction l with
  | nil => cases h
  | cons x xs ih =>
    by_cases e : x = k
    · simp [Dict.get?, e]
    · rcases List.mem_cons.mp h with h | h
      · exact absurd h.symm e
      · simp only [List.map_cons, Dict.get?, e, if_false]; exact ih h

theorem expandToRows_map {ν : Type} (l : List κ) (G : κ → ν) (ks : List κ) (h : ∀ k ∈ ks, k ∈ l) :
    expandToRows (l.map (fun k => (k, G k))) ks = .ok (ks.map G) := by
  induction ks with
  | nil => rfl
  | cons k ks ih =>
    simp only [expandToRows]
    rw [get?_map_pair l G k (h k List.mem_cons_self), ih (fun k' hk' => h k' (List.mem_cons_of_mem _ hk'))]
    rfl

/-- window never hits a missing key, and row `i` receives the value of the group of `keys[i]` -/
theorem windowCol_eq {α β : Type} (data : List α) (keys : List κ) (f : List α → β) :
    windowCol data keys f = .ok (keys.map (fun k => f (groupVals keys data k))) := by
  unfold windowCol
  rw [computeGroupValues_partition]
  exact expandToRows_map (dedup keys) (fun k => f (groupVals keys data k)) keys
    (fun k hk => (mem_dedup keys k).mpr hk)

theorem getElem?_map_idxOf {ν : Type} (l : List κ) (G : κ → ν) (k : κ) (h : k ∈ l) :
    (l.map G)[l.idxOf k]? = some (G k) := by
  induction l with
  | nil => cases h
  | cons x xs ih =>
    by_cases e : x = k
    · simp [e]
    · have e' : (x == k) = false := by simp [e]
      rcases List.mem_cons.mp h with h | h
      · exact absurd h.symm e
      · simp [List.idxOf_cons, e', ih h]

/-! ### the built-in aggregators -/

theorem foldl_add_int (c : List Int) (a : Int) : c.foldl (· + ·) a = a + c.sum := by
  induction c generalizing a with
  | nil => simp
  | cons x xs ih => simp only [List.foldl_cons, List.sum_cons]; rw [ih]; omega

theorem isum_eq_sum (c : List Int) : isum c = c.sum := by
  unfold isum; rw [foldl_add_int]; omega

theorem foldl_count (c : List Int) (a : Int) : c.foldl (fun a _ => a + 1) a = a + c.length := by
  induction c generalizing a with
  | nil => simp
  | cons x xs ih => simp only [List.foldl_cons, List.length_cons]; rw [ih]; omega

theorem pyMin_eq (c : List Int) : pyMin c = c.min? := by
  cases c with
  | nil => rfl
  | cons x xs =>
    simp only [pyMin, List.min?]
    congr 1
    congr 1
    funext m v
    simp only [Int.min_def]
    split <;> split <;> omega

theorem pyMax_eq (c : List Int) : pyMax c = c.max? := by
  cases c with
  | nil => rfl
  | cons x xs =>
    simp only [pyMax, List.max?]
    congr 1
    congr 1
    funext m v
    simp only [Int.max_def]
    split <;> split <;> omega

theorem foldl_add_rat (c : List Int) (g : Int → Rat) (a : Rat) :
    c.foldl (fun (acc : Rat) (v : Int) => acc + g v) a = a + (c.map g).sum := by
  induction c generalizing a with
  | nil => simp [Rat.add_zero]
  | cons x xs ih => simp only [List.foldl_cons, List.map_cons, List.sum_cons]; rw [ih]; grind

theorem meanF_eq (vals : List (Option Int)) : meanF vals = tbMean (clean vals) := by
  unfold meanF tbMean
  simp only [isum_eq_sum, List.isEmpty_iff]
  
theorem varF_eq (vals : List (Option Int)) : varF vals = tbVar (clean vals) := by
  unfold varF tbVar
  simp only [isum_eq_sum, foldl_add_rat]
  by_cases h : (clean vals).length ≤ 1
  · have : (clean vals).length < 2 := by omega
    simp [h, this]
  · have : ¬ (clean vals).length < 2 := by omega
    simp [h, this, Rat.zero_add]


theorem builtin_eq_textbook (fn : Fn) (vals : List (Option Int)) :
    builtin fn vals = textbook fn (clean vals) := by
  cases fn
  · simp [builtin, textbook, sumF, foldl_add_int]
  · simp [builtin, textbook, meanF_eq]
  · simp [builtin, textbook, minF, pyMin_eq, tbMin]
  · simp [builtin, textbook, maxF, pyMax_eq, tbMax]
  · simp [builtin, textbook, countF, foldl_count]
  · simp [builtin, textbook, varF_eq]

theorem tbMin_spec (c : List Int) (m : Int) : tbMin c = some m ↔ m ∈ c ∧ ∀ v ∈ c, m ≤ v := by
  unfold tbMin
  exact List.min?_eq_some_iff

theorem tbMax_spec (c : List Int) (m : Int) : tbMax c = some m ↔ m ∈ c ∧ ∀ v ∈ c, v ≤ m := by
  unfold tbMax
  exact List.max?_eq_some_iff

theorem vecReduce_eq (fn : Fn) (vals : List (Option Int)) (h : clean vals ≠ []) :
    vecReduce fn vals = some (builtin fn vals) := by
  cases fn
  · simp [vecReduce, builtin, sumF, isum]
  · simp [vecReduce, builtin, meanF]
  · simp only [vecReduce, builtin, minF]
    cases hc : clean vals with
    | nil => exact absurd hc h
    | cons x xs => simp [pyMin]
  · simp only [vecReduce, builtin, maxF]
    cases hc : clean vals with
    | nil => exact absurd hc h
    | cons x xs => simp [pyMax]
  · simp [vecReduce, builtin]
  · simp only [vecReduce, builtin, varF]
    by_cases h1 : (clean vals).length ≤ 1
    · have : (clean vals).length < 2 := by omega
      simp [h1, this]
    · have : ¬ (clean vals).length < 2 := by omega
      simp only [h1, this, if_false, Rat.add_zero]
      have e : (fun (acc : Rat) (x : Int) => acc + ((x : Rat) - ↑(isum (clean vals)) / ↑(clean vals).length) *
            ((x : Rat) - ↑(isum (clean vals)) / ↑(clean vals).length)) =
          (fun (acc : Rat) (v : Int) => acc + ((v : Rat) - ↑(isum (clean vals)) / ↑(clean vals).length) ^ 2) := by
        funext acc x; grind
      rw [e]

theorem sum_sq_dev (c : List Int) (m : Rat) :
    (c.map (fun (v : Int) => ((v : Rat) - m) ^ 2)).sum =
      (c.map (fun (v : Int) => (v : Rat) ^ 2)).sum - 2 * m * (c.map (fun (v : Int) => (v : Rat))).sum
        + (c.length : Rat) * m ^ 2 := by
  induction c with
  | nil => simp; grind
  | cons x xs ih =>
    simp only [List.map_cons, List.sum_cons, List.length_cons]
    rw [ih]
    have : ((xs.length + 1 : Nat) : Rat) = (xs.length : Rat) + 1 := by simp
    rw [this]
    grind

theorem sum_cast (c : List Int) : (c.map (fun (v : Int) => (v : Rat))).sum = ((c.sum : Int) : Rat) := by
  induction c with
  | nil => simp
  | cons x xs ih => simp only [List.map_cons, List.sum_cons]; rw [ih]; simp [Rat.intCast_add]

/-- computational form of the sample variance: (n·Σv² − (Σv)²) / (n·(n−1)) -/
theorem tbVar_second_moment (c : List Int) (h : 2 ≤ c.length) :
    tbVar c = some (((c.length : Rat) * (c.map (fun (v : Int) => (v : Rat) ^ 2)).sum - ((c.sum : Int) : Rat) ^ 2)
      / ((c.length : Rat) * ((c.length : Rat) - 1))) := by
  unfold tbVar
  have h2 : ¬ c.length < 2 := by omega
  simp only [h2, if_false, Option.some.injEq]
  rw [sum_sq_dev, sum_cast]
  have hn : (c.length : Rat) ≠ 0 := by
    have : c.length ≠ 0 := by omega
    exact_mod_cast this
  have hn1 : (c.length : Rat) - 1 ≠ 0 := by
    intro e
    have : (c.length : Rat) = 1 := by grind
    have : c.length = 1 := by exact_mod_cast this
    omega
  grind

/-! ### single group, names -/

theorem dedup_replicate (n : Nat) (k : κ) : dedup (List.replicate (n + 1) k) = [k] := by
  induction n with
  | zero => simp [dedup]
  | succ n ih =>
    rw [List.replicate_succ, dedup, ih]
    simp

theorem groupVals_replicate {α : Type} (vals : List α) (k : κ) :
    groupVals (List.replicate vals.length k) vals k = vals := by
  induction vals with
  | nil => rfl
  | cons v vs ih => simp [List.replicate_succ, groupVals, ih]

theorem aggCol_single_group {α β : Type} (vals : List α) (k : κ) (f : List α → β) (h : vals ≠ []) :
    aggCol vals (partition (List.replicate vals.length k)) f = [f vals] := by
  rw [aggCol_partition, aggSpec]
  cases vals with
  | nil => exact absurd rfl h
  | cons v vs =>
    rw [List.length_cons, dedup_replicate]
    simp only [List.map_cons, List.map_nil]
    rw [← List.length_cons (a := v), groupVals_replicate]

/-! names -/

theorem uniqLoop_congr (sfx : Nat → String) (name : String) (u1 u2 : List String) (fuel i : Nat)
    (h : ∀ j, i ≤ j → (u1.contains (name ++ sfx j) = u2.contains (name ++ sfx j))) :
    uniqLoop sfx name u1 fuel i = uniqLoop sfx name u2 fuel i := by
  induction fuel generalizing i with
  | zero => rfl
  | succ fuel ih =>
    simp only [uniqLoop]
    rw [h i (Nat.le_refl _), ih (i + 1) (fun j hj => h j (by omega))]

/-- with more fuel than `used` has elements the loop stops at the smallest free suffix -/
theorem uniqLoop_spec (sfx : Nat → String) (name : String)
    (hinj : ∀ i j, name ++ sfx i = name ++ sfx j → i = j)
    (fuel : Nat) (used : List String) (i : Nat) (hf : used.length < fuel) :
    ∃ j, i ≤ j ∧ uniqLoop sfx name used fuel i = name ++ sfx j ∧ name ++ sfx j ∉ used ∧
      ∀ j', i ≤ j' → j' < j → name ++ sfx j' ∈ used := by
  induction fuel generalizing used i with
  | zero => omega
  | succ fuel ih =>
    simp only [uniqLoop]
    by_cases hc : name ++ sfx i ∈ used
    · have hc' : used.contains (name ++ sfx i) = true := by simpa using hc
      rw [if_pos hc']
      have hlen : (used.erase (name ++ sfx i)).length < fuel := by
        rw [List.length_erase_of_mem hc]
        have : 0 < used.length := List.length_pos_of_mem hc
        omega
      obtain ⟨j, hij, heq, hnot, hmin⟩ := ih (used.erase (name ++ sfx i)) (i + 1) hlen
      have hmem : ∀ j', i + 1 ≤ j' → (name ++ sfx j' ∈ used.erase (name ++ sfx i) ↔ name ++ sfx j' ∈ used) := by
        intro j' hj'
        have hne : name ++ sfx j' ≠ name ++ sfx i := fun e => by have := hinj _ _ e; omega
        exact List.mem_erase_of_ne hne
      refine ⟨j, by omega, ?_, ?_, ?_⟩
      · rw [← heq]
        apply uniqLoop_congr
        intro j' hj'
        have := hmem j' hj'
        simp only [List.contains_eq_mem]
        exact decide_eq_decide.mpr this.symm
      · exact fun hm => hnot ((hmem j hij).mpr hm)
      · intro j' h1 h2
        by_cases e : j' = i
        · subst e; exact hc
        · exact (hmem j' (by omega)).mp (hmin j' (by omega) h2)
    · have hc' : ¬ used.contains (name ++ sfx i) = true := by simpa using hc
      rw [if_neg hc']
      exact ⟨i, Nat.le_refl _, rfl, hc, fun j' h1 h2 => by omega⟩

theorem uniquify_fresh (sfx : Nat → String) (hinj : ∀ name i j, name ++ sfx i = name ++ sfx j → i = j)
    (used : List String) (name : String) :
    (uniquify sfx used name).1 ∉ used ∧ (uniquify sfx used name).2 = (uniquify sfx used name).1 :: used := by
  unfold uniquify
  by_cases h : name ∈ used
  · have h' : used.contains name = true := by simpa using h
    simp only [h', if_true, and_true]
    obtain ⟨j, _, heq, hnot, _⟩ := uniqLoop_spec sfx name (hinj name) (used.length + 1) used 2 (by omega)
    rw [heq]; exact hnot
  · have h' : ¬ used.contains name = true := by simpa using h
    simp [h]

theorem uniquifyAll_length (sfx : Nat → String) (names used : List String) :
    (uniquifyAll sfx names used).length = names.length := by
  induction names generalizing used with
  | nil => rfl
  | cons n ns ih => simp [uniquifyAll, ih]

theorem uniquifyAll_fresh_nodup (sfx : Nat → String) (hinj : ∀ name i j, name ++ sfx i = name ++ sfx j → i = j)
    (names used : List String) :
    (uniquifyAll sfx names used).Nodup ∧ ∀ x ∈ uniquifyAll sfx names used, x ∉ used := by
  induction names generalizing used with
  | nil => simp [uniquifyAll]
  | cons n ns ih =>
    obtain ⟨hfresh, hused⟩ := uniquify_fresh sfx hinj used n
    obtain ⟨hnd, hnot⟩ := ih (uniquify sfx used n).2
    simp only [uniquifyAll, List.nodup_cons, List.mem_cons]
    refine ⟨⟨?_, hnd⟩, ?_⟩
    · intro hm
      have := hnot _ hm
      rw [hused] at this
      exact this List.mem_cons_self
    · intro x hx
      rcases hx with rfl | hx
      · exact hfresh
      · have := hnot x hx
        rw [hused] at this
        exact fun hm => this (List.mem_cons_of_mem _ hm)

theorem toString_suffix_injective (name : String) (i j : Nat) (h : name ++ toString i = name ++ toString j) : i = j := by
  have h1 : toString i = toString j := (String.append_right_inj name).mp h
  simp only [Nat.toString_eq_repr] at h1
  have h2 := congrArg String.toList h1
  simp only [Nat.toList_repr] at h2
  have := congrArg (fun l => Nat.ofDigitChars 10 l 0) h2
  simpa using this

theorem dict_get?_partition (keys : List κ) (k : κ) :
    Dict.get? (partition keys) k = if k ∈ keys then some (rowsOf keys k) else none := by
  rw [partition_eq]
  by_cases h : k ∈ keys
  · simp only [h, if_true]
    exact get?_map_pair (dedup keys) (rowsOf keys) k ((mem_dedup keys k).mpr h)
  · simp only [h, if_false]
    apply Dict.get?_eq_none_of_not_mem
    simp only [Dict.keys, List.map_map, Function.comp_def, List.map_id']
    exact fun hm => h ((mem_dedup keys k).mp hm)

theorem expand_groupIndex {ν : Type} (keys ks : List κ) (G : κ → ν) (h : ∀ k ∈ ks, k ∈ keys) :
    (ks.map (groupIndex keys)).filterMap (((dedup keys).map G)[·]?) = ks.map G := by
  induction ks with
  | nil => rfl
  | cons k ks ih =>
    simp only [List.map_cons, List.filterMap_cons]
    have e : (List.map G (dedup keys))[groupIndex keys k]? = some (G k) :=
      getElem?_map_idxOf (dedup keys) G k ((mem_dedup keys k).mpr (h k List.mem_cons_self))
    rw [e, ih (fun k' hk' => h k' (List.mem_cons_of_mem _ hk'))]

/-! ### whole functions -/
section whole
variable {κc ρ α β : Type}

theorem sequence_ok {γ : Type} (l : List γ) : sequence (l.map (fun x => (Except.ok x : Res γ))) = .ok l := by
  induction l with
  | nil => rfl
  | cons x xs ih => simp [sequence, ih]

theorem zipNames_cells (names : List String) (cells : List (OutCells κc ρ β)) (h : names.length = cells.length) :
    (zipNames names cells).map (·.cells) = cells := by
  induction names generalizing cells with
  | nil => cases cells <;> simp_all [zipNames]
  | cons n ns ih =>
    cases cells with
    | nil => simp at h
    | cons c cs =>
      simp only [zipNames, List.zipWith_cons_cons, List.map_cons, List.cons.injEq, true_and]
      exact ih cs (by simpa using h)

theorem zipNames_names (names : List String) (cells : List (OutCells κc ρ β)) (h : names.length = cells.length) :
    (zipNames names cells).map (·.name) = names := by
  induction names generalizing cells with
  | nil => cases cells <;> simp_all [zipNames]
  | cons n ns ih =>
    cases cells with
    | nil => simp at h
    | cons c cs =>
      simp only [zipNames, List.zipWith_cons_cons, List.map_cons, List.cons.injEq, true_and]
      exact ih cs (by simpa using h)

variable [DecidableEq κc]

theorem aggregateCells_eq_spec (a : Args κc ρ α β) : aggregateCells a = aggregateCellsSpec a := by
  unfold aggregateCells aggregateCellsSpec
  simp only [aggCol_partition, aggSpec, builtin_eq_textbook]
  congr 2
  apply List.map_congr_left
  intro idx _
  rw [partition_eq, List.filterMap_map]
  rfl

theorem aggregateCells_length (a : Args κc ρ α β) : (aggregateCells a).length = (rawNames a).length := by
  simp [aggregateCells, rawNames]

theorem windowCells_eq_spec (a : Args κc ρ α β) : windowCells a = .ok (windowCellsSpec a) := by
  unfold windowCells windowCellsSpec
  simp only [windowCol_eq, Except.map, builtin_eq_textbook]
  rw [← sequence_ok]
  simp [List.map_append, List.map_map, Function.comp_def]

theorem windowCellsSpec_length (a : Args κc ρ α β) : (windowCellsSpec a).length = (rawNames a).length := by
  simp [windowCellsSpec, rawNames]

end whole

theorem uniquifyAll_of_nodup (sfx : Nat → String) (names used : List String) (hn : names.Nodup)
    (hu : ∀ n ∈ names, n ∉ used) : uniquifyAll sfx names used = names := by
  induction names generalizing used with
  | nil => rfl
  | cons n ns ih =>
    have h0 : ¬ used.contains n = true := by simpa using hu n List.mem_cons_self
    simp only [List.nodup_cons] at hn
    simp only [uniquifyAll, uniquify, h0]
    simp only [Bool.false_eq_true, if_false, List.cons.injEq, true_and]
    apply ih _ hn.2
    intro m hm
    simp only [List.mem_cons, not_or]
    exact ⟨fun e => hn.1 (e ▸ hm), hu m (List.mem_cons_of_mem _ hm)⟩

theorem length_filterMap_of_isSome {γ δ : Type} (f : γ → Option δ) (l : List γ)
    (h : ∀ x ∈ l, (f x).isSome = true) : (l.filterMap f).length = l.length := by
  induction l with
  | nil => rfl
  | cons x xs ih =>
    have hx := h x List.mem_cons_self
    cases e : f x with
    | none => rw [e] at hx; cases hx
    | some y =>
      simp only [List.filterMap_cons, e, List.length_cons]
      rw [ih (fun z hz => h z (List.mem_cons_of_mem _ hz))]

theorem rowKeys_length {κc : Type} (over : List (List κc)) (n : Nat) : (rowKeys over n).length = n := by
  simp [rowKeys]

theorem rowKeys_row_length {κc : Type} (over : List (List κc)) (n : Nat) (h : ∀ c ∈ over, c.length = n) :
    ∀ k ∈ rowKeys over n, k.length = over.length := by
  intro k hk
  simp only [rowKeys, List.mem_map, List.mem_range] at hk
  obtain ⟨i, hi, rfl⟩ := hk
  apply length_filterMap_of_isSome
  intro c hc
  have := h c hc
  simp [List.getElem?_eq_getElem (by omega : i < c.length)]

theorem keysOf_row_length {κc ρ α β : Type} (a : Args κc ρ α β) (h : keyLensOk a = true) :
    ∀ k ∈ keysOf a, k.length = a.over.length := by
  intro k hk
  have hcols : ∀ c ∈ a.over.map (fun c => c.cells), c.length = a.nrows := by
    intro c hc
    simp only [List.mem_map] at hc
    obtain ⟨kc, hkc, rfl⟩ := hc
    simp only [keyLensOk, List.all_eq_true, beq_iff_eq] at h
    exact h kc hkc
  have hk' : k ∈ rowKeys (a.over.map (fun c => c.cells)) a.nrows := hk
  have := rowKeys_row_length _ _ hcols k hk'
  simpa using this

theorem keysOf_length {κc ρ α β : Type} (a : Args κc ρ α β) : (keysOf a).length = a.nrows := by
  simp [keysOf, rowKeys_length]

section forms
variable {κc ρ α β : Type} [DecidableEq κc]

theorem aggregate_ok_form (sfx : Nat → String) (a : Args κc ρ α β) (cols : List (OutCol κc ρ β))
    (h : aggregate sfx a = .ok cols) :
    cols = zipNames (uniquifyAll sfx (rawNames a) []) (aggregateCells a) := by
  unfold aggregate at h
  split at h; · cases h
  split at h; · cases h
  cases h; rfl

theorem window_ok_form (sfx : Nat → String) (a : Args κc ρ α β) (cols : List (OutCol κc ρ β))
    (h : window sfx a = .ok cols) :
    cols = zipNames (uniquifyAll sfx (rawNames a) []) (windowCellsSpec a) := by
  unfold window at h
  rw [windowCells_eq_spec] at h
  split at h; · cases h
  split at h; · cases h
  cases h; rfl

theorem aggregate_cells (sfx : Nat → String) (a : Args κc ρ α β) (cols : List (OutCol κc ρ β))
    (h : aggregate sfx a = .ok cols) : cols.map (·.cells) = aggregateCellsSpec a := by
  rw [aggregate_ok_form sfx a cols h, zipNames_cells, aggregateCells_eq_spec]
  rw [uniquifyAll_length, aggregateCells_length]

theorem aggregate_names (sfx : Nat → String) (a : Args κc ρ α β) (cols : List (OutCol κc ρ β))
    (h : aggregate sfx a = .ok cols) : cols.map (·.name) = uniquifyAll sfx (rawNames a) [] := by
  rw [aggregate_ok_form sfx a cols h, zipNames_names]
  rw [uniquifyAll_length, aggregateCells_length]

theorem window_cells (sfx : Nat → String) (a : Args κc ρ α β) (cols : List (OutCol κc ρ β))
    (h : window sfx a = .ok cols) : cols.map (·.cells) = windowCellsSpec a := by
  rw [window_ok_form sfx a cols h, zipNames_cells]
  rw [uniquifyAll_length, windowCellsSpec_length]

theorem window_names (sfx : Nat → String) (a : Args κc ρ α β) (cols : List (OutCol κc ρ β))
    (h : window sfx a = .ok cols) : cols.map (·.name) = uniquifyAll sfx (rawNames a) [] := by
  rw [window_ok_form sfx a cols h, zipNames_names]
  rw [uniquifyAll_length, windowCellsSpec_length]

end forms

theorem filterMap_eq_iff_of_isSome {γ δ : Type} (f g : γ → Option δ) (l : List γ)
    (hf : ∀ x ∈ l, (f x).isSome = true) (hg : ∀ x ∈ l, (g x).isSome = true) :
    l.filterMap f = l.filterMap g ↔ ∀ x ∈ l, f x = g x := by
  induction l with
  | nil => simp
  | cons x xs ih =>
    have h1 := hf x List.mem_cons_self
    have h2 := hg x List.mem_cons_self
    have ih' := ih (fun z hz => hf z (List.mem_cons_of_mem _ hz)) (fun z hz => hg z (List.mem_cons_of_mem _ hz))
    cases e1 : f x with
    | none => rw [e1] at h1; cases h1
    | some a =>
      cases e2 : g x with
      | none => rw [e2] at h2; cases h2
      | some b =>
        simp only [List.filterMap_cons, e1, e2, List.cons.injEq, List.mem_cons, forall_eq_or_imp,
          Option.some.injEq, ih']

theorem keysOf_getElem? {κc ρ α β : Type} (a : Args κc ρ α β) (i : Nat) (hi : i < a.nrows) :
    (keysOf a)[i]? = some ((a.over.map (fun c => c.cells)).filterMap (·[i]?)) := by
  simp [keysOf, rowKeys, hi]

end Group
end Serif
