/-
  Lemmas about the csv lexer model (Serif/Model/CsvLex.lean): the line-driven and the character-driven machine agree, and
  reading back what the writer wrote gives the records (helper lemmas; the property theorems are in Serif/Props/C19.lean).
-/
import Serif.Model.CsvLex

namespace Serif.CsvLex

/-! ### line driver = stream driver on `splitLF` -/

theorem splitLF_eq_nil (t : List Char) : splitLF t = [] ↔ t = [] := by
  cases t with
  | nil => simp [splitLF]
  | cons c cs =>
    simp only [splitLF]
    split
    · simp
    · cases splitLF cs <;> simp

theorem lines_cons_cons (d : Char) (s s' : St) (c : Char) (l : List Char) (ls : List (List Char))
    (h : step d s (some c) = .ok s') : lines d s ((c :: l) :: ls) = lines d s' (l :: ls) := by
  simp only [lines, processLine, feed, h]

theorem lines_cons_cons_err (d : Char) (s : St) (e : Err) (c : Char) (l : List Char) (ls : List (List Char))
    (h : step d s (some c) = .error e) : lines d s ((c :: l) :: ls) = .error e := by
  simp only [lines, processLine, feed, h]

/-- feeding the lines of a text (split at `'\n'`) one by one is feeding its characters with EOL after every `'\n'` and at the end -/
theorem lines_splitLF (d : Char) (t : List Char) : ∀ s : St, lines d s (splitLF t) = stream d s t := by
  induction t with
  | nil => intro s; rfl
  | cons c cs ih =>
    intro s
    by_cases hc : c = '\n'
    · subst hc
      simp only [splitLF, beq_self_eq_true, ↓reduceIte, stream, Bool.true_or, lines, processLine, feed]
      cases step d s (some '\n') with
      | error e => rfl
      | ok s' =>
        simp only
        cases eol d s' with
        | error e => rfl
        | ok s'' => exact ih s''
    · have hb : (c == '\n') = false := by simpa using hc
      simp only [splitLF, hb, Bool.false_eq_true, ↓reduceIte, stream, Bool.false_or]
      cases hs : splitLF cs with
      | nil =>
        have : cs = [] := (splitLF_eq_nil cs).mp hs
        subst this
        simp only [lines, processLine, feed, List.isEmpty_nil, ↓reduceIte]
        cases step d s (some c) with
        | error e => rfl
        | ok s' =>
          simp only
          cases eol d s' with
          | error e => rfl
          | ok s'' => rfl
      | cons l ls =>
        have hne : cs ≠ [] := fun h => by rw [h] at hs; simp [splitLF] at hs
        have hemp : cs.isEmpty = false := by cases cs <;> simp_all
        simp only [hemp, Bool.false_eq_true, ↓reduceIte]
        cases hst : step d s (some c) with
        | error e => exact lines_cons_cons_err d s e c l ls hst
        | ok s' =>
          rw [lines_cons_cons d s s' c l ls hst, ← hs]
          exact ih s'

/-- `list(csv.reader(io.StringIO(text)))` read line by line = the character-stream reading -/
theorem parseLines_splitLF (d : Char) (t : List Char) : parseLines d (splitLF t) = parseText d t := by
  simp only [parseLines, parseText, lines_splitLF]

/-! ### reading back what the writer wrote -/

/-- characters fed with EOL after every `'\n'` only (the middle of a text) -/
def feedNL (d : Char) : St → List Char → Except Err St
  | s, [] => .ok s
  | s, c :: cs =>
    match step d s (some c) with
    | .error e => .error e
    | .ok s' =>
      if c == '\n' then
        match eol d s' with
        | .error e => .error e
        | .ok s'' => feedNL d s'' cs
      else feedNL d s' cs

theorem feedNL_append (d : Char) (a b : List Char) : ∀ (s s' : St), feedNL d s a = .ok s' →
    feedNL d s (a ++ b) = feedNL d s' b := by
  induction a with
  | nil => intro s s' h; simp only [feedNL, Except.ok.injEq] at h; subst h; rfl
  | cons c cs ih =>
    intro s s' h
    simp only [List.cons_append, feedNL] at h ⊢
    cases hst : step d s (some c) with
    | error e => rw [hst] at h; cases h
    | ok s1 =>
      rw [hst] at h
      simp only at h ⊢
      split
      · rename_i hc
        simp only [hc, ↓reduceIte] at h
        cases he : eol d s1 with
        | error e => rw [he] at h; cases h
        | ok s2 => rw [he] at h; exact ih s2 s' h
      · rename_i hc
        simp only [hc, Bool.false_eq_true, ↓reduceIte] at h
        exact ih s1 s' h

/-- a text that ends in `'\n'` needs no extra EOL at its end -/
theorem stream_snoc_nl (d : Char) (u : List Char) : ∀ s : St, stream d s (u ++ ['\n']) = feedNL d s (u ++ ['\n']) := by
  induction u with
  | nil =>
    intro s
    simp only [List.nil_append, stream, feedNL, beq_self_eq_true, Bool.true_or, ↓reduceIte]
    rfl
  | cons c cs ih =>
    intro s
    have hemp : (cs ++ ['\n']).isEmpty = false := by cases cs <;> rfl
    simp only [List.cons_append, stream, feedNL, hemp, Bool.or_false]
    cases step d s (some c) with
    | error e => rfl
    | ok s1 =>
      simp only
      split
      · cases eol d s1 with
        | error e => rfl
        | ok s2 => exact ih s2
      · exact ih s1

/-- hypotheses on the delimiter under which the writer's output can be read back: it is not the quote and not a line end -/
structure GoodDelim (d : Char) : Prop where
  neQuote : d ≠ quote
  notNL : isNL d = false

theorem quote_notNL : isNL quote = false := by decide

/-- the body of a quoted field: every character is kept, `""` gives `"`, line ends inside the quotes are part of the field -/
theorem feedNL_escape (d : Char) (f : List Char) : ∀ s : St, s.mode = .inQuoted →
    feedNL d s (escape f) = .ok { s with field := f.reverse ++ s.field } := by
  induction f with
  | nil => intro s _; rfl
  | cons c cs ih =>
    intro s hm
    by_cases hq : c = quote
    · subst hq
      have hqn : (quote == '\n') = false := by decide
      simp only [escape, beq_self_eq_true, ↓reduceIte, feedNL, step, hm, hqn, Bool.false_eq_true, St.add]
      rw [ih _ rfl]
      simp [List.reverse_cons, List.append_assoc]
    · have hqb : (c == quote) = false := by simpa using hq
      simp only [escape, hqb, Bool.false_eq_true, ↓reduceIte, feedNL, step, hm, St.add]
      by_cases hn : c = '\n'
      · subst hn
        have hmm : (Mode.inQuoted == Mode.startRecord) = false := by decide
        simp only [beq_self_eq_true, ↓reduceIte, eol, step, hmm, Bool.false_eq_true]
        rw [ih _ rfl]
        simp [List.reverse_cons, List.append_assoc]
      · have hnb : (c == '\n') = false := by simpa using hn
        simp only [hnb, Bool.false_eq_true, ↓reduceIte]
        rw [ih _ rfl]
        simp [List.reverse_cons, List.append_assoc]

theorem plain_cons (d c : Char) (cs : List Char) :
    plain d (c :: cs) = true ↔ ((c == d) = false ∧ (c == quote) = false ∧ isNL c = false) ∧ plain d cs = true := by
  simp only [plain, List.all_cons, Bool.and_eq_true, Bool.not_eq_true', Bool.or_eq_false_iff, and_assoc]

theorem isNL_false (c : Char) (h : isNL c = false) : (c == '\n') = false := by
  unfold isNL at h
  rw [Bool.or_eq_false_iff] at h; exact h.1

/-- the rest of a bare field -/
theorem feedNL_plain (d : Char) (f : List Char) : ∀ s : St, s.mode = .inField → plain d f = true →
    feedNL d s f = .ok { s with field := f.reverse ++ s.field } := by
  induction f with
  | nil => intro s _ _; rfl
  | cons c cs ih =>
    intro s hm hp
    obtain ⟨⟨hd, hq, hnl⟩, hrest⟩ := (plain_cons d c cs).mp hp
    have hn : (c == '\n') = false := isNL_false c hnl
    simp only [feedNL, step, hm, endsField, hnl, Bool.false_eq_true, ↓reduceIte, hd, St.add, hn]
    rw [ih _ rfl hrest]
    simp [List.reverse_cons, List.append_assoc]

/-- the machine is at the start of a field and holds no pending text -/
def Start (s : St) : Prop := (s.mode = .startRecord ∨ s.mode = .startField) ∧ s.field = []

theorem step_start (d : Char) (s : St) (c : Char) (hs : Start s) (hc : isNL c = false) :
    step d s (some c) = .ok (stepStartField d { s with mode := .startField } (some c)) := by
  rcases hs.1 with h | h
  · simp only [step, h, hc, Bool.false_eq_true, ↓reduceIte]
  · have : ({ s with mode := .startField } : St) = s := by cases s; simp_all
    simp only [step, h, this]

/-- state after the text of one field has been read (before its separator) -/
def afterField (s : St) (q : Bool) (f : List Char) : St :=
  if q then { s with mode := .quoteInQuoted, field := f.reverse }
  else if f.isEmpty then s
  else { s with mode := .inField, field := f.reverse }

theorem ne_of_isNL_false (c : Char) (h : isNL c = false) : (c == '\n') = false ∧ (c == '\r') = false := by
  unfold isNL at h
  rw [Bool.or_eq_false_iff] at h; exact h

theorem feedNL_field (d : Char) (g : GoodDelim d) (s : St) (q : Bool) (f : List Char) (hs : Start s)
    (hq : q = true ∨ plain d f = true) : feedNL d s (renderField q f) = .ok (afterField s q f) := by
  have hdq : (d == quote) = false := by simpa using g.neQuote
  cases q with
  | true =>
    have hqn : (quote == '\n') = false := by decide
    simp only [renderField, ↓reduceIte, feedNL, step_start d s quote hs quote_notNL, hqn, Bool.false_eq_true, stepStartField,
      endsField, quote_notNL, beq_self_eq_true]
    rw [feedNL_append d (escape f) [quote] _ _ (feedNL_escape d f _ rfl)]
    simp only [feedNL, step, hqn, Bool.false_eq_true, ↓reduceIte, beq_self_eq_true, afterField, hs.2, List.append_nil]
  | false =>
    have hp : plain d f = true := by rcases hq with h | h; cases h; exact h
    cases f with
    | nil => simp only [renderField, Bool.false_eq_true, ↓reduceIte, feedNL, afterField, List.isEmpty_nil]
    | cons c cs =>
      obtain ⟨⟨hd, hcq, hnl⟩, hrest⟩ := (plain_cons d c cs).mp hp
      have hn := (ne_of_isNL_false c hnl).1
      simp only [renderField, Bool.false_eq_true, ↓reduceIte, feedNL, step_start d s c hs hnl, hn, stepStartField, endsField, hnl,
        hcq, hd, St.add]
      rw [feedNL_plain d cs _ rfl hrest]
      simp only [afterField, Bool.false_eq_true, ↓reduceIte, List.isEmpty_cons, hs.2, List.reverse_cons]

/-- the modes in which a field can be closed by a separator or a line end -/
def Closable (s : St) : Prop := s.mode = .inField ∨ s.mode = .quoteInQuoted ∨ s.mode = .startField

theorem feedNL_delim (d : Char) (g : GoodDelim d) (s : St) (hs : Closable s ∨ Start s) :
    feedNL d s [d] = .ok { s with mode := .startField, field := [], fields := s.field.reverse :: s.fields } := by
  have hdq : (d == quote) = false := by simpa using g.neQuote
  have hdn := (ne_of_isNL_false d g.notNL).1
  rcases hs with (h | h | h) | h
  · simp only [feedNL, step, h, endsField, g.notNL, Bool.false_eq_true, ↓reduceIte, beq_self_eq_true, hdn, St.save]
  · simp only [feedNL, step, h, hdq, Bool.false_eq_true, ↓reduceIte, beq_self_eq_true, hdn, St.save]
  · simp only [feedNL, step, h, stepStartField, endsField, g.notNL, Bool.false_eq_true, ↓reduceIte, hdq, beq_self_eq_true, hdn,
      St.save]
  · simp only [feedNL, step_start d s d h g.notNL, stepStartField, endsField, g.notNL, Bool.false_eq_true, ↓reduceIte, hdq,
      beq_self_eq_true, hdn, St.save]

def term (crlf : Bool) : List Char := if crlf then ['\r', '\n'] else ['\n']

/-- a line end after a closable field hands the record out -/
theorem feedNL_term (d : Char) (g : GoodDelim d) (s : St) (crlf : Bool) (hs : Closable s) :
    feedNL d s (term crlf) =
      .ok { mode := .startRecord, field := [], fields := [], out := (s.field.reverse :: s.fields).reverse :: s.out } := by
  have hnd : ('\n' == d) = false := by
    have h := (ne_of_isNL_false d g.notNL).1
    rw [beq_eq_false_iff_ne] at h ⊢; exact fun e => h e.symm
  have hrd : ('\r' == d) = false := by
    have h := (ne_of_isNL_false d g.notNL).2
    rw [beq_eq_false_iff_ne] at h ⊢; exact fun e => h e.symm
  have hnq : ('\n' == quote) = false := by decide
  have hrq : ('\r' == quote) = false := by decide
  have hrn : ('\r' == '\n') = false := by decide
  have hnl1 : isNL '\n' = true := by decide
  have hnl2 : isNL '\r' = true := by decide
  cases crlf with
  | false =>
    rcases hs with h | h | h
    · simp only [term, Bool.false_eq_true, ↓reduceIte, feedNL, step, h, endsField, hnl1, afterEnd, Option.isNone_some, St.save,
        beq_self_eq_true, eol]
    · simp only [term, Bool.false_eq_true, ↓reduceIte, feedNL, step, h, hnq, hnd, hnl1, St.save, beq_self_eq_true, eol]
    · simp only [term, Bool.false_eq_true, ↓reduceIte, feedNL, step, h, stepStartField, endsField, hnl1, afterEnd,
        Option.isNone_some, St.save, beq_self_eq_true, eol]
  | true =>
    rcases hs with h | h | h
    · simp only [term, ↓reduceIte, feedNL, step, h, endsField, hnl2, hnl1, afterEnd, Option.isNone_some, St.save, hrn,
        Bool.false_eq_true, beq_self_eq_true, eol]
    · simp only [term, ↓reduceIte, feedNL, step, h, hrq, hrd, hnl2, hnl1, St.save, hrn, Bool.false_eq_true, beq_self_eq_true,
        eol]
    · simp only [term, ↓reduceIte, feedNL, step, h, stepStartField, endsField, hnl2, hnl1, afterEnd, Option.isNone_some, St.save,
        hrn, Bool.false_eq_true, beq_self_eq_true, eol]

theorem afterField_props (s : St) (q : Bool) (f : List Char) (hs : Start s) :
    (Closable (afterField s q f) ∨ Start (afterField s q f)) ∧ (afterField s q f).field.reverse = f ∧
      (afterField s q f).fields = s.fields ∧ (afterField s q f).out = s.out ∧
      (Closable (afterField s q f) ∨ (q = false ∧ f = [] ∧ afterField s q f = s)) := by
  unfold afterField
  cases q with
  | true => simp [Closable]
  | false =>
    cases f with
    | nil => simp [hs, hs.2]
    | cons c cs => simp [Closable]

/-- a blank line is the empty record -/
theorem feedNL_term_empty (d : Char) (s : St) (crlf : Bool) (hm : s.mode = .startRecord) :
    feedNL d s (term crlf) = .ok { s with fields := [], out := s.fields.reverse :: s.out } := by
  have hrn : ('\r' == '\n') = false := by decide
  have hnl1 : isNL '\n' = true := by decide
  have hnl2 : isNL '\r' = true := by decide
  cases crlf with
  | false => simp only [term, Bool.false_eq_true, ↓reduceIte, feedNL, step, hm, hnl1, beq_self_eq_true, eol]
  | true => simp only [term, ↓reduceIte, feedNL, step, hm, hnl2, hnl1, hrn, Bool.false_eq_true, beq_self_eq_true, eol]

/-- the fields of one non-empty record followed by the line end -/
theorem feedNL_fields (d : Char) (g : GoodDelim d) (crlf : Bool) : ∀ (r : List (Bool × List Char)) (s : St), r ≠ [] → Start s →
    (∀ qf ∈ r, qf.1 = true ∨ plain d qf.2 = true) → (s.mode = .startRecord → r ≠ [(false, [])]) →
    feedNL d s (renderFields d r ++ term crlf) =
      .ok { mode := .startRecord, field := [], fields := [], out := (s.fields.reverse ++ r.map (·.2)) :: s.out } := by
  intro r
  induction r with
  | nil => intro s h; exact absurd rfl h
  | cons qf rest ih =>
    intro s _ hs hq hex
    obtain ⟨q, f⟩ := qf
    have hqf : q = true ∨ plain d f = true := hq (q, f) List.mem_cons_self
    obtain ⟨hcs, hfield, hfields, hout, hcl⟩ := afterField_props s q f hs
    cases rest with
    | nil =>
      simp only [renderFields]
      rw [feedNL_append d _ _ _ _ (feedNL_field d g s q f hs hqf)]
      have hclos : Closable (afterField s q f) := by
        rcases hcl with h | ⟨hq0, hf0, hsame⟩
        · exact h
        · subst hq0; subst hf0
          rw [hsame]
          rcases hs.1 with hm | hm
          · exact absurd rfl (hex hm)
          · exact Or.inr (Or.inr hm)
      rw [feedNL_term d g _ crlf hclos, hfield, hfields, hout]
      simp
    | cons qf' rest' =>
      simp only [renderFields, List.append_assoc, List.cons_append]
      rw [feedNL_append d _ _ _ _ (feedNL_field d g s q f hs hqf)]
      have hd := feedNL_delim d g (afterField s q f) hcs
      rw [show d :: (renderFields d (qf' :: rest') ++ term crlf) = [d] ++ (renderFields d (qf' :: rest') ++ term crlf) from rfl,
        feedNL_append d _ _ _ _ hd]
      rw [ih _ (by simp) ⟨Or.inr rfl, rfl⟩ (fun x hx => hq x (List.mem_cons_of_mem _ hx)) (fun h => by cases h)]
      simp [hfield, hfields, hout]

theorem feedNL_record (d : Char) (g : GoodDelim d) (crlf : Bool) (r : List (Bool × List Char)) (out : List (List (List Char)))
    (hw : wellQuoted d r = true) :
    feedNL d { out := out } (renderRecord d crlf r) = .ok { out := r.map (·.2) :: out } := by
  simp only [wellQuoted, Bool.and_eq_true, List.all_eq_true, Bool.or_eq_true, Bool.not_eq_true', beq_eq_false_iff_ne] at hw
  cases r with
  | nil =>
    have := feedNL_term_empty d { out := out } crlf rfl
    simpa [renderRecord, renderFields, term] using this
  | cons qf rest =>
    have := feedNL_fields d g crlf (qf :: rest) { out := out } (by simp) ⟨Or.inl rfl, rfl⟩
      (fun x hx => by rcases hw.1 x hx with h | h <;> simp [h]) (fun _ => hw.2)
    simpa [renderRecord, term] using this

theorem feedNL_text (d : Char) (g : GoodDelim d) (crlf : Bool) : ∀ (rs : List (List (Bool × List Char)))
    (out : List (List (List Char))), (∀ r ∈ rs, wellQuoted d r = true) →
    feedNL d { out := out } (renderText d crlf rs) = .ok { out := (rs.map (·.map (·.2))).reverse ++ out } := by
  intro rs
  induction rs with
  | nil => intro out _; rfl
  | cons r rs ih =>
    intro out hw
    simp only [renderText]
    rw [feedNL_append d _ _ _ _ (feedNL_record d g crlf r out (hw r List.mem_cons_self))]
    rw [ih _ (fun x hx => hw x (List.mem_cons_of_mem _ hx))]
    simp

theorem renderText_snoc (d : Char) (crlf : Bool) (rs : List (List (Bool × List Char))) (h : rs ≠ []) :
    ∃ u, renderText d crlf rs = u ++ ['\n'] := by
  induction rs with
  | nil => exact absurd rfl h
  | cons r rs ih =>
    cases rs with
    | nil =>
      cases crlf with
      | false => exact ⟨renderFields d r, by simp [renderText, renderRecord]⟩
      | true => exact ⟨renderFields d r ++ ['\r'], by simp [renderText, renderRecord]⟩
    | cons r' rs' =>
      obtain ⟨u, hu⟩ := ih (by simp)
      exact ⟨renderRecord d crlf r ++ u, by simp only [renderText] at hu ⊢; rw [hu, List.append_assoc]⟩

/-- reading back what the writer wrote -/
theorem parseText_renderText (d : Char) (g : GoodDelim d) (crlf : Bool) (rs : List (List (Bool × List Char)))
    (hw : ∀ r ∈ rs, wellQuoted d r = true) :
    parseText d (renderText d crlf rs) = .ok (rs.map (·.map (·.2))) := by
  unfold parseText
  cases rs with
  | nil => rfl
  | cons r rs' =>
    obtain ⟨u, hu⟩ := renderText_snoc d crlf (r :: rs') (by simp)
    have h := feedNL_text d g crlf (r :: rs') [] hw
    rw [hu] at h ⊢
    rw [stream_snoc_nl, h]
    simp [finish]

end Serif.CsvLex
