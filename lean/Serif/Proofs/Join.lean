/-
  Helper lemmas for the join properties C09–C11: the right index, the `duplicates` dict, the probe loop with
  its `left_keys_seen` check, the sweep of `full_join`, and the agreement of the `expect` tuples read from the
  source with the specification.
-/
import Serif.Model.Join

namespace Serif
open Serif.Join

namespace Dict
variable {κ ν : Type} [DecidableEq κ]

theorem get?_upsert (d : Dict κ ν) (k k' : κ) (f : Option ν → ν) :
    get? (upsert d k f) k' = if k = k' then some (f (get? d k)) else get? d k' := by
  induction d with
  | nil => simp [upsert, get?]
  | cons hd tl ih =>
    obtain ⟨a, b⟩ := hd
    by_cases h : a = k
    · subst h
      by_cases h2 : a = k' <;> simp [upsert, get?, h2]
    · by_cases h2 : k = k'
      · subst h2; simp [upsert, get?, h, ih]
      · simp only [upsert, h, if_false, get?, ih, h2]
end Dict

namespace Join
variable {K : Type} [DecidableEq K]

theorem bucketOf_buildStep (chk : Bool) (st : Index K × List K) (k k' : K) (row : Nat) :
    bucketOf (buildStep chk st k row).1 k' = if k = k' then bucketOf st.1 k ++ [row] else bucketOf st.1 k' := by
  unfold buildStep bucketOf
  cases h : Dict.get? st.1 k <;> simp [Dict.get?_upsert] <;> split <;> simp_all

theorem matchIdx_cons (a : K) (l : List K) (s : Nat) (k : K) :
    matchIdx (a :: l) s k = (if k = a then [s] else []) ++ matchIdx l (s + 1) k := by
  unfold matchIdx
  simp only [List.zipIdx_cons, List.filterMap_cons]
  split <;> simp_all

theorem bucket_buildFrom (chk : Bool) (ks : List K) (s : Nat) (st : Index K × List K) (k : K) :
    bucketOf (buildFrom chk ks s st).1 k = bucketOf st.1 k ++ matchIdx ks s k := by
  induction ks generalizing s st with
  | nil => simp [buildFrom, matchIdx]
  | cons a l ih =>
    simp only [buildFrom, ih, bucketOf_buildStep, matchIdx_cons]
    by_cases h : a = k
    · subst h; simp
    · have : ¬ k = a := fun e => h e.symm
      simp [h, this]

theorem bucket_build (chk : Bool) (rk : List K) (k : K) :
    bucketOf (build chk rk).1 k = matchIdx rk 0 k := by
  have := bucket_buildFrom chk rk 0 (([], []) : Index K × List K) k
  simpa [build, bucketOf, Dict.get?] using this


/-! ### the `duplicates` dict is non-empty iff a key repeats -/

theorem dups_buildFrom_nochk (ks : List K) (s : Nat) (st : Index K × List K) :
    (buildFrom false ks s st).2 = st.2 := by
  induction ks generalizing s st with
  | nil => rfl
  | cons a l ih =>
    simp only [buildFrom, ih]
    unfold buildStep
    cases Dict.get? st.1 a <;> simp

theorem dups_buildFrom (ks : List K) (s : Nat) (st : Index K × List K) :
    (buildFrom true ks s st).2 = [] ↔ st.2 = [] ∧ ks.Nodup ∧ ∀ k ∈ ks, Dict.get? st.1 k = none := by
  induction ks generalizing s st with
  | nil => simp [buildFrom]
  | cons a l ih =>
    simp only [buildFrom, ih]
    unfold buildStep
    cases h : Dict.get? st.1 a with
    | none =>
      simp only [Dict.get?_upsert, List.nodup_cons, List.mem_cons, forall_eq_or_imp, h]
      constructor
      · rintro ⟨h1, h2, h3⟩
        refine ⟨h1, ⟨?_, h2⟩, trivial, ?_⟩
        · intro hm; have := h3 a hm; simp at this
        · intro k hk; have := h3 k hk; split at this <;> simp_all
      · rintro ⟨h1, ⟨h2, h3⟩, _, h4⟩
        refine ⟨h1, h3, ?_⟩
        intro k hk
        have : ¬ a = k := fun e => h2 (e ▸ hk)
        simp [this, h4 k hk]
    | some b =>
      simp only [Bool.true_and, List.mem_cons, forall_eq_or_imp, h]
      constructor
      · rintro ⟨h1, _⟩
        split at h1
        · simp at h1
        · rename_i hc; simp at hc; rw [h1] at hc; simp at hc
      · rintro ⟨_, _, h3, _⟩; simp at h3

theorem dups_build (rk : List K) : (build true rk).2 = [] ↔ rk.Nodup := by
  simp [build, dups_buildFrom, Dict.get?]

theorem dups_build_nochk (rk : List K) : (build false rk).2 = [] := by
  simp [build, dups_buildFrom_nochk]

/-! ### the probe loop -/

/-- what the probe loop produces when it does not raise -/
def probeOut (outer : Bool) (ix : Index K) (lk : List K) (s : Nat) : List Pair × List Nat :=
  ((lk.zipIdx s).flatMap (fun p => emit outer p.2 (bucketOf ix p.1)), lk.flatMap (bucketOf ix))

theorem probe_nochk (outer : Bool) (ix : Index K) (lk : List K) (s : Nat) (seen : List K) :
    probe outer false ix lk s seen = .ok (probeOut outer ix lk s) := by
  induction lk generalizing s seen with
  | nil => simp [probe, probeOut]
  | cons a l ih => simp [probe, ih, probeOut, List.zipIdx_cons]

theorem probe_chk_ok (outer : Bool) (ix : Index K) (lk : List K) (s : Nat) (seen : List K)
    (hn : lk.Nodup) (hs : ∀ k ∈ lk, k ∉ seen) :
    probe outer true ix lk s seen = .ok (probeOut outer ix lk s) := by
  induction lk generalizing s seen with
  | nil => simp [probe, probeOut]
  | cons a l ih =>
    have ha : a ∉ seen := hs a (by simp)
    rw [List.nodup_cons] at hn
    have hs' : ∀ k ∈ l, k ∉ a :: seen := by
      intro k hk
      simp only [List.mem_cons, not_or]
      exact ⟨fun e => hn.1 (e ▸ hk), hs k (by simp [hk])⟩
    simp [probe, ha, ih (s + 1) (a :: seen) hn.2 hs', probeOut, List.zipIdx_cons]

theorem probe_chk_err (outer : Bool) (ix : Index K) (lk : List K) (s : Nat) (seen : List K)
    (h : ¬ (lk.Nodup ∧ ∀ k ∈ lk, k ∉ seen)) :
    probe outer true ix lk s seen = .error .value := by
  induction lk generalizing s seen with
  | nil => simp at h
  | cons a l ih =>
    by_cases ha : a ∈ seen
    · simp [probe, ha]
    · have h' : ¬ (l.Nodup ∧ ∀ k ∈ l, k ∉ a :: seen) := by
        rintro ⟨h1, h2⟩
        apply h
        refine ⟨List.nodup_cons.mpr ⟨?_, h1⟩, ?_⟩
        · intro hm; exact (h2 a hm) (by simp)
        · intro k hk
          rcases List.mem_cons.mp hk with rfl | hk
          · exact ha
          · intro hk2; exact h2 k hk (by simp [hk2])
      simp [probe, ha, ih (s + 1) (a :: seen) h']

/-- the probe loop, all cases: raises (a value error) iff the left check is on and a left key repeats -/
theorem probe_eq (outer chkL : Bool) (ix : Index K) (lk : List K) :
    probe outer chkL ix lk 0 [] =
      if chkL && !decide lk.Nodup then .error .value else .ok (probeOut outer ix lk 0) := by
  cases chkL with
  | false => simp [probe_nochk]
  | true =>
    by_cases hn : lk.Nodup
    · simp [hn, probe_chk_ok outer ix lk 0 [] hn (by simp)]
    · simp [hn, probe_chk_err outer ix lk 0 [] (by simp [hn])]

/-! ### emitted rows = specification rows -/

theorem mem_matchIdx (rk : List K) (s : Nat) (k : K) (j : Nat) :
    j ∈ matchIdx rk s k ↔ (k, j) ∈ rk.zipIdx s := by
  simp only [matchIdx, List.mem_filterMap]
  constructor
  · rintro ⟨⟨a, i⟩, hm, h⟩
    split at h
    · rename_i e; simp at e h; subst e; subst h; exact hm
    · cases h
  · intro h; exact ⟨(k, j), h, by simp⟩

theorem emit_inner (i : Nat) (b : List Nat) : emit false i b = b.map (fun j => (some i, some j)) := by
  unfold emit; cases b <;> simp

theorem emit_inner_spec (rk : List K) (k : K) (i : Nat) :
    emit false i (matchIdx rk 0 k)
      = (rk.zipIdx.filterMap (fun q => if k = q.1 then some (i, q.2) else none)).map liftPair := by
  rw [emit_inner, matchIdx, List.map_filterMap, List.map_filterMap]
  congr 1; funext q; split <;> simp [liftPair]

theorem inner_pairs_eq (lk rk : List K) :
    lk.zipIdx.flatMap (fun p => emit false p.2 (matchIdx rk 0 p.1)) = (innerSpec lk rk).map liftPair := by
  simp only [innerSpec, List.map_flatMap, emit_inner_spec]

theorem left_pairs_eq (lk rk : List K) :
    lk.zipIdx.flatMap (fun p => emit true p.2 (matchIdx rk 0 p.1)) = leftSpec lk rk := by
  simp [leftSpec, emit]

/-- the sweep over the right rows not in `matched_right_rows` -/
theorem sweep_aux (lk : List K) (m : List Nat) (rk : List K) (s : Nat)
    (h : ∀ k' j, (k', j) ∈ rk.zipIdx s → (j ∈ m ↔ k' ∈ lk)) :
    ((List.range' s rk.length).filter (fun j => !m.contains j)).map (fun j => ((none, some j) : Pair))
      = (rk.zipIdx s).filterMap (fun q => if lk.contains q.1 then none else some (none, some q.2)) := by
  induction rk generalizing s with
  | nil => simp
  | cons a l ih =>
    have hl := ih (s + 1) (fun k' j hm => h k' j (by simp [List.zipIdx_cons, hm]))
    have ha := h a s (by simp [List.zipIdx_cons])
    simp only [List.length_cons, List.range'_succ, List.zipIdx_cons, List.filter_cons, List.filterMap_cons]
    by_cases hm : a ∈ lk
    · have : s ∈ m := ha.mpr hm
      simp only [List.contains_eq_mem, this, hm, decide_true, Bool.not_true, Bool.false_eq_true, if_false, if_true]
      simpa using hl
    · have : s ∉ m := fun x => hm (ha.mp x)
      simp only [List.contains_eq_mem, this, hm, decide_false, Bool.not_false, if_true, Bool.false_eq_true, if_false,
        List.map_cons]
      congr 1
      simpa using hl

omit [DecidableEq K] in
theorem zipIdx_functional (rk : List K) (k k' : K) (j : Nat)
    (h1 : (k, j) ∈ rk.zipIdx) (h2 : (k', j) ∈ rk.zipIdx) : k = k' := by
  rw [List.mk_mem_zipIdx_iff_getElem?] at h1 h2
  rw [h1] at h2; exact Option.some.inj h2

theorem mem_matched (lk rk : List K) (k' : K) (j : Nat) (h : (k', j) ∈ rk.zipIdx) :
    j ∈ lk.flatMap (matchIdx rk 0) ↔ k' ∈ lk := by
  simp only [List.mem_flatMap, mem_matchIdx]
  constructor
  · rintro ⟨k, hk, hm⟩; exact (zipIdx_functional rk k k' j hm h) ▸ hk
  · intro hk; exact ⟨k', hk, h⟩

theorem sweep_eq (lk rk : List K) :
    sweep rk.length (lk.flatMap (matchIdx rk 0)) = rightOnly lk rk := by
  unfold sweep rightOnly
  rw [List.range_eq_range']
  exact sweep_aux lk _ rk 0 (fun k' j h => mem_matched lk rk k' j h)

/-- rows and matched set produced by a non-raising probe over the index built from `rk` -/
theorem probeOut_build (outer chk : Bool) (lk rk : List K) :
    probeOut outer (build chk rk).1 lk 0
      = (lk.zipIdx.flatMap (fun p => emit outer p.2 (matchIdx rk 0 p.1)), lk.flatMap (matchIdx rk 0)) := by
  simp only [probeOut, bucket_build]
  congr 1
  congr 1
  funext k; exact bucket_build chk rk k

theorem outer_inner : (JKind.inner != JKind.inner) = false := by decide
theorem outer_left : (JKind.left != JKind.inner) = true := by decide
theorem outer_full : (JKind.full != JKind.inner) = true := by decide

/-- the algorithm after `expect` validation, in closed form: it raises a value error iff an enabled
    uniqueness check fails, and otherwise returns the specification's rows in the specification's order -/
theorem joinCore_eq (kind : JKind) (e : String) (lk rk : List K) :
    joinCore kind e lk rk =
      if (chkRight kind e && !decide rk.Nodup) || (chkLeft kind e && !decide lk.Nodup) then .error .value
      else .ok (specPairs kind lk rk) := by
  unfold joinCore
  simp only [probe_eq, probeOut_build]
  cases hR : chkRight kind e with
  | true =>
    by_cases hn : rk.Nodup
    · have : (build true rk).2 = [] := (dups_build rk).mpr hn
      simp only [this, hn]
      cases hL : chkLeft kind e <;> by_cases hl : lk.Nodup <;>
        cases kind <;>
        simp [hl, specPairs, inner_pairs_eq, left_pairs_eq, fullSpec, sweep_eq, outer_left, outer_full]
    · have : (build true rk).2 ≠ [] := fun h => hn ((dups_build rk).mp h)
      simp [this, hn]
  | false =>
    simp only [dups_build_nochk]
    cases hL : chkLeft kind e <;> by_cases hl : lk.Nodup <;>
      cases kind <;>
        simp [hl, specPairs, inner_pairs_eq, left_pairs_eq, fullSpec, sweep_eq, outer_left, outer_full]

/-! ### the `expect` tuples of the source mean what the specification says -/

theorem accepts_iff (kind : JKind) (e : String) : acceptsExpect kind e = validExpect e := by
  have h1 : ∀ k ∈ [JKind.inner, .left, .full], ∀ x ∈ expectValues, acceptsExpect k x = true := by decide
  have h2 : ∀ x ∈ Gen.validExpect_inner, x ∈ expectValues := by decide
  have h3 : ∀ x ∈ Gen.validExpect_left, x ∈ expectValues := by decide
  have h4 : ∀ x ∈ Gen.validExpect_full, x ∈ expectValues := by decide
  by_cases hv : e ∈ expectValues
  · have : acceptsExpect kind e = true := h1 kind (by cases kind <;> simp) e hv
    simp [this, validExpect, hv]
  · have hne : validExpect e = false := by simp [validExpect, hv]
    rw [hne]
    cases kind <;> simp only [acceptsExpect, List.contains_eq_mem, decide_eq_false_iff_not]
    · exact fun h => hv (h2 e h)
    · exact fun h => hv (h3 e h)
    · exact fun h => hv (h4 e h)

theorem chkRight_eq (kind : JKind) (e : String) (hv : validExpect e = true) :
    chkRight kind e = needsRight e := by
  have h : ∀ k ∈ [JKind.inner, .left, .full], ∀ x ∈ expectValues, chkRight k x = needsRight x := by decide
  exact h kind (by cases kind <;> simp) e (by simpa [validExpect] using hv)

theorem chkLeft_eq (kind : JKind) (e : String) (hv : validExpect e = true) :
    chkLeft kind e = needsLeft e := by
  have h : ∀ k ∈ [JKind.inner, .left, .full], ∀ x ∈ expectValues, chkLeft k x = needsLeft x := by decide
  exact h kind (by cases kind <;> simp) e (by simpa [validExpect] using hv)

theorem joinCore_eq_specCore (kind : JKind) (e : String) (hv : validExpect e = true) (lk rk : List K) :
    joinCore kind e lk rk = specCore kind e lk rk := by
  rw [joinCore_eq, chkRight_eq kind e hv, chkLeft_eq kind e hv]; rfl

theorem joinPairs_eq_spec (kind : JKind) (e : String) (lk rk : List K) :
    joinPairs kind e lk rk = specJoinPairs kind e lk rk := by
  unfold joinPairs specJoinPairs
  rw [accepts_iff]
  cases hv : validExpect e
  · rfl
  · simp [joinCore_eq_specCore kind e hv]

/-! ### which rows occur, and that each occurs once -/

theorem matchIdx_eq_nil (rk : List K) (k : K) : matchIdx rk 0 k = [] ↔ k ∉ rk := by
  rw [List.eq_nil_iff_forall_not_mem]
  constructor
  · intro h hk
    obtain ⟨j, hj⟩ := List.mem_iff_getElem?.mp hk
    exact h j ((mem_matchIdx rk 0 k j).mpr (List.mk_mem_zipIdx_iff_getElem?.mpr hj))
  · intro h j hj
    exact h (List.fst_mem_of_mem_zipIdx ((mem_matchIdx rk 0 k j).mp hj))

/-- membership in the specification rows of a full join, as a symmetric three-way description -/
def RowOf (lk rk : List K) (p : Pair) : Prop :=
  (∃ k i j, (k, i) ∈ lk.zipIdx ∧ (k, j) ∈ rk.zipIdx ∧ p = (some i, some j))
  ∨ (∃ k i, (k, i) ∈ lk.zipIdx ∧ k ∉ rk ∧ p = (some i, none))
  ∨ (∃ k j, (k, j) ∈ rk.zipIdx ∧ k ∉ lk ∧ p = (none, some j))

theorem mem_innerSpec (lk rk : List K) (i j : Nat) :
    (i, j) ∈ innerSpec lk rk ↔ ∃ k, (k, i) ∈ lk.zipIdx ∧ (k, j) ∈ rk.zipIdx := by
  simp only [innerSpec, List.mem_flatMap, List.mem_filterMap]
  constructor
  · rintro ⟨⟨k, i'⟩, hp, ⟨k', j'⟩, hq, h⟩
    split at h
    · rename_i e; simp at e h; obtain ⟨rfl, rfl⟩ := h; subst e; exact ⟨k, hp, hq⟩
    · cases h
  · rintro ⟨k, h1, h2⟩; exact ⟨(k, i), h1, (k, j), h2, by simp⟩

theorem mem_leftSpec (lk rk : List K) (p : Pair) :
    p ∈ leftSpec lk rk ↔
      (∃ k i j, (k, i) ∈ lk.zipIdx ∧ (k, j) ∈ rk.zipIdx ∧ p = (some i, some j))
      ∨ (∃ k i, (k, i) ∈ lk.zipIdx ∧ k ∉ rk ∧ p = (some i, none)) := by
  simp only [leftSpec, List.mem_flatMap]
  constructor
  · rintro ⟨⟨k, i⟩, hp, h⟩
    by_cases hm : matchIdx rk 0 k = []
    · simp [hm] at h
      exact Or.inr ⟨k, i, hp, (matchIdx_eq_nil rk k).mp hm, h⟩
    · simp [hm, mem_matchIdx] at h
      obtain ⟨j, hj, rfl⟩ := h
      exact Or.inl ⟨k, i, j, hp, hj, rfl⟩
  · rintro (⟨k, i, j, hp, hq, rfl⟩ | ⟨k, i, hp, hn, rfl⟩)
    · refine ⟨(k, i), hp, ?_⟩
      have hj : j ∈ matchIdx rk 0 k := (mem_matchIdx rk 0 k j).mpr hq
      have hm : matchIdx rk 0 k ≠ [] := fun e => by rw [e] at hj; cases hj
      simp [hm, hj]
    · refine ⟨(k, i), hp, ?_⟩
      simp [(matchIdx_eq_nil rk k).mpr hn]

theorem mem_rightOnly (lk rk : List K) (p : Pair) :
    p ∈ rightOnly lk rk ↔ ∃ k j, (k, j) ∈ rk.zipIdx ∧ k ∉ lk ∧ p = (none, some j) := by
  simp only [rightOnly, List.mem_filterMap]
  constructor
  · rintro ⟨⟨k, j⟩, hq, h⟩
    split at h
    · cases h
    · rename_i hc; simp at hc h; exact ⟨k, j, hq, hc, h.symm⟩
  · rintro ⟨k, j, hq, hn, rfl⟩; exact ⟨(k, j), hq, by simp [hn]⟩

theorem mem_fullSpec (lk rk : List K) (p : Pair) : p ∈ fullSpec lk rk ↔ RowOf lk rk p := by
  simp only [fullSpec, List.mem_append, mem_leftSpec, mem_rightOnly, RowOf, or_assoc]

omit [DecidableEq K] in
theorem rowOf_swap (lk rk : List K) (p : Pair) : RowOf rk lk (swapPair p) ↔ RowOf lk rk p := by
  obtain ⟨a, b⟩ := p
  simp only [RowOf, swapPair, Prod.mk.injEq]
  constructor
  · rintro (⟨k, i, j, h1, h2, rfl, rfl⟩ | ⟨k, i, h1, h2, rfl, rfl⟩ | ⟨k, j, h1, h2, rfl, rfl⟩)
    · exact Or.inl ⟨k, j, i, h2, h1, rfl, rfl⟩
    · exact Or.inr (Or.inr ⟨k, i, h1, h2, rfl, rfl⟩)
    · exact Or.inr (Or.inl ⟨k, j, h1, h2, rfl, rfl⟩)
  · rintro (⟨k, i, j, h1, h2, rfl, rfl⟩ | ⟨k, i, h1, h2, rfl, rfl⟩ | ⟨k, j, h1, h2, rfl, rfl⟩)
    · exact Or.inl ⟨k, j, i, h2, h1, rfl, rfl⟩
    · exact Or.inr (Or.inr ⟨k, i, h1, h2, rfl, rfl⟩)
    · exact Or.inr (Or.inl ⟨k, j, h1, h2, rfl, rfl⟩)

omit [DecidableEq K] in
theorem zipIdx_snd_pairwise (l : List K) (s : Nat) : (l.zipIdx s).Pairwise (fun p q => p.2 ≠ q.2) := by
  have h : ((l.zipIdx s).map Prod.snd).Nodup := by rw [List.zipIdx_map_snd]; exact List.nodup_range'
  rw [List.nodup_iff_pairwise_ne, List.pairwise_map] at h
  exact h

theorem matchIdx_nodup (rk : List K) (s : Nat) (k : K) : (matchIdx rk s k).Nodup := by
  unfold matchIdx
  rw [List.nodup_iff_pairwise_ne, List.pairwise_filterMap]
  refine (zipIdx_snd_pairwise rk s).imp ?_
  intro p q hne b hb c hc
  split at hb <;> split at hc <;> simp_all

theorem leftSpec_nodup (lk rk : List K) : (leftSpec lk rk).Nodup := by
  unfold leftSpec
  rw [List.nodup_iff_pairwise_ne, List.pairwise_flatMap]
  constructor
  · rintro ⟨k, i⟩ _
    by_cases hm : matchIdx rk 0 k = []
    · simp [hm]
    · simp only [List.isEmpty_iff, hm, if_false]
      rw [List.pairwise_map]
      exact (matchIdx_nodup rk 0 k).imp (by intro a b h e; simp at e; exact h e)
  · refine (zipIdx_snd_pairwise lk 0).imp ?_
    rintro ⟨k, i⟩ ⟨k', i'⟩ hne x hx y hy e
    have hx1 : x.1 = some i := by
      dsimp only at hx; split at hx
      · simp at hx; rw [hx]
      · simp at hx; obtain ⟨_, _, rfl⟩ := hx; rfl
    have hy1 : y.1 = some i' := by
      dsimp only at hy; split at hy
      · simp at hy; rw [hy]
      · simp at hy; obtain ⟨_, _, rfl⟩ := hy; rfl
    rw [e, hy1] at hx1
    exact hne (Option.some.inj hx1).symm

theorem rightOnly_nodup (lk rk : List K) : (rightOnly lk rk).Nodup := by
  unfold rightOnly
  rw [List.nodup_iff_pairwise_ne, List.pairwise_filterMap]
  refine (zipIdx_snd_pairwise rk 0).imp ?_
  intro p q hne b hb c hc
  split at hb <;> split at hc <;> simp_all
  subst hb; subst hc; simp; exact hne

theorem fullSpec_nodup (lk rk : List K) : (fullSpec lk rk).Nodup := by
  unfold fullSpec
  rw [List.nodup_append]
  refine ⟨leftSpec_nodup lk rk, rightOnly_nodup lk rk, ?_⟩
  intro a ha b hb e
  subst e
  rw [mem_rightOnly] at hb
  obtain ⟨k, j, _, _, rfl⟩ := hb
  rw [mem_leftSpec] at ha
  rcases ha with ⟨_, _, _, _, _, h⟩ | ⟨_, _, _, _, h⟩ <;> simp at h

theorem innerSpec_nodup (lk rk : List K) : (innerSpec lk rk).Nodup := by
  unfold innerSpec
  rw [List.nodup_iff_pairwise_ne, List.pairwise_flatMap]
  constructor
  · rintro ⟨k, i⟩ _
    rw [List.pairwise_filterMap]
    refine (zipIdx_snd_pairwise rk 0).imp ?_
    intro p q hne b hb c hc
    split at hb <;> split at hc <;> simp_all
    subst hb; subst hc; simp; exact hne
  · refine (zipIdx_snd_pairwise lk 0).imp ?_
    rintro ⟨k, i⟩ ⟨k', i'⟩ hne x hx y hy e
    simp only [List.mem_filterMap] at hx hy
    obtain ⟨q, _, hq⟩ := hx
    obtain ⟨q', _, hq'⟩ := hy
    split at hq <;> split at hq' <;> simp at hq hq'
    rw [← hq, ← hq'] at e
    simp at e
    exact hne e.1

omit [DecidableEq K] in
theorem swapPair_injective : ∀ a b : Pair, swapPair a = swapPair b → a = b := by
  rintro ⟨a1, a2⟩ ⟨b1, b2⟩ h
  simp [swapPair] at h
  simp [h.1, h.2]

/-- `full_join(R, L)` has the rows of `full_join(L, R)` with the sides exchanged -/
theorem fullSpec_symm (lk rk : List K) : (fullSpec lk rk).Perm ((fullSpec rk lk).map swapPair) := by
  have hn2 : ((fullSpec rk lk).map swapPair).Nodup := by
    rw [List.nodup_iff_pairwise_ne, List.pairwise_map]
    exact (fullSpec_nodup rk lk).imp (fun h e => h (swapPair_injective _ _ e))
  rw [List.perm_ext_iff_of_nodup (fullSpec_nodup lk rk) hn2]
  intro p
  rw [mem_fullSpec, List.mem_map]
  constructor
  · intro h
    refine ⟨swapPair p, ?_, by simp [swapPair]⟩
    rw [mem_fullSpec]; exact (rowOf_swap lk rk p).mpr h
  · rintro ⟨q, hq, rfl⟩
    rw [mem_fullSpec] at hq
    exact (rowOf_swap lk rk (swapPair q)).mp hq

/-! ### order, containment -/

omit [DecidableEq K] in
theorem zipIdx_snd_lt (l : List K) (s : Nat) : (l.zipIdx s).Pairwise (fun p q => p.2 < q.2) := by
  have h : ((l.zipIdx s).map Prod.snd).Pairwise (· < ·) := by
    rw [List.zipIdx_map_snd]; exact List.pairwise_lt_range'
  rw [List.pairwise_map] at h
  exact h

/-- a bucket lists its positions in ascending order -/
theorem matchIdx_sorted (rk : List K) (s : Nat) (k : K) : (matchIdx rk s k).Pairwise (· < ·) := by
  unfold matchIdx
  rw [List.pairwise_filterMap]
  refine (zipIdx_snd_lt rk s).imp ?_
  intro p q hlt b hb c hc
  split at hb <;> split at hc <;> simp_all

omit [DecidableEq K] in
theorem flatMap_sublist {α β : Type} (l : List α) (f g : α → List β) (h : ∀ a, (f a).Sublist (g a)) :
    (l.flatMap f).Sublist (l.flatMap g) := by
  induction l with
  | nil => simp
  | cons a t ih => simp only [List.flatMap_cons]; exact (h a).append ih

theorem emit_sublist (i : Nat) (b : List Nat) : (emit false i b).Sublist (emit true i b) := by
  unfold emit; cases b <;> simp

theorem inner_sublist_left (lk rk : List K) : ((innerSpec lk rk).map liftPair).Sublist (leftSpec lk rk) := by
  rw [← inner_pairs_eq, ← left_pairs_eq]
  exact flatMap_sublist _ _ _ (fun p => emit_sublist p.2 _)

/-- the probe loop sees the index only through `right_index.get` -/
theorem probe_congr (outer chkL : Bool) (ix ix' : Index K) (h : ∀ k, bucketOf ix k = bucketOf ix' k)
    (lk : List K) (s : Nat) (seen : List K) :
    probe outer chkL ix lk s seen = probe outer chkL ix' lk s seen := by
  induction lk generalizing s seen with
  | nil => rfl
  | cons a l ih => simp only [probe, ih, h]

/-! ### result assembly -/

section assemble
variable {α : Type}

omit [DecidableEq K] in
theorem getD_map_getElem? {β : Type} (f : Pair → β) (d : β) (ps : List Pair) (p : Nat) (h : p < ps.length) :
    (ps.map f)[p]?.getD d = f ps[p] := by
  simp [List.getElem?_map, List.getElem?_eq_getElem h]

omit [DecidableEq K] in
/-- row `p` of the result is the left row followed by the right row of the `p`-th emitted pair -/
theorem row_resultCols (pad : α) (L R : Tab α) (ps : List Pair) (p : Nat) (h : p < ps.length) :
    (resultCols pad L R ps).map (fun c => c[p]?.getD pad)
      = rowAt pad L.cols ps[p].1 ++ rowAt pad R.cols ps[p].2 := by
  simp only [resultCols, rowAt, List.map_append, List.map_map]
  congr 1 <;> (apply List.map_congr_left; intro c _; exact getD_map_getElem? _ pad ps p h)

omit [DecidableEq K] in
theorem rowAt_none (pad : α) (cols : List (List α)) : rowAt pad cols none = List.replicate cols.length pad := by
  simp [rowAt, cellAt, List.eq_replicate_iff]

omit [DecidableEq K] in
theorem rowAt_some (pad : α) (cols : List (List α)) (i : Nat) :
    rowAt pad cols (some i) = cols.map (fun c => c[i]?.getD pad) := rfl

omit [DecidableEq K] in
theorem resultCols_length (pad : α) (L R : Tab α) (ps : List Pair) :
    ∀ c ∈ resultCols pad L R ps, c.length = ps.length := by
  intro c hc
  simp only [resultCols, List.mem_append, List.mem_map] at hc
  rcases hc with ⟨_, _, rfl⟩ | ⟨_, _, rfl⟩ <;> simp

end assemble

/-! ### whole calls -/

theorem run_eq_specRun (kind : JKind) (e : String) (L R : Tab Cell) (lon ron : OnArg) :
    run kind e L R lon ron = specRun kind e L R lon ron := by
  unfold run specRun
  rw [accepts_iff]
  cases hv : validExpect e
  · rfl
  · simp only [Bool.not_true, Bool.false_eq_true, if_false]
    cases validateKeys L R lon ron with
    | error er => rfl
    | ok kp => simp only [joinCore_eq_specCore kind e hv]

theorem valid_mm : validExpect "many_to_many" = true := by decide
theorem needs_mm : needsLeft "many_to_many" = false ∧ needsRight "many_to_many" = false := by decide

theorem specCore_mm (kind : JKind) (lk rk : List K) :
    specCore kind "many_to_many" lk rk = .ok (specPairs kind lk rk) := by
  simp [specCore, needs_mm.1, needs_mm.2]

theorem specCore_ok (kind : JKind) (e : String) (lk rk : List K) (ps : List Pair)
    (h : specCore kind e lk rk = .ok ps) : ps = specPairs kind lk rk := by
  unfold specCore at h
  split at h
  · cases h
  · cases h; rfl

/-- every row emitted for left row `i` carries `i` on its left side -/
theorem left_block_fst (rk : List K) (k : K) (i : Nat) (x : Pair)
    (hx : x ∈ (if (matchIdx rk 0 k).isEmpty then [((some i, none) : Pair)]
               else (matchIdx rk 0 k).map (fun j => (some i, some j)))) : x.1 = some i := by
  split at hx
  · simp at hx; rw [hx]
  · simp at hx; obtain ⟨_, _, rfl⟩ := hx; rfl

/-- the rows of a left join come in left-row order -/
theorem leftSpec_left_order (lk rk : List K) :
    (leftSpec lk rk).Pairwise (fun a b => ∀ i i', a.1 = some i → b.1 = some i' → i ≤ i') := by
  unfold leftSpec
  rw [List.pairwise_flatMap]
  constructor
  · rintro ⟨k, i⟩ _
    apply List.pairwise_of_forall_mem_list
    intro a ha b hb i1 i2 h1 h2
    have e1 := left_block_fst rk k i a ha
    have e2 := left_block_fst rk k i b hb
    rw [e1] at h1; rw [e2] at h2
    cases h1; cases h2; exact Nat.le_refl _
  · refine (zipIdx_snd_lt lk 0).imp ?_
    rintro ⟨k, i⟩ ⟨k', i'⟩ hlt x hx y hy i1 i2 h1 h2
    have e1 := left_block_fst rk k i x hx
    have e2 := left_block_fst rk k' i' y hy
    rw [e1] at h1; rw [e2] at h2
    cases h1; cases h2; exact Nat.le_of_lt hlt

end Join
end Serif
