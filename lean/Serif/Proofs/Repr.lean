/- Helper lemmas about the repr model (used by Props/C20). -/
import Serif.Model.Repr

namespace Serif.Repr

/-! ### `mapRes` -/

theorem mapRes_ok_length {α β : Type} {f : α → Res β} {l : List α} {bs : List β}
    (h : mapRes f l = .ok bs) : bs.length = l.length := by
  induction l generalizing bs with
  | nil => simp [mapRes] at h; subst h; rfl
  | cons a r ih =>
    simp only [mapRes] at h
    cases hfa : f a with
    | error e => rw [hfa] at h; cases h
    | ok b =>
      rw [hfa] at h
      cases hr : mapRes f r with
      | error e => rw [hr] at h; cases h
      | ok bs' =>
        rw [hr] at h
        simp only [Except.ok.injEq] at h
        subst h
        simp [ih hr]

theorem mapRes_ok_getElem? {α β : Type} {f : α → Res β} {l : List α} {bs : List β}
    (h : mapRes f l = .ok bs) (i : Nat) (a : α) (ha : l[i]? = some a) :
    ∃ b, f a = .ok b ∧ bs[i]? = some b := by
  induction l generalizing bs i with
  | nil => simp at ha
  | cons x r ih =>
    simp only [mapRes] at h
    cases hfa : f x with
    | error e => rw [hfa] at h; cases h
    | ok b =>
      rw [hfa] at h
      cases hr : mapRes f r with
      | error e => rw [hr] at h; cases h
      | ok bs' =>
        rw [hr] at h
        simp only [Except.ok.injEq] at h
        subst h
        cases i with
        | zero =>
          simp only [List.getElem?_cons_zero, Option.some.injEq] at ha
          subst ha
          exact ⟨b, hfa, by simp⟩
        | succ j =>
          simp only [List.getElem?_cons_succ] at ha
          obtain ⟨b', hb', hj⟩ := ih hr j ha
          exact ⟨b', hb', by simpa using hj⟩

theorem mapRes_total {α β : Type} {f : α → Res β} {l : List α}
    (h : ∀ a ∈ l, ∃ b, f a = .ok b) : ∃ bs, mapRes f l = .ok bs := by
  induction l with
  | nil => exact ⟨[], rfl⟩
  | cons a r ih =>
    obtain ⟨b, hb⟩ := h a List.mem_cons_self
    obtain ⟨bs, hbs⟩ := ih (fun x hx => h x (List.mem_cons_of_mem _ hx))
    exact ⟨b :: bs, by simp [mapRes, hb, hbs]⟩

/-! ### `preview` -/

theorem shownCells_map_cell {α : Type} (l : List α) : shownCells (l.map Shown.cell) = l := by
  induction l with
  | nil => rfl
  | cons a r ih => simp [shownCells, ih]

theorem shownCells_append {α : Type} (a b : List (Shown α)) :
    shownCells (a ++ b) = shownCells a ++ shownCells b := by
  induction a with
  | nil => rfl
  | cons x r ih => cases x <;> simp [shownCells, ih]

theorem mem_preview {α : Type} (k : Nat) (xs : List α) (s : Shown α) (h : s ∈ preview k xs) :
    s = .ellipsis ∨ ∃ a ∈ xs, s = .cell a := by
  unfold preview at h
  split at h
  · simp only [List.append_assoc, List.mem_append, List.mem_map, List.mem_cons, List.not_mem_nil,
      or_false] at h
    rcases h with ⟨a, ha, rfl⟩ | rfl | ⟨a, ha, rfl⟩
    · exact .inr ⟨a, List.mem_of_mem_take ha, rfl⟩
    · exact .inl rfl
    · exact .inr ⟨a, List.mem_of_mem_drop ha, rfl⟩
  · simp only [List.mem_map] at h
    obtain ⟨a, ha, rfl⟩ := h
    exact .inr ⟨a, ha, rfl⟩

/-! ### the cell formatter -/

theorem isWhole_total (c : Cell) (n : NumClass) (h : c.num = some n) : ∃ b, isWhole c = .ok b := by
  unfold isWhole
  rw [h]
  cases n <;> simp [pyInt, bind, Except.bind]

theorem need_total (o : Option String) (h : o.isSome = true) : ∃ s, need o = .ok s := by
  cases o with
  | none => simp at h
  | some s => exact ⟨s, rfl⟩

theorem fmtCell_float_total (c : Cell) (hn : c.num.isSome = true) (hg : c.g.isSome = true)
    (hf : c.f1.isSome = true) : ∃ s, fmtCell (some .float) c = .ok s := by
  unfold fmtCell
  split
  · exact ⟨_, rfl⟩
  split
  · exact ⟨_, rfl⟩
  cases hnum : c.num with
  | none => rw [hnum] at hn; simp at hn
  | some n =>
    obtain ⟨b, hb⟩ := isWhole_total c n hnum
    obtain ⟨sg, hsg⟩ := need_total c.g hg
    obtain ⟨sf, hsf⟩ := need_total c.f1 hf
    simp only [hb, bind, Except.bind]
    cases b
    · exact ⟨sg, by simp [hsg]⟩
    · exact ⟨sf, by simp [hsf]⟩

theorem fmtCell_total (kind : Option Kind) (c : Cell) (h : c.formattable kind = true) :
    ∃ s, fmtCell kind c = .ok s := by
  by_cases he : c.eqEllipsis = true
  · exact ⟨"...", by simp [fmtCell, he]⟩
  by_cases hn : c.isNone = true
  · exact ⟨"None", by simp [fmtCell, he, hn]⟩
  have he' : c.eqEllipsis = false := by simpa using he
  have hn' : c.isNone = false := by simpa using hn
  simp only [Cell.formattable, he', hn', Bool.false_or] at h
  by_cases hk : kind = some .float
  · subst hk
    simp only [Bool.and_eq_true] at h
    exact fmtCell_float_total c h.1.1 h.1.2 h.2
  by_cases hd : kind = some .date
  · subst hd
    simp only at h
    obtain ⟨s, hs⟩ := need_total c.iso h
    exact ⟨s, by simp [fmtCell, he, hn, hs]⟩
  · unfold fmtCell
    simp only [he, hn, Bool.false_eq_true, if_false]
    split
    · exact absurd rfl hk
    · exact ⟨_, rfl⟩
    · exact absurd rfl hd
    · exact ⟨_, rfl⟩
    · split <;> exact ⟨_, rfl⟩

theorem fmtShown_total (kind : Option Kind) (s : Shown Cell)
    (h : ∀ c, s = .cell c → c.formattable kind = true) : ∃ t, fmtShown kind s = .ok t := by
  cases s with
  | ellipsis => exact ⟨"...", rfl⟩
  | cell c => exact fmtCell_total kind c (h c rfl)

theorem formatColumn_total (k : Nat) (col : Col)
    (h : ∀ c ∈ col.cells, c.formattable (col.dtype.map (·.kind)) = true) :
    ∃ ls, formatColumn k col = .ok ls := by
  unfold formatColumn
  apply mapRes_total
  intro s hs
  apply fmtShown_total
  intro c hc
  subst hc
  rcases mem_preview k col.cells _ hs with h' | ⟨a, ha, h'⟩
  · cases h'
  · injection h' with h'; subst h'; exact h _ ha

theorem formatColumn_length (k : Nat) (col : Col) (ls : List String)
    (h : formatColumn k col = .ok ls) : ls.length = (preview k col.cells).length :=
  mapRes_ok_length h

/-! ### header bookkeeping: which columns `_compute_headers` reports -/

/-- the entries of `cols` (numbered from `i`) whose index satisfies `p`, mapped by `f` -/
def pick {β : Type} (p : Nat → Bool) (f : Col → β) : Nat → List Col → List β
  | _, [] => []
  | i, c :: r => (if p i then [f c] else []) ++ pick p f (i + 1) r

theorem pick_append {β : Type} (p : Nat → Bool) (f : Col → β) (i : Nat) (a b : List Col) :
    pick p f i (a ++ b) = pick p f i a ++ pick p f (i + a.length) b := by
  induction a generalizing i with
  | nil => simp [pick]
  | cons c r ih =>
    simp only [List.cons_append, pick, ih, List.length_cons, List.append_assoc]
    congr 3
    omega

theorem pick_all {β : Type} (p : Nat → Bool) (f : Col → β) (i : Nat) (l : List Col)
    (h : ∀ j, i ≤ j → j < i + l.length → p j = true) : pick p f i l = l.map f := by
  induction l generalizing i with
  | nil => rfl
  | cons c r ih =>
    have h0 : p i = true := h i (Nat.le_refl _) (by simp)
    simp only [pick, h0, if_true, List.map_cons, List.singleton_append, List.cons.injEq, true_and]
    apply ih
    intro j h1 h2
    apply h j (by omega)
    simp only [List.length_cons]; omega

theorem pick_none {β : Type} (p : Nat → Bool) (f : Col → β) (i : Nat) (l : List Col)
    (h : ∀ j, i ≤ j → j < i + l.length → p j = false) : pick p f i l = [] := by
  induction l generalizing i with
  | nil => rfl
  | cons c r ih =>
    have h0 : p i = false := h i (Nat.le_refl _) (by simp)
    simp only [pick, h0, Bool.false_eq_true, if_false, List.nil_append]
    apply ih
    intro j h1 h2
    apply h j (by omega)
    simp only [List.length_cons]; omega

theorem hdrLoop_fields (otherName : Nat → String) (shown : List Nat) (st : HdrSt) (i : Nat) (cols : List Col) :
    (hdrLoop otherName shown st i cols).shown = st.shown ++ pick shown.contains (·.shownName) i cols ∧
    (hdrLoop otherName shown st i cols).disp = st.disp ++ pick shown.contains (fun c => c.name.getD "") i cols ∧
    (hdrLoop otherName shown st i cols).dts =
      st.dts ++ pick shown.contains (fun c => dtypeText otherName c.dtype) i cols := by
  induction cols generalizing st i with
  | nil => simp [hdrLoop, pick]
  | cons c r ih =>
    simp only [hdrLoop, pick]
    obtain ⟨h1, h2, h3⟩ := ih (hdrStep otherName shown st i c) (i + 1)
    rw [h1, h2, h3]
    unfold hdrStep
    by_cases hp : shown.contains i = true
    · simp only [hp, Bool.not_true, Bool.false_eq_true, if_false, if_true, List.append_assoc]
      exact ⟨trivial, trivial, trivial⟩
    · simp only [hp, Bool.not_eq_true] at hp ⊢
      simp only [Bool.not_false, if_true, Bool.false_eq_true, if_false, List.nil_append]
      split
      · split <;> exact ⟨rfl, rfl, rfl⟩
      · exact ⟨rfl, rfl, rfl⟩

theorem mem_shownIdx_small (m n j : Nat) (h : ¬ n > m * 2) :
    (shownIdx m n).contains j = decide (j < n) := by
  simp [shownIdx, h]

theorem mem_shownIdx_large (m n j : Nat) (h : n > m * 2) :
    (shownIdx m n).contains j = decide (j < m ∨ (n - m ≤ j ∧ j < n)) := by
  simp only [shownIdx, h, if_true]
  rw [Bool.eq_iff_iff]
  simp only [List.contains_iff_mem, List.mem_append, List.mem_range, List.mem_map, decide_eq_true_eq]
  constructor
  · rintro (h1 | ⟨a, ha, rfl⟩)
    · exact .inl h1
    · right; omega
  · rintro (h1 | ⟨h1, h2⟩)
    · exact .inl h1
    · right; exact ⟨j - (n - m), by omega, by omega⟩

/-- the columns `_compute_headers` reports are the displayed columns: all of them, or the first
    and last `m` -/
theorem pick_shownIdx {β : Type} (f : Col → β) (m : Nat) (cols : List Col) :
    pick (shownIdx m cols.length).contains f 0 cols = (shownCols m cols).map f := by
  by_cases h : cols.length > m * 2
  · simp only [shownCols, h, if_true]
    generalize hn : cols.length = n at h
    have hsplit : cols = cols.take m ++ ((cols.drop m).take (n - m - m) ++ cols.drop (n - m)) := by
      have e : cols.drop (n - m) = (cols.drop m).drop (n - m - m) := by
        rw [List.drop_drop]; congr 1; omega
      rw [e, List.take_append_drop, List.take_append_drop]
    have hlt : (cols.take m).length = m := by simp [List.length_take]; omega
    have hlm : ((cols.drop m).take (n - m - m)).length = n - m - m := by
      simp [List.length_take, List.length_drop]; omega
    have hld : (cols.drop (n - m)).length = m := by simp [List.length_drop]; omega
    conv => lhs; rw [hsplit]
    rw [pick_append, pick_append, List.map_append]
    rw [pick_all, pick_none, pick_all]
    · simp
    · intro j h1 h2
      rw [mem_shownIdx_large _ _ _ h]
      simp only [hlt, hlm, hld] at h1 h2
      simp only [decide_eq_true_eq]
      right; omega
    · intro j h1 h2
      rw [mem_shownIdx_large _ _ _ h]
      simp only [hlt, hlm] at h1 h2
      simp only [decide_eq_false_iff_not]
      omega
    · intro j h1 h2
      rw [mem_shownIdx_large _ _ _ h]
      simp only [hlt] at h2
      simp only [decide_eq_true_eq]
      left; omega
  · simp only [shownCols, h, if_false]
    apply pick_all
    intro j _ h2
    rw [mem_shownIdx_small _ _ _ h]
    simpa using h2

theorem computeHeaders_shown (otherName : Nat → String) (m : Nat) (cols : List Col) :
    (computeHeaders otherName cols (shownIdx m cols.length)).shown = (shownCols m cols).map (·.shownName) := by
  unfold computeHeaders
  rw [(hdrLoop_fields otherName _ _ 0 cols).1, pick_shownIdx]
  rfl

theorem computeHeaders_disp (otherName : Nat → String) (m : Nat) (cols : List Col) :
    (computeHeaders otherName cols (shownIdx m cols.length)).disp =
      (shownCols m cols).map (fun c => c.name.getD "") := by
  unfold computeHeaders
  rw [(hdrLoop_fields otherName _ _ 0 cols).2.1, pick_shownIdx]
  rfl

theorem computeHeaders_dts (otherName : Nat → String) (m : Nat) (cols : List Col) :
    (computeHeaders otherName cols (shownIdx m cols.length)).dts =
      (shownCols m cols).map (fun c => dtypeText otherName c.dtype) := by
  unfold computeHeaders
  rw [(hdrLoop_fields otherName _ _ 0 cols).2.2, pick_shownIdx]
  rfl

/-! ### dtype rows -/

theorem filter_insertAt_ellipsis (m : Nat) (l : List String) :
    (insertAt m "..." l).filter (· != "...") = l.filter (· != "...") := by
  unfold insertAt
  rw [List.filter_append, List.filter_cons]
  simp only [bne_self_eq_false, Bool.false_eq_true, if_false]
  rw [← List.filter_append, List.take_append_drop]

theorem heterogeneous_iff (l : List String) :
    heterogeneous l = true ↔ ∃ a ∈ l, ∃ b ∈ l, a ≠ b := by
  cases l with
  | nil => simp [heterogeneous]
  | cons x r =>
    simp only [heterogeneous, List.any_eq_true, bne_iff_ne, ne_eq]
    constructor
    · rintro ⟨y, hy, hne⟩
      exact ⟨y, List.mem_cons_of_mem _ hy, x, List.mem_cons_self, hne⟩
    · rintro ⟨a, ha, b, hb, hne⟩
      by_cases hax : a = x
      · subst hax
        rcases List.mem_cons.mp hb with rfl | hb'
        · exact absurd rfl hne
        · exact ⟨b, hb', fun h => hne h.symm⟩
      · rcases List.mem_cons.mp ha with rfl | ha'
        · exact absurd rfl hax
        · exact ⟨a, ha', hax⟩

end Serif.Repr
