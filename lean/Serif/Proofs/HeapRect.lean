/-
  Rectangularity as an invariant of the object heap (C02 over histories).

  `Proofs/Tab.lean` proves that each *pure* table function returns a rectangular table.  Here the claim is about live
  objects: in every heap reachable by a history whose writes keep lengths (which is what C08 `length_preserved` and the
  length checks of `Table.__init__` / `Table.__setattr__` give), every table object's columns are vector objects of one
  common length — also when columns are written through views handed out earlier, when a column is swapped by attribute
  assignment, and when fingerprints are memoised in between.
-/
import Serif.Proofs.ObjHeap

namespace Serif
namespace Heap

/-- length of a vector object -/
def lenOf (h : Heap) (o : Nat) : Option Nat :=
  match h.objs o with
  | some (.vec v _) => some v.data.length
  | _ => none

/-- every table object's columns are vector objects of one common length -/
def RectHeap (h : Heap) : Prop :=
  ∀ ot cols, h.objs ot = some (.tab cols) → ∃ n, ∀ oc ∈ cols, h.lenOf oc = some n

/-- what the library checks before it accepts an operation, as far as lengths go -/
def LenOK (h : Heap) : HOp → Prop
  /- `Table.__init__` raises on ragged input (after fix 10d5e05 for every construction route) -/
  | .derive _ (.tab cols) => ∃ n, ∀ c ∈ cols, c.data.length = n
  /- `Table.__setattr__`: "length … != table length" is refused -/
  | .setAttr t j src => ∀ ot os cols sv oc, h.root t = some ot → h.root src = some os →
      h.obj ot = some (.tab cols) → h.vecOf os = some sv → cols[j]? = some oc → h.lenOf oc = some sv.data.length
  /- item assignment never changes the length (C08 `length_preserved`) -/
  | .mutate r v => ∀ o, h.root r = some o → ∀ n, h.lenOf o = some n → v.data.length = n
  | .tabMutate t vs => ∀ ot cols, h.root t = some ot → h.obj ot = some (.tab cols) →
      ∀ (i o : Nat) (v : VecVal), cols[i]? = some o → vs[i]? = some v → ∀ n, h.lenOf o = some n → v.data.length = n
  | _ => True

/-- `LenOK` along a whole history, each operation judged in the state it runs in -/
def LenOKRun (fpOf : VecVal → Int) (h : Heap) : List HOp → Prop
  | [] => True
  | op :: ops => LenOK h op ∧ LenOKRun fpOf (step fpOf h op) ops

theorem lenOf_congr (h h' : Heap) (o : Nat) (e : h'.objs o = h.objs o) : h'.lenOf o = h.lenOf o := by
  simp [lenOf, e]

/-- frame rule: a step that creates no table and keeps the length of every vector keeps rectangularity -/
theorem rect_frame (h h' : Heap)
    (htab : ∀ ot cols, h'.objs ot = some (.tab cols) → h.objs ot = some (.tab cols))
    (hlen : ∀ o n, h.lenOf o = some n → h'.lenOf o = some n) (r : RectHeap h) : RectHeap h' := by
  intro ot cols hot
  obtain ⟨n, hn⟩ := r ot cols (htab ot cols hot)
  exact ⟨n, fun oc hoc => hlen oc n (hn oc hoc)⟩

theorem setVec_lenOf (h : Heap) (w : Nat) (v : VecVal) (hv : ∀ n, h.lenOf w = some n → v.data.length = n)
    (o n : Nat) (ho : h.lenOf o = some n) : (h.setVec w v).lenOf o = some n := by
  by_cases e : o = w
  · subst e
    unfold setVec
    split
    · rename_i v0 fp hw
      have := hv n ho
      simp [lenOf, this]
    · exact ho
  · rw [lenOf_congr _ _ _ (setVec_objs_ne h w o v e)]; exact ho

theorem setVecs_tab (h : Heap) (os : List Nat) (vs : List VecVal) (k : Nat) (cols : List Nat) :
    (h.setVecs os vs).objs k = some (.tab cols) ↔ h.objs k = some (.tab cols) := by
  induction os generalizing h vs with
  | nil => simp [setVecs]
  | cons o os ih =>
    cases vs with
    | nil => simp [setVecs]
    | cons v vs => simp only [setVecs]; rw [ih, setVec_tab]

theorem setVecs_lenOf (h : Heap) (os : List Nat) (vs : List VecVal)
    (hv : ∀ (i o : Nat) (v : VecVal), os[i]? = some o → vs[i]? = some v → ∀ n, h.lenOf o = some n → v.data.length = n)
    (o n : Nat) (ho : h.lenOf o = some n) : (h.setVecs os vs).lenOf o = some n := by
  induction os generalizing h vs with
  | nil => simpa [setVecs] using ho
  | cons w os ih =>
    cases vs with
    | nil => simpa [setVecs] using ho
    | cons v vs =>
      simp only [setVecs]
      have h0 : ∀ n, h.lenOf w = some n → v.data.length = n := hv 0 w v (by simp) (by simp)
      apply ih
      · intro i o' v' ho' hv' m hm
        -- the length of o' in the intermediate heap is its length before (or the length just written, which is the same)
        by_cases e : o' = w
        · subst e
          cases hl : h.lenOf o' with
          | none =>
            -- not a vector object: `setVec` left the heap alone
            have : h.setVec o' v = h := by
              unfold setVec obj
              simp only [lenOf] at hl
              split
              · rename_i x fp hx; rw [hx] at hl; simp at hl
              · rfl
            rw [this, hl] at hm; cases hm
          | some m0 =>
            have := setVec_lenOf h o' v h0 o' m0 hl
            rw [this] at hm; have hm' := Option.some.inj hm; rw [← hm']
            exact hv (i + 1) o' v' (by simpa using ho') (by simpa using hv') m0 hl
        · rw [lenOf_congr _ _ _ (setVec_objs_ne h w o' v e)] at hm
          exact hv (i + 1) o' v' (by simpa using ho') (by simpa using hv') m hm
      · exact setVec_lenOf h w v h0 o n ho

theorem memo_tab (fpOf : VecVal → Int) (g : Heap) (c k : Nat) (cols : List Nat) :
    (memo fpOf g c).objs k = some (.tab cols) ↔ g.objs k = some (.tab cols) := by
  unfold memo
  split
  · rename_i v fp hc
    by_cases e : k = c
    · subst e; simp [obj] at hc; simp [hc]
    · simp [upd_ne _ _ _ _ e]
  · rfl

theorem memo_lenOf (fpOf : VecVal → Int) (g : Heap) (c o : Nat) : (memo fpOf g c).lenOf o = g.lenOf o := by
  unfold memo
  split
  · rename_i v fp hc
    by_cases e : o = c
    · subst e; simp [obj] at hc; simp [lenOf, hc]
    · exact lenOf_congr _ _ _ (upd_ne _ _ _ _ e)
  · rfl

theorem memo_foldl_tab (fpOf : VecVal → Int) (cs : List Nat) (g : Heap) (k : Nat) (cols : List Nat) :
    (cs.foldl (memo fpOf) g).objs k = some (.tab cols) ↔ g.objs k = some (.tab cols) := by
  induction cs generalizing g with
  | nil => rfl
  | cons c cs ih => simp only [List.foldl_cons]; rw [ih, memo_tab]

theorem memo_foldl_lenOf (fpOf : VecVal → Int) (cs : List Nat) (g : Heap) (o : Nat) :
    (cs.foldl (memo fpOf) g).lenOf o = g.lenOf o := by
  induction cs generalizing g with
  | nil => rfl
  | cons c cs ih => simp only [List.foldl_cons]; rw [ih, memo_lenOf]

/-- the fresh column objects of a new table have the lengths of the requested columns -/
theorem allocVecs_lenOf (h : Heap) (vs : List VecVal) (n : Nat) (wf : WF h) (hn : ∀ c ∈ vs, c.data.length = n) :
    ∀ o ∈ (h.allocVecs vs).2, (h.allocVecs vs).1.lenOf o = some n := by
  induction vs generalizing h with
  | nil => simp [allocVecs]
  | cons v vs ih =>
    have wf1 := allocVec_wf h v wf
    obtain ⟨_, _, _, d, _, _, _⟩ := allocVecs_spec (h.allocVec v).1 vs wf1
    simp only [allocVecs]
    intro o ho
    simp only [List.mem_cons] at ho
    rcases ho with ho | ho
    · subst ho
      rw [lenOf_congr _ _ _ (d _ (by rw [allocVec_id, allocVec_next]; omega)), allocVec_id]
      simp [lenOf, allocVec_new, hn v (by simp)]
    · exact ih (h.allocVec v).1 wf1 (fun c hc => hn c (by simp [hc])) o ho

/-- **one step keeps rectangularity** -/
theorem step_rect (fpOf : VecVal → Int) (h : Heap) (op : HOp) (wf : WF h) (r : RectHeap h) (ok : LenOK h op) :
    RectHeap (step fpOf h op) := by
  cases op with
  | noop => exact r
  | drop x => exact r
  | getCol dst t j =>
    simp only [step]
    split
    · split
      · split
        · exact r
        · exact r
      · exact r
    · exact r
  | fingerprint x =>
    simp only [step]
    split
    · rename_i o ho
      split
      · rename_i v fp hv
        apply rect_frame h _ _ _ r
        · intro ot cols hot
          by_cases e : ot = o
          · subst e; simp at hot
          · simpa [upd_ne _ _ _ _ e] using hot
        · intro o' n hn
          by_cases e : o' = o
          · subst e; simp [obj] at hv; simp [lenOf, hv] at hn ⊢; exact hn
          · rw [lenOf_congr _ _ _ (upd_ne _ _ _ _ e)]; exact hn
      · rename_i cols hcols
        apply rect_frame h _ _ _ r
        · intro ot cs hot; exact (memo_foldl_tab fpOf cols h ot cs).1 hot
        · intro o' n hn; rw [memo_foldl_lenOf]; exact hn
      · exact r
    · exact r
  | mutate x v =>
    simp only [LenOK] at ok
    simp only [step]
    split
    · rename_i o ho
      apply rect_frame h _ _ _ r
      · intro ot cols hot; exact (setVec_tab h o ot v cols).1 hot
      · exact setVec_lenOf h o v (ok o ho)
    · exact r
  | tabMutate t vs =>
    simp only [LenOK] at ok
    simp only [step]
    split
    · rename_i ot hot
      split
      · rename_i cols hcols
        apply rect_frame h _ _ _ r
        · intro o cs ho; exact (setVecs_tab h cols vs o cs).1 ho
        · exact setVecs_lenOf h cols vs (ok ot cols hot hcols)
      · exact r
    · exact r
  | derive dst val =>
    simp only [step]
    cases val with
    | vec v =>
      show RectHeap { (h.allocVec v).1 with roots := _ }
      apply rect_frame h _ _ _ r
      · intro ot cols hot
        simp only at hot
        by_cases e : ot = h.next
        · subst e; rw [allocVec_new] at hot; cases hot
        · rwa [allocVec_objs_lt h v ot e] at hot
      · intro o n hn
        have : o ≠ h.next := by
          intro e; subst e; simp [lenOf, wf.fresh h.next (Nat.le_refl _)] at hn
        show (h.allocVec v).1.lenOf o = some n
        rw [lenOf_congr _ _ _ (allocVec_objs_lt h v o this)]; exact hn
    | tab cs =>
      simp only [LenOK] at ok
      obtain ⟨n, hn⟩ := ok
      obtain ⟨a, b, c, d, e, f, g⟩ := allocVecs_spec h cs wf
      have hl := allocVecs_lenOf h cs n wf hn
      simp only [alloc]
      generalize hh1 : h.allocVecs cs = p at a b c d e f g hl
      obtain ⟨h1, os⟩ := p
      simp only at a b c d e f g hl ⊢
      intro ot cols hot
      simp only at hot
      by_cases eo : ot = h1.next
      · subst eo
        simp at hot; subst hot
        refine ⟨n, fun oc hoc => ?_⟩
        have hlt : oc < h1.next := by
          rw [e] at hoc; rw [b]; simp [List.mem_range'_1] at hoc; omega
        show lenOf { h1 with objs := _, next := _, roots := _ } oc = some n
        rw [lenOf_congr h1 _ _ (upd_ne _ _ _ _ (Nat.ne_of_lt hlt))]
        exact hl oc hoc
      · rw [upd_ne _ _ _ _ eo] at hot
        have ho_lt : ot < h.next := by
          rcases Nat.lt_or_ge ot h.next with l | l
          · exact l
          · have := a.lt_of_some hot
            obtain ⟨z, fp, hz⟩ := g ot l (by rw [← b]; exact this)
            rw [hz] at hot; cases hot
        rw [d ot ho_lt] at hot
        obtain ⟨m, hm⟩ := r ot cols hot
        refine ⟨m, fun oc hoc => ?_⟩
        obtain ⟨z, fp, hz⟩ := wf.cols_vec ot cols hot oc hoc
        have hoc_lt := wf.lt_of_some hz
        show lenOf { h1 with objs := _, next := _, roots := _ } oc = some m
        rw [lenOf_congr h1 _ _ (upd_ne _ _ _ _ (show oc ≠ h1.next by rw [b]; omega)), lenOf_congr h _ _ (d oc hoc_lt)]
        exact hm oc hoc
  | setAttr t j src =>
    simp only [LenOK] at ok
    simp only [step]
    split
    · rename_i ot os hot hos
      split
      · rename_i cols sv hcols hsv
        split
        · rename_i oc hoc
          have hlen := ok ot os cols sv oc hot hos hcols hsv hoc
          obtain ⟨n, hn⟩ := r ot cols hcols
          have hoc_mem : oc ∈ cols := List.mem_of_getElem? hoc
          have hnn : n = sv.data.length := by
            have := hn oc hoc_mem; rw [hlen] at this; cases this; rfl
          have hot_lt : ot < h.next := wf.lt_of_some hcols
          -- lengths of old objects are untouched
          have old : ∀ o m, h.lenOf o = some m →
              lenOf { (h.allocVec { sv with name := (h.vecOf oc).bind (·.name) }).1 with
                objs := upd (h.allocVec { sv with name := (h.vecOf oc).bind (·.name) }).1.objs ot
                  (some (.tab (cols.set j h.next))) } o = some m := by
            intro o m hm
            have ho_ne : o ≠ ot := by
              intro e; subst e; simp [lenOf, obj] at hm hcols; rw [hcols] at hm; simp at hm
            have ho_ne2 : o ≠ h.next := by
              intro e; subst e; simp [lenOf, wf.fresh h.next (Nat.le_refl _)] at hm
            rw [lenOf_congr (h.allocVec _).1 _ _ (upd_ne _ _ _ _ ho_ne),
              lenOf_congr h _ _ (allocVec_objs_lt h _ o ho_ne2)]
            exact hm
          intro o cs ho
          simp only [allocVec_id] at ho ⊢
          by_cases e : o = ot
          · subst e
            simp at ho; subst ho
            refine ⟨n, fun x hx => ?_⟩
            rcases List.mem_or_eq_of_mem_set hx with hx | hx
            · exact old x n (hn x hx)
            · subst hx
              rw [lenOf_congr (h.allocVec _).1 _ _ (upd_ne _ _ _ _ (Nat.ne_of_gt hot_lt))]
              simp [lenOf, allocVec_new, hnn]
          · rw [upd_ne _ _ _ _ e] at ho
            have e2 : o ≠ h.next := by
              intro e2; subst e2; rw [allocVec_new] at ho; cases ho
            rw [allocVec_objs_lt h _ o e2] at ho
            obtain ⟨m, hm⟩ := r o cs ho
            exact ⟨m, fun x hx => old x m (hm x hx)⟩
        · exact r
      · exact r
    · exact r

/-- what a handle on a table *shows* is rectangular in a rectangular heap -/
theorem abs_rect (h : Heap) (r : RectHeap h) (o : Nat) (cols : List VecVal) (ha : h.abs o = some (.tab cols)) :
    ∃ n, ∀ c ∈ cols, c.data.length = n := by
  unfold abs obj at ha
  cases ho : h.objs o with
  | none => rw [ho] at ha; cases ha
  | some ob =>
    rw [ho] at ha
    cases ob with
    | vec v fp => cases ha
    | tab cs =>
      simp only [Option.some.injEq, AbsVal.tab.injEq] at ha
      obtain ⟨n, hn⟩ := r o cs ho
      refine ⟨n, fun c hc => ?_⟩
      rw [← ha, List.mem_filterMap] at hc
      obtain ⟨oc, hoc, hv⟩ := hc
      have := hn oc hoc
      unfold vecOf obj at hv
      unfold lenOf at this
      split at hv
      · rename_i v fp hobj; rw [hobj] at this; cases hv; simpa using this
      · cases hv

theorem rect_empty : RectHeap empty := by
  intro ot cols h; simp [empty] at h

/-- **rectangularity of every reachable heap** -/
theorem run_rect (fpOf : VecVal → Int) (ops : List HOp) (h : Heap) (wf : WF h) (r : RectHeap h)
    (ok : LenOKRun fpOf h ops) : RectHeap (run fpOf h ops) := by
  induction ops generalizing h with
  | nil => exact r
  | cons op ops ih =>
    exact ih (step fpOf h op) (step_wf fpOf h op wf) (step_rect fpOf h op wf r ok.1) ok.2

end Heap
end Serif
