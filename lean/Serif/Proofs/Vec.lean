/- Helper lemmas about the elementwise model (used by Props/C05 and Props/C06). Core Lean only. -/
import Serif.Model.Vec

namespace Serif.Vec

variable {α β γ ρ σ : Type}

/-! ### `mapRes` -/

theorem mapRes_cons_ok {f : α → Res β} {a : α} {as : List α} {r : List β}
    (h : mapRes f (a :: as) = .ok r) :
    ∃ b bs, f a = .ok b ∧ mapRes f as = .ok bs ∧ r = b :: bs := by
  simp only [mapRes] at h
  split at h
  · cases h
  · rename_i b hb
    split at h
    · cases h
    · rename_i bs hbs
      cases h
      exact ⟨b, bs, hb, hbs, rfl⟩

theorem mapRes_ok_length {f : α → Res β} {l : List α} {r : List β} (h : mapRes f l = .ok r) :
    r.length = l.length := by
  induction l generalizing r with
  | nil => simp only [mapRes] at h; cases h; rfl
  | cons a as ih =>
    obtain ⟨b, bs, _, hbs, rfl⟩ := mapRes_cons_ok h
    simp [ih hbs]

theorem mapRes_ok_get {f : α → Res β} {l : List α} {r : List β} (h : mapRes f l = .ok r)
    {i : Nat} {a : α} (ha : l[i]? = some a) : ∃ b, f a = .ok b ∧ r[i]? = some b := by
  induction l generalizing r i with
  | nil => simp at ha
  | cons a' as ih =>
    obtain ⟨b, bs, hb, hbs, rfl⟩ := mapRes_cons_ok h
    cases i with
    | zero =>
      simp only [List.getElem?_cons_zero, Option.some.injEq] at ha
      subst ha
      exact ⟨b, hb, by simp⟩
    | succ j =>
      simp only [List.getElem?_cons_succ] at ha ⊢
      exact ih hbs ha

theorem mapRes_error {f : α → Res β} {l : List α} {e : Err} (h : mapRes f l = .error e) :
    ∃ a ∈ l, f a = .error e := by
  induction l with
  | nil => simp [mapRes] at h
  | cons a as ih =>
    simp only [mapRes] at h
    split at h
    · rename_i e' he
      cases h
      exact ⟨a, List.mem_cons_self, he⟩
    · split at h
      · rename_i e' he
        cases h
        obtain ⟨x, hx, hxe⟩ := ih he
        exact ⟨x, List.mem_cons_of_mem _ hx, hxe⟩
      · cases h

/-- if every element is defined the whole call is, with exactly the per-element values -/
theorem mapRes_eq_ok_map {f : α → Res β} {g : α → β} {l : List α} (h : ∀ a ∈ l, f a = .ok (g a)) :
    mapRes f l = .ok (l.map g) := by
  induction l with
  | nil => rfl
  | cons a as ih =>
    simp only [mapRes, h a List.mem_cons_self, List.map_cons]
    rw [ih (fun x hx => h x (List.mem_cons_of_mem _ hx))]

theorem mapRes_total {f : α → Res β} {l : List α} (h : ∀ a ∈ l, ∃ b, f a = .ok b) :
    ∃ r, mapRes f l = .ok r := by
  induction l with
  | nil => exact ⟨[], rfl⟩
  | cons a as ih =>
    obtain ⟨b, hb⟩ := h a List.mem_cons_self
    obtain ⟨bs, hbs⟩ := ih (fun x hx => h x (List.mem_cons_of_mem _ hx))
    exact ⟨b :: bs, by simp only [mapRes, hb, hbs]⟩

theorem mapRes_congr {f g : α → Res β} {l : List α} (h : ∀ a ∈ l, f a = g a) :
    mapRes f l = mapRes g l := by
  induction l with
  | nil => rfl
  | cons a as ih =>
    simp only [mapRes, h a List.mem_cons_self]
    rw [ih (fun x hx => h x (List.mem_cons_of_mem _ hx))]

/-! ### `zipCells` (strict zip) -/

theorem zipCells_eq_mapRes (f : Option α → Option β → Res ρ) :
    ∀ (xs : Col α) (ys : Col β), xs.length = ys.length →
      zipCells f xs ys = mapRes (fun p => f p.1 p.2) (xs.zip ys)
  | [], [], _ => rfl
  | x :: xs, y :: ys, h => by
    have h' : xs.length = ys.length := by simpa using h
    simp only [zipCells, List.zip_cons_cons, mapRes, zipCells_eq_mapRes f xs ys h']
  | [], _ :: _, h => by simp at h
  | _ :: _, [], h => by simp at h

/-- the strict zip never truncates: a result exists only for equal lengths -/
theorem zipCells_ok_length {f : Option α → Option β → Res ρ} :
    ∀ {xs : Col α} {ys : Col β} {r : List ρ}, zipCells f xs ys = .ok r → xs.length = ys.length
  | [], [], _, _ => rfl
  | x :: xs, y :: ys, r, h => by
    simp only [zipCells] at h
    split at h
    · cases h
    · split at h
      · cases h
      · rename_i cs hcs
        simp [zipCells_ok_length hcs]
  | [], _ :: _, _, h => by simp [zipCells] at h
  | _ :: _, [], _, h => by simp [zipCells] at h

theorem zip_get {xs : List α} {ys : List β} {i : Nat} {x : α} {y : β}
    (hx : xs[i]? = some x) (hy : ys[i]? = some y) : (xs.zip ys)[i]? = some (x, y) := by
  simp [List.getElem?_zip_eq_some, hx, hy]

theorem get_of_length_eq {xs : List α} {ys : List β} (h : xs.length = ys.length) {i : Nat} {x : α}
    (hx : xs[i]? = some x) : ∃ y, ys[i]? = some y := by
  have hi : i < xs.length := by
    rcases Nat.lt_or_ge i xs.length with h' | h'
    · exact h'
    · rw [List.getElem?_eq_none h'] at hx; cases hx
  exact ⟨ys[i]'(h ▸ hi), by simp [h ▸ hi]⟩

/-! ### the three operand branches -/

theorem seqOp_ok_length {f : Option α → Option β → Res ρ} {xs : Col α} {ys : Col β} {r : List ρ}
    (h : seqOp f xs ys = .ok r) : xs.length = ys.length ∧ r.length = xs.length := by
  unfold seqOp at h
  split at h
  · cases h
  · rename_i hl
    have hl : xs.length = ys.length := by simpa using hl
    rw [zipCells_eq_mapRes f xs ys hl] at h
    refine ⟨hl, ?_⟩
    rw [mapRes_ok_length h, List.length_zip, ← hl, Nat.min_self]

theorem seqOp_ok_get {f : Option α → Option β → Res ρ} {xs : Col α} {ys : Col β} {r : List ρ}
    (h : seqOp f xs ys = .ok r) {i : Nat} {x : Option α} (hx : xs[i]? = some x) :
    ∃ y c, ys[i]? = some y ∧ f x y = .ok c ∧ r[i]? = some c := by
  have hl := (seqOp_ok_length h).1
  unfold seqOp at h
  rw [if_neg (by simpa using hl), zipCells_eq_mapRes f xs ys hl] at h
  obtain ⟨y, hy⟩ := get_of_length_eq hl hx
  obtain ⟨c, hc, hr⟩ := mapRes_ok_get h (zip_get hx hy)
  exact ⟨y, c, hy, hc, hr⟩

theorem seqOp_mismatch {f : Option α → Option β → Res ρ} {xs : Col α} {ys : Col β}
    (h : xs.length ≠ ys.length) : seqOp f xs ys = .error .value := by
  unfold seqOp; rw [if_pos h]

theorem apply_ok_length {f : Option α → Option β → Res ρ} {xs : Col α} {o : Operand β} {r : List ρ}
    (h : apply f xs o = .ok r) : r.length = xs.length := by
  cases o with
  | vec ys dt => exact (seqOp_ok_length h).2
  | seq ys => exact (seqOp_ok_length h).2
  | scalar s => exact mapRes_ok_length h

theorem apply_ok_get {f : Option α → Option β → Res ρ} {xs : Col α} {o : Operand β} {r : List ρ}
    (h : apply f xs o = .ok r) {i : Nat} {x : Option α} (hx : xs[i]? = some x) :
    ∃ y c, o.get? i = some y ∧ f x y = .ok c ∧ r[i]? = some c := by
  cases o with
  | vec ys dt => exact seqOp_ok_get h hx
  | seq ys => exact seqOp_ok_get h hx
  | scalar s =>
    obtain ⟨c, hc, hr⟩ := mapRes_ok_get (f := fun x => f x (some s)) h hx
    exact ⟨some s, c, rfl, hc, hr⟩

theorem apply_mismatch {f : Option α → Option β → Res ρ} {xs : Col α} {o : Operand β} {n : Nat}
    (hn : o.len? = some n) (h : xs.length ≠ n) : apply f xs o = .error .value := by
  cases o with
  | vec ys dt => simp only [Operand.len?, Option.some.injEq] at hn; subst hn; exact seqOp_mismatch h
  | seq ys => simp only [Operand.len?, Option.some.injEq] at hn; subst hn; exact seqOp_mismatch h
  | scalar s => simp [Operand.len?] at hn

/-- no spurious errors: with matching lengths and every evaluated pair defined, the call returns -/
theorem apply_total {f : Option α → Option β → Res ρ} {xs : Col α} {o : Operand β}
    (hlen : ∀ n, o.len? = some n → xs.length = n)
    (hdef : ∀ (i : Nat) (x : Option α) (y : Option β), xs[i]? = some x → o.get? i = some y → ∃ c, f x y = .ok c) :
    ∃ r, apply f xs o = .ok r := by
  have seqCase : ∀ ys : Col β, xs.length = ys.length →
      (∀ (i : Nat) (x : Option α) (y : Option β), xs[i]? = some x → ys[i]? = some y → ∃ c, f x y = .ok c) →
      ∃ r, seqOp f xs ys = .ok r := by
    intro ys hl hd
    unfold seqOp
    rw [if_neg (by simpa using hl), zipCells_eq_mapRes f xs ys hl]
    apply mapRes_total
    intro p hp
    obtain ⟨i, hi, hpi⟩ := List.getElem_of_mem hp
    have hp' : (xs.zip ys)[i]? = some p := by rw [List.getElem?_eq_getElem hi, hpi]
    rw [List.getElem?_zip_eq_some] at hp'
    exact hd i p.1 p.2 hp'.1 hp'.2
  cases o with
  | vec ys dt => exact seqCase ys (hlen _ rfl) hdef
  | seq ys => exact seqCase ys (hlen _ rfl) hdef
  | scalar s =>
    apply mapRes_total
    intro x hx
    obtain ⟨i, hi, hxi⟩ := List.getElem_of_mem hx
    exact hdef i x (some s) (by rw [List.getElem?_eq_getElem hi, hxi]) rfl

/-! ### `cell` -/

theorem cell_none_left (op : α → β → Res γ) (y : Option β) : cell op none y = .ok none := by
  cases y <;> rfl

theorem cell_none_right (op : α → β → Res γ) (x : Option α) : cell op x none = .ok none := by
  cases x <;> rfl

theorem cell_some_ok {op : α → β → Res γ} {a : α} {b : β} {c : Option γ}
    (h : cell op (some a) (some b) = .ok c) : ∃ v, op a b = .ok v ∧ c = some v := by
  simp only [cell] at h
  split at h
  · rename_i v hv; cases h; exact ⟨v, hv, rfl⟩
  · cases h

theorem cell_rev (op : β → α → Res γ) (x : Option α) (y : Option β) :
    cell (rev op) x y = cell op y x := by
  cases x <;> cases y <;> rfl

theorem cell1_ok {f : α → Res β} {x : Option α} {c : Option β} (h : cell1 f x = .ok c) :
    (x = none ∧ c = none) ∨ ∃ a b, x = some a ∧ f a = .ok b ∧ c = some b := by
  cases x with
  | none => simp only [cell1] at h; cases h; exact .inl ⟨rfl, rfl⟩
  | some a =>
    simp only [cell1] at h
    split at h
    · rename_i b hb; cases h; exact .inr ⟨a, b, rfl, hb, rfl⟩
    · cases h

theorem cell_ok_iff {op : α → β → Res γ} {l : Option α} {r : Option β} {c : Option γ} :
    cell op l r = .ok c ↔ IsCellOf op l r c := by
  cases l with
  | none => cases r <;> simp [cell, IsCellOf, eq_comm]
  | some a =>
    cases r with
    | none => simp [cell, IsCellOf, eq_comm]
    | some b =>
      simp only [cell, IsCellOf]
      cases hop : op a b with
      | ok v => simp [eq_comm]
      | error e => simp

theorem isCellOf_none_left {op : α → β → Res γ} {r : Option β} {c : Option γ}
    (h : IsCellOf op none r c) : c = none := by
  cases r <;> exact h

theorem isCellOf_none_right {op : α → β → Res γ} {l : Option α} {c : Option γ}
    (h : IsCellOf op l none c) : c = none := by
  cases l <;> exact h

/-! ### reflected operators are the same loop with the operands written the other way round -/

theorem zipCells_flip (f : Option β → Option α → Res ρ) :
    ∀ (ys : Col β) (xs : Col α), zipCells f ys xs = zipCells (fun x y => f y x) xs ys
  | [], [] => rfl
  | y :: ys, x :: xs => by simp only [zipCells, zipCells_flip f ys xs]
  | [], _ :: _ => rfl
  | _ :: _, [] => rfl

theorem relementwise_eq_apply (op : β → α → Res γ) (xs : Col α) (o : Operand β) :
    relementwise op xs o = apply (fun x y => cell op y x) xs o := by
  have : cell (rev op) = fun x y => cell op y x := by funext x y; exact cell_rev op x y
  unfold relementwise elementwise; rw [this]

theorem radd_eq_apply (add : β → α → Res γ) (xs : Col α) (o : Operand β) :
    radd add xs o = apply (fun x y => cell add y x) xs o := by
  cases o with
  | vec ys dt => simp only [radd, apply, seqOp, zipCells_flip (cell add) ys xs]
  | seq ys => simp only [radd, apply, seqOp, zipCells_flip (cell add) ys xs]
  | scalar s => rfl

theorem rmul_eq_apply (mul : β → α → Res γ) (xs : Col α) (o : Operand β) :
    rmul mul xs o = apply (fun x y => cell mul y x) xs o :=
  relementwise_eq_apply mul xs o

/-- every reflected operator computes `other[i] <o> self[i]` -/
theorem binary_refl_eq_apply (py : BinOp → α → α → Res α) (o : BinOp) (xs : Col α) (other : Operand α) :
    binary py o true xs other = apply (fun x y => cell (py o) y x) xs other := by
  cases o with
  | add => exact radd_eq_apply _ _ _
  | mul => exact rmul_eq_apply _ _ _
  | sub => exact relementwise_eq_apply _ _ _
  | truediv => exact relementwise_eq_apply _ _ _
  | floordiv => exact relementwise_eq_apply _ _ _
  | mod => exact relementwise_eq_apply _ _ _
  | pow => exact relementwise_eq_apply _ _ _

theorem binary_direct_eq_apply (py : BinOp → α → α → Res α) (o : BinOp) (xs : Col α)
    (other : Operand α) : binary py o false xs other = apply (cell (py o)) xs other := rfl

/-- both directions at once: the per-pair function in the written operand order -/
theorem binary_eq_apply (py : BinOp → α → α → Res α) (o : BinOp) (refl : Bool)
    (xs : Col α)
    (other : Operand α) :
    binary py o refl xs other =
      apply (fun x y => if refl then cell (py o) y x else cell (py o) x y) xs other := by
  cases refl with
  | true => simpa using binary_refl_eq_apply py o xs other
  | false => rfl

/-- `_Date.__add__` is the ordinary elementwise loop with "add days" or Python's `+` as scalar
    operation -/
theorem dateAdd_eq_elementwise (S : Sem α) (xs : Col α) (o : Operand α) :
    dateAdd S xs o = elementwise (if usesDays S o then S.days else S.py .add) xs o := by
  cases o with
  | vec ys dt =>
    by_cases hk : kindIs dt .int = true
    · simp [dateAdd, usesDays, hk, elementwise, apply, seqOp]
    · simp [dateAdd, usesDays, hk]
  | seq ys => simp [dateAdd, usesDays]
  | scalar s =>
    by_cases hs : S.isInt s = true
    · simp [dateAdd, usesDays, hs, elementwise, apply]
    · simp [dateAdd, usesDays, hs]

theorem vectorBinary_eq_apply (S : Sem α) (o : BinOp) (refl : Bool) (v : Vec α) (other : Operand α)
 :
    vectorBinary S o refl v other =
      apply (fun x y => if refl then cell (scalarOpOf S o refl v other) y x
                        else cell (scalarOpOf S o refl v other) x y) v.data other := by
  unfold vectorBinary scalarOpOf
  by_cases hd : (!refl && decide (o = .add) && v.isDate) = true
  · simp only [hd, if_true]
    simp only [Bool.and_eq_true, Bool.not_eq_true', decide_eq_true_eq] at hd
    obtain ⟨⟨hr, ho⟩, hv⟩ := hd
    subst hr; subst ho
    rw [dateAdd_eq_elementwise S v.data other]
    by_cases hu : usesDays S other = true
    · simp [hu, elementwise]
    · simp [hu, elementwise]
  · simp only [hd, Bool.false_and]
    rw [binary_eq_apply S.py o refl]
    simp

theorem binary_ok_length {py : BinOp → α → α → Res α} {o : BinOp} {refl : Bool} {xs : Col α}
    {other : Operand α} {r : Col α} (h : binary py o refl xs other = .ok r) :
    r.length = xs.length := by
  cases refl with
  | false => exact apply_ok_length h
  | true =>
    cases o with
    | add =>
      have h' : radd (py .add) xs other = .ok r := h
      rw [radd_eq_apply] at h'; exact apply_ok_length h'
    | mul => exact apply_ok_length h
    | sub => exact apply_ok_length h
    | truediv => exact apply_ok_length h
    | floordiv => exact apply_ok_length h
    | mod => exact apply_ok_length h
    | pow => exact apply_ok_length h

theorem dateAdd_ok_length {S : Sem α} {xs : Col α} {o : Operand α} {r : Col α}
    (h : dateAdd S xs o = .ok r) : r.length = xs.length := by
  rw [dateAdd_eq_elementwise S xs o] at h
  exact apply_ok_length h

theorem binary_mismatch {py : BinOp → α → α → Res α} {o : BinOp} {refl : Bool} {xs : Col α}
    {other : Operand α} {n : Nat} (hn : other.len? = some n) (h : xs.length ≠ n) :
    binary py o refl xs other = .error .value := by
  cases refl with
  | false => exact apply_mismatch hn h
  | true =>
    cases o with
    | add =>
      show radd (py .add) xs other = .error .value
      rw [radd_eq_apply]; exact apply_mismatch hn h
    | mul => exact apply_mismatch hn h
    | sub => exact apply_mismatch hn h
    | truediv => exact apply_mismatch hn h
    | floordiv => exact apply_mismatch hn h
    | mod => exact apply_mismatch hn h
    | pow => exact apply_mismatch hn h

theorem dateAdd_mismatch {S : Sem α} {xs : Col α} {o : Operand α} {n : Nat}
    (hn : o.len? = some n) (h : xs.length ≠ n) : dateAdd S xs o = .error .value := by
  rw [dateAdd_eq_elementwise]
  exact apply_mismatch hn h

/-! ### the specification side -/

/-- the model run is always an acceptable observation -/
theorem conformsCells_mapRes [DecidableEq ρ] (g : α → Res ρ) (l : List α) :
    conformsCells (l.map g) (outcome (mapRes g l)) = true := by
  induction l with
  | nil => simp [mapRes, outcome, conformsCells]
  | cons a as ih =>
    simp only [mapRes, List.map_cons]
    split
    · rename_i e he
      simp [outcome, conformsCells, he, isError]
    · rename_i b hb
      split
      · rename_i e he
        rw [he] at ih
        simp only [outcome, conformsCells] at ih ⊢
        simp [ih]
      · rename_i bs hbs
        rw [hbs] at ih
        simp only [outcome, conformsCells, Bool.and_eq_true, beq_iff_eq, List.all_eq_true] at ih ⊢
        refine ⟨by simp [ih.1], ?_⟩
        intro p hp
        simp only [List.zip_cons_cons, List.mem_cons] at hp
        rcases hp with rfl | hp
        · simp [hb]
        · exact ih.2 p hp

theorem zipWith_eq_map_zip (f : Option α → Option β → Res ρ) (xs : Col α) (ys : Col β) :
    List.zipWith f xs ys = (xs.zip ys).map (fun p => f p.1 p.2) := by
  induction xs generalizing ys with
  | nil => simp
  | cons x xs ih => cases ys <;> simp [ih]

theorem conforms_apply [DecidableEq ρ] (f : Option α → Option β → Res ρ) (xs : Col α) (o : Operand β) :
    conforms (specCells f xs o) (outcome (apply f xs o)) = true := by
  have seqCase : ∀ ys : Col β,
      conforms (if xs.length = ys.length then some (List.zipWith f xs ys) else none)
        (outcome (seqOp f xs ys)) = true := by
    intro ys
    by_cases hl : xs.length = ys.length
    · rw [if_pos hl]
      unfold seqOp
      rw [if_neg (by simpa using hl), zipCells_eq_mapRes f xs ys hl, zipWith_eq_map_zip]
      exact conformsCells_mapRes _ _
    · rw [if_neg hl, seqOp_mismatch hl]; rfl
  cases o with
  | vec ys dt => exact seqCase ys
  | seq ys => exact seqCase ys
  | scalar s => exact conformsCells_mapRes (fun x => f x (some s)) xs

/-- column-by-column runs are acceptable observations of column-by-column requirements -/
theorem conformsTable_mapRes [DecidableEq ρ] (g : α → Res (List ρ)) (spec : α → Option (List (Res ρ)))
    (l : List α) (h : ∀ a ∈ l, conforms (spec a) (outcome (g a)) = true) :
    conformsTable (some (l.map spec)) (outcome (mapRes g l)) = true := by
  induction l with
  | nil => simp [mapRes, outcome, conformsTable]
  | cons a as ih =>
    have ha := h a List.mem_cons_self
    have ih := ih (fun x hx => h x (List.mem_cons_of_mem _ hx))
    simp only [mapRes, List.map_cons]
    split
    · rename_i e he
      rw [he] at ha
      simp only [outcome, conformsTable, List.any_cons, Bool.or_eq_true]
      left
      cases hs : spec a with
      | none => rfl
      | some cells => rw [hs] at ha; simpa [conforms, outcome, conformsCells] using ha
    · rename_i b hb
      rw [hb] at ha
      split
      · rename_i e he
        rw [he] at ih
        simp only [outcome, conformsTable, List.any_cons, Bool.or_eq_true] at ih ⊢
        right; exact ih
      · rename_i bs hbs
        rw [hbs] at ih
        simp only [outcome, conformsTable, Bool.and_eq_true, beq_iff_eq, List.all_eq_true] at ih ⊢
        refine ⟨by simp [ih.1], ?_⟩
        intro p hp
        simp only [List.zip_cons_cons, List.mem_cons] at hp
        rcases hp with rfl | hp
        · exact ha
        · exact ih.2 p hp

/-- when Python defines every position, exactly one observation is acceptable -/
theorem conformsCells_total [DecidableEq ρ] (vals : List ρ) (impl : Option (List ρ)) :
    conformsCells (vals.map Except.ok) impl = true ↔ impl = some vals := by
  cases impl with
  | none =>
    simp only [conformsCells, reduceCtorEq, iff_false, Bool.not_eq_true]
    induction vals with
    | nil => rfl
    | cons v vs ih => simp [isError, ih]
  | some data =>
    simp only [conformsCells, Bool.and_eq_true, beq_iff_eq, List.length_map, Option.some.injEq]
    constructor
    · rintro ⟨hl, hall⟩
      induction vals generalizing data with
      | nil => cases data with
        | nil => rfl
        | cons d ds => simp at hl
      | cons v vs ih =>
        cases data with
        | nil => simp at hl
        | cons d ds =>
          simp only [List.map_cons, List.zip_cons_cons, List.all_cons, Bool.and_eq_true,
            decide_eq_true_eq] at hall
          rw [hall.1, ih ds (by simpa using hl) hall.2]
    · rintro rfl
      refine ⟨rfl, ?_⟩
      induction data with
      | nil => rfl
      | cons v vs ih => simp [ih]

/-! ### None handling -/

theorem apply_ok_const {f : Option α → Option β → Res ρ} {xs : Col α} {o : Operand β} {r : List ρ}
    (h : apply f xs o = .ok r) {i : Nat} {x : Option α} {y : Option β} {v0 : ρ}
    (hx : xs[i]? = some x) (hy : o.get? i = some y) (hf : f x y = .ok v0) : r[i]? = some v0 := by
  obtain ⟨y', c, hy', hc, hr⟩ := apply_ok_get h hx
  rw [hy] at hy'; cases hy'
  rw [hf] at hc; cases hc
  exact hr

theorem cell_none_of {op : α → β → Res γ} {x : Option α} {y : Option β} (hn : x = none ∨ y = none) :
    cell op x y = .ok none := by
  rcases hn with rfl | rfl
  · exact cell_none_left op y
  · exact cell_none_right op x

theorem binary_none {py : BinOp → α → α → Res α} {o : BinOp} {refl : Bool} {xs : Col α}
    {other : Operand α} {r : Col α} (h : binary py o refl xs other = .ok r) {i : Nat}
    {x y : Option α} (hx : xs[i]? = some x) (hy : other.get? i = some y) (hn : x = none ∨ y = none) :
    r[i]? = some none := by
  cases refl with
  | false => exact apply_ok_const h hx hy (cell_none_of hn)
  | true =>
    cases o with
    | add =>
      have h' : radd (py .add) xs other = .ok r := h
      rw [radd_eq_apply] at h'
      exact apply_ok_const h' hx hy (cell_none_of hn.symm)
    | mul => exact apply_ok_const h hx hy (cell_none_of hn)
    | sub =>
      have h' : relementwise (py .sub) xs other = .ok r := h
      rw [relementwise_eq_apply] at h'
      exact apply_ok_const h' hx hy (cell_none_of hn.symm)
    | truediv =>
      have h' : relementwise (py .truediv) xs other = .ok r := h
      rw [relementwise_eq_apply] at h'
      exact apply_ok_const h' hx hy (cell_none_of hn.symm)
    | floordiv =>
      have h' : relementwise (py .floordiv) xs other = .ok r := h
      rw [relementwise_eq_apply] at h'
      exact apply_ok_const h' hx hy (cell_none_of hn.symm)
    | mod =>
      have h' : relementwise (py .mod) xs other = .ok r := h
      rw [relementwise_eq_apply] at h'
      exact apply_ok_const h' hx hy (cell_none_of hn.symm)
    | pow =>
      have h' : relementwise (py .pow) xs other = .ok r := h
      rw [relementwise_eq_apply] at h'
      exact apply_ok_const h' hx hy (cell_none_of hn.symm)

theorem vectorBinary_none {S : Sem α} {o : BinOp} {refl : Bool} {v : Vec α} {other : Operand α}
    {r : Col α} (h : vectorBinary S o refl v other = .ok r) {i : Nat} {x y : Option α}
    (hx : v.data[i]? = some x) (hy : other.get? i = some y) (hn : x = none ∨ y = none) :
    r[i]? = some none := by
  unfold vectorBinary at h
  split at h
  · rw [dateAdd_eq_elementwise S v.data other] at h
    exact apply_ok_const h hx hy (cell_none_of hn)
  · exact binary_none h hx hy hn

theorem toBoolVec_ok {r : Res (List Bool)} {b : BoolVec} (h : toBoolVec r = .ok b) :
    ∃ l, r = .ok l ∧ b = { data := l, dtype := boolDType } := by
  cases r with
  | ok l => simp only [toBoolVec] at h; cases h; exact ⟨l, rfl, rfl⟩
  | error e => simp [toBoolVec] at h

theorem cmpCell_none_of {op : α → β → Res Bool} {x : Option α} {y : Option β}
    (hn : x = none ∨ y = none) : cmpCell op x y = .ok false := by
  rcases hn with rfl | rfl
  · cases y <;> rfl
  · cases x <;> rfl

theorem compare_none {op : α → β → Res Bool} {xs : Col α} {o : Operand β} {r : BoolVec}
    (h : compare op xs o = .ok r) {i : Nat} {x : Option α} {y : Option β}
    (hx : xs[i]? = some x) (hy : o.get? i = some y) (hn : x = none ∨ y = none) :
    r.data[i]? = some false := by
  obtain ⟨l, hl, rfl⟩ := toBoolVec_ok h
  exact apply_ok_const hl hx hy (cmpCell_none_of hn)

theorem mapRes_all_error_ok {f : α → Res β} {l : List α} {r : List β} {e : Err}
    (hf : ∀ a, f a = .error e) (h : mapRes f l = .ok r) : l = [] := by
  cases l with
  | nil => rfl
  | cons a as => simp [mapRes, hf a] at h

theorem dateCompare_none {isStr isDt : β → Bool} {op : α → β → Res Bool}
    {iso : α → β → Res Bool} {xs : Col α} {o : Operand β} {r : BoolVec}
    (h : dateCompare isStr isDt op iso xs o = .ok r) {i : Nat} {x : Option α} {y : Option β}
    (hx : xs[i]? = some x) (hy : o.get? i = some y) (hn : x = none ∨ y = none) :
    r.data[i]? = some false := by
  cases o with
  | vec ys dt =>
    simp only [dateCompare] at h
    split at h
    · cases h
    · rename_i hl
      have hl : xs.length = ys.length := by simpa using hl
      split at h
      · -- ISO strings: the same loop with the parsed date
        have h' : Vec.compare iso xs (.vec ys dt) = .ok r := by
          simpa [Vec.compare, apply, seqOp, hl] using h
        exact compare_none h' hx hy hn
      · split at h
        · -- datetime vector: the same loop with the date taken at midnight
          have h' : Vec.compare iso xs (.vec ys dt) = .ok r := by
            simpa [Vec.compare, apply, seqOp, hl] using h
          exact compare_none h' hx hy hn
        · exact compare_none h hx hy hn
  | seq ys =>
    have h' : Vec.compare op xs (.seq ys) = .ok r := h
    exact compare_none h' hx hy hn
  | scalar s =>
    simp only [dateCompare] at h
    split at h
    · have h' : Vec.compare iso xs (.scalar s) = .ok r := h
      exact compare_none h' hx hy hn
    · split at h
      · have h' : Vec.compare iso xs (.scalar s) = .ok r := h
        exact compare_none h' hx hy hn
      · exact compare_none h hx hy hn

/-! ### reductions -/

theorem reduceLoop_eq_foldl_nonNone (step : σ → α → σ) (init : σ) (xs : Col α) :
    reduceLoop step init xs = (nonNone xs).foldl step init := by
  unfold reduceLoop nonNone
  induction xs generalizing init with
  | nil => rfl
  | cons x xs ih =>
    cases x with
    | none => simpa using ih init
    | some a => simpa using ih (step init a)

theorem nonNone_length_le (xs : Col α) : (nonNone xs).length ≤ xs.length := by
  unfold nonNone; exact List.length_filterMap_le _ _

theorem mem_nonNone {xs : Col α} {a : α} : a ∈ nonNone xs ↔ some a ∈ xs := by
  simp [nonNone]

theorem nonNone_map_some (l : List α) : nonNone (l.map some) = l := by
  induction l with
  | nil => rfl
  | cons a as ih => simp [nonNone] at ih ⊢

/-! ### fillna -/

theorem fillWith_length (c : α → α) (x : Option α) (xs : Col α) : (fillWith c x xs).length = xs.length := by
  simp [fillWith]

theorem fillWith_get_none (c : α → α) (x : Option α) {xs : Col α} {i : Nat}
    (h : xs[i]? = some none) : (fillWith c x xs)[i]? = some x := by
  simp [fillWith, h]

theorem fillWith_get_some (c : α → α) (x : Option α) {xs : Col α} {i : Nat} {a : α}
    (h : xs[i]? = some (some a)) : (fillWith c x xs)[i]? = some (some (c a)) := by
  simp [fillWith, h]

theorem fillWith_no_none (c : α → α) (a : α) (xs : Col α) : none ∉ fillWith c (some a) xs := by
  intro h
  simp only [fillWith, List.mem_map] at h
  obtain ⟨e, _, he⟩ := h
  cases e <;> simp at he

theorem fillna_ok {kindOf : α → Kind} {conv : Kind → α → α} {v r : Vec α} {x : Option α}
    (h : fillna kindOf conv v x = .ok r) :
    ∃ c : α → α, (c = id ∨ ∃ a, x = some a ∧ c = conv (kindOf a)) ∧ r.data = fillWith c x v.data := by
  cases hd : v.dtype with
  | none =>
    simp only [fillna, hd] at h; cases h
    exact ⟨id, .inl rfl, rfl⟩
  | some d =>
    cases x with
    | none =>
      simp only [fillna, hd] at h; cases h
      exact ⟨id, .inl rfl, rfl⟩
    | some a =>
      simp only [fillna, hd] at h
      split at h
      · split at h
        · cases h
        · cases h
          exact ⟨conv (kindOf a), .inr ⟨a, rfl, rfl⟩, rfl⟩
      · cases h
        exact ⟨id, .inl rfl, rfl⟩

theorem fillna_compatible {kindOf : α → Kind} {conv : Kind → α → α} {v : Vec α} {x : Option α}
    (hcompat : ∀ d a, v.dtype = some d → x = some a →
      d.kind = .object ∨ validates d (.ty (kindOf a)) = true) :
    ∃ r, fillna kindOf conv v x = .ok r ∧ r.data = fillWith id x v.data := by
  cases hd : v.dtype with
  | none => exact ⟨fillStandard v x, by simp only [fillna, hd], rfl⟩
  | some d =>
    cases x with
    | none => exact ⟨fillStandard v none, by simp only [fillna, hd], rfl⟩
    | some a =>
      refine ⟨fillStandard v (some a), ?_, rfl⟩
      simp only [fillna, hd]
      rcases hcompat d a hd rfl with hk | hv
      · simp [hk]
      · simp [hv]

theorem any_isNone_fillWith (c : α → α) (a : α) (xs : Col α) :
    (fillWith c (some a) xs).any Option.isNone = false := by
  induction xs with
  | nil => rfl
  | cons x xs ih => cases x <;> simp [fillWith] at ih ⊢ <;> exact ih

theorem fillna_some_nonnullable {kindOf : α → Kind} {conv : Kind → α → α} {v r : Vec α} {a : α}
    (h : fillna kindOf conv v (some a) = .ok r) :
    reportsNullable r.dtype = false ∧ none ∉ r.data := by
  obtain ⟨c, _, hr⟩ := fillna_ok h
  refine ⟨?_, by rw [hr]; exact fillWith_no_none c a v.data⟩
  cases hd : v.dtype with
  | none =>
    simp only [fillna, hd] at h; cases h
    simp [fillStandard, withNullable, hd, reportsNullable]
  | some d =>
    simp only [fillna, hd] at h
    split at h
    · split at h
      · cases h
      · cases h; rfl
    · cases h
      simp [fillStandard, withNullable, hd, reportsNullable, any_isNone_fillWith]

end Serif.Vec
