/- Helper lemmas about inference (used by Props/C04, C03). -/
import Serif.Proofs.Lattice

namespace Serif

/-! ### folds of `join` -/

theorem foldl_join_left (l : List Kind) (a b : Kind) :
    l.foldl Kind.join (a.join b) = a.join (l.foldl Kind.join b) := by
  induction l generalizing b with
  | nil => rfl
  | cons k l ih => simp only [List.foldl_cons]; rw [Kind.join_assoc, ih]

theorem join_absorb_mem (l : List Kind) (x b : Kind) (hx : x ∈ l) :
    x.join (l.foldl Kind.join b) = l.foldl Kind.join b := by
  induction l generalizing b with
  | nil => cases hx
  | cons k l ih =>
    simp only [List.foldl_cons]
    rcases List.mem_cons.mp hx with rfl | h
    · rw [← foldl_join_left, Kind.join_comm x (b.join x), Kind.join_assoc, Kind.join_idem]
    · exact ih _ h

theorem foldl_join_start_mem (l : List Kind) (x y : Kind) (hx : x ∈ l) (hy : y ∈ l) :
    l.foldl Kind.join x = l.foldl Kind.join y := by
  have h1 := join_absorb_mem l y x hy
  have h2 := join_absorb_mem l x y hx
  rw [← foldl_join_left] at h1 h2
  rw [← h1, ← h2, Kind.join_comm]

theorem foldl_join_perm {l₁ l₂ : List Kind} (h : l₁.Perm l₂) (x : Kind) :
    l₁.foldl Kind.join x = l₂.foldl Kind.join x := by
  apply h.foldl_eq'
  intro a _ b _ c
  rw [Kind.join_assoc, Kind.join_assoc, Kind.join_comm a b]

theorem foldl_join_subset (l₁ l₂ : List Kind) (x y : Kind)
    (hsub : ∀ k ∈ l₁, k ∈ l₂)
    (hx : x.join (l₂.foldl Kind.join y) = l₂.foldl Kind.join y) :
    (l₁.foldl Kind.join x).join (l₂.foldl Kind.join y) = l₂.foldl Kind.join y := by
  induction l₁ generalizing x with
  | nil => exact hx
  | cons k l ih =>
    simp only [List.foldl_cons]
    apply ih _ (fun k' hk' => hsub k' (List.mem_cons_of_mem _ hk'))
    rw [Kind.join_assoc, join_absorb_mem l₂ k y (hsub k List.mem_cons_self), hx]

/-! ### the `infer_dtype` loop in closed form -/

theorem kindsOf_cons_none (l : List Tag) : kindsOf (.none :: l) = kindsOf l := by
  simp [kindsOf, List.filterMap_cons, inferKind]

theorem kindsOf_cons_ty (k : Kind) (l : List Tag) : kindsOf (.ty k :: l) = k :: kindsOf l := by
  simp [kindsOf, inferKind]

theorem fold_some (d : DType) (b : Bool) (l : List Tag) :
    l.foldl inferStep { dtype := some d, leadingNone := b } =
      { dtype := some { kind := (kindsOf l).foldl Kind.join d.kind,
                        nullable := d.nullable || l.contains .none },
        leadingNone := b } := by
  induction l generalizing d with
  | nil => simp [kindsOf]
  | cons t l ih =>
    cases t with
    | none =>
      simp only [List.foldl_cons, inferStep, promote_none, ih, kindsOf_cons_none]
      simp
    | ty k =>
      simp only [List.foldl_cons, inferStep, promote_ty, ih, kindsOf_cons_ty]
      simp

theorem fold_none (b : Bool) (l : List Tag) :
    (l.foldl inferStep { dtype := none, leadingNone := b }).dtype =
      match kindsOf l with
      | [] => none
      | k :: ks => some { kind := ks.foldl Kind.join k, nullable := b || l.contains .none } := by
  induction l generalizing b with
  | nil => simp [kindsOf]
  | cons t l ih =>
    cases t with
    | none =>
      simp only [List.foldl_cons, inferStep, inferKind, kindsOf_cons_none]
      rw [ih]
      cases kindsOf l <;> simp
    | ty k =>
      simp only [List.foldl_cons, inferStep, inferKind, kindsOf_cons_ty, fold_some]
      simp

end Serif
