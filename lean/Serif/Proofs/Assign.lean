/- Helper lemmas for C08 (in-place assignment). -/
import Serif.Model.Assign
import Serif.Proofs.Lattice
import Serif.Proofs.DType

namespace Serif.Assign

/-! ### `applyUpdates` (the code's materialisation loop) = `listAssign` (pointwise last-wins) -/

theorem applyUpdates_length {α : Type} (l : List α) (ups : List (Nat × α)) :
    (applyUpdates l ups).length = l.length := by
  unfold applyUpdates
  induction ups generalizing l with
  | nil => rfl
  | cons u ups ih => simp only [List.foldl_cons]; rw [ih, List.length_set]

/-- the scan with an accumulator: a later hit wins, otherwise the accumulator survives -/
theorem lookup_acc {α : Type} (ups : List (Nat × α)) (i : Nat) (acc : Option α) :
    ups.foldl (fun acc u => if u.1 = i then some u.2 else acc) acc
      = (lookupLast ups i).or acc := by
  unfold lookupLast
  induction ups generalizing acc with
  | nil => simp
  | cons u ups ih =>
    simp only [List.foldl_cons]
    rw [ih, ih (if u.1 = i then some u.2 else none)]
    by_cases h : u.1 = i
    · simp [h]
    · simp [h]

theorem lookupLast_cons {α : Type} (u : Nat × α) (ups : List (Nat × α)) (i : Nat) :
    lookupLast (u :: ups) i = (lookupLast ups i).or (if u.1 = i then some u.2 else none) := by
  have := lookup_acc ups i (if u.1 = i then some u.2 else none)
  unfold lookupLast at *
  simp only [List.foldl_cons]
  exact this

theorem getElem?_applyUpdates {α : Type} (l : List α) (ups : List (Nat × α)) (i : Nat) :
    (applyUpdates l ups)[i]? =
      if i < l.length then (lookupLast ups i).or l[i]? else none := by
  induction ups generalizing l with
  | nil =>
    simp only [applyUpdates, List.foldl_nil, lookupLast]
    by_cases h : i < l.length
    · simp [h]
    · simp [h]
  | cons u ups ih =>
    have e : applyUpdates l (u :: ups) = applyUpdates (l.set u.1 u.2) ups := by
      simp [applyUpdates]
    rw [e, ih, List.length_set, lookupLast_cons, List.getElem?_set]
    by_cases h : i < l.length
    · simp only [h, if_true]
      by_cases hu : u.1 = i
      · subst hu; simp [h]
      · simp [hu]
    · simp [h]

theorem getElem?_assignFrom {α : Type} (ups : List (Nat × α)) (k : Nat) (l : List α) (i : Nat) :
    (assignFrom ups k l)[i]? = (l[i]?).map (fun x => (lookupLast ups (k + i)).getD x) := by
  induction l generalizing k i with
  | nil => simp [assignFrom]
  | cons x xs ih =>
    cases i with
    | zero => simp [assignFrom]
    | succ i =>
      simp only [assignFrom, List.getElem?_cons_succ]
      rw [ih]; congr 2; funext y; congr 2; omega

/-- the loop `for idx, v in updates: data[idx] = v` leaves exactly what list assignment leaves -/
theorem applyUpdates_eq_listAssign {α : Type} (l : List α) (ups : List (Nat × α)) :
    applyUpdates l ups = listAssign l ups := by
  apply List.ext_getElem?
  intro i
  rw [getElem?_applyUpdates, listAssign, getElem?_assignFrom]
  by_cases h : i < l.length
  · simp only [h, if_true, Nat.zero_add]
    rw [List.getElem?_eq_getElem h]
    cases lookupLast ups i <;> simp
  · simp only [h, if_false]
    rw [List.getElem?_eq_none (by omega)]; rfl

theorem listAssign_length {α : Type} (l : List α) (ups : List (Nat × α)) :
    (listAssign l ups).length = l.length := by
  rw [← applyUpdates_eq_listAssign, applyUpdates_length]

/-- a position no update addresses keeps its element -/
theorem lookupLast_none_of_not_mem {α : Type} (ups : List (Nat × α)) (i : Nat)
    (h : ∀ u ∈ ups, u.1 ≠ i) : lookupLast ups i = none := by
  induction ups with
  | nil => rfl
  | cons u ups ih =>
    rw [lookupLast_cons, ih (fun v hv => h v (List.mem_cons_of_mem _ hv))]
    simp [h u List.mem_cons_self]

theorem listAssign_untouched {α : Type} (l : List α) (ups : List (Nat × α)) (i : Nat)
    (h : ∀ u ∈ ups, u.1 ≠ i) : (listAssign l ups)[i]? = l[i]? := by
  rw [listAssign, getElem?_assignFrom, Nat.zero_add, lookupLast_none_of_not_mem ups i h]
  cases l[i]? <;> simp

/-- a position that is addressed holds one of the values addressed to it (the last one) -/
theorem lookupLast_some_mem {α : Type} (ups : List (Nat × α)) (i : Nat) (v : α)
    (h : lookupLast ups i = some v) : (i, v) ∈ ups := by
  induction ups with
  | nil => simp [lookupLast] at h
  | cons u ups ih =>
    rw [lookupLast_cons] at h
    cases hl : lookupLast ups i with
    | some w =>
      rw [hl] at h; simp at h; subst h
      exact List.mem_cons_of_mem _ (ih hl)
    | none =>
      rw [hl] at h; simp at h
      obtain ⟨h1, h2⟩ := h
      have : u = (i, v) := by cases u; simp_all
      rw [this]; exact List.mem_cons_self

/-! ### slice length -/


theorem sliceLength_pos (s e st : Int) (h : st > 0) : sliceLength s e st = rangeLen s e st := by
  unfold sliceLength rangeLen
  simp only [h, if_true]
  rw [Int.fdiv_eq_ediv_of_nonneg _ (Int.le_of_lt h)]
  by_cases hse : s < e
  · simp only [hse, if_true]
    have : e - s + (st - 1) = (e - s - 1) + 1 * st := by omega
    rw [this, Int.add_mul_ediv_right _ _ (by omega)]
  · simp only [hse, if_false]
    have : (e - s + (st - 1)) / st < 1 := Int.ediv_lt_of_lt_mul h (by omega)
    omega

theorem sliceLength_neg' (s e t : Int) (h : t > 0) : sliceLength s e (-t) = rangeLen s e (-t) := by
  unfold sliceLength rangeLen
  have h1 : ¬ (-t) > 0 := by omega
  have h2 : -t < 0 := by omega
  simp only [h1, if_false, h2, if_true, Int.neg_neg]
  have e1 : e - s + (-t - -1) = -((s - e) + t - 1) := by omega
  rw [e1, Int.neg_fdiv_neg, Int.fdiv_eq_ediv_of_nonneg _ (by omega)]
  by_cases hse : e < s
  · simp only [hse, if_true]
    have : s - e + t - 1 = (s - e - 1) + 1 * t := by omega
    rw [this, Int.add_mul_ediv_right _ _ (by omega)]
  · simp only [hse, if_false]
    have : (s - e + t - 1) / t < 1 := Int.ediv_lt_of_lt_mul (by omega) (by omega)
    omega

theorem sliceLength_neg (s e st : Int) (h : st < 0) : sliceLength s e st = rangeLen s e st := by
  have := sliceLength_neg' s e (-st) (by omega)
  rwa [Int.neg_neg] at this

theorem sliceLength_eq_rangeLen (s e st : Int) (h : st ≠ 0) : sliceLength s e st = rangeLen s e st := by
  by_cases hp : st > 0
  · exact sliceLength_pos s e st hp
  · exact sliceLength_neg s e st (by omega)

theorem sliceIndices_step_ne_zero {a b c : Option Int} {n : Nat} {s e st : Int}
    (h : sliceIndices a b c n = .ok (s, e, st)) : st ≠ 0 := by
  unfold sliceIndices at h
  by_cases h0 : c.getD 1 = 0
  · simp [h0] at h
  · simp only [h0, if_false] at h
    injection h with h
    simp only [Prod.mk.injEq] at h
    rw [← h.2.2]; exact h0

/-! ### the update-collecting loops -/


theorem mapOpt_some_id (l : List Nat) : mapOpt (fun i => some i) l = some l := by
  induction l with
  | nil => rfl
  | cons a l ih => simp [mapOpt, ih]

theorem mapOpt_toNat (l : List Int) : mapOpt (fun i => some i.toNat) l = some (l.map Int.toNat) := by
  induction l with
  | nil => rfl
  | cons a l ih => simp [mapOpt, ih]

theorem mapOpt_length {α β : Type} (f : α → Option β) (l : List α) (r : List β)
    (h : mapOpt f l = some r) : r.length = l.length := by
  induction l generalizing r with
  | nil => simp [mapOpt] at h; subst h; rfl
  | cons a l ih =>
    unfold mapOpt at h
    cases hf : f a with
    | none => simp [hf] at h
    | some b =>
      cases hm : mapOpt f l with
      | none => simp [hf, hm] at h
      | some bs =>
        simp [hf, hm] at h; subst h
        simp [ih bs hm]

theorem normIdx_iff (n : Nat) (i : Int) (p : Nat) : normIdx n i = .ok p ↔ normIdx? n i = some p := by
  unfold normIdx normIdx?
  by_cases h : 0 ≤ (if i < 0 then i + ↑n else i) ∧ (if i < 0 then i + ↑n else i) < ↑n
  · simp [h]
  · simp [h]

theorem zip_replicate {α β : Type} (l : List α) (c : β) :
    l.zip (List.replicate l.length c) = l.map (fun p => (p, c)) := by
  induction l with
  | nil => rfl
  | cons a l ih => simp [List.replicate_succ, ih]

/-- a successful `zip` loop over keys and a value with exactly as many items as keys:
    every key normalises and the pairs are keys × items in order -/
theorem zipLoop_ok {κ : Type} (norm : κ → Except Err Nat) (norm? : κ → Option Nat)
    (hn : ∀ k p, norm k = .ok p ↔ norm? k = some p)
    (items : List Cell) (ra : Option Nat) (j : Nat) (ks : List κ) (r : List (Nat × Cell))
    (hlen : j + ks.length = items.length)
    (h : zipLoop norm items ra j ks = .ok r) :
    ∃ ps, mapOpt norm? ks = some ps ∧ r = ps.zip (items.drop j) := by
  induction ks generalizing j r with
  | nil =>
    simp [zipLoop] at h; subst h
    exact ⟨[], rfl, by simp⟩
  | cons k ks ih =>
    simp only [List.length_cons] at hlen
    have hj : j < items.length := by omega
    unfold zipLoop at h
    unfold nextItem at h
    by_cases hra : ra = some j
    · simp [hra] at h
    · simp only [hra, if_false, List.getElem?_eq_getElem hj] at h
      cases hk : norm k with
      | error e => simp [hk] at h
      | ok p =>
        simp only [hk] at h
        cases hrest : zipLoop norm items ra (j + 1) ks with
        | error e => simp [hrest] at h
        | ok rest =>
          simp only [hrest] at h
          injection h with h; subst h
          obtain ⟨ps, hps, hr⟩ := ih (j + 1) rest (by omega) hrest
          refine ⟨p :: ps, ?_, ?_⟩
          · simp [mapOpt, (hn k p).mp hk, hps]
          · rw [List.drop_eq_getElem_cons hj, hr]; rfl

theorem scalarLoop_ok {κ : Type} (norm : κ → Except Err Nat) (norm? : κ → Option Nat)
    (hn : ∀ k p, norm k = .ok p ↔ norm? k = some p)
    (c : Cell) (ks : List κ) (r : List (Nat × Cell))
    (h : scalarLoop norm c ks = .ok r) :
    ∃ ps, mapOpt norm? ks = some ps ∧ r = ps.zip (List.replicate ps.length c) := by
  induction ks generalizing r with
  | nil =>
    simp [scalarLoop] at h; subst h
    exact ⟨[], rfl, by simp⟩
  | cons k ks ih =>
    unfold scalarLoop at h
    cases hk : norm k with
    | error e => simp [hk] at h
    | ok p =>
      simp only [hk] at h
      cases hrest : scalarLoop norm c ks with
      | error e => simp [hrest] at h
      | ok rest =>
        simp only [hrest] at h
        injection h with h; subst h
        obtain ⟨ps, hps, hr⟩ := ih rest hrest
        refine ⟨p :: ps, ?_, ?_⟩
        · simp [mapOpt, (hn k p).mp hk, hps]
        · simp [List.replicate_succ, hr]


/-! ### the update list is a well-formed list assignment -/


theorem okNat_iff (k p : Nat) : okNat k = .ok p ↔ (fun i => some i) k = some p := by
  simp [okNat]

theorem okInt_iff (k : Int) (p : Nat) : okInt k = .ok p ↔ (fun (i : Int) => some i.toNat) k = some p := by
  simp [okInt]

theorem lenOf_ok {items : List Cell} {len : LenB} {m : Nat} (h : lenOf items len = .ok m) :
    len = .ok ∧ m = items.length := by
  cases len <;> simp [lenOf] at h
  exact ⟨rfl, h.symm⟩

theorem rangeList_length (s e st : Int) : (rangeList s e st).length = rangeLen s e st := by
  simp [rangeList]

theorem maskUpdates_spec (bs : List Bool) (value : Value) (n : Nat) (ups : List (Nat × Cell))
    (h : maskUpdates bs value n = .ok ups) :
    bs.length = n ∧ ∃ vs, (match value with
        | .scalar c => some (List.replicate (trueIdx bs).length c)
        | .seq _ items _ _ => if items.length = (trueIdx bs).length then some items else none) = some vs
      ∧ ups = (trueIdx bs).zip vs := by
  unfold maskUpdates at h
  by_cases hl : bs.length = n
  · simp only [hl, ne_eq, not_true_eq_false, if_false] at h
    refine ⟨hl, ?_⟩
    cases value with
    | scalar c =>
      simp only at h
      obtain ⟨ps, hps, hr⟩ := scalarLoop_ok okNat (fun i => some i) okNat_iff c _ _ h
      rw [mapOpt_some_id] at hps; injection hps with hps; subst hps
      exact ⟨_, rfl, hr⟩
    | seq self items len ra =>
      simp only at h
      cases hlen : lenOf items len with
      | error e => simp [hlen] at h
      | ok m =>
        simp only [hlen] at h
        obtain ⟨_, hm⟩ := lenOf_ok hlen
        subst hm
        by_cases hc : (trueIdx bs).length = items.length
        · simp only [hc, ne_eq, not_true_eq_false, if_false] at h
          obtain ⟨ps, hps, hr⟩ := zipLoop_ok okNat (fun i => some i) okNat_iff items ra 0 _ _ (by omega) h
          rw [mapOpt_some_id] at hps; injection hps with hps; subst hps
          exact ⟨items, by simp [hc], by simpa using hr⟩
        · simp [hc] at h
  · simp [hl] at h



theorem maskUpdates_spec' (bs : List Bool) (value : Value) (n : Nat) (ups : List (Nat × Cell))
    (h : maskUpdates bs value n = .ok ups) :
    bs.length = n ∧ ∃ vs, seqCells value (trueIdx bs).length = some vs ∧ ups = (trueIdx bs).zip vs := by
  have := maskUpdates_spec bs value n ups h
  cases value <;> simpa [seqCells] using this

theorem idxUpdates_spec (is : List Int) (value : Value) (n : Nat) (ups : List (Nat × Cell))
    (h : idxUpdates is value n = .ok ups) :
    ∃ ts vs, mapOpt (normIdx? n) is = some ts ∧ seqCells value ts.length = some vs ∧ ups = ts.zip vs := by
  unfold idxUpdates at h
  cases value with
  | scalar c =>
    simp only at h
    obtain ⟨ps, hps, hr⟩ := scalarLoop_ok (normIdx n) (normIdx? n) (normIdx_iff n) c _ _ h
    exact ⟨ps, _, hps, rfl, hr⟩
  | seq self items len ra =>
    simp only at h
    cases hlen : lenOf items len with
    | error e => simp [hlen] at h
    | ok m =>
      simp only [hlen] at h
      obtain ⟨_, hm⟩ := lenOf_ok hlen
      subst hm
      by_cases hc : is.length = items.length
      · simp only [hc, ne_eq, not_true_eq_false, if_false] at h
        obtain ⟨ps, hps, hr⟩ := zipLoop_ok (normIdx n) (normIdx? n) (normIdx_iff n) items ra 0 _ _ (by omega) h
        have hl := mapOpt_length _ _ _ hps
        exact ⟨ps, items, hps, by simp [seqCells, hl, hc], by simpa using hr⟩
      · simp [hc] at h

theorem sliceUpdates_spec (a b c : Option Int) (value : Value) (n : Nat) (ups : List (Nat × Cell))
    (h : sliceUpdates a b c value n = .ok ups) :
    ∃ s e st vs, sliceIndices a b c n = .ok (s, e, st) ∧
      seqCells value ((rangeList s e st).map Int.toNat).length = some vs ∧
      ups = ((rangeList s e st).map Int.toNat).zip vs := by
  unfold sliceUpdates at h
  cases hsi : sliceIndices a b c n with
  | error er => simp [hsi] at h
  | ok t =>
    obtain ⟨s, e, st⟩ := t
    simp only [hsi] at h
    have hst := sliceIndices_step_ne_zero hsi
    have hsl := sliceLength_eq_rangeLen s e st hst
    refine ⟨s, e, st, ?_⟩
    cases value with
    | scalar cc =>
      simp only at h
      obtain ⟨ps, hps, hr⟩ := zipLoop_ok okInt (fun (i : Int) => some i.toNat) okInt_iff
        (List.replicate (sliceLength s e st) cc) none 0 _ _ (by simp [hsl, rangeList_length]) h
      rw [mapOpt_toNat] at hps; injection hps with hps; subst hps
      refine ⟨_, rfl, rfl, ?_⟩
      simp only [seqCells, List.length_map, rangeList_length]
      rw [hr, hsl]; simp
    | seq self items len ra =>
      simp only at h
      cases hlen : lenOf items len with
      | error e => simp [hlen] at h
      | ok m =>
        simp only [hlen] at h
        obtain ⟨_, hm⟩ := lenOf_ok hlen
        subst hm
        by_cases hc : sliceLength s e st = items.length
        · simp only [hc, ne_eq, not_true_eq_false, if_false] at h
          obtain ⟨ps, hps, hr⟩ := zipLoop_ok okInt (fun (i : Int) => some i.toNat) okInt_iff
            items ra 0 _ _ (by simp [rangeList_length, ← hsl, hc]) h
          rw [mapOpt_toNat] at hps; injection hps with hps; subst hps
          refine ⟨items, rfl, ?_, by simpa using hr⟩
          simp [seqCells, rangeList_length, ← hsl, hc]
        · simp [hc] at h

theorem valueCells_nonint (key : Key) (value : Value) (m : Nat) (h : ∀ i, key ≠ .int i) :
    valueCells key value m = seqCells value m := by
  cases key with
  | int i => exact absurd rfl (h i)
  | _ => rfl

/-- whatever the collecting loops accept is a well-formed list assignment: the key addresses
    valid positions in Python's order, the value has one item per position, and the update list
    pairs them up -/
theorem buildUpdates_spec (key : Key) (value : Value) (n : Nat) (ups : List (Nat × Cell))
    (h : buildUpdates key value n = .ok ups) : specUpdates key value n = some ups := by
  unfold specUpdates
  cases key with
  | int i =>
    simp only [buildUpdates] at h
    cases hn : normIdx n i with
    | error e => simp [hn] at h
    | ok p =>
      simp only [hn] at h; injection h with h; subst h
      have := (normIdx_iff n i p).mp hn
      simp [keyTargets, this, valueCells]
  | slice a b c =>
    obtain ⟨s, e, st, vs, hsi, hvs, hu⟩ := sliceUpdates_spec a b c value n ups h
    simp only [keyTargets, hsi]
    rw [valueCells_nonint _ _ _ (by intro i; simp), hvs, hu]
  | maskList bs =>
    obtain ⟨hl, vs, hvs, hu⟩ := maskUpdates_spec' bs value n ups h
    simp only [keyTargets, hl, if_true]
    rw [valueCells_nonint _ _ _ (by intro i; simp), hvs, hu]
  | maskVec bs =>
    obtain ⟨hl, vs, hvs, hu⟩ := maskUpdates_spec' bs value n ups h
    simp only [keyTargets, hl, if_true]
    rw [valueCells_nonint _ _ _ (by intro i; simp), hvs, hu]
  | idxVec is =>
    obtain ⟨ts, vs, hts, hvs, hu⟩ := idxUpdates_spec is value n ups h
    simp only [keyTargets, hts]
    rw [valueCells_nonint _ _ _ (by intro i; simp), hvs, hu]
  | idxList is =>
    obtain ⟨ts, vs, hts, hvs, hu⟩ := idxUpdates_spec is value n ups h
    simp only [keyTargets, hts]
    rw [valueCells_nonint _ _ _ (by intro i; simp), hvs, hu]
  | bad => simp [buildUpdates] at h


/-! ### … and every well-formed, consumable assignment is collected -/


theorem zipLoop_complete {κ : Type} (norm : κ → Except Err Nat) (norm? : κ → Option Nat)
    (hn : ∀ k p, norm k = .ok p ↔ norm? k = some p)
    (items : List Cell) (j : Nat) (ks : List κ) (ps : List Nat)
    (hlen : j + ks.length = items.length)
    (h : mapOpt norm? ks = some ps) :
    zipLoop norm items none j ks = .ok (ps.zip (items.drop j)) := by
  induction ks generalizing j ps with
  | nil => simp [mapOpt] at h; subst h; simp [zipLoop]
  | cons k ks ih =>
    simp only [List.length_cons] at hlen
    have hj : j < items.length := by omega
    unfold mapOpt at h
    cases hk : norm? k with
    | none => simp [hk] at h
    | some p =>
      cases hm : mapOpt norm? ks with
      | none => simp [hk, hm] at h
      | some ps' =>
        simp [hk, hm] at h; subst h
        unfold zipLoop nextItem
        simp only [reduceCtorEq, if_false, List.getElem?_eq_getElem hj, (hn k p).mpr hk,
          ih (j + 1) ps' (by omega) hm]
        rw [List.drop_eq_getElem_cons hj]; rfl

theorem scalarLoop_complete {κ : Type} (norm : κ → Except Err Nat) (norm? : κ → Option Nat)
    (hn : ∀ k p, norm k = .ok p ↔ norm? k = some p)
    (c : Cell) (ks : List κ) (ps : List Nat)
    (h : mapOpt norm? ks = some ps) :
    scalarLoop norm c ks = .ok (ps.zip (List.replicate ps.length c)) := by
  induction ks generalizing ps with
  | nil => simp [mapOpt] at h; subst h; simp [scalarLoop]
  | cons k ks ih =>
    unfold mapOpt at h
    cases hk : norm? k with
    | none => simp [hk] at h
    | some p =>
      cases hm : mapOpt norm? ks with
      | none => simp [hk, hm] at h
      | some ps' =>
        simp [hk, hm] at h; subst h
        unfold scalarLoop
        simp only [(hn k p).mpr hk, ih ps' hm]
        simp [List.replicate_succ]

theorem maskUpdates_complete (bs : List Bool) (value : Value) (n : Nat) (vs : List Cell)
    (hl : bs.length = n) (hf : value.faulty = false)
    (hv : seqCells value (trueIdx bs).length = some vs) :
    maskUpdates bs value n = .ok ((trueIdx bs).zip vs) := by
  unfold maskUpdates
  simp only [hl, ne_eq, not_true_eq_false, if_false]
  cases value with
  | scalar c =>
    simp only [seqCells] at hv; injection hv with hv; subst hv
    simp only
    rw [scalarLoop_complete okNat (fun i => some i) okNat_iff c _ _ (mapOpt_some_id _)]
  | seq self items len ra =>
    simp only [Value.faulty, Bool.or_eq_false_iff, bne_eq_false_iff_eq, Option.isSome_eq_false_iff,
      Option.isNone_iff_eq_none] at hf
    obtain ⟨h1, h2⟩ := hf
    subst h1 h2
    simp only [seqCells] at hv
    by_cases hc : items.length = (trueIdx bs).length
    · simp only [hc, if_true] at hv; injection hv with hv; subst hv
      simp only [lenOf, hc, ne_eq, not_true_eq_false, if_false]
      rw [zipLoop_complete okNat (fun i => some i) okNat_iff items 0 _ _ (by omega) (mapOpt_some_id _)]
      simp
    · simp [hc] at hv

theorem idxUpdates_complete (is : List Int) (value : Value) (n : Nat) (ts : List Nat) (vs : List Cell)
    (ht : mapOpt (normIdx? n) is = some ts) (hf : value.faulty = false)
    (hv : seqCells value ts.length = some vs) :
    idxUpdates is value n = .ok (ts.zip vs) := by
  unfold idxUpdates
  have hl := mapOpt_length _ _ _ ht
  cases value with
  | scalar c =>
    simp only [seqCells] at hv; injection hv with hv; subst hv
    simp only
    rw [scalarLoop_complete (normIdx n) (normIdx? n) (normIdx_iff n) c _ _ ht]
  | seq self items len ra =>
    simp only [Value.faulty, Bool.or_eq_false_iff, bne_eq_false_iff_eq, Option.isSome_eq_false_iff,
      Option.isNone_iff_eq_none] at hf
    obtain ⟨h1, h2⟩ := hf
    subst h1 h2
    simp only [seqCells] at hv
    by_cases hc : items.length = ts.length
    · simp only [hc, if_true] at hv; injection hv with hv; subst hv
      have : is.length = items.length := by omega
      simp only [lenOf, this, ne_eq, not_true_eq_false, if_false]
      rw [zipLoop_complete (normIdx n) (normIdx? n) (normIdx_iff n) items 0 _ _ (by omega) ht]
      simp
    · simp [hc] at hv

theorem sliceUpdates_complete (a b c : Option Int) (value : Value) (n : Nat) (s e st : Int)
    (vs : List Cell) (hsi : sliceIndices a b c n = .ok (s, e, st)) (hf : value.faulty = false)
    (hv : seqCells value ((rangeList s e st).map Int.toNat).length = some vs) :
    sliceUpdates a b c value n = .ok (((rangeList s e st).map Int.toNat).zip vs) := by
  unfold sliceUpdates
  simp only [hsi]
  have hsl := sliceLength_eq_rangeLen s e st (sliceIndices_step_ne_zero hsi)
  simp only [List.length_map, rangeList_length] at hv
  cases value with
  | scalar cc =>
    simp only [seqCells] at hv; injection hv with hv; subst hv
    simp only
    rw [zipLoop_complete okInt (fun (i : Int) => some i.toNat) okInt_iff _ 0 _ _
      (by simp [hsl, rangeList_length]) (mapOpt_toNat _), hsl]
    simp
  | seq self items len ra =>
    simp only [Value.faulty, Bool.or_eq_false_iff, bne_eq_false_iff_eq, Option.isSome_eq_false_iff,
      Option.isNone_iff_eq_none] at hf
    obtain ⟨h1, h2⟩ := hf
    subst h1 h2
    simp only [seqCells] at hv
    by_cases hc : items.length = rangeLen s e st
    · simp only [hc, if_true] at hv; injection hv with hv; subst hv
      simp only [lenOf, hsl, hc, ne_eq, not_true_eq_false, if_false]
      rw [zipLoop_complete okInt (fun (i : Int) => some i.toNat) okInt_iff items 0 _ _
        (by simp [rangeList_length, hc]) (mapOpt_toNat _)]
      simp
    · simp [hc] at hv

/-- conversely, every well-formed list assignment whose value can be consumed without an
    exception is accepted by the collecting loops, with exactly those updates -/
theorem buildUpdates_complete (key : Key) (value : Value) (n : Nat) (ups : List (Nat × Cell))
    (hf : value.faulty = false ∨ ∃ i, key = .int i)
    (h : specUpdates key value n = some ups) : buildUpdates key value n = .ok ups := by
  unfold specUpdates at h
  cases key with
  | int i =>
    simp only [keyTargets, valueCells] at h
    cases hn : normIdx? n i with
    | none => simp [hn] at h
    | some p =>
      simp [hn] at h; subst h
      simp [buildUpdates, (normIdx_iff n i p).mpr hn]
  | slice a b c =>
    have hf : value.faulty = false := by
      rcases hf with hf | ⟨i, hi⟩
      · exact hf
      · cases hi
    simp only [keyTargets] at h
    cases hsi : sliceIndices a b c n with
    | error er => simp [hsi] at h
    | ok t =>
      obtain ⟨s, e, st⟩ := t
      simp only [hsi] at h
      rw [valueCells_nonint _ _ _ (by intro i; simp)] at h
      simp only [List.length_map] at h
      cases hv : seqCells value (rangeList s e st).length with
      | none => simp [hv] at h
      | some vs =>
        simp [hv] at h; subst h
        have hv' : seqCells value ((rangeList s e st).map Int.toNat).length = some vs := by
          simpa using hv
        simpa [buildUpdates] using sliceUpdates_complete a b c value n s e st vs hsi hf hv'
  | maskList bs =>
    have hf : value.faulty = false := by
      rcases hf with hf | ⟨i, hi⟩
      · exact hf
      · cases hi
    simp only [keyTargets] at h
    by_cases hl : bs.length = n
    · simp only [hl, if_true] at h
      rw [valueCells_nonint _ _ _ (by intro i; simp)] at h
      cases hv : seqCells value (trueIdx bs).length with
      | none => simp [hv] at h
      | some vs =>
        simp [hv] at h; subst h
        simpa [buildUpdates] using maskUpdates_complete bs value n vs hl hf hv
    · simp [hl] at h
  | maskVec bs =>
    have hf : value.faulty = false := by
      rcases hf with hf | ⟨i, hi⟩
      · exact hf
      · cases hi
    simp only [keyTargets] at h
    by_cases hl : bs.length = n
    · simp only [hl, if_true] at h
      rw [valueCells_nonint _ _ _ (by intro i; simp)] at h
      cases hv : seqCells value (trueIdx bs).length with
      | none => simp [hv] at h
      | some vs =>
        simp [hv] at h; subst h
        simpa [buildUpdates] using maskUpdates_complete bs value n vs hl hf hv
    · simp [hl] at h
  | idxVec is =>
    have hf : value.faulty = false := by
      rcases hf with hf | ⟨i, hi⟩
      · exact hf
      · cases hi
    simp only [keyTargets] at h
    cases ht : mapOpt (normIdx? n) is with
    | none => simp [ht] at h
    | some ts =>
      simp only [ht] at h
      rw [valueCells_nonint _ _ _ (by intro i; simp)] at h
      cases hv : seqCells value ts.length with
      | none => simp [hv] at h
      | some vs =>
        simp [hv] at h; subst h
        simpa [buildUpdates] using idxUpdates_complete is value n ts vs ht hf hv
  | idxList is =>
    have hf : value.faulty = false := by
      rcases hf with hf | ⟨i, hi⟩
      · exact hf
      · cases hi
    simp only [keyTargets] at h
    cases ht : mapOpt (normIdx? n) is with
    | none => simp [ht] at h
    | some ts =>
      simp only [ht] at h
      rw [valueCells_nonint _ _ _ (by intro i; simp)] at h
      cases hv : seqCells value ts.length with
      | none => simp [hv] at h
      | some vs =>
        simp [hv] at h; subst h
        simpa [buildUpdates] using idxUpdates_complete is value n ts vs ht hf hv
  | bad => simp [keyTargets] at h


/-! ### dtype check and promotion -/


theorem convAll_length (conv : Kind → Nat → Option Nat) (k : Kind) (l r : List Cell)
    (h : convAll conv k l = some r) : r.length = l.length := by
  induction l generalizing r with
  | nil => simp [convAll] at h; subst h; rfl
  | cons c cs ih =>
    unfold convAll at h
    cases hc : convCell conv k c with
    | none => simp [hc] at h
    | some c' =>
      cases hr : convAll conv k cs with
      | none => simp [hc, hr] at h
      | some cs' =>
        simp [hc, hr] at h; subst h
        simp [ih cs' hr]

theorem promoteVec_eq {a b k : Kind} (h : promoteVec a b = some k) : k = b := by
  unfold promoteVec at h
  split at h
  · rename_i hab; injection h with h; rw [← h, hab]
  · split at h
    · rename_i hh; injection h with h; simp at hh; rw [← h, hh.1]
    · split at h
      · rename_i hh; injection h with h; simp at hh; rw [← h, hh.1]
      · split at h
        · rename_i hh; injection h with h; simp at hh; rw [← h, hh.1]
        · cases h

/-- `_promote` either refuses / fails and stores nothing, or stores the converted contents -/
theorem promoteState_cases (conv : Kind → Nat → Option Nat) (k : Kind) (d : DType) (s : VState) :
    (∃ e, promoteState conv k d s = (some e, s)) ∨
    promoteState conv k d s = (none, s) ∧ k = d.kind ∨
    (∃ data', k ≠ d.kind ∧ convAll conv k s.data = some data' ∧
      promoteState conv k d s = (none, { s with data := data', dtype := some { kind := k, nullable := d.nullable } })) := by
  unfold promoteState
  cases hp : promoteVec d.kind k with
  | none => exact Or.inl ⟨_, rfl⟩
  | some k' =>
    have hk := promoteVec_eq hp; subst hk
    by_cases hkk : k' = d.kind
    · simp [hkk]
    · simp only [hkk, if_false]
      cases hc : convAll conv k' s.data with
      | none => exact Or.inl ⟨_, rfl⟩
      | some data' => exact Or.inr (Or.inr ⟨data', hkk, rfl, rfl⟩)

/-- nullable flag worked out by the fold -/
theorem foldTarget_nullable (P : Kind → Kind → Bool) (conv : Kind → Nat → Option Nat)
    (d target : DType) (vals : List Cell) (h : foldTarget P conv d vals = .ok target) :
    target.nullable = (d.nullable || hasNone vals) := by
  induction vals generalizing d with
  | nil => simp [foldTarget] at h; subst h; simp [hasNone]
  | cons c cs ih =>
    unfold foldTarget at h
    cases ht : c.tag with
    | none =>
      simp only [ht] at h
      rw [ih _ h]; simp [hasNone, ht]
    | ty k =>
      simp only [ht] at h
      have hn : hasNone (c :: cs) = hasNone cs := by simp [hasNone, ht]
      rw [hn]
      split at h
      · split at h
        · cases h
        · exact ih _ h
      · split at h
        · rw [ih _ h]
        · cases h

theorem typePhase_trivial (P : Kind → Kind → Bool) (conv : Kind → Nat → Option Nat)
    (vals : List Cell) (s : VState)
    (h : vals = [] ∨ s.dtype = none) :
    typePhase P conv vals s = (none, s) := by
  unfold typePhase
  rcases h with h | h
  · simp [h]
  · simp only [h]; split <;> rfl

/-- an object column accepts every value; only the nullable flag can change -/
theorem typePhase_object (P : Kind → Kind → Bool) (conv : Kind → Nat → Option Nat)
    (vals : List Cell) (s : VState) (d : DType)
    (hd : s.dtype = some d) (ho : d.kind = .object) (hv : vals ≠ []) :
    typePhase P conv vals s = (none, { s with dtype := some ⟨.object, d.nullable || hasNone vals⟩ }) := by
  unfold typePhase
  have hv' : vals.isEmpty = false := by cases vals <;> simp_all
  simp only [hv', Bool.false_eq_true, if_false, hd, ho, if_true]
  obtain ⟨dk, dn⟩ := d
  obtain ⟨sd, sdt, sn, sf⟩ := s
  simp only at hd ho ⊢
  subst hd ho
  cases dn <;> cases hasNone vals <;> simp

/-- the checked branch of the type phase: an error stores nothing; otherwise the state is the old
    one with (possibly converted) contents and the worked-out dtype -/
theorem typePhase_checked (P : Kind → Kind → Bool) (conv : Kind → Nat → Option Nat)
    (vals : List Cell) (s : VState) (d : DType)
    (hd : s.dtype = some d) (ho : d.kind ≠ .object) (hv : vals ≠ []) :
    (∃ e, typePhase P conv vals s = (some e, s)) ∨
    (∃ target cvt, foldTarget P conv d vals = .ok target ∧
      (if target.kind = d.kind then cvt = s.data else convAll conv target.kind s.data = some cvt) ∧
      typePhase P conv vals s = (none, { s with data := cvt, dtype := some ⟨target.kind, d.nullable || target.nullable⟩ })) := by
  unfold typePhase
  have hv' : vals.isEmpty = false := by cases vals <;> simp_all
  simp only [hv', Bool.false_eq_true, if_false, hd, ho]
  cases hf : foldTarget P conv d vals with
  | error e => exact Or.inl ⟨e, rfl⟩
  | ok target =>
    simp only
    by_cases hk : target.kind = d.kind
    · simp only [hk, ne_eq, not_true_eq_false, if_false, hd]
      right
      refine ⟨target, s.data, rfl, by simp [hk], ?_⟩
      obtain ⟨dk, dn⟩ := d
      obtain ⟨sd, sdt, sn, sf⟩ := s
      simp only at hd hk ⊢
      subst hd
      cases hb : target.nullable <;> cases dn <;> simp [hk]
    · simp only [ne_eq, hk, not_false_eq_true, if_true]
      rcases promoteState_cases conv target.kind d s with ⟨e, he⟩ | ⟨he, hke⟩ | ⟨data', hne, hca, he⟩
      · rw [he]; exact Or.inl ⟨e, rfl⟩
      · exact absurd hke hk
      · rw [he]; simp only
        right
        refine ⟨target, data', rfl, by simp [hk, hca], ?_⟩
        cases hb : target.nullable <;> cases hn : d.nullable <;> simp


/-! ### `setitem` as a whole -/


/-- every run of the type phase: an error stores nothing; success keeps name, memo and length and
    leaves the old contents, converted iff the kind changed -/
theorem typePhase_result (P : Kind → Kind → Bool) (conv : Kind → Nat → Option Nat)
    (vals : List Cell) (s : VState) :
    (∃ e, typePhase P conv vals s = (some e, s)) ∨
    (∃ s1, typePhase P conv vals s = (none, s1) ∧ s1.name = s.name ∧ s1.fp = s.fp ∧
      s1.data.length = s.data.length ∧ convertedOld conv s s1 = some s1.data) := by
  by_cases hv : vals = []
  · right; refine ⟨s, typePhase_trivial P conv vals s (Or.inl hv), rfl, rfl, rfl, ?_⟩
    unfold convertedOld; cases s.dtype <;> simp
  · cases hd : s.dtype with
    | none =>
      right; refine ⟨s, typePhase_trivial P conv vals s (Or.inr hd), rfl, rfl, rfl, ?_⟩
      unfold convertedOld; simp [hd]
    | some d =>
      by_cases ho : d.kind = .object
      · right; refine ⟨_, typePhase_object P conv vals s d hd ho hv, rfl, rfl, rfl, ?_⟩
        unfold convertedOld; simp [hd, ho]
      · rcases typePhase_checked P conv vals s d hd ho hv with ⟨e, he⟩ | ⟨target, cvt, _, hc, he⟩
        · exact Or.inl ⟨e, he⟩
        · right
          refine ⟨_, he, rfl, rfl, ?_, ?_⟩
          · by_cases hk : target.kind = d.kind
            · simp only [hk, if_true] at hc; simp [hc]
            · simp only [hk, if_false] at hc; simpa using convAll_length _ _ _ _ hc
          · unfold convertedOld
            simp only [hd]
            by_cases hk : target.kind = d.kind
            · simp only [hk, if_true] at hc; simp [hk, hc]
            · simp only [hk, if_false] at hc; simp [hk, hc]

theorem setitem_err_unchanged (P : Kind → Kind → Bool) (conv : Kind → Nat → Option Nat)
    (shared : Bool) (key : Key) (value : Value) (s : VState) (e : Err)
    (h : (setitem P conv shared key value s).1 = some e) :
    (setitem P conv shared key value s).2 = s := by
  unfold setitem at h ⊢
  split
  · rfl
  · split
    · rfl
    · rename_i ups _
      rcases typePhase_result P conv (ups.map (·.2)) s with ⟨e', he⟩ | ⟨s1, he, _⟩
      · simp only [he]
      · simp only [he] at h ⊢
        rename_i hcond _ 
        simp_all

/-- what a successful `__setitem__` leaves -/
theorem setitem_ok (P : Kind → Kind → Bool) (conv : Kind → Nat → Option Nat)
    (shared : Bool) (key : Key) (value : Value) (s s' : VState)
    (h : setitem P conv shared key value s = (none, s')) :
    ∃ ups s1, buildUpdates key value s.data.length = .ok ups ∧
      typePhase P conv (ups.map (·.2)) s = (none, s1) ∧ s' = materialise ups s1 := by
  unfold setitem at h
  split at h
  · cases h
  · split at h
    · cases h
    · rename_i ups hb
      refine ⟨ups, ?_⟩
      split at h
      · cases h
      · rename_i s1 ht
        injection h with _ h
        exact ⟨s1, hb, ht, h.symm⟩


/-! ### Table.__setitem__ -/


theorem set_same {α : Type} (l : List α) (j : Nat) (a : α) (h : l[j]? = some a) : l.set j a = l := by
  apply List.ext_getElem?
  intro i
  rw [List.getElem?_set]
  by_cases hij : j = i
  · subst hij
    have : j < l.length := by
      rcases Nat.lt_or_ge j l.length with h' | h'
      · exact h'
      · rw [List.getElem?_eq_none h'] at h; cases h
    rw [List.getElem?_eq_getElem this] at h ⊢
    simp [this]; injection h with h; exact h.symm
  · simp [hij]

theorem writeCols_cons (P : Kind → Kind → Bool) (conv : Kind → Nat → Option Nat) (row : Key)
    (ci : Int) (v : Value) (rest : List (Int × Value)) (t : TState) :
    writeCols P conv row ((ci, v) :: rest) t =
      match tupleIndex t.cols.length ci with
      | none => (some .other, t)
      | some j =>
        match t.cols[j]? with
        | none => (some .other, t)
        | some col =>
          match setitem P conv false row v col with
          | (some e, col') => (some e, { cols := t.cols.set j col' })
          | (none, col') => writeCols P conv row rest { cols := t.cols.set j col' } := by
  rw [writeCols]; rfl

/-- one step of the column loop that fails leaves the table as it was -/
theorem writeCols_head_fail (P : Kind → Kind → Bool) (conv : Kind → Nat → Option Nat) (row : Key)
    (ci : Int) (v : Value) (rest : List (Int × Value)) (t : TState) :
    (∃ j col col', tupleIndex t.cols.length ci = some j ∧ t.cols[j]? = some col ∧
        setitem P conv false row v col = (none, col') ∧
        writeCols P conv row ((ci, v) :: rest) t = writeCols P conv row rest { cols := t.cols.set j col' }) ∨
    (∃ e, writeCols P conv row ((ci, v) :: rest) t = (some e, t)) := by
  rw [writeCols_cons]
  cases hi : tupleIndex t.cols.length ci with
  | none => exact Or.inr ⟨_, rfl⟩
  | some j =>
    simp only
    cases hc : t.cols[j]? with
    | none => exact Or.inr ⟨_, rfl⟩
    | some col =>
      simp only
      cases hs : setitem P conv false row v col with
      | mk r col' =>
        cases r with
        | none => exact Or.inl ⟨j, col, col', rfl, hc, hs, rfl⟩
        | some e =>
          right
          have := setitem_err_unchanged P conv false row v col e (by rw [hs])
          rw [hs] at this; simp only at this; subst this
          refine ⟨e, ?_⟩
          simp only [set_same _ _ _ hc]

theorem setitem_shape (P : Kind → Kind → Bool) (conv : Kind → Nat → Option Nat) (shared : Bool)
    (key : Key) (value : Value) (s : VState) :
    ((setitem P conv shared key value s).2.data.length, (setitem P conv shared key value s).2.name)
      = (s.data.length, s.name) := by
  cases h : setitem P conv shared key value s with
  | mk r s' =>
    cases r with
    | some e =>
      have := setitem_err_unchanged P conv shared key value s e (by rw [h])
      rw [h] at this; simp at this; rw [this]
    | none =>
      obtain ⟨ups, s1, _, ht, hs⟩ := setitem_ok P conv shared key value s s' h
      rcases typePhase_result P conv (ups.map (·.2)) s with ⟨e, he⟩ | ⟨s1', he, hn, _, hl, _⟩
      · rw [he] at ht; cases ht
      · rw [he] at ht; injection ht with _ ht; subst ht
        simp [hs, materialise, applyUpdates_length, hl, hn]

theorem shape_set (t : TState) (j : Nat) (col col' : VState) (hc : t.cols[j]? = some col)
    (h : (col'.data.length, col'.name) = (col.data.length, col.name)) :
    shape { cols := t.cols.set j col' } = shape t := by
  unfold shape
  simp only [List.map_set, h]
  apply set_same
  simp [hc]

theorem writeCols_shape (P : Kind → Kind → Bool) (conv : Kind → Nat → Option Nat) (row : Key)
    (ws : List (Int × Value)) (t : TState) :
    shape (writeCols P conv row ws t).2 = shape t := by
  induction ws generalizing t with
  | nil => simp [writeCols]
  | cons w rest ih =>
    obtain ⟨ci, v⟩ := w
    rcases writeCols_head_fail P conv row ci v rest t with ⟨j, col, col', _, hc, hs, hw⟩ | ⟨e, he⟩
    · rw [hw, ih]
      apply shape_set t j col col' hc
      have := setitem_shape P conv false row v col
      rw [hs] at this; exact this
    · rw [he]

theorem shape_length (t t' : TState) (h : shape t' = shape t) : t'.cols.length = t.cols.length := by
  have := congrArg List.length h
  simpa [shape] using this

/-- a column no target index resolves to is not touched, whatever the outcome -/
theorem writeCols_untouched (P : Kind → Kind → Bool) (conv : Kind → Nat → Option Nat) (row : Key)
    (ws : List (Int × Value)) (t : TState) (j : Nat)
    (h : ∀ w ∈ ws, tupleIndex t.cols.length w.1 ≠ some j) :
    (writeCols P conv row ws t).2.cols[j]? = t.cols[j]? := by
  induction ws generalizing t with
  | nil => simp [writeCols]
  | cons w rest ih =>
    obtain ⟨ci, v⟩ := w
    rcases writeCols_head_fail P conv row ci v rest t with ⟨j', col, col', hi, hc, hs, hw⟩ | ⟨e, he⟩
    · rw [hw, ih]
      · have hne : j' ≠ j := by
          intro heq; subst heq
          exact h (ci, v) List.mem_cons_self hi
        simp [List.getElem?_set, hne]
      · intro w hwm
        simp only [List.length_set]
        exact h w (List.mem_cons_of_mem _ hwm)
    · rw [he]

/-! ### rename_columns -/

theorem renameSim_ok (ra : Option Nat) (j : Nat) (pairs : List (Option Nat × Option Nat))
    (names r : List (Option Nat)) (h : renameSim ra j pairs names = .ok r) :
    renameSpec pairs names = some r ∧ renameApply pairs names = r := by
  induction pairs generalizing j names with
  | nil => simp [renameSim] at h; subst h; simp [renameSpec, renameApply]
  | cons p rest ih =>
    obtain ⟨old, new⟩ := p
    unfold renameSim at h
    split at h
    · cases h
    · cases ho : renameOne names old new with
      | none => simp [ho] at h
      | some names' =>
        simp only [ho] at h
        have := ih (j + 1) names' h
        simp [renameSpec, renameApply, ho, this]


/-! ### the dtype check is order independent -/


theorem genP_eq_widens (a b : Kind) : genP a b = widens a b := by
  cases a <;> cases b <;> simp [genP, widens, Gen.promotable, Kind.code] <;> omega



theorem validates_iff_join (a k : Kind) (n : Bool) (ha : a ≠ .object) :
    validates ⟨a, n⟩ (.ty k) = true ↔ a.join k = a := by
  cases a <;> cases k <;> simp [validates, Kind.join, Kind.isNumeric, Kind.isTemporal] at ha ⊢
  rename_i x y
  by_cases h : x = y
  · simp [h]
  · simp [h]; intro h'; exact h h'.symm

theorem widens_join (a k : Kind) (h : widens a k = true) : a.join k = k ∧ k ≠ .object ∧ a ≠ .object := by
  cases a <;> cases k <;> simp [widens] at h <;> simp [Kind.join, Kind.isNumeric, Kind.isTemporal]

theorem widens_step (a k z : Kind) (h : widens a k = true) (hz : k.join z = z) :
    (z = a ∨ widens a z = true) ↔ (z = k ∨ widens k z = true) := by
  cases a <;> cases k <;> simp [widens] at h <;> cases z <;>
    simp [widens, Kind.join, Kind.isNumeric, Kind.isTemporal] at hz ⊢

theorem object_join (z : Kind) (h : Kind.object.join z = z) : z = .object := by
  cases z <;> simp [Kind.join, Kind.isNumeric, Kind.isTemporal] at h ⊢

theorem reject_final (a k z : Kind) (n : Bool) (ha : a ≠ .object)
    (hv : validates ⟨a, n⟩ (.ty k) = false) (hw : widens a k = false) (hz : (a.join k).join z = z) :
    ¬(z = a ∨ widens a z = true) := by
  by_cases hj : a.join k = .object
  · rw [hj] at hz
    have := object_join z hz; subst this
    cases a <;> simp [widens] at ha ⊢
  · -- the join is a proper kind: only a bool column offered a wider number gets here
    cases a <;> cases k <;>
      simp [validates, widens, Kind.join, Kind.isNumeric, Kind.isTemporal] at ha hv hw hj hz ⊢ <;>
      (cases z <;> simp [widens, Kind.join, Kind.isNumeric, Kind.isTemporal] at hz ⊢) <;> omega


theorem specKind_cons_none (a : Kind) (c : Cell) (cs : List Cell) (h : c.tag = .none) :
    specKind a (c :: cs) = specKind a cs := by
  simp [specKind, kindsOfCells, h, inferKind]

theorem specKind_cons_ty (a k : Kind) (c : Cell) (cs : List Cell) (h : c.tag = .ty k) :
    specKind a (c :: cs) = specKind (a.join k) cs := by
  simp [specKind, kindsOfCells, h, inferKind]

theorem specKind_absorb (a : Kind) (cs : List Cell) : a.join (specKind a cs) = specKind a cs := by
  unfold specKind
  rw [← foldl_join_left, Kind.join_idem]

/-- Order independence of the dtype check: the sequential loop over the new values succeeds iff
    the join of the column kind with all written kinds is the column kind itself or one of the
    four widenings of it, and then yields exactly that join, nullable iff the column was or a None
    is written — whatever the order of the values. -/
theorem foldTarget_eq_join (conv : Kind → Nat → Option Nat) (d : DType) (vals : List Cell)
    (ho : d.kind ≠ .object) (hc : coercible conv vals) :
    foldTarget widens conv d vals =
      if specKind d.kind vals = d.kind ∨ widens d.kind (specKind d.kind vals) = true
      then .ok ⟨specKind d.kind vals, d.nullable || hasNone vals⟩ else .error .type := by
  induction vals generalizing d with
  | nil => simp [foldTarget, specKind, kindsOfCells, hasNone]
  | cons c cs ih =>
    have hc' : coercible conv cs := fun x hx t => hc x (List.mem_cons_of_mem _ hx) t
    unfold foldTarget
    cases ht : c.tag with
    | none =>
      simp only
      rw [ih ⟨d.kind, true⟩ ho hc', specKind_cons_none _ _ _ ht]
      simp [hasNone, ht]
    | ty k =>
      have hn : hasNone (c :: cs) = hasNone cs := by simp [hasNone, ht]
      simp only [requiredKind, inferKind, Option.getD_some]
      rw [specKind_cons_ty _ _ _ _ ht, hn]
      by_cases hv : validates d (.ty k) = true
      · have hj : d.kind.join k = d.kind := (validates_iff_join d.kind k d.nullable ho).mp hv
        have hcv : (conv d.kind c.uid).isNone = false := hc c List.mem_cons_self _
        simp only [hv, if_true, hcv, Bool.and_false, Bool.false_eq_true, if_false]
        rw [ih d ho hc', hj]
      · simp only [hv, Bool.false_eq_true, if_false]
        by_cases hw : widens d.kind k = true
        · obtain ⟨hj, hk, _⟩ := widens_join _ _ hw
          simp only [hw, if_true]
          rw [ih ⟨k, d.nullable⟩ hk hc', hj]
          have := widens_step d.kind k (specKind k cs) hw (specKind_absorb k cs)
          simp only [this]
        · simp only [hw, Bool.false_eq_true, if_false]
          have hv' : validates ⟨d.kind, d.nullable⟩ (.ty k) = false := by simpa using hv
          have := reject_final d.kind k (specKind (d.kind.join k) cs) d.nullable ho hv'
            (by simpa using hw) (specKind_absorb _ cs)
          simp only [this, if_false]


/-! ### the type phase, precisely -/


/-- the type phase as an equation in the checked branch -/
theorem typePhase_eq (P : Kind → Kind → Bool) (conv : Kind → Nat → Option Nat)
    (vals : List Cell) (s : VState) (d : DType)
    (hd : s.dtype = some d) (ho : d.kind ≠ .object) (hv : vals ≠ []) :
    typePhase P conv vals s =
      match foldTarget P conv d vals with
      | .error e => (some e, s)
      | .ok target =>
        if target.kind = d.kind then
          (none, { s with dtype := some ⟨d.kind, d.nullable || target.nullable⟩ })
        else
          match promoteVec d.kind target.kind with
          | none => (some .type, s)
          | some _ =>
            match convAll conv target.kind s.data with
            | none => (some .other, s)
            | some cvt => (none, { s with data := cvt, dtype := some ⟨target.kind, d.nullable || target.nullable⟩ }) := by
  unfold typePhase
  have hv' : vals.isEmpty = false := by cases vals <;> simp_all
  simp only [hv', Bool.false_eq_true, if_false, hd, ho]
  cases hf : foldTarget P conv d vals with
  | error e => rfl
  | ok target =>
    simp only
    by_cases hk : target.kind = d.kind
    · simp only [hk, ne_eq, not_true_eq_false, if_false, hd, if_true]
      obtain ⟨dk, dn⟩ := d
      obtain ⟨sd, sdt, sn, sf⟩ := s
      simp only at hd hk ⊢
      subst hd
      cases hb : target.nullable <;> cases dn <;> simp
    · simp only [ne_eq, hk, not_false_eq_true, if_true, if_false]
      unfold promoteState
      cases hp : promoteVec d.kind target.kind with
      | none => rfl
      | some k' =>
        have := promoteVec_eq hp; subst this
        simp only [hk, if_false]
        cases hc : convAll conv target.kind s.data with
        | none => rfl
        | some cvt =>
          simp only
          cases hb : target.nullable <;> cases hn : d.nullable <;> simp

theorem widens_promoteVec (a b : Kind) (h : widens a b = true) : promoteVec a b = some b := by
  cases a <;> cases b <;> simp [widens] at h <;> simp [promoteVec]

/-- a coercion inside `validate_scalar` only happens towards one of four kinds -/
theorem validates_coercion (t : DType) (k : Kind) (h : validates t (.ty k) = true) (hk : k ≠ t.kind) :
    (t.kind = .int ∨ t.kind = .float ∨ t.kind = .complex ∨ t.kind = .datetime) ∧
      validates ⟨t.kind, true⟩ (.ty k) = true := by
  obtain ⟨tk, tn⟩ := t
  simp only at hk ⊢
  cases tk <;> simp [validates] at h ⊢ <;> simp_all

theorem coercionRisk_cons (conv : Kind → Nat → Option Nat) (c : Cell) (cs : List Cell) :
    coercionRisk conv (c :: cs) = (cellRisk conv c || coercionRisk conv cs) := by
  simp [coercionRisk]

theorem cellRisk_of (conv : Kind → Nat → Option Nat) (c : Cell) (k t : Kind) (ht : c.tag = .ty k)
    (hkinds : t = .int ∨ t = .float ∨ t = .complex ∨ t = .datetime) (hk : k ≠ t)
    (hv : validates ⟨t, true⟩ (.ty k) = true) (hc : (conv t c.uid).isNone = true) :
    cellRisk conv c = true := by
  unfold cellRisk
  simp only [ht, List.any_cons, List.any_nil, Bool.or_false, Bool.or_eq_true, Bool.and_eq_true, bne_iff_ne]
  rcases hkinds with h | h | h | h <;> subst h
  · left; exact ⟨⟨hk, hv⟩, hc⟩
  · right; left; exact ⟨⟨hk, hv⟩, hc⟩
  · right; right; left; exact ⟨⟨hk, hv⟩, hc⟩
  · right; right; right; exact ⟨⟨hk, hv⟩, hc⟩

/-- an exception raised by a coercion is the only way the oracle influences the fold -/
theorem foldTarget_conv_cases (P : Kind → Kind → Bool) (conv : Kind → Nat → Option Nat)
    (d : DType) (vals : List Cell) :
    foldTarget P conv d vals = foldTarget P (fun _ _ => some 0) d vals ∨
    (foldTarget P conv d vals = .error .other ∧ coercionRisk conv vals = true) := by
  induction vals generalizing d with
  | nil => left; rfl
  | cons c cs ih =>
    rw [coercionRisk_cons]
    unfold foldTarget
    cases ht : c.tag with
    | none =>
      simp only
      rcases ih ⟨d.kind, true⟩ with h | ⟨h, hr⟩
      · left; exact h
      · right; exact ⟨h, by simp [hr]⟩
    | ty k =>
      simp only [Option.isNone_some, Bool.and_false, Bool.false_eq_true, if_false]
      by_cases hv : validates d (.ty k) = true
      · simp only [hv, if_true]
        by_cases hcf : (k ≠ d.kind && (conv d.kind c.uid).isNone) = true
        · right
          simp only [hcf, if_true, true_and]
          simp only [Bool.and_eq_true, decide_eq_true_eq] at hcf
          obtain ⟨hkinds, hv2⟩ := validates_coercion d k hv hcf.1
          rw [cellRisk_of conv c k d.kind ht hkinds hcf.1 hv2 hcf.2]; rfl
        · simp only [hcf, Bool.false_eq_true, if_false]
          rcases ih d with h | ⟨h, hr⟩
          · left; exact h
          · right; exact ⟨h, by simp [hr]⟩
      · simp only [hv, Bool.false_eq_true, if_false]
        split
        · rcases ih ⟨requiredKind (.ty k), d.nullable⟩ with h | ⟨h, hr⟩
          · left; exact h
          · right; exact ⟨h, by simp [hr]⟩
        · left; rfl


/-! ### the verdict function -/


theorem relax_lax (dm : Demand) : dm.relax.lax = true := by cases dm <;> rfl

theorem sameObs_refl (s : VState) : sameObs s s = true := by simp [sameObs]

theorem accepts_lax_err (dm : Demand) (s : VState) (e : Err) (hl : dm.lax = true)
    (hf : fpFresh s = true) : accepts dm s (some e, s) = true := by
  cases dm <;> simp [Demand.lax] at hl <;> simp [accepts, sameObs_refl, hf]

theorem accepts_relax (dm : Demand) (s : VState) (out : Option Err × VState)
    (h : accepts dm s out = true) : accepts dm.relax s out = true := by
  obtain ⟨r, s'⟩ := out
  cases dm <;> cases r <;> simp_all [accepts, Demand.relax]

theorem accepts_type_err (dm : Demand) (s : VState) (hf : fpFresh s = true)
    (h : ∀ s1, dm ≠ .succeed s1) : accepts dm s (some .type, s) = true := by
  cases dm <;> simp [accepts, sameObs_refl, hf]
  exact absurd rfl (h _)

theorem zipLoop_ok_ra {κ : Type} (norm : κ → Except Err Nat) (items : List Cell) (k j : Nat)
    (ks : List κ) (r : List (Nat × Cell)) (hlen : j + ks.length = items.length)
    (h : zipLoop norm items (some k) j ks = .ok r) : ¬(j ≤ k ∧ k < j + ks.length) := by
  induction ks generalizing j r with
  | nil => simp
  | cons x ks ih =>
    simp only [List.length_cons] at hlen ⊢
    have hj : j < items.length := by omega
    unfold zipLoop nextItem at h
    by_cases hra : some k = some j
    · simp [hra] at h
    · simp only [hra, if_false, List.getElem?_eq_getElem hj] at h
      cases hk : norm x with
      | error e => simp [hk] at h
      | ok p =>
        simp only [hk] at h
        cases hrest : zipLoop norm items (some k) (j + 1) ks with
        | error e => simp [hrest] at h
        | ok rest =>
          have := ih (j + 1) rest (by omega) hrest
          have hne : k ≠ j := fun hh => hra (by rw [hh])
          omega


/-! ### the model meets the specification -/


theorem genP_is_widens : genP = widens := funext fun a => funext fun b => genP_eq_widens a b

theorem coercible_conv0 (vals : List Cell) : coercible (fun _ _ => some 0) vals := by
  intro c _ t; rfl

theorem accepts_succeed_mat (ups : List (Nat × Cell)) (s : VState) (cvt : List Cell) (dt : Option DType) :
    accepts (.succeed { s with data := listAssign cvt ups, dtype := dt, fp := none }) s
      (none, materialise ups { s with data := cvt, dtype := dt }) = true := by
  simp [accepts, sameObs, materialise, applyUpdates_eq_listAssign, fpFresh]

theorem accepts_succeed_plain (ups : List (Nat × Cell)) (s : VState) :
    accepts (.succeed { s with data := listAssign s.data ups, fp := none }) s
      (none, materialise ups s) = true := by
  simp [accepts, sameObs, materialise, applyUpdates_eq_listAssign, fpFresh]

theorem inner_meets (conv : Kind → Nat → Option Nat) (ups : List (Nat × Cell)) (s : VState) (d : DType)
    (hf : fpFresh s = true) (fr : Except Err DType)
    (hfr : fr = if specKind d.kind (ups.map (·.2)) = d.kind ∨ widens d.kind (specKind d.kind (ups.map (·.2))) = true
      then .ok ⟨specKind d.kind (ups.map (·.2)), d.nullable || hasNone (ups.map (·.2))⟩ else .error .type) :
    accepts (innerDemand conv ups s d) s (finish ups (checkedOut conv s d fr)) = true := by
  subst hfr
  unfold innerDemand
  simp only
  by_cases hk : specKind d.kind (ups.map (·.2)) = d.kind
  · simp only [hk, true_or, if_true, checkedOut, finish]
    have := accepts_succeed_mat ups s s.data (some ⟨d.kind, d.nullable || hasNone (ups.map (·.2))⟩)
    simpa [Bool.or_assoc] using this
  · simp only [hk, false_or, if_false]
    by_cases hw : widens d.kind (specKind d.kind (ups.map (·.2))) = true
    · simp only [hw, if_true, checkedOut, hk, if_false, widens_promoteVec _ _ hw, Bool.true_or]
      cases hc : convAll conv (specKind d.kind (ups.map (·.2))) s.data with
      | none => simp [finish, accepts, sameObs_refl, hf]
      | some cvt =>
        simp only [finish]
        have := accepts_succeed_mat ups s cvt
          (some ⟨specKind d.kind (ups.map (·.2)), d.nullable || hasNone (ups.map (·.2))⟩)
        simpa [Bool.or_assoc] using this
    · simp only [hw, Bool.false_eq_true, if_false, checkedOut, finish, Bool.false_or]
      apply accepts_type_err _ _ hf
      intro s1
      cases convAll conv (specKind d.kind (ups.map (·.2))) s.data <;> simp only <;> split <;> simp



theorem typePhase_checkedOut (P : Kind → Kind → Bool) (conv : Kind → Nat → Option Nat)
    (vals : List Cell) (s : VState) (d : DType)
    (hd : s.dtype = some d) (ho : d.kind ≠ .object) (hv : vals ≠ []) :
    typePhase P conv vals s = checkedOut conv s d (foldTarget P conv d vals) := by
  rw [typePhase_eq P conv vals s d hd ho hv]; rfl

/-- dtype check + materialisation meet the typed demand -/
theorem typed_meets (conv : Kind → Nat → Option Nat) (ups : List (Nat × Cell)) (s : VState)
    (hf : fpFresh s = true) :
    accepts (typedDemand conv ups s) s (finish ups (typePhase genP conv (ups.map (·.2)) s)) = true := by
  by_cases hv : ups.map (·.2) = []
  · rw [typePhase_trivial _ _ _ _ (Or.inl hv)]
    unfold typedDemand
    simp only [hv, List.isEmpty_nil, if_true, finish]
    exact accepts_succeed_plain ups s
  · have hve : (ups.map (·.2)).isEmpty = false := by
      cases h : ups.map (·.2) <;> simp_all
    cases hd : s.dtype with
    | none =>
      rw [typePhase_trivial _ _ _ _ (Or.inr hd)]
      unfold typedDemand
      simp only [hve, Bool.false_eq_true, if_false, hd, finish]
      have := accepts_succeed_plain ups s
      rw [hd] at this; exact this
    | some d =>
      by_cases ho : d.kind = .object
      · rw [typePhase_object _ _ _ s d hd ho hv]
        unfold typedDemand
        simp only [hve, Bool.false_eq_true, if_false, hd, ho, if_true, finish]
        have := accepts_succeed_mat ups s s.data (some ⟨.object, d.nullable || hasNone (ups.map (·.2))⟩)
        obtain ⟨dk, dn⟩ := d
        simp only at ho; subst ho
        simpa using this
      · rw [typePhase_checkedOut genP conv _ s d hd ho hv, genP_is_widens]
        unfold typedDemand
        simp only [hve, Bool.false_eq_true, if_false, hd, ho]
        rcases foldTarget_conv_cases widens conv d (ups.map (·.2)) with h | ⟨h, hr⟩
        · have hm := inner_meets conv ups s d hf _
            (foldTarget_eq_join (fun _ _ => some 0) d (ups.map (·.2)) ho (coercible_conv0 _))
          rw [← h] at hm
          split
          · exact accepts_relax _ _ _ hm
          · exact hm
        · rw [h]
          simp only [hr, if_true, checkedOut, finish]
          exact accepts_lax_err _ _ _ (relax_lax _) hf



theorem maskUpdates_ra (bs : List Bool) (self : Cell) (items : List Cell) (len : LenB) (k n : Nat)
    (ups : List (Nat × Cell)) (h : maskUpdates bs (.seq self items len (some k)) n = .ok ups) :
    ¬ k < (trueIdx bs).length := by
  unfold maskUpdates at h
  by_cases hl : bs.length = n
  · simp only [hl, ne_eq, not_true_eq_false, if_false] at h
    cases hlen : lenOf items len with
    | error e => simp [hlen] at h
    | ok m =>
      simp only [hlen] at h
      obtain ⟨_, hm⟩ := lenOf_ok hlen; subst hm
      by_cases hc : (trueIdx bs).length = items.length
      · simp only [hc, ne_eq, not_true_eq_false, if_false] at h
        have := zipLoop_ok_ra okNat items k 0 _ _ (by omega) h
        omega
      · simp [hc] at h
  · simp [hl] at h

theorem idxUpdates_ra (is : List Int) (self : Cell) (items : List Cell) (len : LenB) (k n : Nat)
    (ups : List (Nat × Cell)) (h : idxUpdates is (.seq self items len (some k)) n = .ok ups) :
    ¬ k < is.length := by
  unfold idxUpdates at h
  simp only at h
  cases hlen : lenOf items len with
  | error e => simp [hlen] at h
  | ok m =>
    simp only [hlen] at h
    obtain ⟨_, hm⟩ := lenOf_ok hlen; subst hm
    by_cases hc : is.length = items.length
    · simp only [hc, ne_eq, not_true_eq_false, if_false] at h
      have := zipLoop_ok_ra (normIdx n) items k 0 _ _ (by omega) h
      omega
    · simp [hc] at h

theorem sliceUpdates_ra (a b c : Option Int) (self : Cell) (items : List Cell) (len : LenB) (k n : Nat)
    (s e st : Int) (hsi : sliceIndices a b c n = .ok (s, e, st))
    (ups : List (Nat × Cell)) (h : sliceUpdates a b c (.seq self items len (some k)) n = .ok ups) :
    ¬ k < (rangeList s e st).length := by
  unfold sliceUpdates at h
  simp only [hsi] at h
  have hsl := sliceLength_eq_rangeLen s e st (sliceIndices_step_ne_zero hsi)
  cases hlen : lenOf items len with
  | error e => simp [hlen] at h
  | ok m =>
    simp only [hlen] at h
    obtain ⟨_, hm⟩ := lenOf_ok hlen; subst hm
    by_cases hc : sliceLength s e st = items.length
    · simp only [hc, ne_eq, not_true_eq_false, if_false] at h
      have := zipLoop_ok_ra okInt items k 0 _ _ (by simp [rangeList_length, ← hsl, hc]) h
      omega
    · simp [hc] at h

/-- a value that raises before the last needed item is never accepted -/
theorem build_ok_ra (key : Key) (self : Cell) (items : List Cell) (len : LenB) (k n : Nat)
    (ups : List (Nat × Cell)) (ts : List Nat) (hk : ∀ i, key ≠ .int i)
    (h : buildUpdates key (.seq self items len (some k)) n = .ok ups)
    (ht : keyTargets key n = some ts) : ¬ k < ts.length := by
  cases key with
  | int i => exact absurd rfl (hk i)
  | slice a b c =>
    simp only [keyTargets] at ht
    cases hsi : sliceIndices a b c n with
    | error er => simp [hsi] at ht
    | ok t =>
      obtain ⟨s, e, st⟩ := t
      simp only [hsi] at ht; injection ht with ht; subst ht
      have := sliceUpdates_ra a b c self items len k n s e st hsi ups h
      simpa using this
  | maskList bs =>
    simp only [keyTargets] at ht
    split at ht
    · injection ht with ht; subst ht; exact maskUpdates_ra bs self items len k n ups h
    · cases ht
  | maskVec bs =>
    simp only [keyTargets] at ht
    split at ht
    · injection ht with ht; subst ht; exact maskUpdates_ra bs self items len k n ups h
    · cases ht
  | idxVec is =>
    simp only [keyTargets] at ht
    rw [mapOpt_length _ _ _ ht]
    exact idxUpdates_ra is self items len k n ups h
  | idxList is =>
    simp only [keyTargets] at ht
    rw [mapOpt_length _ _ _ ht]
    exact idxUpdates_ra is self items len k n ups h
  | bad => simp [buildUpdates] at h

theorem coreDemand_of_spec (conv : Kind → Nat → Option Nat) (key : Key) (value : Value) (s : VState)
    (hk : key ≠ .maskList []) :
    coreDemand conv key value s =
      match specUpdates key value s.data.length with
      | none => .failAny
      | some ups => typedDemand conv ups s := by
  unfold coreDemand
  cases key with
  | maskList bs =>
    cases bs with
    | nil => exact absurd rfl hk
    | cons b bs => rfl
  | _ => rfl

/-- when the collecting loops refuse, the demand (for a consumable value) is met by refusing -/
theorem core_lax_of_build_error (conv : Kind → Nat → Option Nat) (key : Key) (value : Value)
    (s : VState) (e : Err) (h : buildUpdates key value s.data.length = .error e)
    (hf : value.faulty = false ∨ ∃ i, key = .int i) : (coreDemand conv key value s).lax = true := by
  by_cases hk : key = .maskList []
  · subst hk; rfl
  · rw [coreDemand_of_spec conv key value s hk]
    cases hs : specUpdates key value s.data.length with
    | none => rfl
    | some ups =>
      rw [buildUpdates_complete key value _ ups hf hs] at h; cases h

theorem faultAdjust_lax (key : Key) (value : Value) (n : Nat) (core : Demand) (h : core.lax = true) :
    (faultAdjust key value n core).lax = true := by
  unfold faultAdjust
  split
  · exact h
  · exact h
  · split
    · split
      · split
        · rfl
        · exact relax_lax _
      · rfl
    · split
      · exact h
      · exact relax_lax _



theorem setitem_eq (P : Kind → Kind → Bool) (conv : Kind → Nat → Option Nat) (shared : Bool)
    (key : Key) (value : Value) (s : VState) :
    setitem P conv shared key value s =
      if (!s.data.isEmpty && shared) = true then (some .alias, s) else
      match buildUpdates key value s.data.length with
      | .error e => (some e, s)
      | .ok ups => finish ups (typePhase P conv (ups.map (·.2)) s) := by
  unfold setitem finish
  split
  · rfl
  · cases buildUpdates key value s.data.length <;> rfl

theorem specUpdates_emptyMask (value : Value) (n : Nat) (ups : List (Nat × Cell))
    (h : specUpdates (.maskList []) value n = some ups) : ups = [] := by
  unfold specUpdates at h
  simp only [keyTargets, List.length_nil] at h
  by_cases hn : 0 = n
  · simp only [hn, if_true, trueIdx, trueIdxFrom, List.length_nil] at h
    cases hv : valueCells (.maskList []) value n with
    | none => simp [hv] at h
    | some vs => simp [hv] at h; exact h
  · simp [hn] at h

/-- faults in the value only ever weaken a demand that is met -/
theorem faultAdjust_meets (key : Key) (value : Value) (n : Nat) (core : Demand) (s : VState)
    (out : Option Err × VState) (ups : List (Nat × Cell))
    (hb : buildUpdates key value n = .ok ups)
    (h : accepts core s out = true) : accepts (faultAdjust key value n core) s out = true := by
  cases key with
  | int i => exact h
  | _ =>
    cases value with
    | scalar c => exact h
    | seq self items len ra =>
      cases ra with
      | none =>
        simp only [faultAdjust]
        split
        · exact h
        · exact accepts_relax _ _ _ h
      | some k =>
        have hspec := buildUpdates_spec _ _ _ _ hb
        unfold specUpdates at hspec
        simp only [faultAdjust]
        split
        · rename_i ts ht
          have := build_ok_ra _ self items len k n ups ts (by intro i; simp) hb ht
          simp only [this, if_false]
          exact accepts_relax _ _ _ h
        · rename_i ht
          simp [ht] at hspec

/-- The model of the present `Vector.__setitem__` meets the specification on every input:
    whatever key, value (with whatever faults), conversion oracle and sharing, its outcome is one
    the executable judge `accepts (demand …)` accepts.  (The driver applies the same judge to the
    outcome observed on the real code.) -/
theorem setitem_meets_demand (conv : Kind → Nat → Option Nat) (shared : Bool) (key : Key) (value : Value)
    (s : VState) (hf : fpFresh s = true) :
    accepts (demand conv shared key value s) s (setitem genP conv shared key value s) = true := by
  rw [setitem_eq]
  unfold demand
  simp only
  by_cases hsh : (!s.data.isEmpty && shared) = true
  · simp only [hsh, if_true]
    exact accepts_lax_err _ _ _ (relax_lax _) hf
  · simp only [hsh, Bool.false_eq_true, if_false]
    cases hb : buildUpdates key value s.data.length with
    | error e =>
      simp only
      apply accepts_lax_err _ _ _ _ hf
      -- the demand is one that refusing meets
      by_cases hfa : value.faulty = false ∨ ∃ i, key = .int i
      · exact faultAdjust_lax _ _ _ _ (core_lax_of_build_error conv key value s e hb hfa)
      · -- a faulty sequence value under a non-int key
        cases key with
        | int i => exact absurd (Or.inr ⟨i, rfl⟩) hfa
        | _ =>
          cases value with
          | scalar c => exact absurd (Or.inl rfl) hfa
          | seq self items len ra =>
            cases ra with
            | some k =>
              simp only [faultAdjust]
              split
              · split
                · rfl
                · exact relax_lax _
              · rfl
            | none =>
              simp only [faultAdjust]
              split
              · rename_i hlen
                exact absurd (Or.inl (by simp [Value.faulty, hlen])) hfa
              · exact relax_lax _
    | ok ups =>
      simp only
      apply faultAdjust_meets key value _ _ s _ ups hb
      have hspec := buildUpdates_spec _ _ _ _ hb
      by_cases hk : key = .maskList []
      · subst hk
        -- `v[[]] = x` on an empty vector: nothing to do
        have hu := specUpdates_emptyMask value _ ups hspec
        subst hu
        rw [List.map_nil, typePhase_trivial _ _ _ _ (Or.inl rfl)]
        simp [coreDemand, finish, accepts, sameObs, materialise, applyUpdates, fpFresh]
      · rw [coreDemand_of_spec conv key value s hk, hspec]
        exact typed_meets conv ups s hf


end Serif.Assign
