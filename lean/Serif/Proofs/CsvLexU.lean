/-
  The csv lexer under any line-splitting policy (Serif/Model/CsvLex.lean drives the machine line by line; *where* the file object
  ends a line is a parameter here): a policy says, after character `c` with `rest` still to come, whether a line ends.  Iterating a
  text stream opened with `newline=''` — which is how `read_csv` opens a path — ends lines at `'\n'`, `'\r\n'` and a lone `'\r'`
  (`univ`); `io.StringIO(text)` ends them at `'\n'` only (`lf`).  Reading back what the writer wrote gives the records under every
  policy that ends a line after `'\n'`, never after an ordinary character and not between `'\r'` and `'\n'` — inside quotes it does
  not matter where lines end.
-/
import Serif.Proofs.CsvLex

namespace Serif.CsvLex

/-- the machine driven character by character: EOL where the policy ends a line, and after the last character -/
def streamP (d : Char) (inj : Char → List Char → Bool) : St → List Char → Except Err St
  | s, [] => .ok s
  | s, c :: cs =>
    match step d s (some c) with
    | .error e => .error e
    | .ok s' =>
      if inj c cs || cs.isEmpty then
        match eol d s' with
        | .error e => .error e
        | .ok s'' => streamP d inj s'' cs
      else streamP d inj s' cs

/-- … without the EOL at the very end (the middle of a text) -/
def feedP (d : Char) (inj : Char → List Char → Bool) : St → List Char → Except Err St
  | s, [] => .ok s
  | s, c :: cs =>
    match step d s (some c) with
    | .error e => .error e
    | .ok s' =>
      if inj c cs then
        match eol d s' with
        | .error e => .error e
        | .ok s'' => feedP d inj s'' cs
      else feedP d inj s' cs

structure Policy (inj : Char → List Char → Bool) : Prop where
  nl : ∀ cs, inj '\n' cs = true
  ordinary : ∀ c cs, isNL c = false → inj c cs = false
  crlf : ∀ cs, inj '\r' ('\n' :: cs) = false

theorem lf_policy : Policy lf :=
  ⟨fun _ => rfl, fun c _ h => (ne_of_isNL_false c h).1, fun _ => by show ('\r' == '\n') = false; decide⟩

theorem univ_policy : Policy univ := by
  refine ⟨fun _ => rfl, fun c cs h => ?_, fun cs => by simp [univ]⟩
  have := ne_of_isNL_false c h
  simp [univ, this.1, this.2]

theorem splitP_eq_nil (inj : Char → List Char → Bool) (t : List Char) : splitP inj t = [] ↔ t = [] := by
  cases t with
  | nil => simp [splitP]
  | cons c cs =>
    simp only [splitP]
    split
    · simp
    · cases splitP inj cs <;> simp

/-- line by line over the policy's lines = character by character with the policy's EOLs -/
theorem lines_splitP (d : Char) (inj : Char → List Char → Bool) (t : List Char) :
    ∀ s : St, lines d s (splitP inj t) = streamP d inj s t := by
  induction t with
  | nil => intro s; rfl
  | cons c cs ih =>
    intro s
    by_cases hc : inj c cs = true
    · simp only [splitP, hc, ↓reduceIte, streamP, Bool.true_or, lines, processLine, feed]
      cases step d s (some c) with
      | error e => rfl
      | ok s' =>
        simp only
        cases eol d s' with
        | error e => rfl
        | ok s'' => exact ih s''
    · have hb : inj c cs = false := by simpa using hc
      simp only [splitP, hb, Bool.false_eq_true, ↓reduceIte, streamP, Bool.false_or]
      cases hs : splitP inj cs with
      | nil =>
        have : cs = [] := (splitP_eq_nil inj cs).mp hs
        subst this
        simp only [lines, processLine, feed, List.isEmpty_nil, ↓reduceIte]
        cases step d s (some c) with
        | error e => rfl
        | ok s' =>
          simp only
          cases eol d s' with
          | error e => rfl
          | ok s'' => rfl
      | cons l ls =>
        have hne : cs ≠ [] := fun h => by rw [h] at hs; simp [splitP] at hs
        have hemp : cs.isEmpty = false := by cases cs <;> simp_all
        simp only [hemp, Bool.false_eq_true, ↓reduceIte]
        cases hst : step d s (some c) with
        | error e => exact lines_cons_cons_err d s e c l ls hst
        | ok s' =>
          rw [lines_cons_cons d s s' c l ls hst, ← hs]
          exact ih s'

theorem streamP_snoc_nl (d : Char) (inj : Char → List Char → Bool) (p : Policy inj) (u : List Char) :
    ∀ s : St, streamP d inj s (u ++ ['\n']) = feedP d inj s (u ++ ['\n']) := by
  induction u with
  | nil =>
    intro s
    simp only [List.nil_append, streamP, feedP, p.nl, Bool.true_or, ↓reduceIte]
  | cons c cs ih =>
    intro s
    have hemp : (cs ++ ['\n']).isEmpty = false := by cases cs <;> rfl
    simp only [List.cons_append, streamP, feedP, hemp, Bool.or_false]
    cases step d s (some c) with
    | error e => rfl
    | ok s1 =>
      simp only
      split
      · cases eol d s1 with
        | error e => rfl
        | ok s2 => exact ih s2
      · exact ih s1

variable {d : Char} {inj : Char → List Char → Bool}

/-- inside quotes a line end changes nothing -/
theorem eol_inQuoted (s : St) (h : s.mode = .inQuoted) : eol d s = .ok s := by
  have hmm : (Mode.inQuoted == Mode.startRecord) = false := by decide
  simp only [eol, step, h, hmm, Bool.false_eq_true, ↓reduceIte]

theorem feedP_escape (p : Policy inj) (f : List Char) : ∀ (s : St) (rest : List Char), s.mode = .inQuoted →
    feedP d inj s (escape f ++ rest) = feedP d inj { s with field := f.reverse ++ s.field } rest := by
  induction f with
  | nil => intro s rest _; rfl
  | cons c cs ih =>
    intro s rest hm
    by_cases hq : c = quote
    · subst hq
      simp only [escape, beq_self_eq_true, ↓reduceIte, List.cons_append, feedP, step, hm, St.add, p.ordinary quote _ quote_notNL,
        Bool.false_eq_true]
      rw [ih _ rest rfl]
      simp [List.reverse_cons, List.append_assoc]
    · have hqb : (c == quote) = false := by simpa using hq
      simp only [escape, hqb, Bool.false_eq_true, ↓reduceIte, List.cons_append, feedP, step, hm, St.add]
      cases inj c (escape cs ++ rest) with
      | true =>
        have he : eol d ({ s with mode := .inQuoted, field := c :: s.field } : St) =
            .ok { s with mode := .inQuoted, field := c :: s.field } := eol_inQuoted _ rfl
        simp only [↓reduceIte, he]
        rw [ih _ rest rfl]
        simp [List.reverse_cons, List.append_assoc]
      | false =>
        simp only [Bool.false_eq_true, ↓reduceIte]
        rw [ih _ rest rfl]
        simp [List.reverse_cons, List.append_assoc]

theorem feedP_plain (p : Policy inj) (f : List Char) : ∀ (s : St) (rest : List Char), s.mode = .inField → plain d f = true →
    feedP d inj s (f ++ rest) = feedP d inj { s with field := f.reverse ++ s.field } rest := by
  induction f with
  | nil => intro s rest _ _; rfl
  | cons c cs ih =>
    intro s rest hm hp
    obtain ⟨⟨hd, hq, hnl⟩, hrest⟩ := (plain_cons d c cs).mp hp
    simp only [List.cons_append, feedP, step, hm, endsField, hnl, Bool.false_eq_true, ↓reduceIte, hd, St.add, p.ordinary c _ hnl]
    rw [ih _ rest rfl hrest]
    simp [List.reverse_cons, List.append_assoc]

theorem feedP_field (p : Policy inj) (g : GoodDelim d) (s : St) (q : Bool) (f rest : List Char) (hs : Start s)
    (hq : q = true ∨ plain d f = true) :
    feedP d inj s (renderField q f ++ rest) = feedP d inj (afterField s q f) rest := by
  have hdq : (d == quote) = false := by simpa using g.neQuote
  cases q with
  | true =>
    simp only [renderField, ↓reduceIte, List.cons_append, List.append_assoc, feedP, step_start d s quote hs quote_notNL,
      p.ordinary quote _ quote_notNL, Bool.false_eq_true, stepStartField, endsField, quote_notNL, beq_self_eq_true]
    rw [feedP_escape p f _ _ rfl]
    simp only [List.nil_append, feedP, step, beq_self_eq_true, ↓reduceIte, p.ordinary quote _ quote_notNL,
      Bool.false_eq_true, afterField, hs.2, List.append_nil]
  | false =>
    have hp : plain d f = true := by rcases hq with h | h; cases h; exact h
    cases f with
    | nil => simp only [renderField, Bool.false_eq_true, ↓reduceIte, List.nil_append, afterField, List.isEmpty_nil]
    | cons c cs =>
      obtain ⟨⟨hd, hcq, hnl⟩, hrest⟩ := (plain_cons d c cs).mp hp
      simp only [renderField, Bool.false_eq_true, ↓reduceIte, List.cons_append, feedP, step_start d s c hs hnl, p.ordinary c _ hnl,
        stepStartField, endsField, hnl, hcq, hd, St.add]
      rw [feedP_plain p cs _ rest rfl hrest]
      simp only [afterField, Bool.false_eq_true, ↓reduceIte, List.isEmpty_cons, hs.2, List.reverse_cons]

theorem feedP_delim (p : Policy inj) (g : GoodDelim d) (s : St) (rest : List Char) (hs : Closable s ∨ Start s) :
    feedP d inj s (d :: rest) =
      feedP d inj { s with mode := .startField, field := [], fields := s.field.reverse :: s.fields } rest := by
  have hdq : (d == quote) = false := by simpa using g.neQuote
  have hi := p.ordinary d rest g.notNL
  rcases hs with (h | h | h) | h
  · simp only [feedP, step, h, endsField, g.notNL, Bool.false_eq_true, ↓reduceIte, beq_self_eq_true, hi, St.save]
  · simp only [feedP, step, h, hdq, Bool.false_eq_true, ↓reduceIte, beq_self_eq_true, hi, St.save]
  · simp only [feedP, step, h, stepStartField, endsField, g.notNL, Bool.false_eq_true, ↓reduceIte, hdq, beq_self_eq_true, hi,
      St.save]
  · simp only [feedP, step_start d s d h g.notNL, stepStartField, endsField, g.notNL, Bool.false_eq_true, ↓reduceIte, hdq,
      beq_self_eq_true, hi, St.save]

theorem feedP_term (p : Policy inj) (g : GoodDelim d) (s : St) (crlf : Bool) (rest : List Char) (hs : Closable s) :
    feedP d inj s (term crlf ++ rest) =
      feedP d inj { mode := .startRecord, field := [], fields := [], out := (s.field.reverse :: s.fields).reverse :: s.out } rest := by
  have hnd : ('\n' == d) = false := by
    have h := (ne_of_isNL_false d g.notNL).1
    rw [beq_eq_false_iff_ne] at h ⊢; exact fun e => h e.symm
  have hrd : ('\r' == d) = false := by
    have h := (ne_of_isNL_false d g.notNL).2
    rw [beq_eq_false_iff_ne] at h ⊢; exact fun e => h e.symm
  have hnq : ('\n' == quote) = false := by decide
  have hrq : ('\r' == quote) = false := by decide
  have hnl1 : isNL '\n' = true := by decide
  have hnl2 : isNL '\r' = true := by decide
  cases crlf with
  | false =>
    rcases hs with h | h | h
    · simp only [term, Bool.false_eq_true, ↓reduceIte, List.cons_append, List.nil_append, feedP, step, h, endsField, hnl1, afterEnd,
        Option.isNone_some, St.save, p.nl, eol, beq_self_eq_true]
    · simp only [term, Bool.false_eq_true, ↓reduceIte, List.cons_append, List.nil_append, feedP, step, h, hnq, hnd, hnl1, St.save,
        p.nl, eol, beq_self_eq_true]
    · simp only [term, Bool.false_eq_true, ↓reduceIte, List.cons_append, List.nil_append, feedP, step, h, stepStartField, endsField,
        hnl1, afterEnd, Option.isNone_some, St.save, p.nl, eol, beq_self_eq_true]
  | true =>
    rcases hs with h | h | h
    · simp only [term, ↓reduceIte, List.cons_append, List.nil_append, feedP, step, h, endsField, hnl2, hnl1, afterEnd,
        Option.isNone_some, St.save, p.crlf, p.nl, Bool.false_eq_true, eol, beq_self_eq_true]
    · simp only [term, ↓reduceIte, List.cons_append, List.nil_append, feedP, step, h, hrq, hrd, hnl2, hnl1, St.save, p.crlf, p.nl,
        Bool.false_eq_true, eol, beq_self_eq_true]
    · simp only [term, ↓reduceIte, List.cons_append, List.nil_append, feedP, step, h, stepStartField, endsField, hnl2, hnl1, afterEnd,
        Option.isNone_some, St.save, p.crlf, p.nl, Bool.false_eq_true, eol, beq_self_eq_true]

theorem feedP_term_empty (p : Policy inj) (s : St) (crlf : Bool) (rest : List Char) (hm : s.mode = .startRecord) :
    feedP d inj s (term crlf ++ rest) = feedP d inj { s with fields := [], out := s.fields.reverse :: s.out } rest := by
  have hnl1 : isNL '\n' = true := by decide
  have hnl2 : isNL '\r' = true := by decide
  cases crlf with
  | false => simp only [term, Bool.false_eq_true, ↓reduceIte, List.cons_append, List.nil_append, feedP, step, hm, hnl1, p.nl, eol, beq_self_eq_true]
  | true =>
    simp only [term, ↓reduceIte, List.cons_append, List.nil_append, feedP, step, hm, hnl2, hnl1, p.crlf, p.nl, Bool.false_eq_true, eol, beq_self_eq_true]

theorem feedP_fields (p : Policy inj) (g : GoodDelim d) (crlf : Bool) : ∀ (r : List (Bool × List Char)) (s : St) (rest : List Char),
    r ≠ [] → Start s → (∀ qf ∈ r, qf.1 = true ∨ plain d qf.2 = true) → (s.mode = .startRecord → r ≠ [(false, [])]) →
    feedP d inj s (renderFields d r ++ (term crlf ++ rest)) =
      feedP d inj { mode := .startRecord, field := [], fields := [], out := (s.fields.reverse ++ r.map (·.2)) :: s.out } rest := by
  intro r
  induction r with
  | nil => intro s _ h; exact absurd rfl h
  | cons qf rs ih =>
    intro s rest _ hs hq hex
    obtain ⟨q, f⟩ := qf
    have hqf : q = true ∨ plain d f = true := hq (q, f) List.mem_cons_self
    obtain ⟨hcs, hfield, hfields, hout, hcl⟩ := afterField_props s q f hs
    cases rs with
    | nil =>
      simp only [renderFields]
      rw [feedP_field p g s q f _ hs hqf]
      have hclos : Closable (afterField s q f) := by
        rcases hcl with h | ⟨hq0, hf0, hsame⟩
        · exact h
        · subst hq0; subst hf0
          rw [hsame]
          rcases hs.1 with hm | hm
          · exact absurd rfl (hex hm)
          · exact Or.inr (Or.inr hm)
      rw [feedP_term p g _ crlf rest hclos, hfield, hfields, hout]
      simp
    | cons qf' rs' =>
      simp only [renderFields, List.append_assoc, List.cons_append]
      rw [feedP_field p g s q f _ hs hqf, feedP_delim p g _ _ hcs]
      rw [ih _ rest (by simp) ⟨Or.inr rfl, rfl⟩ (fun x hx => hq x (List.mem_cons_of_mem _ hx)) (fun h => by cases h)]
      simp [hfield, hfields, hout]

theorem feedP_record (p : Policy inj) (g : GoodDelim d) (crlf : Bool) (r : List (Bool × List Char)) (out : List (List (List Char)))
    (rest : List Char) (hw : wellQuoted d r = true) :
    feedP d inj { out := out } (renderRecord d crlf r ++ rest) = feedP d inj { out := r.map (·.2) :: out } rest := by
  simp only [wellQuoted, Bool.and_eq_true, List.all_eq_true, Bool.or_eq_true, Bool.not_eq_true', beq_eq_false_iff_ne] at hw
  cases r with
  | nil =>
    have := feedP_term_empty (d := d) p { out := out } crlf rest rfl
    simpa [renderRecord, renderFields, term] using this
  | cons qf rs =>
    have := feedP_fields p g crlf (qf :: rs) { out := out } rest (by simp) ⟨Or.inl rfl, rfl⟩
      (fun x hx => by rcases hw.1 x hx with h | h <;> simp [h]) (fun _ => hw.2)
    simpa [renderRecord, term, List.append_assoc] using this

theorem feedP_text (p : Policy inj) (g : GoodDelim d) (crlf : Bool) : ∀ (rs : List (List (Bool × List Char)))
    (out : List (List (List Char))), (∀ r ∈ rs, wellQuoted d r = true) →
    feedP d inj { out := out } (renderText d crlf rs) = .ok { out := (rs.map (·.map (·.2))).reverse ++ out } := by
  intro rs
  induction rs with
  | nil => intro out _; rfl
  | cons r rs ih =>
    intro out hw
    simp only [renderText]
    rw [feedP_record p g crlf r out _ (hw r List.mem_cons_self), ih _ (fun x hx => hw x (List.mem_cons_of_mem _ hx))]
    simp

/-- `list(csv.reader(f))` for a file object whose iteration follows the policy -/
def parseP (d : Char) (inj : Char → List Char → Bool) (text : List Char) : Except Err (List (List (List Char))) :=
  parseLines d (splitP inj text)

/-- reading back what the writer wrote, under every admissible line-splitting policy -/
theorem parseP_renderText (p : Policy inj) (g : GoodDelim d) (crlf : Bool) (rs : List (List (Bool × List Char)))
    (hw : ∀ r ∈ rs, wellQuoted d r = true) :
    parseP d inj (renderText d crlf rs) = .ok (rs.map (·.map (·.2))) := by
  unfold parseP parseLines
  rw [lines_splitP]
  cases rs with
  | nil => rfl
  | cons r rs' =>
    obtain ⟨u, hu⟩ := renderText_snoc d crlf (r :: rs') (by simp)
    have h := feedP_text p g crlf (r :: rs') [] hw
    rw [hu] at h ⊢
    rw [streamP_snoc_nl d inj p, h]
    simp [finish]

/-- without carriage returns in the text every admissible policy cuts the same lines: those ending at `'\n'` -/
theorem splitP_eq_lf_of_no_cr (inj : Char → List Char → Bool) (p : Policy inj) :
    ∀ t : List Char, (∀ c ∈ t, c ≠ '\r') → splitP inj t = splitP lf t := by
  intro t
  induction t with
  | nil => intro _; rfl
  | cons c cs ih =>
    intro h
    have hc : c ≠ '\r' := h c List.mem_cons_self
    have ih' := ih (fun x hx => h x (List.mem_cons_of_mem _ hx))
    by_cases hn : c = '\n'
    · subst hn
      simp only [splitP, p.nl, lf, beq_self_eq_true, ↓reduceIte, ih']
    · have hnl : isNL c = false := by
        simp only [isNL, Bool.or_eq_false_iff, beq_eq_false_iff_ne, ne_eq]
        exact ⟨hn, hc⟩
      have hlf : lf c cs = false := by simpa [lf] using hn
      simp only [splitP, p.ordinary c cs hnl, hlf, Bool.false_eq_true, ↓reduceIte, ih']

/-- hence the records read from such a text are the same for every kind of source -/
theorem parseP_eq_of_no_cr (d : Char) (inj : Char → List Char → Bool) (p : Policy inj) (t : List Char)
    (h : ∀ c ∈ t, c ≠ '\r') : parseP d inj t = parseText d t := by
  unfold parseP
  rw [splitP_eq_lf_of_no_cr inj p t h]
  have : splitP lf t = splitLF t := by
    clear h
    induction t with
    | nil => rfl
    | cons c cs ih => simp only [splitP, splitLF, lf, ih]
  rw [this, parseLines_splitLF]


end Serif.CsvLex
