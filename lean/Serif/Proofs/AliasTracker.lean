/-
  The tracker class by itself refines the obvious specification (C15, unit level).

  `register` / `unregister` / `check_writable` of Model/AliasHeap.lean (the functions `alias_tracker.py` is modelled by and
  the driver's `tracker` family runs against the real class) are driven directly — any identities, reused at will, objects
  dying at any point — and compared with a specification that keeps nothing but the set of registered (object, identity)
  pairs:  `check_writable` refuses iff two different LIVE objects are registered under the identity.  Dead references that
  linger in the registry, the places where the pruned list is or is not stored back, and the deletion of empty entries are all
  invisible.
-/
import Serif.Proofs.AliasHeap

namespace Serif
namespace AState

/-- direct calls on the tracker, plus birth and death of objects -/
inductive TOp where
  | new
  | kill (o : Nat)
  | reg (o s : Nat)
  | unreg (o s : Nat)
  | check (s : Nat)
  deriving Repr

/-- the tracker side; the flag is "AliasError raised" -/
def tstep (st : AState) : TOp → AState × Bool
  | .new => (({ st with next := st.next + 1 }).setStore st.next (some 0), false)
  | .kill o => (st.setStore o none, false)
  | .reg o s => (st.register o s, false)
  | .unreg o s => (st.unregister o s, false)
  | .check s => ((st.checkWritable s).1, !(st.checkWritable s).2)

/-- the specification side: the registered pairs -/
def sstep (pairs : List (Nat × Nat)) : TOp → List (Nat × Nat)
  | .reg o s => if pairs.contains (o, s) then pairs else pairs ++ [(o, s)]
  | .unreg o s => pairs.filter (· != (o, s))
  | _ => pairs

/-- the library only ever passes live objects (`self`) to `register` / `unregister` -/
def TValid (st : AState) : TOp → Prop
  | .reg o _ => st.alive o = true
  | .unreg o _ => st.alive o = true
  | _ => True

/-- two different live objects are registered under `s` -/
def SpecShared (st : AState) (pairs : List (Nat × Nat)) (s : Nat) : Prop :=
  ∃ o1 o2, o1 ≠ o2 ∧ st.alive o1 = true ∧ st.alive o2 = true ∧ (o1, s) ∈ pairs ∧ (o2, s) ∈ pairs

structure TInv (st : AState) (pairs : List (Nat × Nat)) : Prop where
  mem : ∀ s o, st.alive o = true → (o ∈ st.reg s ↔ (o, s) ∈ pairs)
  nodup : ∀ s, (st.liveRefs s).Nodup
  reg_lt : ∀ s o, o ∈ st.reg s → o < st.next
  alive_lt : ∀ o, st.alive o = true → o < st.next
  pairs_lt : ∀ o s, (o, s) ∈ pairs → o < st.next

theorem tinv_init : TInv init [] := by
  constructor <;> simp [init, alive, liveRefs]

theorem liveRefs_setReg_same (st : AState) (s : Nat) (l : List Nat) :
    (st.setReg s l).liveRefs s = l.filter st.alive := by
  have : (st.setReg s l).alive = st.alive := rfl
  simp [liveRefs, this]; simp [setReg]

theorem liveRefs_setReg_ne (st : AState) (s s' : Nat) (l : List Nat) (h : s' ≠ s) :
    (st.setReg s l).liveRefs s' = st.liveRefs s' := by
  have : (st.setReg s l).alive = st.alive := rfl
  simp [liveRefs, this]; simp [setReg, h]

theorem liveRefs_filter_alive (st : AState) (s : Nat) : (st.liveRefs s).filter st.alive = st.liveRefs s := by
  simp [liveRefs, List.filter_filter]

theorem two_of_nodup (l : List Nat) (nd : l.Nodup) : 2 ≤ l.length ↔ ∃ a b, a ≠ b ∧ a ∈ l ∧ b ∈ l := by
  constructor
  · intro h
    match l, nd, h with
    | a :: b :: t, nd, _ =>
      refine ⟨a, b, ?_, by simp, by simp⟩
      intro e; subst e; simp at nd
  · rintro ⟨a, b, hne, ha, hb⟩
    match l, ha, hb with
    | [], ha, _ => cases ha
    | [x], ha, hb =>
      simp at ha hb; exact absurd (ha.trans hb.symm) hne
    | _ :: _ :: _, _, _ => simp

/-- under the invariant `check_writable` refuses iff the specification says the identity is shared -/
theorem check_spec (st : AState) (pairs : List (Nat × Nat)) (inv : TInv st pairs) (s : Nat) :
    (st.tstep (.check s)).2 = true ↔ SpecShared st pairs s := by
  have key : 2 ≤ (st.liveRefs s).length ↔ SpecShared st pairs s := by
    rw [two_of_nodup _ (inv.nodup s)]
    constructor
    · rintro ⟨a, b, hne, ha, hb⟩
      rw [mem_liveRefs] at ha hb
      exact ⟨a, b, hne, ha.2, hb.2, (inv.mem s a ha.2).1 ha.1, (inv.mem s b hb.2).1 hb.1⟩
    · rintro ⟨a, b, hne, la, lb, pa, pb⟩
      exact ⟨a, b, hne, (mem_liveRefs st s a).2 ⟨(inv.mem s a la).2 pa, la⟩,
        (mem_liveRefs st s b).2 ⟨(inv.mem s b lb).2 pb, lb⟩⟩
  rw [← key]
  simp only [tstep, checkWritable]
  split
  · rename_i he
    have : st.liveRefs s = [] := by
      simp only [List.isEmpty_iff] at he
      simp [liveRefs, he]
    simp [this]
  · simp; omega

theorem alive_setReg (st : AState) (s : Nat) (l : List Nat) (o : Nat) : (st.setReg s l).alive o = st.alive o := rfl

/-- the invariant is kept by every valid step, with the specification stepping alongside -/
theorem tinv_step (st : AState) (pairs : List (Nat × Nat)) (op : TOp) (inv : TInv st pairs) (v : TValid st op) :
    TInv (st.tstep op).1 (sstep pairs op) := by
  cases op with
  | new =>
    simp only [tstep, sstep]
    have al : ∀ o, (({ st with next := st.next + 1 }).setStore st.next (some 0)).alive o
        = (if o = st.next then true else st.alive o) := by
      intro o; simp only [alive, setStore]; split <;> simp
    constructor
    · intro s o ho
      rw [al] at ho
      show o ∈ st.reg s ↔ _
      by_cases e : o = st.next
      · subst e
        constructor
        · intro h; exact absurd (inv.reg_lt s _ h) (Nat.lt_irrefl _)
        · intro h; exact absurd (inv.pairs_lt _ s h) (Nat.lt_irrefl _)
      · simp only [if_neg e] at ho; exact inv.mem s o ho
    · intro s
      have : (({ st with next := st.next + 1 }).setStore st.next (some 0)).liveRefs s = st.liveRefs s := by
        show (st.reg s).filter _ = (st.reg s).filter _
        apply List.filter_congr
        intro x hx
        rw [al]
        have := inv.reg_lt s x hx
        simp [Nat.ne_of_lt this]
      rw [this]; exact inv.nodup s
    · intro s o ho
      have := inv.reg_lt s o ho
      show o < st.next + 1; omega
    · intro o ho
      rw [al] at ho
      show o < st.next + 1
      by_cases e : o = st.next
      · omega
      · simp only [if_neg e] at ho; have := inv.alive_lt o ho; omega
    · intro o s h
      have := inv.pairs_lt o s h
      show o < st.next + 1; omega
  | kill k =>
    simp only [tstep, sstep]
    have al : ∀ o, (st.setStore k none).alive o = (if o = k then false else st.alive o) := by
      intro o; simp only [alive, setStore]; split <;> simp
    constructor
    · intro s o ho
      rw [al] at ho
      by_cases e : o = k
      · simp [e] at ho
      · simp only [if_neg e] at ho; exact inv.mem s o ho
    · intro s
      have : (st.setStore k none).liveRefs s = (st.liveRefs s).filter (· != k) := by
        simp only [liveRefs, List.filter_filter]
        apply List.filter_congr
        intro x _
        rw [al]
        by_cases e : x = k <;> simp [e]
      rw [this]; exact (inv.nodup s).filter _
    · exact inv.reg_lt
    · intro o ho
      rw [al] at ho
      by_cases e : o = k
      · simp [e] at ho
      · simp only [if_neg e] at ho; exact inv.alive_lt o ho
    · exact inv.pairs_lt
  | reg o s =>
    simp only [TValid] at v
    simp only [tstep, sstep, register]
    by_cases hc : (st.liveRefs s).contains o = true
    · -- already registered: nothing changes on either side
      have hin : o ∈ st.reg s := ((mem_liveRefs st s o).1 (by simpa using hc)).1
      have hp : (o, s) ∈ pairs := (inv.mem s o v).1 hin
      simp only [hc, if_true]
      have : pairs.contains (o, s) = true := by simpa using hp
      simp only [this, if_true]
      exact inv
    · have hnl : o ∉ st.liveRefs s := by simpa using hc
      have hnr : o ∉ st.reg s := fun h => hnl ((mem_liveRefs st s o).2 ⟨h, v⟩)
      have hnp : (o, s) ∉ pairs := fun h => hnr ((inv.mem s o v).2 h)
      have hc' : ¬ ((st.liveRefs s).contains o = true) := hc
      have hpc : ¬ (pairs.contains (o, s) = true) := by simpa using hnp
      rw [if_neg hc', if_neg hpc]
      constructor
      · intro s' x hx
        rw [alive_setReg] at hx
        by_cases es : s' = s
        · subst es
          simp only [setReg, if_true, List.mem_append, List.mem_singleton, Prod.mk.injEq, and_true]
          rw [mem_liveRefs, inv.mem s' x hx]
          simp [hx]
        · simp only [setReg, if_neg es, List.mem_append, List.mem_singleton, Prod.mk.injEq]
          rw [inv.mem s' x hx]
          constructor
          · intro h; exact Or.inl h
          · rintro (h | ⟨_, h⟩)
            · exact h
            · exact absurd h es
      · intro s'
        by_cases es : s' = s
        · subst es
          rw [liveRefs_setReg_same, List.filter_append, liveRefs_filter_alive]
          simp only [List.filter_cons, v, if_true, List.filter_nil]
          rw [List.nodup_append]
          refine ⟨inv.nodup s', by simp, ?_⟩
          intro a ha b hb
          simp at hb; subst hb
          intro e; subst e; exact hnl ha
        · rw [liveRefs_setReg_ne _ _ _ _ es]; exact inv.nodup s'
      · intro s' x hx
        by_cases es : s' = s
        · subst es
          simp only [setReg, if_true, List.mem_append, List.mem_singleton] at hx
          rcases hx with hx | hx
          · exact inv.reg_lt s' x ((mem_liveRefs st s' x).1 hx).1
          · subst hx; exact inv.alive_lt x v
        · simp only [setReg, if_neg es] at hx; exact inv.reg_lt s' x hx
      · exact inv.alive_lt
      · intro x s' h
        simp only [List.mem_append, List.mem_singleton, Prod.mk.injEq] at h
        rcases h with h | ⟨h, _⟩
        · exact inv.pairs_lt x s' h
        · subst h; exact inv.alive_lt x v
  | unreg o s =>
    simp only [TValid] at v
    simp only [tstep, sstep, unregister]
    by_cases he : (st.reg s).isEmpty = true
    · simp only [he, if_true]
      have hnp : (o, s) ∉ pairs := by
        intro h
        have := (inv.mem s o v).2 h
        simp only [List.isEmpty_iff] at he
        rw [he] at this; cases this
      have : pairs.filter (· != (o, s)) = pairs := by
        rw [List.filter_eq_self]
        intro a ha
        simp only [bne_iff_ne, ne_eq]
        intro e; subst e; exact hnp ha
      rw [this]; exact inv
    · have he' : ¬ ((st.reg s).isEmpty = true) := he
      rw [if_neg he']
      constructor
      · intro s' x hx
        rw [alive_setReg] at hx
        by_cases es : s' = s
        · subst es
          simp only [setReg, if_true, List.mem_filter, bne_iff_ne, ne_eq, Prod.mk.injEq, and_true]
          rw [mem_liveRefs, inv.mem s' x hx]
          simp [hx]
        · simp only [setReg, if_neg es, List.mem_filter, bne_iff_ne, ne_eq, Prod.mk.injEq]
          rw [inv.mem s' x hx]
          constructor
          · intro h; exact ⟨h, fun hh => es hh.2⟩
          · intro h; exact h.1
      · intro s'
        by_cases es : s' = s
        · subst es
          rw [liveRefs_setReg_same]
          exact ((inv.nodup s').filter _).filter _
        · rw [liveRefs_setReg_ne _ _ _ _ es]; exact inv.nodup s'
      · intro s' x hx
        by_cases es : s' = s
        · subst es
          simp only [setReg, if_true, List.mem_filter] at hx
          exact inv.reg_lt s' x ((mem_liveRefs st s' x).1 hx.1).1
        · simp only [setReg, if_neg es] at hx; exact inv.reg_lt s' x hx
      · exact inv.alive_lt
      · intro x s' h
        simp only [List.mem_filter] at h
        exact inv.pairs_lt x s' h.1
  | check s =>
    simp only [tstep, sstep, checkWritable]
    split
    · exact inv
    · constructor
      · intro s' x hx
        rw [alive_setReg] at hx
        by_cases es : s' = s
        · subst es
          simp only [setReg, if_true]
          rw [mem_liveRefs, ← inv.mem s' x hx]
          simp [hx]
        · simp only [setReg, if_neg es]; exact inv.mem s' x hx
      · intro s'
        by_cases es : s' = s
        · subst es
          rw [liveRefs_setReg_same, liveRefs_filter_alive]; exact inv.nodup s'
        · rw [liveRefs_setReg_ne _ _ _ _ es]; exact inv.nodup s'
      · intro s' x hx
        by_cases es : s' = s
        · subst es
          simp only [setReg, if_true] at hx
          exact inv.reg_lt s' x ((mem_liveRefs st s' x).1 hx).1
        · simp only [setReg, if_neg es] at hx; exact inv.reg_lt s' x hx
      · exact inv.alive_lt
      · exact inv.pairs_lt

/-- run tracker and specification side by side -/
def trun : AState × List (Nat × Nat) → List TOp → AState × List (Nat × Nat)
  | p, [] => p
  | p, op :: ops => trun ((p.1.tstep op).1, sstep p.2 op) ops

/-- validity of a call sequence: `register` / `unregister` only ever get live objects -/
def TValidRun : AState → List TOp → Prop
  | _, [] => True
  | st, op :: ops => TValid st op ∧ TValidRun (st.tstep op).1 ops

theorem trun_inv (ops : List TOp) (st : AState) (pairs : List (Nat × Nat)) (inv : TInv st pairs)
    (v : TValidRun st ops) : TInv (trun (st, pairs) ops).1 (trun (st, pairs) ops).2 := by
  induction ops generalizing st pairs with
  | nil => exact inv
  | cons op ops ih => exact ih _ _ (tinv_step st pairs op inv v.1) v.2

end AState
end Serif
