/-
  Shared driver handler for C09 / C10 / C11 (joins).  Parses one case, runs the model `Join.run` and the
  specification `Join.specRun` on the inputs and judges the implementation's observed outcome.

  case  = {"kind":"inner|left|full", "expect":str,
           "L":{"names":[str|null…], "cols":[[[tag,eq,uid]…]…]}, "R":{…},
           "lon":{"form":"single|list|other", "specs":[{"name":s}|{"vec":[[tag,eq,uid]…]}|{"bad":true}…]}, "ron":{…}}
  impl  = {"out":outcome, "mm":outcome|null, "swap":outcome|null}
  outcome = {"err":cls} | {"names":[…], "cols":[[uid…]…], "dtypes":[null|[kind,nullable]…]}
-/
import Serif.Wire
import Serif.Model.Join
open Lean Serif.Wire

namespace Serif.Drive.Join
open Serif.Join

inductive Outcome where
  | err (cls : String)
  | ok (o : Out Nat)
  deriving DecidableEq

def asCell (j : Json) : P Cell := do
  match ← asList asNat j with
  | [t, e, u] => return { tag := Tag.ofCode t, eq := e, uid := u }
  | _ => .error s!"expected [tag,eq,uid], got {j.compress}"

def asTab (j : Json) : P (Tab Cell) := do
  let names ← listF (asOpt asStr) j "names"
  let cols ← listF (asList asCell) j "cols"
  return { names := names, cols := cols }

def asKeySpec (j : Json) : P KeySpec := do
  match j.getObjVal? "name" with
  | .ok s => return .name (← asStr s)
  | .error _ =>
    match j.getObjVal? "vec" with
    | .ok v => return .vec (← asList asCell v)
    | .error _ => return .bad

def asOnArg (j : Json) : P OnArg := do
  let form ← strF j "form"
  let specs ← listF asKeySpec j "specs"
  match form, specs with
  | "single", [k] => return .single k
  | "list", ks => return .list ks
  | "other", _ => return .other
  | _, _ => .error s!"bad on-argument {j.compress}"

def asOutcome (j : Json) : P Outcome := do
  match j.getObjVal? "err" with
  | .ok c => return .err (← asStr c)
  | .error _ =>
    let names ← listF (asOpt asStr) j "names"
    let cols ← listF (asList asNat) j "cols"
    let dtypes ← listF asDType j "dtypes"
    return .ok { names := names, cols := cols, dtypes := dtypes }

def asKind (s : String) : P JKind :=
  match s with
  | "inner" => .ok .inner
  | "left" => .ok .left
  | "full" => .ok .full
  | _ => .error s!"unknown join kind {s}"

def viewOut (o : Out Cell) : Out Nat :=
  { names := o.names, cols := o.cols.map (·.map (·.uid)), dtypes := o.dtypes }

def ofOutNat (o : Out Nat) : Json :=
  Json.mkObj [("names", ofList ofOptStr o.names), ("cols", ofList ofNatList o.cols),
              ("dtypes", ofList ofDType o.dtypes)]

def ofRes (r : Except Err (Out Cell)) : Json :=
  match r with
  | .error e => Json.mkObj [("err", Json.str e.name)]
  | .ok o => ofOutNat (viewOut o)

def toOutcome (r : Except Err (Out Cell)) : Outcome :=
  match r with
  | .error e => .err e.name
  | .ok o => .ok (viewOut o)

/-- rows of a column-major result -/
def rowsOf (cols : List (List Nat)) : List (List Nat) :=
  match cols with
  | [] => []
  | c :: _ => (List.range c.length).map (fun i => cols.map (fun col => col[i]?.getD 0))

/-- the verdict on the main outcome.  Latitude: a rejected `expect` value and a refused key
    specification may raise any error class (the properties only say "rejected" / are conditional on
    validation passing); a uniqueness failure must be a SerifValueError; a result must be the model's
    and the specification's result (names, cells, dtypes, order). -/
def judgeMain (kind : JKind) (e : String) (L R : Tab Cell) (lon ron : OnArg) (got : Outcome) : Bool × String :=
  let model := run kind e L R lon ron
  let spec := specRun kind e L R lon ron
  if !validExpect e then
    match got with
    | .err _ => (true, "")
    | .ok _ => (false, "an expect value outside the four documented ones was accepted")
  else
    match validateKeys L R lon ron with
    | .error _ =>
      match got with
      | .err _ => (true, "")
      | .ok _ => (false, "a malformed key specification was not refused")
    | .ok _ =>
      if got != toOutcome spec then
        match got, spec with
        | .err c, .ok _ => (false, s!"raised {c} although the keys are valid and the expectation holds")
        | .ok _, .error _ => (false, "a violated cardinality expectation was accepted")
        | .err c, .error _ => (false, s!"a violated cardinality expectation raised {c}, not SerifValueError")
        | .ok _, .ok _ => (false, "result differs from the relational definition (rows, order, names or dtypes)")
      else if got != toOutcome model then
        (false, "result agrees with the specification but not with the model of the algorithm (model/source drift)")
      else (true, "")

def handle (_fam : String) (c impl : Json) : P Json := do
  let kind ← asKind (← strF c "kind")
  let e ← strF c "expect"
  let L ← asTab (← field c "L")
  let R ← asTab (← field c "R")
  let lon ← asOnArg (← field c "lon")
  let ron ← asOnArg (← field c "ron")
  let got ← asOutcome (← field impl "out")
  let modelJ := ofRes (specRun kind e L R lon ron)
  let (ok, why) := judgeMain kind e L R lon ron got
  if !ok then return verdict false why modelJ
  -- C11: when the expectation holds the result is the many_to_many result
  let mmJ := fieldD impl "mm" Json.null
  if !mmJ.isNull then
    let mm ← asOutcome mmJ
    match got, mm with
    | .ok a, .ok b =>
      if a != b then return verdict false "result differs from the many_to_many result" modelJ
    | .ok _, .err cls =>
      return verdict false s!"many_to_many raised {cls} where a stricter expectation returned a result" modelJ
    | _, _ => pure ()
  -- C10: full_join(R, L) has the same rows up to column and row order
  let swJ := fieldD impl "swap" Json.null
  if !swJ.isNull then
    let sw ← asOutcome swJ
    match got, sw with
    | .ok a, .ok b =>
      let nR := R.cols.length
      let swapped := (rowsOf b.cols).map (fun r => r.drop nR ++ r.take nR)
      let mine := rowsOf a.cols
      -- an empty side makes one of the two results a zero-column table; compare rows only when both have columns
      if a.cols.isEmpty != b.cols.isEmpty then
        return verdict false "full_join(L,R) and full_join(R,L): one is empty, the other is not" modelJ
      if !(mine.isPerm swapped) then
        return verdict false "full_join(R,L) is not full_join(L,R) up to column and row order" modelJ
    | .err _, .err _ => pure ()
    | _, _ => return verdict false "full_join(L,R) and full_join(R,L) disagree on raising" modelJ
  return verdict true "" modelJ

end Serif.Drive.Join
