import Serif.Drive.Expr
open Lean Serif.Wire

namespace Serif.Drive.C03

/-- every step of the program: `truthful` on the implementation's result (spec on code) and the
    operation's dtype rule (`X.step`) applied to the implementation's operand observations -/
def handle (fam : String) (c impl : Json) : P Json := Serif.Drive.Expr.handle "C03" fam c impl

end Serif.Drive.C03
