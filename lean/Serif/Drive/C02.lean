import Serif.Wire
import Serif.Model.Tab
open Lean Serif.Wire Serif.Tab

namespace Serif.Drive.C02

structure TObs where
  cols : List (List Nat)
  names : List (Option String)
  len : Nat
  shape : List Nat
  rowsIdx : Option (List (List Nat))     -- none: the observation itself raised
  rowsIter : Option (List (List Nat))
  rowsNeg : Option (Option (List (List Nat))) := none   -- outer none: not observed; inner none: the observation raised
  rowsOob : List Int := []                              -- out-of-range row positions that gave a row

def asTObs (j : Json) : P (Option TObs) := do
  if j.isNull then return none
  let k ← strF j "k"
  if k != "t" then return none
  let colsJ ← asArr (← field j "cols")
  let cols ← colsJ.mapM (fun c => listF asNat c "data")
  let names ← colsJ.mapM (fun c => asOpt asStr (fieldD c "name" Json.null))
  return some { cols := cols, names := names, len := ← natF j "len", shape := ← listF asNat j "shape",
                rowsIdx := (listF (asList asNat) j "rows_idx").toOption, rowsIter := (listF (asList asNat) j "rows_iter").toOption,
                rowsNeg := match j.getObjVal? "rows_neg" with
                  | .ok _ => some ((listF (asList asNat) j "rows_neg").toOption)
                  | .error _ => none,
                rowsOob := ((listF asInt j "rows_oob").toOption).getD [] }

/-- columns shown by a slot that holds a table, or the single column of a vector -/
def asCols (j : Json) : P (Option (List (List Nat))) := do
  if j.isNull then return none
  let k ← strF j "k"
  if k == "t" then
    let colsJ ← asArr (← field j "cols")
    return some (← colsJ.mapM (fun c => listF asNat c "data"))
  else if k == "v" then return some [← listF asNat j "data"]
  else return none

/-- invariant of one observed table -/
def checkTable (t : TObs) : Option String :=
  if !rectB t.cols t.len then some s!"ragged: column lengths {t.cols.map List.length} but len(table) = {t.len}"
  else if t.shape != [t.len, t.cols.length] then some s!"shape {t.shape} but {t.len} rows x {t.cols.length} columns"
  else if t.rowsIdx != some (rows t.cols t.len) then
    some s!"rows by indexing {t.rowsIdx} differ from the columns' values {rows t.cols t.len} (none = indexing raised)"
  else if t.rowsNeg.isSome && t.rowsNeg != some (some (rows t.cols t.len)) then
    some s!"rows by negative indexing t[-n] … t[-1] {t.rowsNeg} differ from the columns' values {rows t.cols t.len} (none = indexing raised)"
  else if !t.rowsOob.isEmpty then
    some s!"row positions {t.rowsOob} lie outside [-{t.len}, {t.len}) and yet gave a row"
  else if t.rowsIter != some (rows t.cols t.len) then
    some s!"rows by iteration {t.rowsIter} differ from the columns' values {rows t.cols t.len} (none = iteration raised)"
  else none

def slotCols (obs : Array Json) (i : Nat) : P (List (List Nat)) := do
  match ← asCols (obs[i]?.getD Json.null) with
  | some c => return c
  | none => .error s!"slot {i} holds no vector/table"

/-- structural operations: the result must be the model function of the operands (as observed before the step) -/
def checkStructural (d : Json) (prev cur : Array Json) : P (Option String) := do
  let op ← strF d "op"
  if (← strF d "res") != "ok" then return none
  if (fieldD d "unmodelled" (Json.bool false)) == Json.bool true then return none
  match op with
  | "stack" =>
    let a ← slotCols prev (← natF d "a"); let b ← slotCols prev (← natF d "b")
    let r ← slotCols cur (← natF d "dst")
    return if r != stackCols a b then some s!">> gave columns {r}, expected {stackCols a b}" else none
  | "stackdict" =>
    let a ← slotCols prev (← natF d "a")
    let v ← listF asNat d "vals_uid"
    let r ← slotCols cur (← natF d "dst")
    return if r != stackCols a [v] then some s!">> dict gave columns {r}, expected {stackCols a [v]}" else none
  | "append" =>
    let a ← slotCols prev (← natF d "a")
    let v ← listF asNat d "vals_uid"
    let r ← slotCols cur (← natF d "dst")
    return if r != appendRow a v then some s!"<< gave columns {r}, expected {appendRow a v}" else none
  | "appendt" =>
    let a ← slotCols prev (← natF d "a"); let b ← slotCols prev (← natF d "b")
    let r ← slotCols cur (← natF d "dst")
    return if r != appendRows a b then some s!"<< gave columns {r}, expected {appendRows a b}" else none
  | "slice" | "mask" =>
    let a ← slotCols prev (← natF d "src")
    let idxs ← listF asNat d "idxs"
    let r ← slotCols cur (← natF d "dst")
    return if r != rowSel idxs a then some s!"row selection {idxs} gave columns {r}, expected {rowSel idxs a}" else none
  | "T" =>
    match ← asTObs (prev[(← natF d "src")]?.getD Json.null) with
    | none => return none
    | some t =>
      let r ← slotCols cur (← natF d "dst")
      if r != transpose t.cols t.len then return some s!"T gave columns {r}, expected {transpose t.cols t.len}"
      match ← asTObs (fieldD d "TT" Json.null) with
      | none => return some "T.T is not a table"
      | some tt =>
        return if rows tt.cols tt.len != rows t.cols t.len then
          some s!"transposing twice gave cells {rows tt.cols tt.len}, original {rows t.cols t.len}" else none
  | _ => return none

def handle (_fam : String) (c _impl : Json) : P Json := do
  let steps ← asArr (← field c "steps")
  let mut prev : Array Json := #[]
  let mut k := 0
  for st in steps do
    let cur := (← asArr (← field st "obs")).toArray
    let desc := fieldD st "desc" Json.null
    for i in [0:cur.size] do
      match ← asTObs cur[i]! with
      | none => pure ()
      | some t =>
        match checkTable t with
        | some why => return verdict false s!"step {k} {desc.compress}: table in handle {i}: {why}" (toJson k)
        | none => pure ()
    match ← checkStructural desc prev cur with
    | some why => return verdict false s!"step {k} {desc.compress}: {why}" (toJson k)
    | none => pure ()
    prev := cur
    k := k + 1
  return verdict true ""

end Serif.Drive.C02
