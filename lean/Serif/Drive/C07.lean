import Serif.Wire
import Serif.Model.Index
open Lean Serif.Wire Serif.Index

namespace Serif.Drive.C07

/-! ### parsing -/

def typeOf (j : Json) : P String := strF j "t"

def asSlice (j : Json) : P Slice := do
  match ← asArr j with
  | [a, b, c] => return { start := ← asOpt asInt a, stop := ← asOpt asInt b, step := ← asOpt asInt c }
  | _ => .error s!"expected slice triple, got {j.compress}"

def asKElem (j : Json) : KElem :=
  match j with
  | .bool b => .bool b
  | .num _ => match j.getInt? with | .ok i => .int i | .error _ => .other
  | _ => .other

partial def asKey (j : Json) : P Key := do
  match ← typeOf j with
  | "int" => return .int (← intF j "i")
  | "tuple" =>
    match ← asArr (← field j "items") with
    | [k] => return .tuple1 (← asKey k)
    | l => return .tupleN l.length
  | "vec" => return .vec (← asDType (← field j "dtype")) ((← asArr (← field j "es")).map asKElem)
  | "list" => return .list ((← asArr (← field j "es")).map asKElem)
  | "slice" => return .slice (← asSlice (← field j "s"))
  | "other" => return .other
  | t => .error s!"unknown key type {t}"

def asVec (j : Json) : P (Vec String Nat) := do
  return { data := ← listF asNat j "data", dtype := ← asDType (← field j "dtype"),
           name := ← asOpt asStr (← field j "name") }

def asSpec (j : Json) : P (Spec String) := do
  match ← typeOf j with
  | "int" => return .int (← intF j "i")
  | "slice" => return .slice (← asSlice (← field j "s"))
  | "name" => return .name (← strF j "k")
  | "names" => return .names (← listF asStr j "ks")
  | _ => return .other

def asTKey (j : Json) : P (TKey String) := do
  match ← typeOf j with
  | "name" => return .name (← strF j "k")
  | "names" => return .names (← listF asStr j "ks")
  | "tuple" =>
    match ← asArr (← field j "items") with
    | [a, b] => return .two (← asSpec a) (← asSpec b)
    | l => return .tupleN l.length
  | "row" =>
    match ← asKey (← field j "key") with
    | .tuple1 _ | .tupleN _ => .error "tuple keys of a table are sent as 'tuple'"
    | k => return .row k
  | t => .error s!"unknown table key type {t}"

def lookupStr (tbl : List (String × Option String)) (k : String) : Option (Option String) :=
  match tbl with
  | [] => none
  | (a, b) :: rest => if a = k then some b else lookupStr rest k

/-- the name operations: `lower` and `sanitize` are Python's results shipped with the case,
    the two derived forms are built here -/
def mkOps (c : Json) : P (NameOps String) := do
  let san ← listF (asPair asStr (asOpt asStr)) c "san"
  let low ← listF (asPair asStr asStr) c "low"
  return { lower := fun k => ((lookupStr (low.map fun (a, b) => (a, some b)) k).getD (some k)).getD k
           sanitize := fun n => (lookupStr san n).getD none
           uniq := fun b i => b ++ "__" ++ toString i
           sys := fun i => "col" ++ toString i ++ "_" }

/-- every string the lookup may lower-case / sanitise must be in the shipped tables -/
def checkOracle (c : Json) (cols : List (Vec String Nat)) (keys : List String) : P Unit := do
  let san ← listF (asPair asStr (asOpt asStr)) c "san"
  let low ← listF (asPair asStr asStr) c "low"
  for col in cols do
    match col.name with
    | some n => if (lookupStr san n).isNone then throw s!"sanitize oracle lacks {n}"
    | none => pure ()
  for k in keys do
    if !(low.any (·.1 = k)) then throw s!"lower oracle lacks {k}"

def specKeys : Spec String → List String
  | .name k => [k] | .names ks => ks | _ => []
def tkeyKeys : TKey String → List String
  | .name k => [k] | .names ks => ks | .two a b => specKeys a ++ specKeys b | _ => []

/-! ### results on the wire -/

inductive Obs where
  | err (cls : String)
  | scalar (u : Nat)
  | vec (v : Vec String Nat)
  | tab (cs : List (Vec String Nat))
  | row (xs : List Nat)
  | none
  deriving Repr

def asObs (j : Json) : P Obs := do
  if let .ok e := j.getObjVal? "err" then return .err (← asStr e)
  if let .ok e := j.getObjVal? "scalar" then return .scalar (← asNat e)
  if let .ok e := j.getObjVal? "cell" then return .scalar (← asNat e)
  if let .ok e := j.getObjVal? "vec" then return .vec (← asVec e)
  if let .ok e := j.getObjVal? "col" then return .vec (← asVec e)
  if let .ok e := j.getObjVal? "tab" then return .tab (← asList asVec e)
  if let .ok e := j.getObjVal? "row" then return .row (← asList asNat e)
  if let .ok _ := j.getObjVal? "none" then return .none
  .error s!"unknown result {j.compress}"

def ofVec (v : Vec String Nat) : Json :=
  Json.mkObj [("data", ofNatList v.data), ("dtype", ofDType v.dtype), ("name", ofOptStr v.name)]

def ofObs : Obs → Json
  | .err c => Json.mkObj [("err", Json.str c)]
  | .scalar u => Json.mkObj [("scalar", toJson u)]
  | .vec v => Json.mkObj [("vec", ofVec v)]
  | .tab cs => Json.mkObj [("tab", ofList ofVec cs)]
  | .row xs => Json.mkObj [("row", ofNatList xs)]
  | .none => Json.mkObj [("none", Json.bool true)]

def obsOfItem : Res (Item String Nat) → Obs
  | .error e => .err e.name
  | .ok (.scalar x) => .scalar x
  | .ok (.vec v) => .vec v

def obsOfTItem : Res (TItem String Nat) → Option Obs
  | .error e => some (.err e.name)
  | .ok (.cell x) => some (.scalar x)
  | .ok (.col v) => some (.vec v)
  | .ok (.tab t) => some (.tab t.cols)
  | .ok (.row xs) => some (.row xs)
  | .ok .none => some .none
  | .ok .unmodelled => none

/-- what C07 pins down of a vector: values in order, name, dtype kind -/
def sameVec (a b : Vec String Nat) : Bool :=
  a.data == b.data && a.name == b.name && (a.dtype.map (·.kind)) == (b.dtype.map (·.kind))

def sameVecs : List (Vec String Nat) → List (Vec String Nat) → Bool
  | [], [] => true
  | a :: as, b :: bs => sameVec a b && sameVecs as bs
  | _, _ => false

/-- conformance of an observed result to an expected one; the error class is not judged -/
def conforms (exp got : Obs) : Bool :=
  match exp, got with
  | .err _, .err _ => true
  | .scalar a, .scalar b => a == b
  | .vec a, .vec b => sameVec a b
  | .tab a, .tab b => sameVecs a b
  | .row a, .row b => a == b
  | .none, .none => true
  | _, _ => false

def describe : Obs → String
  | .err c => s!"error {c}"
  | o => (ofObs o).compress

/-! ### which keys the property quantifies over

  C07 speaks about integer subscripts, slices, boolean masks (list or non-nullable bool Vector), integer
  index lists / Vectors, and on tables about names, name tuples, those row selections and the 2-D forms
  built from them.  Other keys (floats, None, untyped or nullable Vectors, mixed lists, the empty list,
  tuples of the wrong arity, an int list on a Table …) are outside the quantifier: the model still
  says what the code does with them, but the verdict never depends on it. -/

def boolNN (d : DType) : Bool := d.kind == .bool && !d.nullable
def intNN (d : DType) : Bool := d.kind == .int && !d.nullable

def keyInScope : Key → Bool
  | .int _ => true
  | .slice _ => true
  | .tuple1 k => keyInScope k
  | .tupleN _ => false
  | .vec (some d) es => boolNN d || (intNN d && es.all (·.asInt?.isSome))
  | .vec none _ => true      -- an untyped empty Vector is refused cleanly (SerifTypeError), never a crash
  | .list es => !es.isEmpty && (es.all KElem.isBool || es.all KElem.isInt)
  | .other => false

def rowKeyInScope : Key → Bool
  | .int _ => true
  | .slice _ => true
  | .vec (some d) es => boolNN d || (intNN d && es.all (·.asInt?.isSome))
  | .list es => !es.isEmpty && es.all KElem.isBool
  | _ => false

def tkeyInScope : TKey String → Bool
  | .name _ => true
  | .names _ => true
  | .row k => rowKeyInScope k
  | .tupleN _ => false
  | .two a b =>
    let r := if a.isRow then a else b
    let c := if a.isRow then b else a
    r.isRow && (match c with | .other => false | _ => true)

def outOfScope (model : Json) : Json := verdict true "outside the quantifier of C07 (not judged)" model

/-! ### families -/

def cmpLookup (tbl : List (Nat × Nat × Nat)) (x y : Nat) : Res Bool :=
  match tbl with
  | [] => .error .other
  | (a, b, r) :: rest =>
    if a = x ∧ b = y then (if r = 0 then .ok false else if r = 1 then .ok true else .error .type)
    else cmpLookup rest x y

def optOfUid (u : Nat) : Option Nat := if u = 0 then none else some u

def handle (fam : String) (c impl : Json) : P Json := do
  match fam with
  | "vget" =>
    let v ← asVec c
    let key ← asKey (← field c "key")
    let got ← asObs impl
    let model := obsOfItem (getitem v key)
    -- CPython's own list semantics on the same key (int and slice keys), computed by the harness
    let py := fieldD c "py" Json.null
    if !py.isNull then
      let pyo ← asObs py
      let pyExp : Obs := match pyo with
        | .row xs => .vec (copyWith v xs)
        | o => o
      if !conforms pyExp model then
        throw s!"model of CPython subscripting disagrees with CPython: model {describe model}, python {describe pyExp}"
      if !conforms pyExp got then
        return verdict false s!"result differs from list(v)[key]: got {describe got}, list semantics give {describe pyExp}" (ofObs model)
    if !keyInScope key then return outOfScope (ofObs model)
    let ok := conforms model got
    return verdict ok (if ok then "" else s!"v[key]: got {describe got}, expected {describe model}") (ofObs model)
  | "slen" =>
    let n ← natF c "n"
    let s ← asSlice (← field c "s")
    let py ← asOpt asNat (fieldD c "py" Json.null)
    let model := sliceLength n s
    let viaRange := sliceCount n s
    let showR : Res Nat → String := fun r => match r with | .ok k => toString k | .error e => s!"error {e.name}"
    match py, viaRange with
    | some p, .ok k => if p ≠ k then throw s!"model of range length disagrees with CPython: {k} vs {p}"
    | none, .error _ => pure ()
    | _, _ => throw "model of slice.indices disagrees with CPython on raising"
    let got : Res Nat ← (do
      if let .ok e := impl.getObjVal? "err" then let _ ← asStr e; return (.error .other : Res Nat)
      return (.ok (← natF impl "ok") : Res Nat))
    let ok := match got, viaRange with
      | .ok g, .ok k => g == k
      | .error _, .error _ => true
      | _, _ => false
    let okm := match model, viaRange with
      | .ok g, .ok k => g == k
      | .error _, .error _ => true
      | _, _ => false
    return verdict (ok && okm)
      (if ok && okm then "" else s!"slice_length gives {showR got} (model {showR model}), the slice selects {showR viaRange} positions")
      (match model with | .ok k => toJson k | .error e => Json.mkObj [("err", Json.str e.name)])
  | "cmp" =>
    let xs := (← listF asNat c "xs").map optOfUid
    let o ← field c "other"
    let tblJ ← listF (asList asNat) c "table"
    let tbl ← tblJ.mapM (fun l => match l with
      | [a, b, r] => pure (a, b, r)
      | _ => throw "bad oracle row")
    let cmp := cmpLookup tbl
    let operand : Operand Nat ← (do
      match ← typeOf o with
      | "vec" => return .vec ((← listF asNat o "ys").map optOfUid)
      | "iter" => return .iter ((← listF asNat o "ys").map optOfUid)
      | "scalar" => return .scalar (← natF o "y")
      | t => throw s!"unknown operand {t}")
    let model : Res (Vec String Bool) := compare cmp xs operand
    -- the oracle table must cover every pair the model asked for
    if let .error .other := model then throw "comparison oracle incomplete"
    let toObs : Res (Vec String Bool) → Json := fun r => match r with
      | .error e => Json.mkObj [("err", Json.str e.name)]
      | .ok v => Json.mkObj [("vec", Json.mkObj [("data", ofList Json.bool v.data), ("dtype", ofDType v.dtype)])]
    if let .ok e := impl.getObjVal? "err" then
      let cls ← asStr e
      let ok := match model with | .error _ => true | .ok _ => false
      return verdict ok (if ok then "" else s!"comparison raised {cls} although every scalar comparison is defined") (toObs model)
    let iv ← field impl "vec"
    let data ← listF asBool iv "data"
    let dt ← asDType (← field iv "dtype")
    match model with
    | .error _ => return verdict false "comparison returned although Python's scalar comparison raises" (toObs model)
    | .ok m =>
      if data != m.data then
        return verdict false s!"values differ from the pointwise comparison (None ↦ False): got {data}, expected {m.data}" (toObs model)
      if dt != m.dtype then
        return verdict false "result dtype is not non-nullable bool" (toObs model)
      return verdict true "" (toObs model)
  | "tget" =>
    let cols ← listF asVec c "cols"
    let key ← asTKey (← field c "key")
    checkOracle c cols (tkeyKeys key)
    let ops ← mkOps c
    let got ← asObs impl
    match obsOfTItem (getitemTab ops ⟨cols⟩ key) with
    | none => return verdict true "not modelled" Json.null
    | some model =>
      if !tkeyInScope key then return outOfScope (ofObs model)
      let ok := conforms model got
      return verdict ok (if ok then "" else s!"t[key]: got {describe got}, expected {describe model}") (ofObs model)
  | "tcomm" =>
    let cols ← listF asVec c "cols"
    let rows ← asKey (← field c "rows")
    let ks ← listF asStr c "names"
    checkOracle c cols ks
    let ops ← mkOps c
    let t : Tab String Nat := ⟨cols⟩
    let lhsI ← asObs (← field impl "lhs")
    let rhsI ← asObs (← field impl "rhs")
    let lhsM := obsOfTItem (rmap TItem.tab (rowsThenCols ops t rows ks))
    let rhsM := obsOfTItem (rmap TItem.tab (colsThenRows ops t rows ks))
    match lhsM, rhsM with
    | some l, some r =>
      let model := Json.mkObj [("lhs", ofObs l), ("rhs", ofObs r)]
      if !rowKeyInScope rows then return outOfScope model
      if !conforms l lhsI then
        return verdict false s!"t[rows][names]: got {describe lhsI}, expected {describe l}" model
      if !conforms r rhsI then
        return verdict false s!"t[names][rows]: got {describe rhsI}, expected {describe r}" model
      -- the commutation claim (stated for at least one selected name; see Props/C07 select_commute)
      if !ks.isEmpty && !(conforms lhsI rhsI && conforms rhsI lhsI) then
        return verdict false s!"t[rows][names] = {describe lhsI} but t[names][rows] = {describe rhsI}" model
      return verdict true "" model
    | _, _ => return verdict true "not modelled" Json.null
  | _ => .error s!"unknown family {fam}"

end Serif.Drive.C07
