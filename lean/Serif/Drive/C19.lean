import Serif.Wire
import Serif.Model.Csv
import Serif.Model.CsvLex
open Lean Serif.Wire

namespace Serif.Drive.C19
open Serif.Csv

/-- a Python value as seen by the driver: exact type tag + identity of the (type, repr) value -/
abbrev PV := Nat × Nat

/-- one cell text with the results Python computed for it -/
structure CellW where
  raw : String
  blank : Bool
  int? : Option PV
  float? : Option PV
  text : PV

def oracle : Oracle CellW PV where
  raw := (·.raw)
  blank := (·.blank)
  int? := (·.int?)
  float? := (·.float?)
  text := (·.text)
  none := (0, 0)

def asPV (j : Json) : P PV := asPair asNat asNat j

/-- implementation values arrive as `[tag, eq, uid]` -/
def asPV3 (j : Json) : P PV := do
  match ← asArr j with
  | [a, _, c] => return (← asNat a, ← asNat c)
  | _ => .error s!"expected [tag, eq, uid], got {j.compress}"

def asCell (j : Json) : P CellW := do
  return { raw := ← strF j "t", blank := ← boolF j "b",
           int? := ← asOpt asPV (← field j "i"), float? := ← asOpt asPV (← field j "f"),
           text := ← asPV (← field j "s") }

def ofPV (v : PV) : Json := Json.arr #[toJson v.1, toJson v.2]

def ofModel (t : List (Column PV)) : Json :=
  Json.mkObj [("names", ofList Json.str (names t)), ("nrows", toJson (nrows t)),
              ("cols", ofList (fun c => ofList ofPV c.data) t),
              ("dtypes", ofList (fun c => ofDType (colDType (fun v => Tag.ofCode v.1) c.data)) t)]

/-- the lexer model on the lines the file object delivered; `none` = the model raises `csv.Error` -/
def lexModel (c : Json) : P (Option (List (List String))) := do
  let lines ← listF asStr c "lines"
  let delim ← strF c "delim"
  -- the file object's way of cutting the text into lines is modelled too: LF only for `io.StringIO(text)`, universal newlines
  -- without translation for everything opened or built with `newline=''`
  match c.getObjVal? "text" with
  | .ok tj =>
    let text ← asStr tj
    let src ← strF c "src"
    let pol := if src == "sio_default" then CsvLex.lf else CsvLex.univ
    let mlines := (CsvLex.splitP pol text.toList).map String.ofList
    if mlines != lines then
      throw s!"the line-splitting model ({src}) cuts the text into {mlines} where the file object delivers {lines}"
  | .error _ => pure ()
  match delim.toList with
  | [d] =>
    match CsvLex.parseLines d (lines.map String.toList) with
    | .ok recs => return some (recs.map (·.map String.ofList))
    | .error _ => return none
  | _ => .error s!"delimiter must be one character, got {delim}"

/-- family `read`: records (as csv.reader produced them on the same text) ↦ table;
    the records themselves must be what the lexer model reads from the same lines (else the *model* of `csv.reader` is wrong: a
    harness error, not a verdict on the code).
    family `lex`: texts `csv.reader` rejects — the lexer model must reject them too -/
def handle (fam : String) (c impl : Json) : P Json := do
  match fam with
  | "lex" =>
    match ← lexModel c with
    | none => return verdict true "" (Json.str "csv.Error")
    | some recs => .error s!"csv.reader rejects this text but the lexer model reads {recs}"
  | "read" =>
    let hh ← boolF c "has_header"
    let recs ← listF (asList asCell) c "records"
    match ← lexModel c with
    | none => .error "the lexer model rejects a text csv.reader accepts"
    | some lrecs =>
      if lrecs != recs.map (·.map (·.raw)) then
        throw s!"the lexer model reads {lrecs} where csv.reader reads {recs.map (·.map (·.raw))}"
    let model := readCsv oracle hh recs
    let mj := ofModel model
    match impl.getObjVal? "err" with
    | .ok e => return verdict false s!"read_csv raised {e.compress}; the property promises a table" mj
    | .error _ =>
      let isTable ← boolF impl "is_table"
      let gotNames ← listF (asOpt asStr) impl "names"
      let gotRows ← natF impl "nrows"
      let gotCols ← listF (asList asPV3) impl "cols"
      let gotDt ← listF asDType impl "dtypes"
      let tagOf : PV → Tag := fun v => Tag.ofCode v.1
      let why :=
        if !isTable then "result is not a Table"
        else if gotNames != (names model).map some then
          "column names differ from the header cells (verbatim, in order) / col_i"
        else if gotRows != nrows model then "row count differs from the number of data records"
        else if gotCols.map List.length != model.map (·.data.length) then
          "a column's length differs from the number of data records"
        else if gotCols != model.map (·.data) then
          "a cell differs from: None if blank, int, float, stripped text; None padding for short records"
        else if gotDt != model.map (fun col => colDType tagOf col.data) then
          "a column's dtype differs from the inference rule applied to its cells"
        else ""
      return verdict (why == "") why mj
  | _ => .error s!"unknown family {fam}"

end Serif.Drive.C19
