import Serif.Wire
import Serif.Model.Assign
open Lean Serif.Wire

namespace Serif.Drive.C08
open Serif.Assign

/-! JSON ↔ model values.  cell = `[tag, uid]`; state = `{"data":[cell…],"dtype":null|[k,n],"name":null|n,"stale":bool}` -/

def asCell (j : Json) : P Cell := do
  let (t, u) ← asPair asNat asNat j
  return { tag := Tag.ofCode t, uid := u }

def ofCell (c : Cell) : Json := Json.arr #[toJson c.tag.code, toJson c.uid]

def staleMark : Cell := { tag := .none, uid := 4294967295 }

def asState (j : Json) : P VState := do
  let data ← listF asCell j "data"
  let dtype ← asDType (← field j "dtype")
  let name ← asOpt asNat (← field j "name")
  let stale ← boolF j "stale"
  return { data := data, dtype := dtype, name := name,
           fp := if stale then some (staleMark :: data) else none }

def ofState (s : VState) : Json :=
  Json.mkObj [("data", ofList ofCell s.data), ("dtype", ofDType s.dtype), ("name", ofOptNat s.name),
              ("stale", Json.bool (!fpFresh s))]

def asErr (j : Json) : P (Option Err) :=
  asOpt (fun j => do
    let s ← asStr j
    return match s with
      | "alias" => Err.alias | "type" => Err.type | "value" => Err.value | "key" => Err.key
      | "index" => Err.index | "attr" => Err.attr | _ => Err.other) j

def ofErr : Option Err → Json
  | none => Json.null
  | some e => Json.str e.name

def asOptInt (j : Json) : P (Option Int) := asOpt asInt j

def asKey (j : Json) : P Key := do
  match ← strF j "k" with
  | "int" => return .int (← intF j "i")
  | "slice" => return .slice (← asOptInt (← field j "a")) (← asOptInt (← field j "b")) (← asOptInt (← field j "c"))
  | "maskList" => return .maskList (← listF asBool j "bs")
  | "maskVec" => return .maskVec (← listF asBool j "bs")
  | "idxVec" => return .idxVec (← listF asInt j "is")
  | "idxList" => return .idxList (← listF asInt j "is")
  | "bad" => return .bad
  | k => .error s!"unknown key form {k}"

def asLenB (s : String) : P LenB :=
  match s with
  | "ok" => .ok .ok | "missing" => .ok .missing | "raises" => .ok .raises
  | _ => .error s!"unknown len behaviour {s}"

def asValue (j : Json) : P Value := do
  match ← strF j "v" with
  | "scalar" => return .scalar (← asCell (← field j "c"))
  | "seq" =>
    return .seq (← asCell (← field j "self")) (← listF asCell j "items") (← asLenB (← strF j "len"))
      (← asOpt asNat (← field j "ra"))
  | v => .error s!"unknown value form {v}"

/-- conversion oracle: triples `[kind code, uid, uid' | null]`; pairs not listed raise -/
def asConv (j : Json) : P (Kind → Nat → Option Nat) := do
  let rows ← asList (fun r => do
    match ← asArr r with
    | [k, u, u'] => return (← asNat k, ← asNat u, ← asOpt asNat u')
    | _ => .error "conv row") j
  return fun k u =>
    match rows.find? (fun r => r.1 == k.code && r.2.1 == u) with
    | some r => r.2.2
    | none => none

def asColItem (j : Json) : P ColItem := do
  match j.getObjVal? "n" with
  | .ok p => let (a, b) ← asPair asNat asNat p; return .name a b
  | .error _ =>
    match j.getObjVal? "i" with
    | .ok i => return .int (← asInt i)
    | .error _ => return .other

def asColSpec (j : Json) : P ColSpec := do
  match ← strF j "c" with
  | "slice" => return .slice (← asOptInt (← field j "a")) (← asOptInt (← field j "b")) (← asOptInt (← field j "cc"))
  | "int" => return .int (← intF j "i")
  | "name" => return .name (← natF j "id") (← natF j "lid")
  | "list" => return .list (← listF asColItem j "items")
  | "bad" => return .bad
  | c => .error s!"unknown column spec {c}"

def asTKey (j : Json) : P TKey := do
  match ← strF j "t" with
  | "single" => return .single (← asKey (← field j "row"))
  | "pair" => return .pair (← asKey (← field j "row")) (← asColSpec (← field j "col"))
  | "badTuple" => return .badTuple
  | t => .error s!"unknown table key {t}"

def asTValue (j : Json) : P TValue := do
  match ← strF j "v" with
  | "scalar" => return .scalar (← asCell (← field j "c"))
  | "iter" =>
    let kind ← match ← strF j "kind" with
      | "table" => pure IterKind.table | "list" => pure IterKind.listOrTuple | _ => pure IterKind.other
    return .iter kind (← asCell (← field j "self")) (← listF asValue j "items") (← boolF j "nested")
      (← asOpt asNat (← field j "ra"))
  | v => .error s!"unknown table value form {v}"

def asTState (j : Json) : P TState := do
  return { cols := ← asList asState j }

def ofTState (t : TState) : Json := ofList ofState t.cols

def demandName : Demand → String
  | .succeed _ => "succeed" | .failAny => "fail" | .failType => "fail-SerifTypeError"
  | .either _ => "either" | .typeOr _ => "SerifTypeError-or-widen"

def demandState : Demand → Json
  | .succeed s => ofState s | .either s => ofState s | .typeOr s => ofState s
  | _ => Json.null

def tdemandName : TDemand → String
  | .succeed _ => "succeed" | .failAny => "fail" | .failType => "fail-SerifTypeError" | .either _ => "either"

def tdemandState : TDemand → Json
  | .succeed t => ofTState t | .either t => ofTState t | _ => Json.null

def whyVec (dm : Demand) (out : Option Err × VState) (s0 : VState) : String :=
  match dm, out with
  | .succeed _, (some _, _) => "a valid assignment was refused"
  | .succeed _, (none, _) => "contents/dtype/name after the assignment differ from list assignment with promotion (or the fingerprint memo is stale)"
  | .failAny, (none, _) => "an invalid assignment (bad index, length mismatch or raising value) was accepted"
  | .failType, (none, _) => "an incompatible value was accepted"
  | .failType, (some e, s') =>
    if e != .type && sameObs s0 s' then "an incompatible value was rejected, but not with SerifTypeError"
    else "the vector changed although the assignment failed"
  | .typeOr _, (some e, s') =>
    if e != .type && sameObs s0 s' then "rejected, but not with SerifTypeError"
    else "the vector changed although the assignment failed"
  | .typeOr _, (none, _) => "accepted, but the result is not the widened column"
  | .either _, (none, _) => "accepted, but the result differs from list assignment"
  | _, (some _, _) => "the vector changed although the assignment failed"

/-- families: `vec` (Vector.__setitem__), `table…` (Table.__setitem__), `rename` (rename_columns) -/
def handle (fam : String) (c impl : Json) : P Json := do
  if fam.startsWith "vec" then
    let s0 ← asState (← field c "s0")
    let shared ← boolF c "shared"
    let key ← asKey (← field c "key")
    let value ← asValue (← field c "value")
    let conv ← asConv (← field c "conv")
    let out : Option Err × VState := (← asErr (← field impl "err"), ← asState (← field impl "s1"))
    let dm := demand conv shared key value s0
    let model := setitem genP conv shared key value s0
    let ok := accepts dm s0 out
    return verdict ok (if ok then "" else whyVec dm out s0)
      (Json.mkObj [("demand", Json.str (demandName dm)), ("demanded_state", demandState dm),
                   ("model_err", ofErr model.1), ("model_state", ofState model.2),
                   ("model_meets_demand", Json.bool (accepts dm s0 model))])
  else if fam.startsWith "table" then
    let t0 ← asTState (← field c "t0")
    let key ← asTKey (← field c "key")
    let value ← asTValue (← field c "value")
    let conv ← asConv (← field c "conv")
    let out : Option Err × TState := (← asErr (← field impl "err"), ← asTState (← field impl "t1"))
    let dm := tdemand conv key value t0
    let model := tsetitem genP conv key value t0
    let ok := taccepts dm t0 out
    let pw := !ok && partialWrite model out t0
    let why :=
      if ok then "" else
      if pw then "table assignment raised after some of the addressed columns had already been written"
      else match dm, out with
        | .succeed _, (some _, _) => "a valid table assignment was refused"
        | .succeed _, (none, _) => "cells after the table assignment differ from per-column list assignment (or an unaddressed cell changed)"
        | .failAny, (none, _) => "an invalid table assignment was accepted"
        | .failType, (none, _) => "an incompatible value was accepted"
        | .failType, (some e, t') =>
          if e != .type && sameTab t0 t' then "an incompatible value was rejected, but not with SerifTypeError"
          else "the table changed although the assignment failed"
        | .either _, (none, _) => "accepted, but the result differs from per-column list assignment"
        | _, (some _, _) => "the table changed although the assignment failed"
    return verdict ok why
      (Json.mkObj [("demand", Json.str (tdemandName dm)), ("demanded_state", tdemandState dm),
                   ("model_err", ofErr model.1), ("model_state", ofTState model.2),
                   ("partial_write", Json.bool pw)])
  else if fam.startsWith "rename" then
    let names ← listF (asOpt asNat) c "names"
    let olds ← listF (asOpt asNat) c "olds"
    let news ← listF (asOpt asNat) c "news"
    let ra ← asOpt asNat (← field c "ra")
    let t0 ← asTState (← field c "t0")
    let err ← asErr (← field impl "err")
    let names' ← listF (asOpt asNat) impl "names"
    let t1 ← asTState (← field impl "t1")
    let model := renameColumns olds news ra names
    let dataSame := (t0.cols.map (fun s => (s.data, s.dtype))) == (t1.cols.map (fun s => (s.data, s.dtype)))
    let ok := raccepts olds news ra names (err, names') && dataSame
    let why :=
      if ok then "" else
      if !dataSame then "rename_columns changed column contents"
      else if err.isSome then "a failed rename_columns changed column names"
      else "column names after rename_columns differ from sequential first-match renaming (or an invalid call was accepted)"
    return verdict ok why
      (Json.mkObj [("model_err", ofErr model.1), ("model_names", ofList ofOptNat model.2)])
  else .error s!"unknown family {fam}"

end Serif.Drive.C08
