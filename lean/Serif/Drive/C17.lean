import Serif.Wire
import Serif.Model.Names
open Lean Serif.Wire Serif.Names

namespace Serif.Drive.C17

/-
  case  = { "init": [name…], "ops": [op…] }
          name = null | [id, [codepoints of name.lower()]]
          op   = ["rename", old, new] | ["renames", [[old, new]…]] | ["view", i, new]
               | ["viewattr", attr, new] | ["replace", attr] | ["append", name] | ["dir"]
  impl  = { "ops":   [outcome per op]   "ok" | "err:<cls>" | column index (viewattr)
                                        | [changed column indices] (replace) | [advertised names] (dir)
            "names": [id | null …]      t.column_names() after the history, interned
            "obs":   [observation…] }   in the order they were made on the live table
          observation = {"k":"dir", "adv":[[name, str.isidentifier(), shadows class attribute]…]}
                      | {"k":"getattr"|"row"|"setitem", "res":[[name, column index | -1 | "err:<cls>"]…]}
                      | {"k":"getitem", "res":[[column position, column index | -1 | "err:<cls>"]…]}
                      | {"k":"repr", "dot":[accessor…], "shown":[column index…]}
  The verdict is the property: every observation must equal what the specification says for the
  stored names the history produces (the model run is reported in "model").
-/

def asStrChars (j : Json) : P Str := do return (← asStr j).toList

def asName (j : Json) : P (Option Names.Name) :=
  asOpt (fun j => do
    let (i, cps) ← asPair asNat (asList asNat) j
    return { id := i, lower := cps.map Char.ofNat }) j

def asOp (j : Json) : P Op := do
  let a ← asArr j
  match a with
  | [k, x, y] =>
    match ← asStr k with
    | "rename" => return .rename (← asName x) (← asName y)
    | "view" => return .view (← asNat x) (← asName y)
    | "viewattr" => return .viewAttr (← asStrChars x) (← asName y)
    | s => .error s!"unknown op {s}"
  | [k, x] =>
    match ← asStr k with
    | "renames" => return .renames (← asList (asPair asName asName) x)
    | "replace" => return .replace (← asStrChars x)
    | "append" => return .append (← asName x)
    | s => .error s!"unknown op {s}"
  | [k] =>
    match ← asStr k with
    | "dir" => return .dir
    | s => .error s!"unknown op {s}"
  | _ => .error s!"bad op {j.compress}"

/-- a lookup outcome on the wire: a column index, -1 (something that is not a column), or an error -/
inductive Obs where
  | col (i : Nat) | notCol | err (cls : String)
  deriving DecidableEq

def asObs (j : Json) : P Obs :=
  match j.getNat? with
  | .ok n => .ok (.col n)
  | .error _ =>
    match j.getInt? with
    | .ok _ => .ok .notCol
    | .error _ =>
      match j.getStr? with
      | .ok s => .ok (.err s)
      | .error _ => .error s!"bad observation {j.compress}"

def lookJson : Look → Json
  | .col i => toJson i
  | .attrErr => Json.str "err"
  | .fallback => toJson (-1 : Int)

def outJson : Out → Json
  | .done => Json.str "ok"
  | .failed => Json.str "err"
  | .look l => lookJson l
  | .names l => ofList (fun s => Json.str (String.ofList s)) l

def sameSet (a b : List Str) : Bool := a.length == b.length && a.all b.contains && b.all a.contains

def idOf : Option Names.Name → Option Nat
  | none => none
  | some n => some n.id

/-- position of an accessor among the accessors of the current names (the specification of resolution) -/
def posOf (acc : List Str) (a : Str) : Option Nat :=
  match acc.idxOf a with
  | i => if i < acc.length then some i else none

def expectCol (acc : List Str) (a : Str) (got : Obs) : Bool :=
  match posOf acc a with
  | some i => got == .col i
  | none => false

structure Acc where
  st : TState
  bad : List String
  model : List Json

def Acc.fail (a : Acc) (msg : String) : Acc := { a with bad := a.bad ++ [msg] }

/-- judge one history step against the specification, then advance the model -/
def judgeOp (a : Acc) (op : Op) (impl : Json) : P Acc := do
  let acc := accessors a.st.lowers
  let r := step a.st op
  let a1 : Acc := { a with st := r.1, model := a.model ++ [outJson r.2] }
  match op with
  | .viewAttr attr _ =>
    let got ← asObs impl
    if expectCol acc attr got && r.2 == .done then return a1
    else return a1.fail s!"getattr(t, '{String.ofList attr}') in the history did not give the column at its own position"
  | .replace attr =>
    let got ← asOpt (fun j => asList asNat j) (if impl.getStr?.toOption.isSome then Json.null else impl)
    match posOf acc attr, got with
    | some i, some l =>
      if l == [i] && r.2 == .look (.col i) then return a1
      else return a1.fail s!"t.{String.ofList attr} = v replaced columns {l} instead of column {i}"
    | _, _ => return a1.fail s!"t.{String.ofList attr} = v did not resolve to its column"
  | .dir =>
    let got ← asList asStrChars impl
    if sameSet got acc && r.2 == .names acc then return a1
    else return a1.fail "dir(t) in the history does not advertise exactly the accessors of the current names"
  | _ => return a1

def judgeLookups (a : Acc) (kind : String) (mk : Str → Op) (res : List (Str × Obs)) : Acc :=
  res.foldl (fun a (nm, got) =>
    let acc := accessors a.st.lowers
    let r := step a.st (mk nm)
    let a1 : Acc := { a with st := r.1, model := a.model ++ [outJson r.2] }
    let modelOk := match posOf acc nm with
      | some i => r.2 == .look (.col i)
      | none => false
    if expectCol acc nm got && modelOk then a1
    else if (posOf acc nm).isNone then
      a1.fail s!"{kind}: '{String.ofList nm}' is advertised but the naming rules give it to no column"
    else a1.fail s!"{kind} '{String.ofList nm}' does not resolve to the column at its own position") a

def judgeObs (a : Acc) (o : Json) : P Acc := do
  let k ← strF o "k"
  let names := a.st.lowers
  let acc := accessors names
  match k with
  | "dir" =>
    let adv ← listF (fun j => do
      match ← asArr j with
      | [n, i, s] => return (← asStrChars n, ← asBool i, ← asBool s)
      | _ => .error "bad adv entry") o "adv"
    let r := step a.st .dir
    let mut a1 : Acc := { a with st := r.1, model := a.model ++ [outJson r.2] }
    let got := adv.map (·.1)
    if !(sameSet got acc && r.2 == .names acc) then
      a1 := a1.fail "dir(t) does not advertise exactly one accessor per column as the naming rules give them"
    if !(decide got.Nodup) then
      a1 := a1.fail "advertised accessors are not pairwise distinct"
    for (n, isId, shadows) in adv do
      if !(isIdent n && isId) then
        a1 := a1.fail s!"advertised name '{String.ofList n}' is not a valid identifier"
      if reserved.contains n || shadows then
        a1 := a1.fail s!"advertised name '{String.ofList n}' shadows a public Vector/Table attribute"
    return a1
  | "peek" =>
    let got ← listF asStrChars o "attr"
    if got != acc.map (fun n => '.' :: n) then
      return a.fail "t.peek() advertises other accessors than dir(t): a repeated or unnamed column must be listed under the name it really answers to"
    return a
  | "rowitem" =>
    let res ← listF (asPair asStrChars asObs) o "res"
    let non ← listF (asPair asStrChars asBool) o "non"
    let mut a1 := judgeLookups a "t[0][name] / t[0, name]" Op.row res
    for (nm, isErr) in non do
      if (posOf acc nm).isNone && !isErr then
        a1 := a1.fail s!"t[0, '{String.ofList nm}'] returned something although no column answers to that name (an attribute of the row object leaked out)"
    return a1
  | "getattr" | "row" | "setitem" =>
    let res ← listF (asPair asStrChars asObs) o "res"
    let mk : Str → Op := match k with
      | "getattr" => Op.getattr
      | "row" => Op.row
      | _ => Op.setitem
    let label := match k with
      | "getattr" => "getattr(t, name)"
      | "row" => "t[0].name"
      | _ => "t[0, name] = x"
    return judgeLookups a label mk res
  | "getitem" =>
    let res ← listF (asPair asNat asObs) o "res"
    let mut a1 := a
    for (j, got) in res do
      match a.st.cols.getD j none with
      | none => a1 := a1.fail "getitem observation for an unnamed column"
      | some key =>
        let m := stringIndex a.st.cols key
        let s := firstOccurrence a.st.cols key
        a1 := { a1 with model := a1.model ++ [ofOptNat m] }
        let ok := match s with
          | some i => got == .col i && m == s
          | none => false
        if !ok then a1 := a1.fail s!"t[stored name of column {j}] is not the first column with that name"
    return a1
  | "repr" =>
    let dot ← listF asStrChars o "dot"
    let shown ← listF asNat o "shown"
    let m := computeHeaders names shown
    let s := shownAccessors names shown
    let a1 : Acc := { a with model := a.model ++ [ofList (fun s => Json.str (String.ofList s)) m] }
    if dot == s && m == s then return a1
    else return a1.fail "the dot row of repr(t) differs from the accessors of the shown columns"
  | s => .error s!"unknown observation {s}"

def handle (fam : String) (c impl : Json) : P Json := do
  let _ := fam
  let init ← listF asName c "init"
  let ops ← listF asOp c "ops"
  let implOps ← listF pure impl "ops"
  if implOps.length != ops.length then .error "impl.ops length differs from case.ops"
  let mut a : Acc := { st := mkTable init, bad := [], model := [] }
  for (op, io) in ops.zip implOps do
    a ← judgeOp a op io
  -- stored names after the history (never altered by sanitisation; renames hit the first match)
  let implNames ← listF (asOpt asNat) impl "names"
  if implNames != a.st.cols.map idOf then
    a := a.fail "column_names() differs from the stored names the history must produce"
  else
    for o in (← listF pure impl "obs") do
      a ← judgeObs a o
  let ok := a.bad.isEmpty
  return verdict ok (match a.bad with | [] => "" | m :: _ => m)
    (Json.mkObj [("accessors", ofList (fun s => Json.str (String.ofList s)) (accessors a.st.lowers)),
                 ("trace", Json.arr a.model.toArray), ("all", ofList Json.str a.bad)])

end Serif.Drive.C17
