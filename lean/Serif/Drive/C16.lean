import Serif.Wire
import Serif.Model.Fingerprint
import Serif.Drive.C01
open Lean Serif.Wire

namespace Serif.Drive.C16
open Serif.Drive.C01

/-- element hash oracle: uid ↦ Python's hash(x); uid 0 (None) and NaN use the literals read from the source -/
def hashOf (tbl : List (Nat × Int)) (nan : List Nat) (u : Nat) : Int :=
  if u == 0 then (Gen.NONE_HASH : Int)
  else if nan.contains u then (Gen.NAN_HASH : Int)
  else (tbl.lookup u).getD 0

def showOI : Option Int → String
  | none => "nothing"
  | some i => toString i

def history (c : Json) : P Json := do
  let tbl ← listF (asPair asNat asInt) c "hash"
  let nan ← listF asNat c "nan"
  let fpOf : VecVal → Int := fun v => FP.fpVec (v.data.map (hashOf tbl nan))
  let comb : List Int → Int := FP.fpComb
  let steps ← asArr (← field c "steps")
  let mut h : Heap := Heap.empty
  let mut k := 0
  for st in steps do
    let obsJ ← asArr (← field st "obs")
    let obs := (← obsJ.mapM asObs).toArray
    let ops ← toOps (← field st "m") obs
    -- fingerprint() calls observed at this step are answered by the model *before* the memo update of this step
    -- for the op's own target, and after it for the rest; both are equal by C16.fresh_equal. We read after.
    h := ops.foldl (Heap.step fpOf) h
    for f in (← asArr (fieldD st "fps" (Json.arr #[]))) do
      let slot ← natF f "slot"
      let got ← intF f "fp"
      let rebuilt ← intF f "rebuilt"
      let model := (h.root slot).bind (Heap.fpRead fpOf comb h)
      let spec := (h.view slot).map (Heap.fpAbs fpOf comb)
      let desc := (fieldD st "desc" Json.null).compress
      if model != some got || spec != some got then
        return verdict false
          s!"step {k} {desc}: fingerprint() through handle {slot} returned {got}; the fingerprint of its current contents is {showOI spec} (model answer {showOI model})"
          (toJson k)
      if rebuilt != got then
        return verdict false
          s!"step {k} {desc}: fingerprint() through handle {slot} returned {got} but a freshly built object with the same contents has {rebuilt}"
          (toJson k)
    k := k + 1
  return verdict true ""

/-- sensitivity: one element changed / two neighbours swapped; vector and table fingerprints before and after -/
def sens (c impl : Json) : P Json := do
  let hs ← listF asInt c "hs"
  let hs' ← listF asInt c "hs2"
  let other ← listF asInt c "other"
  let vb ← intF impl "v_before"; let va ← intF impl "v_after"
  let tb ← intF impl "t_before"; let ta ← intF impl "t_after"
  let modelB := FP.fpVec hs; let modelA := FP.fpVec hs'
  let tModelB := FP.fpTab [hs, other]; let tModelA := FP.fpTab [hs', other]
  if vb != modelB || va != modelA || tb != tModelB || ta != tModelA then
    return verdict false s!"fingerprints ({vb},{va},{tb},{ta}) differ from the rolling hash of the contents ({modelB},{modelA},{tModelB},{tModelA})"
  -- the property: contents that Python's hash() tells apart must get different fingerprints
  if hs != hs' && va == vb then
    return verdict false s!"element hashes changed from {hs} to {hs'} but the vector fingerprint stayed {vb}" (toJson (modelB == modelA))
  if hs != hs' && ta == tb then
    return verdict false s!"element hashes changed from {hs} to {hs'} but the table fingerprint stayed {tb}" (toJson (tModelB == tModelA))
  return verdict true ""

/-- a table of tables: the outer fingerprint is the rolling hash of the inner tables' fingerprints; a write into an
    inner column (through the live inner table) must show in the outer table -/
def nested (c impl : Json) : P Json := do
  let hs ← listF asInt c "hs"
  let hs' ← listF asInt c "hs2"
  let other ← listF asInt c "other"
  let ob ← intF impl "o_before"; let oa ← intF impl "o_after"; let rebuilt ← intF impl "o_rebuilt"
  let mB := FP.fpComb [FP.fpTab [hs], FP.fpTab [other]]
  let mA := FP.fpComb [FP.fpTab [hs'], FP.fpTab [other]]
  if ob != mB || oa != mA then
    return verdict false s!"fingerprints of the table of tables ({ob}, {oa}) differ from the rolling hash of its contents ({mB}, {mA})"
  if oa != rebuilt then
    return verdict false s!"fingerprint {oa} of the written table of tables differs from a freshly built equal one ({rebuilt})"
  if hs != hs' && oa == ob then
    return verdict false s!"element hashes of an inner column changed from {hs} to {hs'} but the outer fingerprint stayed {ob}" (toJson (mB == mA))
  return verdict true ""

/-- one table-level write that changes cells of SEVERAL columns (row, region or whole-table assignment, exchange of cells
    between columns, transposition of a square table): the table fingerprint must notice -/
def tsens (c impl : Json) : P Json := do
  let cols ← listF (asList asInt) c "cols"
  let cols' ← listF (asList asInt) c "cols2"
  let tb ← intF impl "t_before"; let ta ← intF impl "t_after"; let rebuilt ← intF impl "t_rebuilt"
  let mB := FP.fpTab cols; let mA := FP.fpTab cols'
  if ta != rebuilt then
    return verdict false s!"fingerprint {ta} of the written table differs from a freshly built equal one ({rebuilt})"
  if tb != mB || ta != mA then
    return verdict false s!"table fingerprints ({tb}, {ta}) differ from the model's hash of the contents ({mB}, {mA})"
  if cols != cols' && ta == tb then
    return verdict false s!"cell hashes changed from {cols} to {cols'} but the table fingerprint stayed {tb}" (toJson (mB == mA))
  return verdict true ""

/-- an element tree: a JSON integer is a scalar's hash, `{"k": kind, "e": [...]}` a set (1, items sorted) / tuple (2) / list (3) -/
partial def asElem (j : Json) : P FP.Elem :=
  match j with
  | .obj _ => do
      let k ← natF j "k"
      let xs ← asArr (← field j "e")
      let es ← xs.mapM asElem
      return .seq k es
  | _ => do
      let h ← asInt j
      return .leaf h

/-- the same element as far as Python's `hash()` can tell: the same shape and kinds, equal scalar hashes (so `-1` / `-2` or
    `1` / `1.0` / `True` count as the same, `()` and `2`, `[1]` and `(1,)` do not) -/
partial def sameElem : FP.Elem → FP.Elem → Bool
  | .leaf a, .leaf b => a == b
  | .seq k es, .seq k' es' => k == k' && es.length == es'.length && (es.zip es').all (fun p => sameElem p.1 p.2)
  | _, _ => false

/-- container-valued elements: the fingerprint is the rolling hash of the element hashes, a list / tuple / set element hashing
    as the rolling hash of its items (sets in sorted order); it does not depend on how an equal container was built, is stable
    across calls, and notices a change at any nesting depth -/
def container (c impl : Json) : P Json := do
  let es ← listF asElem c "elems"
  let es' ← listF asElem c "elems2"
  let vb ← intF impl "v_before"; let again ← intF impl "v_again"; let twin ← intF impl "v_twin"
  let va ← intF impl "v_after"; let rebuilt ← intF impl "v_rebuilt"
  let mB := FP.fpElems es; let mA := FP.fpElems es'
  -- the order in which a set's items are hashed is the implementation's choice (the property only asks that it does not depend on
  -- how the set was built): cases holding a set of two or more items are not compared with the model's value
  let exact := (fieldD c "exact" (Json.bool true)) == Json.bool true
  if exact && (vb != mB || va != mA) then
    return verdict false s!"fingerprints ({vb}, {va}) differ from the rolling hash of the (nested) contents ({mB}, {mA})"
  if again != vb then
    return verdict false s!"a second fingerprint() call returned {again} after {vb} with nothing written in between"
  if twin != vb then
    return verdict false s!"a vector with equal contents whose containers were built in another order has fingerprint {twin}, this one {vb}"
  if rebuilt != va then
    return verdict false s!"fingerprint {va} after the write differs from a freshly built equal vector ({rebuilt})"
  let same := es.length == es'.length && (es.zip es').all (fun p => sameElem p.1 p.2)
  if !same && va == vb then
    return verdict false s!"the contents of a container-valued element changed but the fingerprint stayed {vb}" (toJson (mB == mA))
  return verdict true ""

def handle (fam : String) (c impl : Json) : P Json :=
  match fam with
  | "container" => container c impl
  | "tsens" => tsens c impl
  | "history" => history c
  | "sens" => sens c impl
  | "nested" => nested c impl
  | _ => .error s!"unknown family {fam}"

end Serif.Drive.C16
