import Serif.Wire
import Serif.Model.DType
open Lean Serif.Wire

namespace Serif.Drive.C04

/-- families: `infer` (tags ↦ dtype), `promote` ((dtype, tag) ↦ dtype) -/
def handle (fam : String) (c impl : Json) : P Json := do
  match fam with
  | "infer" =>
    let tags := (← listF asNat c "tags").map Tag.ofCode
    let got ← asDType impl
    let model := infer tags
    let spec := inferSpec tags
    let ok := got == some model && got == some spec
    return verdict ok (if ok then "" else "inferred dtype differs from the join of the occurring kinds")
      (ofDType (some spec))
  | "promote" =>
    let d ← asDType (← field c "dtype")
    let t := Tag.ofCode (← natF c "tag")
    let got ← asDType impl
    match d with
    | none => .error "dtype required"
    | some d =>
      let model := promote d t
      let ok := got == some model
      return verdict ok (if ok then "" else "promote_with result differs") (ofDType (some model))
  | _ => .error s!"unknown family {fam}"

end Serif.Drive.C04
