import Serif.Drive.Expr
open Lean Serif.Wire

namespace Serif.Drive.C18

/-- every step of the program: the implementation's result names against `X.nameRule` applied to the
    implementation's operand names and row counts -/
def handle (fam : String) (c impl : Json) : P Json := Serif.Drive.Expr.handle "C18" fam c impl

end Serif.Drive.C18
