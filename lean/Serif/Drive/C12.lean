import Serif.Wire
import Serif.Model.Group
open Lean Serif.Wire

/-!
  Driver handlers for C12 (aggregate, vector reductions); the parsing / judging helpers are shared
  with C13 (window).

  case  = {"nrows":n, "over":[{"name":s|null,"eq":[…],"uid":[…]}], "sum":[{"san":s,"ints":[i|null…]}], "mean":…,
           "min":…, "max":…, "stdev":…, "count":…, "apply":[{"name":s,"data":[uid…],"ftab":[[[uid…],id]…]}]}
  result = {"err":cls} | {"ok":{"names":[s|null…],"cols":[{"eq":[…],"uid":[…],"num":[null|[n,d]…]}…]},
                          "logs":[[[uid…]…]…]}
  A numeric cell is `null` (None), `[num, den]` (an int or float as an exact fraction) or `[0,0]` (anything else).
-/
namespace Serif.Drive.C12
open Serif.Group

abbrev A := Args Nat Nat Nat Nat
abbrev OC := OutCol Nat Nat Nat

/-- numeric view of an output cell -/
inductive Num where
  | none | bad | val (q : Rat)
  deriving Repr, Inhabited

structure ICol where
  eq : List Nat
  uid : List Nat
  num : List Num

structure IRes where
  names : List (Option String)
  cols : List ICol
  logs : List (List (List Nat))

def asNum (j : Json) : P Num :=
  if j.isNull then pure Num.none else do
    let (n, d) ← asPair asInt asNat j
    if d = 0 then pure Num.bad else pure (Num.val ((n : Rat) / (d : Rat)))

def asICol (j : Json) : P ICol := do
  return { eq := ← listF asNat j "eq", uid := ← listF asNat j "uid", num := ← listF asNum j "num" }

/-- `none` = the implementation raised -/
def asIRes (j : Json) : P (Option IRes) := do
  match j.getObjVal? "err" with
  | .ok _ => return none
  | .error _ =>
    let o ← field j "ok"
    return some { names := ← listF (asOpt asStr) o "names", cols := ← listF asICol o "cols",
                  logs := ← listF (asList (asList asNat)) j "logs" }

def asKeyCol (j : Json) : P (KeyCol Nat Nat) := do
  return { name := ← asOpt asStr (← field j "name"), cells := ← listF asNat j "eq", objs := ← listF asNat j "uid" }

def asValCol (j : Json) : P ValCol := do
  return { san := ← strF j "san", ints := ← listF (asOpt asInt) j "ints" }

/-- oracle table of a recording function: argument list ↦ returned id -/
def lookupF (tab : List (List Nat × Nat)) (vals : List Nat) : Nat :=
  match tab.find? (fun e => e.1 == vals) with
  | some e => e.2
  | none => 1000000007

def asApply (j : Json) : P (ApplyArg Nat Nat) := do
  let tab ← listF (asPair (asList asNat) asNat) j "ftab"
  return { name := ← strF j "name", data := ← listF asNat j "data", f := lookupF tab }

def asArgs (c : Json) : P A := do
  return { nrows := ← natF c "nrows", over := ← listF asKeyCol c "over",
           sumOver := ← listF asValCol c "sum", meanOver := ← listF asValCol c "mean",
           minOver := ← listF asValCol c "min", maxOver := ← listF asValCol c "max",
           stdevOver := ← listF asValCol c "stdev", countOver := ← listF asValCol c "count",
           apply := ← listF asApply c "apply" }

/-! #### judging -/

def absR (q : Rat) : Rat := if q < 0 then -q else q

/-- |got − want| ≤ 1e-9 · max(1, |want|) -/
def closeRat (got want : Rat) : Bool :=
  let scale := if absR want < 1 then 1 else absR want
  decide (absR (got - want) * 1000000000 ≤ scale)

/-- one built-in cell: exact for sum/count/min/max, tolerance for mean; for stdev the implementation's
    non-negative result is squared and compared with the variance -/
def judgeNum (fn : Fn) (got : Num) (want : Option Rat) : Bool :=
  match got, want with
  | .none, none => true
  | .val g, some w =>
    match fn with
    | .mean => closeRat g w
    | .stdev => decide (0 ≤ g) && closeRat (g * g) w
    | _ => decide (g = w)
  | _, _ => false

def all2 {α β : Type} (p : α → β → Bool) : List α → List β → Bool
  | [], [] => true
  | a :: as, b :: bs => p a b && all2 p as bs
  | _, _ => false

def numIsNat (n : Num) (k : Nat) : Bool :=
  match n with
  | .val q => decide (q = (k : Rat))
  | _ => false

/-- does implementation column `ic` show what the model column `oc` says? (`none` = yes) -/
def judgeCol (oc : OC) (name : Option String) (ic : ICol) : Option String :=
  if name != some oc.name then some s!"column name {name} differs from {oc.name}"
  else
    match oc.cells with
    | .keys l => if ic.eq == l then none else some s!"key column {oc.name}: keys or their order differ"
    | .objs l => if ic.uid == l then none else some s!"key column {oc.name} is not the input key column"
    | .nums fn l =>
      if all2 (judgeNum fn) ic.num l then none else some s!"column {oc.name}: {fn.suffix} values differ"
    | .apps l => if all2 numIsNat ic.num l then none else some s!"column {oc.name}: custom results differ"

def judgeCols : List OC → List (Option String) → List ICol → Option String
  | [], [], [] => none
  | oc :: ocs, n :: ns, ic :: ics =>
    match judgeCol oc n ic with
    | some w => some w
    | none => judgeCols ocs ns ics
  | _, _, _ => some "number of result columns differs"

def ofOptRat : Option Rat → Json
  | none => Json.null
  | some q => Json.arr #[toJson q.num, toJson q.den]

def ofCells : OutCells Nat Nat Nat → Json
  | .keys l => Json.mkObj [("keys", ofNatList l)]
  | .objs l => Json.mkObj [("objs", ofNatList l)]
  | .nums fn l => Json.mkObj [(fn.suffix, ofList ofOptRat l)]
  | .apps l => Json.mkObj [("apps", ofNatList l)]

def ofOut (r : Res (List OC)) (logs : List (List (List Nat))) : Json :=
  match r with
  | .error e => Json.mkObj [("err", Json.str e.name)]
  | .ok cols => Json.mkObj [("names", ofList (fun (c : OC) => Json.str c.name) cols),
                             ("cols", ofList (fun (c : OC) => ofCells c.cells) cols),
                             ("logs", ofList (ofList ofNatList) logs)]

/-- executable specification evaluated on the implementation's result: every built-in column equals the
    textbook function of the hand-grouped non-None values, one row per distinct key in first-appearance order -/
def specNums (a : A) : List (Fn × List (Option Rat)) :=
  (builtinPlans a).map (fun p => (p.1, aggSpec p.2.ints (keysOf a) (fun vals => textbook p.1 (clean vals))))

def judgeSpecAgg (a : A) (r : IRes) : Option String :=
  let nk := a.over.length
  let cols := r.cols.drop nk
  let rec go : List (Fn × List (Option Rat)) → List ICol → Option String
    | [], _ => none
    | (fn, want) :: rest, ic :: ics =>
      if all2 (judgeNum fn) ic.num want then go rest ics else some s!"spec: {fn.suffix} differs from the textbook value"
    | _ :: _, [] => some "spec: result has too few columns"
  let keyRows := dedup (keysOf a)
  let keysOk := (List.range nk).all (fun idx =>
    match r.cols[idx]? with
    | some ic => ic.eq == keyRows.filterMap (·[idx]?)
    | none => false)
  if !keysOk then some "spec: key columns are not the distinct key tuples in first-appearance order"
  else go (specNums a) cols

/-- judge a whole aggregate/window result against the model result -/
def judgeRes (model : Res (List OC)) (logs : List (List (List Nat))) (impl : Option IRes) : Option String :=
  match model, impl with
  | .error _, none => none
  | .error _, some _ => some "accepted arguments that must be rejected (wrong length)"
  | .ok _, none => some "raised on valid arguments"
  | .ok cols, some r =>
    match judgeCols cols r.names r.cols with
    | some w => some w
    | none => if r.logs == logs then none
              else some "custom function was not called exactly once per group, in group order, with the group's values in row order"

def sfx (i : Nat) : String := toString i

def fnOfName (s : String) : P Fn :=
  match s with
  | "sum" => pure .sum | "mean" => pure .mean | "min" => pure .min | "max" => pure .max
  | "count" => pure .count | "stdev" => pure .stdev
  | _ => .error s!"unknown reduction {s}"

/-- families: `agg` (also `malformed`, `hashseed`): aggregate; `reduce`: whole-column reductions -/
def handle (fam : String) (c impl : Json) : P Json := do
  match fam with
  | "reduce" =>
    -- case {"ints":[…]}, impl {"red":[[fn, null|"raise"|[n,d]]…], "agg":[[fn, cell]…]}
    let vals ← listF (asOpt asInt) c "ints"
    let judge1 (which : String) (e : Json) : P (Option String) := do
      let (fnName, cell) ← asPair asStr pure e
      let fn ← fnOfName fnName
      let want := builtin fn vals            -- the column as a single group
      let wantSpec := textbook fn (clean vals)
      if cell == Json.str "raise" then
        return some s!"{which} {fnName} raised"
      let got ← asNum cell
      if which == "red" then
        match vecReduce fn vals with
        | some m => if !(judgeNum fn got m) then return some s!"Vector.{fnName}() differs from the model" else pure ()
        | none => return some s!"Vector.{fnName}() returned although the model raises"
      if judgeNum fn got want && judgeNum fn got wantSpec then return none
      else return some s!"{which} {fnName} differs from the textbook value over the non-None values"
    let mut why : Option String := none
    for e in ← listF pure impl "red" do
      if why.isNone then why ← judge1 "red" e
    for e in ← listF pure impl "agg" do
      if why.isNone then why ← judge1 "agg" e
    return verdict why.isNone (why.getD "")
      (Json.mkObj (Fn.order.map (fun fn => (fn.suffix, ofOptRat (builtin fn vals)))))
  | _ =>
    let a ← asArgs c
    let r ← asIRes impl
    let model := aggregate sfx a
    let logs := applyLogs a
    let why :=
      match judgeRes model logs r with
      | some w => some w
      | none =>
        match model, r with
        | .ok _, some r => judgeSpecAgg a r
        | _, _ => none
    return verdict why.isNone (why.getD "") (ofOut model logs)

end Serif.Drive.C12
