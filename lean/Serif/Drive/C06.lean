import Serif.Wire
import Serif.Model.Vec
import Serif.Drive.C05
open Lean Serif.Wire

namespace Serif.Drive.C06
open Serif.Vec Serif.Drive.C05

/-- comparison oracle `(x uid, y uid) ↦ bool(op(x, y))`: 1 / 0, `-1` raises, `-2` raises TypeError -/
def lookupB (t : List (Nat × Nat × Int)) (a b : Nat) : Res Bool :=
  match t.find? (fun e => e.1 == a && e.2.1 == b) with
  | some (_, _, r) =>
    if r == 1 then .ok true else if r == 0 then .ok false
    else if r == -2 then .error .type else .error .other
  | none => .error .key

/-- observed bool vector `{"ok":[0|1|2…],"dt":dtype,"len":n}` (2 = not a bool) or `{"err":cls}` -/
structure ObsB where
  data : Option (List Bool)
  allBool : Bool
  dtype : Option DType
  lenOk : Bool

def obsBOf (impl : Json) : P ObsB := do
  match impl.getObjVal? "ok" with
  | .ok v =>
    let raw ← asList asNat v
    let n ← match impl.getObjVal? "len" with
      | .ok l => asNat l
      | .error _ => pure raw.length
    return { data := some (raw.map (· == 1)), allBool := raw.all (· ≤ 1),
             dtype := ← asDType (fieldD impl "dt" Json.null), lenOk := n == raw.length }
  | .error _ =>
    let _ ← strF impl "err"
    return { data := none, allBool := true, dtype := none, lenOk := true }

def ofBools (l : List Bool) : Json := ofNatList (l.map (fun b => if b then 1 else 0))

def ofResB (r : Res BoolVec) : Json :=
  match r with
  | .ok b => Json.mkObj [("ok", ofBools b.data), ("dt", ofDType (some b.dtype))]
  | .error e => Json.mkObj [("err", Json.str e.name)]

/-- observed vector with dtype `{"ok":[uids],"dt":dtype}` or `{"err":cls}` -/
def obsVecOf (impl : Json) : P (Option (Vec Nat)) := do
  match impl.getObjVal? "ok" with
  | .ok v => return some { data := ← asCol v, dtype := ← asDType (fieldD impl "dt" Json.null) }
  | .error _ =>
    let _ ← strF impl "err"
    return none

def ofResV (r : Res (Vec Nat)) : Json :=
  match r with
  | .ok v => Json.mkObj [("ok", ofCol v.data), ("dt", ofDType v.dtype)]
  | .error e => Json.mkObj [("err", Json.str e.name)]

def optUid (u : Nat) : Option Nat := if u == 0 then none else some u

/-- families: `bin`, `unary` (None propagation; judged exactly as in C05), `cmp`, `red`, `agg`, `na` -/
def handle (fam : String) (c impl : Json) : P Json := do
  match fam with
  | "bin" | "unary" => Serif.Drive.C05.handle fam c impl
  | "cmp" =>
    let v ← asVec c
    let other ← operandOf c
    let py ← tableF c "py"
    let iso ← tableF c "iso"
    let strs ← match c.getObjVal? "strs" with
      | .ok v => asList asNat v
      | .error _ => pure []
    let dts ← match c.getObjVal? "dts" with
      | .ok v => asList asNat v
      | .error _ => pure []
    let obs ← obsBOf impl
    let isStr := fun s => strs.contains s
    let isDt := fun s => dts.contains s
    let op := lookupB py
    let isoOp := lookupB iso
    let model := if v.isDate then dateCompare isStr isDt op isoOp v.data other else Vec.compare op v.data other
    -- requirement: a date vector against ISO strings (str vector / str scalar) compares with the parsed date
    let opSpec : Nat → Nat → Res Bool :=
      if v.isDate && usesIso (fun s => isStr s || isDt s) other then isoOp else op
    let spec := specCompare opSpec v.data other
    if cellsHave .key spec || resHas .key model then .error "oracle table incomplete"
    let cf := conforms spec obs.data
    let dtOk := obs.data.isNone || (obs.dtype == some boolDType && obs.allBool)
    let m := match model with
      | .ok r => obs.data == some r.data
      | .error _ => true
    let ok := cf && dtOk && m && obs.lenOk
    let why :=
      if ok then ""
      else if !cf then
        (match spec, obs.data with
         | none, _ => "operands of different length must raise"
         | some _, none => "raised although the comparison is defined for every pair without None (None must compare False)"
         | some _, some _ => "a position differs: None must compare False, other positions are Python's comparison")
      else if !dtOk then "the result is not a non-nullable bool vector holding only True/False"
      else if !m then "result differs from the model of the code (correspondence)"
      else "len(result) differs from the number of elements"
    return verdict ok why (ofResB model)
  | "red" =>
    let xs ← colF c "xs"
    let key ← listF asNat c "key"
    let res ← intF c "res"
    let n ← natF impl "len"
    -- the oracle is Python's own reduction of the None-free list; the model applies it to `nonNone xs`
    let f : List Nat → Res Int := fun l => if l == key then .ok res else .error .key
    let model := reduce f xs
    match model with
    | .error _ => .error "oracle was not computed on the None-free list of the model"
    | .ok want =>
      let got : Option Int ← match impl.getObjVal? "ok" with
        | .ok v => pure (some (← asInt v))
        | .error _ => do let _ ← strF impl "err"; pure none
      let lenOk := n == xs.length
      let okv := want < 0 || got == some want
      let ok := okv && lenOk
      let why :=
        if ok then ""
        else if !lenOk then "None must still count towards len()"
        else match got with
          | none => "the reduction raised although Python defines it on the None-free list (None must be skipped)"
          | some _ => "the reduction differs from Python's reduction of the None-free list"
      return verdict ok why (toJson want)
  | "agg" =>
    -- per-group aggregates: each item is one reduction of one group's values
    let items ← asList (fun j => do
      return (← colF j "xs", ← listF asNat j "key", ← intF j "res")) (← field c "items")
    let wants ← items.mapM (fun (xs, key, res) =>
      match reduce (fun l => if l == key then Except.ok res else Except.error Err.key) xs with
      | .ok w => pure w
      | .error _ => (.error "oracle was not computed on the None-free list of the model" : P Int))
    match impl.getObjVal? "ok" with
    | .ok v =>
      let got ← asList asInt v
      let ok := got.length == wants.length && (wants.zip got).all (fun p => p.1 < 0 || p.1 == p.2)
      return verdict ok (if ok then "" else "a group aggregate differs from Python's aggregate of the group's non-None values")
        (ofIntList wants)
    | .error _ =>
      let _ ← strF impl "err"
      let ok := wants.any (· < 0)
      return verdict ok (if ok then "" else "aggregate raised although every group aggregate is defined on the non-None values")
        (ofIntList wants)
  | "na" =>
    let v ← asVec c
    let x := optUid (← natF c "x")
    let xkind := Kind.ofCode (← natF c "xkind")
    let convT ← asList asPairNI (← field c "conv")
    let conv : Kind → Nat → Nat := fun _ a =>
      match convT.find? (fun e => e.1 == a) with
      | some (_, r) => r.toNat
      | none => 0
    let kindOf : Nat → Kind := fun _ => xkind
    let isnaObs ← obsBOf (← field impl "isna")
    let dropObs ← obsVecOf (← field impl "dropna")
    let fillObs ← obsVecOf (← field impl "fillna")
    let mIsna := isna v
    let mDrop := dropna v
    let mFill := fillna kindOf conv v x
    let modelJ := Json.mkObj [("isna", ofBools mIsna.data), ("dropna", ofResV (.ok mDrop)), ("fillna", ofResV mFill)]
    -- isna marks exactly the None positions
    let isnaOk := isnaObs.data == some mIsna.data && isnaObs.allBool && isnaObs.lenOk
    -- dropna removes exactly the positions isna marks (the observed marks), reports non-nullable
    let mask := (isnaObs.data.getD mIsna.data)
    let kept := ((v.data.zip mask).filter (fun p => !p.2)).map (·.1)
    let dropOk := match dropObs with
      | some r => r.data == kept && r.data == mDrop.data && !reportsNullable r.dtype
      | none => false
    -- fillna(x) replaces exactly those positions and nothing else; non-nullable for x ≠ None
    let fillOk := match mFill, fillObs with
      | .ok m, some r => r.data == m.data && (x.isNone || !reportsNullable r.dtype)
      | .ok _, none => false
      | .error _, none => true      -- clean refusal of an incompatible fill value
      | .error _, some r =>
        (r.data == fillWith id x v.data || r.data == fillWith (conv xkind) x v.data) &&
          (x.isNone || !reportsNullable r.dtype)
    let ok := isnaOk && dropOk && fillOk
    let why :=
      if ok then ""
      else if !isnaOk then "isna() does not mark exactly the None positions with True/False"
      else if !dropOk then
        (match dropObs with
         | none => "dropna() raised"
         | some _ => "dropna() does not remove exactly the positions isna() marks, or reports itself nullable")
      else (match fillObs with
            | none => "fillna(x) raised although x is compatible with the vector (or the vector can be promoted)"
            | some _ => "fillna(x) does not replace exactly the None positions by x leaving the rest alone, or reports itself nullable for x ≠ None")
    return verdict ok why modelJ
  | _ => .error s!"unknown family {fam}"

end Serif.Drive.C06
