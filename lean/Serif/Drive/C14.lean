import Serif.Wire
import Serif.Model.Sort
open Lean Serif.Wire

namespace Serif.Drive.C14
open Serif.Sort

def asCell (j : Json) : P Cell := asOpt asNat j

def asKeySrc (j : Json) : P KeySrc := do
  match ← strF j "k" with
  | "missing" => return .missing
  | "bad" => return .bad
  | "cells" => return .cells (← listF asCell j "cells")
  | s => .error s!"unknown key source {s}"

def asByArg (j : Json) : P ByArg := do
  match ← strF j "kind" with
  | "single" =>
    match ← listF asKeySrc j "keys" with
    | [k] => return .single k
    | _ => .error "single expects one key"
  | "seq" => return .seq (← listF asKeySrc j "keys")
  | "other" => return .other
  | s => .error s!"unknown by kind {s}"

def asRevArg (j : Json) : P RevArg := do
  match ← strF j "kind" with
  | "one" => return .one (← boolF j "b")
  | "many" => return .many (← listF asBool j "bs")
  | "other" => return .other
  | s => .error s!"unknown reverse kind {s}"

def ofCols (cs : List (List Nat)) : Json := ofList ofNatList cs

/-- first failing clause of the contract, for the `why` field -/
def whyNot [BEq α] (les : List (α → α → Bool)) (l p : List α) : String :=
  if !(p.isPerm l) then "result is not a permutation of the input (a row/element is lost or duplicated)"
  else if !(pairwiseB (lexLE les) p) then
    "result is not in the lexicographic order of the keys (direction or None placement)"
  else "elements tied on all keys do not keep their original relative order"

/-- families:
    `table`  : Table.sort_by — case = rows as interned cells per column, `by`, `reverse`, `na_last`;
               impl = resulting columns + the original positions read from the payload column, or an error class
    `vector` : Vector.sort_by — case = (key cell, uid) per element; impl = resulting uids -/
def handle (fam : String) (c impl : Json) : P Json := do
  match fam with
  | "table" =>
    let n ← natF c "nrows"
    let cols ← listF (asList asNat) c "cols"
    let by_ ← asByArg (← field c "by")
    let rev ← asRevArg (← field c "rev")
    let naLast ← boolF c "na_last"
    let after ← listF (asList asNat) impl "after"
    if after != cols then
      return verdict false "the input table was modified by sort_by" Json.null
    match sortByTable Gen.sortFlagTable n by_ rev naLast, validate n by_ rev with
    | .ok m, .ok keys =>
      let modelJ := Json.mkObj [("perm", ofNatList m)]
      match impl.getObjVal? "ok" with
      | .error _ =>
        return verdict false s!"a well-formed sort request was refused ({(fieldD impl "err" Json.null).compress})" modelJ
      | .ok r =>
        let p ← listF asNat r "perm"
        let out ← listF (asList asNat) r "cols"
        if !(checkTable naLast keys n p) then
          return verdict false (whyNot (keys.map (specRowLE naLast)) (List.range n) p) modelJ
        if flagOK Gen.sortFlagTable && p != m then
          return verdict false "row order differs from the model of the sort loop" modelJ
        if out.length != cols.length then
          return verdict false "the result has a different number of columns" modelJ
        if out != cols.map (fun src => gather n src p) then
          return verdict false "cells of a row were not kept together (a column is not the input column taken through the row permutation)" modelJ
        return verdict true "" modelJ
    | .error e, _ =>
      let modelJ := Json.mkObj [("err", Json.str e.name)]
      match impl.getObjVal? "err" with
      | .ok _ => return verdict true "" modelJ
      | .error _ => return verdict false "a malformed sort request (bad key, wrong-length key or reverse list) was accepted" modelJ
    | .ok _, .error _ => .error "model inconsistent"
  | "vector" =>
    let data ← listF (asPair asCell asNat) c "data"
    let rev ← boolF c "rev"
    let naLast ← boolF c "na_last"
    let after ← listF asNat impl "after"
    let m := sortByVector Gen.sortFlagVector rev naLast data
    let modelJ := ofNatList (m.map (·.2))
    if after != data.map (·.2) then
      return verdict false "the input vector was modified by sort_by" modelJ
    match impl.getObjVal? "ok" with
    | .error _ =>
      return verdict false s!"sort_by raised ({(fieldD impl "err" Json.null).compress})" modelJ
    | .ok r =>
      let uids ← asList asNat r
      let out : List Elem := uids.map (fun u => ((data.find? (·.2 == u)).map (·.1) |>.getD none, u))
      if !(checkVector rev naLast data out) then
        return verdict false (whyNot [specElemLE rev naLast] data out) modelJ
      if flagOK Gen.sortFlagVector && out != m then
        return verdict false "element order differs from the model" modelJ
      return verdict true "" modelJ
  | _ => .error s!"unknown family {fam}"

end Serif.Drive.C14
