import Serif.Drive.C12
open Lean Serif.Wire

/-!
  Driver handler for C13 (window).  case as for C12; impl = {"win": result, "agg": result} where `agg` is the
  real `aggregate` called with the same arguments (its own correctness is C12's business: it is used here only
  for the defining equation "window = aggregate joined back to the rows on the partition key").
-/
namespace Serif.Drive.C13
open Serif.Group Serif.Drive.C12

/-- are two implementation cells the same value (floats up to 1e-9 relative)? -/
def sameNum (a b : Num) : Bool :=
  match a, b with
  | .none, .none => true
  | .val x, .val y => closeRat x y
  | _, _ => false

/-- spec on the implementation's two results: every window row carries the values of the aggregate row
    whose key equals the row's key -/
def judgeJoinBack (a : A) (win agg : IRes) : Option String :=
  let nk := a.over.length
  let keys := keysOf a
  -- key tuple of each aggregate output row
  -- (without key columns and without any output column the one group of a non-empty table leaves no trace in `agg`)
  let ngroups := (agg.cols.head?.map (·.eq.length)).getD (if nk == 0 then 1 else 0)
  let aggKeys := (List.range ngroups).map (fun g => (agg.cols.take nk).filterMap (·.eq[g]?))
  if win.cols.length != agg.cols.length then some "window and aggregate return different numbers of columns"
  else
    let rec rows : List (List Nat) → Nat → Option String
      | [], _ => none
      | k :: ks, i =>
        match aggKeys.idxOf? k with
        | none => some s!"row {i}: its key does not occur in the aggregate result"
        | some g =>
          let ok := (List.zip (win.cols.drop nk) (agg.cols.drop nk)).all (fun (w, c) =>
            match w.num[i]?, c.num[g]? with
            | some x, some y => sameNum x y
            | _, _ => false)
          if ok then rows ks (i + 1)
          else some s!"row {i}: value differs from the aggregate value of its group"
    rows keys 0

/-- spec on the implementation's window result alone -/
def judgeShape (a : A) (win : IRes) : Option String :=
  if !(win.cols.all (fun c => c.uid.length == a.nrows)) then some "window changed the number of rows"
  else if !(all2 (fun (k : KeyCol Nat Nat) (c : ICol) => c.uid == k.objs) a.over (win.cols.take a.over.length)) then
    some "partition key columns are not reproduced unchanged"
  else
    -- rows of one group receive identical values
    let keys := keysOf a
    let cols := win.cols.drop a.over.length
    let rec go : List (List Nat) → Nat → Option String
      | [], _ => none
      | k :: ks, i =>
        let j := keys.idxOf k          -- first row of this row's group
        if cols.all (fun c => match c.num[i]?, c.num[j]? with
                               | some x, some y => sameNum x y
                               | _, _ => false)
        then go ks (i + 1) else some s!"rows {j} and {i} are in one group but received different values"
    go keys 0

def handle (fam : String) (c impl : Json) : P Json := do
  let _ := fam
  let a ← asArgs c
  let win ← asIRes (← field impl "win")
  let agg ← asIRes (← field impl "agg")
  let model := window sfx a
  let logs := applyLogs a
  let why :=
    match judgeRes model logs win with
    | some w => some w
    | none =>
      match model, win with
      | .ok _, some w =>
        match judgeShape a w with
        | some s => some s
        | none =>
          match agg with
          | some g => judgeJoinBack a w g
          | none => some "aggregate raised on arguments window accepts"
      | _, _ => none
  return verdict why.isNone (why.getD "") (ofOut model logs)

end Serif.Drive.C13
