import Serif.Wire
import Serif.Model.AliasHeap
open Lean Serif.Wire

namespace Serif.Drive.C15
open Serif.AState

/-- is the new storage admissible (not in use by a live object with other contents)? -/
def admissibleB (st : AState) (s : Nat) (c : List Nat) : Bool :=
  (List.range st.next).all (fun o => !(st.store o == some s) || st.data s == c)

def sharersOf (st : AState) (o s : Nat) : List Nat :=
  (List.range st.next).filter (fun o' => o' != o && st.store o' == some s)

/-- unit-level tie of the tracker class: `register` / `unregister` / `check_writable` called directly with storage identities
    chosen by the harness (small numbers, reused at will) and objects that die at chosen points.  Judged against the plain
    specification — refuse iff at least two LIVE objects are currently registered (and not unregistered since) under the
    identity — and against the model functions the theorems are about. -/
def handleTracker (c : Json) : P Json := do
  let ops ← asArr (← field c "ops")
  let mut st : AState := AState.init
  let mut pairs : List (Nat × Nat) := []      -- the specification's state: registered (object, identity) pairs
  let mut k := 0
  for op in ops do
    let e ← strF op "op"
    match e with
    | "new" =>
      st := ({ st with next := st.next + 1 }).setStore st.next (some 0)
    | "kill" =>
      let o ← natF op "o"
      st := st.setStore o none
    | "reg" =>
      let o ← natF op "o"; let s ← natF op "s"
      st := st.register o s
      if !(pairs.contains (o, s)) then pairs := pairs ++ [(o, s)]
    | "unreg" =>
      let o ← natF op "o"; let s ← natF op "s"
      st := st.unregister o s
      pairs := pairs.filter (· != (o, s))
    | "check" =>
      let s ← natF op "s"
      let refused ← boolF op "refused"
      let owners := (pairs.filter (fun p => p.2 == s && st.alive p.1)).map (·.1)
      let specRefused := owners.length ≥ 2
      let (st', ok) := st.checkWritable s
      st := st'
      if refused != specRefused then
        return verdict false s!"op {k}: check_writable on identity {s} refused={refused} although the live objects registered under it are {owners}" (toJson k)
      if ok == refused then
        return verdict false s!"op {k}: model registry predicts writable={ok} on identity {s} but the tracker refused={refused} (live owners {owners})" (toJson k)
    | _ => .error s!"unknown tracker op {e}"
    k := k + 1
  return verdict true ""

def handle (fam : String) (c _impl : Json) : P Json := do
  if fam == "tracker" then return ← handleTracker c
  let evs ← asArr (← field c "events")
  let mut st : AState := AState.init
  let mut ids : List (Nat × Nat) := []     -- harness serial ↦ model object number
  let mut k := 0
  for ev in evs do
    let e ← strF ev "e"
    let look (o : Nat) : P Nat := match ids.lookup o with
      | some m => .ok m
      | none => .error s!"event {k}: unknown object {o}"
    match e with
    | "create" =>
      let o ← natF ev "o"; let s ← natF ev "s"; let cs ← listF asNat ev "c"
      if !admissibleB st s cs then .error s!"event {k}: storage {s} handed out while in use with other contents (allocator assumption)"
      ids := (o, st.next) :: ids
      st := (st.step (.create s cs)).1
    | "swap" =>
      let o ← look (← natF ev "o"); let s ← natF ev "s"; let cs ← listF asNat ev "c"
      if !admissibleB st s cs then .error s!"event {k}: storage {s} handed out while in use with other contents (allocator assumption)"
      st := (st.step (.swap o s cs)).1
    | "drop" =>
      let o ← look (← natF ev "o")
      st := (st.step (.drop o)).1
    | "regcheck" =>
      -- the implementation's own registry, inspected after the step: `registry_exact` fails on the real state
      let stale ← listF (asList asNat) ev "stale"
      let missing ← listF asNat ev "missing"
      let desc := (fieldD ev "desc" Json.null).compress
      if !stale.isEmpty then
        return verdict false s!"event {k} after {desc}: the tracker's registry holds live objects under identities that are not their storage (object, identity): {stale} — a vector whose storage is later allocated at such an identity is refused although it shares with nothing" (toJson k)
      if !missing.isEmpty then
        return verdict false s!"event {k} after {desc}: live objects {missing} are not registered under their own (non-empty) storage — a second vector over that storage could be written without refusal" (toJson k)
    | "fresh" =>
      -- the object was just returned by an operation that must produce unshared storage
      -- (fresh vector, copy, slice, operation result, table column)
      let oh ← natF ev "o"
      let o ← look oh
      let s := (st.store o).getD 0
      let sh := sharersOf st o s
      if s != 0 && !sh.isEmpty then
        let desc := (fieldD ev "desc" Json.null).compress
        return verdict false s!"event {k} {desc}: new object {oh} shares its storage with live objects {sh} although it is a fresh vector / copy / slice / result / table column" (toJson k)
    | "write" =>
      let oh ← natF ev "o"
      let o ← look oh
      let refused ← boolF ev "refused"
      let sharers ← listF asNat ev "sharers"
      let n ← natF ev "len"
      let changed ← listF asNat ev "others_changed"
      let desc := (fieldD ev "desc" Json.null).compress
      -- the property, judged on the implementation's own observations
      let specRefused := n > 0 && !sharers.isEmpty
      if refused && !specRefused then
        return verdict false s!"event {k} {desc}: write through object {oh} was refused with AliasError although no other live vector shares its storage (length {n}, sharers {sharers})" (toJson k)
      if !refused && specRefused then
        return verdict false s!"event {k} {desc}: write through object {oh} was accepted while live objects {sharers} share its storage" (toJson k)
      if !refused && !changed.isEmpty then
        return verdict false s!"event {k} {desc}: accepted write through object {oh} changed what live objects {changed} show" (toJson k)
      -- the model's prediction from its own registry (stale entries and reused identities included)
      let sCur := (st.store o).getD 0
      let sNew ← asOpt asNat (fieldD ev "s" Json.null)
      let s' := sNew.getD 0
      let cs ← listF asNat ev "c"
      if !refused && !admissibleB st s' cs then .error s!"event {k}: storage {s'} handed out while in use with other contents"
      let (st', mRefused) := st.step (.write o s' cs)
      if mRefused != refused then
        return verdict false s!"event {k} {desc}: model registry predicts refused={mRefused} but the implementation refused={refused} (model sharers {sharersOf st o sCur})" (toJson k)
      st := st'
    | _ => .error s!"unknown event {e}"
    k := k + 1
  return verdict true ""

end Serif.Drive.C15
