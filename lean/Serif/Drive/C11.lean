import Serif.Drive.Join
open Lean Serif.Wire

namespace Serif.Drive.C11

/-- all join properties share one judge: model `Join.run` + specification `Join.specRun` on the inputs,
    compared with the observed outcome (plus the `mm` / `swap` side observations when present) -/
def handle (fam : String) (c impl : Json) : P Json := Serif.Drive.Join.handle fam c impl

end Serif.Drive.C11
