import Serif.Wire
import Serif.Model.ObjHeap
open Lean Serif.Wire

namespace Serif.Drive.C01

def asVecVal (j : Json) : P VecVal := do
  let data ← listF asNat j "data"
  let dt ← asDType (fieldD j "dtype" Json.null)
  let name ← asOpt asStr (fieldD j "name" Json.null)
  return { data := data, dtype := dt, name := name }

/-- observation of one slot: `null`, a vector, or a table of vectors -/
def asObs (j : Json) : P (Option AbsVal) := do
  if j.isNull then return none
  let k ← strF j "k"
  if k == "v" then return some (.vec (← asVecVal j))
  else if k == "t" then return some (.tab (← listF asVecVal j "cols"))
  else .error s!"unmodelled observation kind {k}"

def showVec (v : VecVal) : String :=
  s!"(data={v.data}, dtype={(ofDType v.dtype).compress}, name={v.name})"

def showAbs : Option AbsVal → String
  | none => "nothing"
  | some (.vec v) => "vector" ++ showVec v
  | some (.tab cs) => "table[" ++ ", ".intercalate (cs.map showVec) ++ "]"

/-- translate one recorded step into the model alphabet; values of new / written objects come from the observation -/
def toOp1 (m : Json) (obs : Array (Option AbsVal)) : P HOp := do
  let kind ← strF m "m"
  let slotVal (i : Nat) : Option AbsVal := (obs[i]?).join
  match kind with
  | "derive" =>
    let d ← natF m "dst"
    match slotVal d with
    | some v => return .derive d v
    | none => .error "derive: destination slot is empty"
  | "getcol" => return .getCol (← natF m "dst") (← natF m "t") (← natF m "j")
  | "setattr" => return .setAttr (← natF m "t") (← natF m "j") (← natF m "src")
  | "mutate" =>
    let r ← natF m "r"
    match slotVal r with
    | some (.vec v) => return .mutate r v
    | _ => .error "mutate: slot does not hold a vector"
  | "tabmutate" =>
    let t ← natF m "t"
    match slotVal t with
    | some (.tab cs) => return .tabMutate t cs
    | _ => .error "tabmutate: slot does not hold a table"
  | "drop" => return .drop (← natF m "r")
  | "fingerprint" => return .fingerprint (← natF m "r")
  | "noop" => return .noop
  | _ => .error s!"unknown model op {kind}"

/-- scratch handle used to express "replace a column by a freshly built vector" with the model's own operations -/
def tmpSlot : Nat := 1000

/-- a recorded step as a short sequence of model operations -/
def toOps (m : Json) (obs : Array (Option AbsVal)) : P (List HOp) := do
  let kind ← strF m "m"
  if kind == "setattr_val" then
    -- `t.<accessor> = [values]`: a new vector is built from the list, then stored as the column (a copy of it)
    match ← asObs (← field m "val") with
    | some (.vec v) => return [.derive tmpSlot (.vec v), .setAttr (← natF m "t") (← natF m "j") tmpSlot, .drop tmpSlot]
    | _ => .error "setattr_val: value is not a vector"
  else
    return [← toOp1 m obs]

/-- single-operation form (kept for the handlers that import it) -/
def toOp (m : Json) (obs : Array (Option AbsVal)) : P HOp := do
  match ← toOps m obs with
  | [op] => return op
  | _ => .error "compound step where a single operation was expected"

/-- run the model along the history; after every step every handle must show what the model says -/
def handle (_fam : String) (c _impl : Json) : P Json := do
  let steps ← asArr (← field c "steps")
  let mut h : Heap := Heap.empty
  let mut k := 0
  for st in steps do
    let obsJ ← asArr (← field st "obs")
    let obs := (← obsJ.mapM asObs).toArray
    let ops ← toOps (← field st "m") obs
    h := ops.foldl (Heap.step (fun _ => 0)) h
    for i in [0:obs.size] do
      let expect := h.view i
      let got := obs[i]!
      if expect != got then
        let desc := (fieldD st "desc" Json.null).compress
        return verdict false
          s!"step {k} {desc}: handle {i} shows {showAbs got} but value semantics requires {showAbs expect}"
          (Json.mkObj [("step", toJson k), ("slot", toJson i)])
    k := k + 1
  return verdict true ""

end Serif.Drive.C01
