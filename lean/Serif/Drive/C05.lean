import Serif.Wire
import Serif.Model.Vec
open Lean Serif.Wire

namespace Serif.Drive.C05
open Serif.Vec

/-- a column on the wire: list of uids, 0 = None -/
def asCol (j : Json) : P (Col Nat) := do
  return (← asList asNat j).map (fun u => if u == 0 then none else some u)

def colF (j : Json) (k : String) : P (Col Nat) := do asCol (← field j k)

def ofCol (c : Col Nat) : Json := ofNatList (c.map (fun x => x.getD 0))

/-- oracle table `(left uid, right uid) ↦ result`: uid > 0, `-1` = Python raises (not TypeError),
    `-2` = Python raises TypeError.  A pair that is not in the table is a harness error (`.key`). -/
def lookup2 (t : List (Nat × Nat × Int)) (a b : Nat) : Res Nat :=
  match t.find? (fun e => e.1 == a && e.2.1 == b) with
  | some (_, _, r) => if r > 0 then .ok r.toNat else if r == -2 then .error .type else .error .other
  | none => .error .key

def lookup1 (t : List (Nat × Int)) (a : Nat) : Res Nat :=
  match t.find? (fun e => e.1 == a) with
  | some (_, r) => if r > 0 then .ok r.toNat else if r == -2 then .error .type else .error .other
  | none => .error .key

def asTriple (j : Json) : P (Nat × Nat × Int) := do
  match ← asArr j with
  | [a, b, c] => return (← asNat a, ← asNat b, ← asInt c)
  | _ => .error s!"expected triple, got {j.compress}"

def asPairNI (j : Json) : P (Nat × Int) := asPair asNat asInt j

def tableF (c : Json) (k : String) : P (List (Nat × Nat × Int)) :=
  match c.getObjVal? k with
  | .ok v => asList asTriple v
  | .error _ => .ok []

def binOpOf : String → P BinOp
  | "add" => .ok .add | "sub" => .ok .sub | "mul" => .ok .mul | "truediv" => .ok .truediv
  | "floordiv" => .ok .floordiv | "mod" => .ok .mod | "pow" => .ok .pow
  | s => .error s!"unknown operator {s}"

def asVec (j : Json) : P (Vec Nat) := do
  return { data := ← colF j "xs", dtype := ← asDType (fieldD j "dt" Json.null) }

def operandOf (c : Json) : P (Operand Nat) := do
  match ← strF c "form" with
  | "vec" => return .vec (← colF c "ys") (← asDType (fieldD c "ydt" Json.null))
  | "seq" => return .seq (← colF c "ys")
  | "scalar" =>
    let s ← natF c "s"
    if s == 0 then .error "scalar None operand is outside the property" else return .scalar s
  | f => .error s!"unknown form {f}"

def semOf (c : Json) : P (Sem Nat) := do
  let py ← tableF c "py"
  let days ← tableF c "days"
  let ints ← match c.getObjVal? "ints" with
    | .ok v => asList asNat v
    | .error _ => pure []
  return { py := fun _ => lookup2 py, days := lookup2 days, isInt := fun s => ints.contains s }

/-- observed vector result: `{"ok":[uids],"len":n,"fresh":b}` or `{"err":cls}` -/
structure Obs where
  data : Option (List (Option Nat))
  lenOk : Bool
  fresh : Bool

def obsOf (impl : Json) : P Obs := do
  match impl.getObjVal? "ok" with
  | .ok v =>
    let d ← asCol v
    let n ← match impl.getObjVal? "len" with
      | .ok l => asNat l
      | .error _ => pure d.length
    let fr := match impl.getObjVal? "fresh" with
      | .ok (Json.bool b) => b
      | _ => true
    return { data := some d, lenOk := n == d.length, fresh := fr }
  | .error _ =>
    let _ ← strF impl "err"
    return { data := none, lenOk := true, fresh := true }

def cellsHave (e : Err) {ρ : Type} (spec : Option (List (Res ρ))) : Bool :=
  match spec with
  | none => false
  | some cells => cells.any (fun c => match c with
                                      | .error e' => e' == e
                                      | .ok _ => false)

def resHas (e : Err) {ρ : Type} (r : Res ρ) : Bool :=
  match r with
  | .error e' => e' == e
  | .ok _ => false

def ofRes (r : Res (Col Nat)) : Json :=
  match r with
  | .ok c => Json.mkObj [("ok", ofCol c)]
  | .error e => Json.mkObj [("err", Json.str e.name)]

/-- explain a failed `conforms` -/
def whyNot {ρ : Type} (spec : Option (List (Res ρ))) (impl : Option (List ρ)) : String :=
  match spec, impl with
  | none, some _ => "operands of different length must raise, but a result was returned (truncated / recycled / broadcast)"
  | none, none => ""
  | some _, none => "raised although Python defines the scalar operation for every pair of elements"
  | some cells, some d =>
    if d.length != cells.length then "result length differs from the vector's length"
    else "an element differs from Python's scalar result on the i-th operands in the written order (None must give None)"

def judgeVector (spec : Option (List (Res (Option Nat)))) (model : Res (Col Nat)) (o : Obs) : P Json := do
  if cellsHave .key spec || resHas .key model then .error "oracle table incomplete"
  if cellsHave .type spec then
    return verdict true "skip: Python raises TypeError for some pair (mixed-type fallback, outside C05)" (ofRes model)
  let c := conforms spec o.data
  let m := match model with
    | .ok r => o.data == some r
    | .error _ => true
  let ok := c && m && o.lenOk && o.fresh
  let why :=
    if ok then ""
    else if !c then whyNot spec o.data
    else if !m then "result differs from the model of the code (correspondence)"
    else if !o.lenOk then "len(result) differs from the number of elements"
    else "the result is not a new vector"
  return verdict ok why (ofRes model)

def asColsOut (impl : Json) : P (Option (List (List (Option Nat)))) := do
  match impl.getObjVal? "ok" with
  | .ok v => return some (← asList asCol v)
  | .error _ =>
    let _ ← strF impl "err"
    return none

def anyType (specs : Option (List (Option (List (Res (Option Nat)))))) (e : Err) : Bool :=
  match specs with
  | none => false
  | some l => l.any (fun s => cellsHave e s)

/-- families: `bin` (7 operators × direct/reflected × vector/list/scalar, date + days),
    `unary` and `bcast` (per-element function), `table` (table ∘ scalar, table ∘ table) -/
def handle (fam : String) (c impl : Json) : P Json := do
  match fam with
  | "bin" =>
    let o ← binOpOf (← strF c "op")
    let refl ← boolF c "refl"
    let v ← asVec c
    let other ← operandOf c
    let S ← semOf c
    let obs ← obsOf impl
    let model := vectorBinary S o refl v other
    let spec := specBinary (scalarOpOf S o refl v other) refl v.data other
    judgeVector spec model obs
  | "unary" | "bcast" =>
    let xs ← colF c "xs"
    let f ← asList asPairNI (← field c "f")
    let obs ← obsOf impl
    let model := broadcast (lookup1 f) xs
    let spec : Option (List (Res (Option Nat))) := some (xs.map (cell1 (lookup1 f)))
    if cellsHave .key spec then .error "oracle table incomplete"
    let cf := conforms spec obs.data
    let m := match model with
      | .ok r => obs.data == some r
      | .error _ => true
    let ok := cf && m && obs.lenOk && obs.fresh
    let why :=
      if ok then ""
      else if !cf then
        (match obs.data with
         | none => "raised although Python defines the operation / method for every non-None element"
         | some _ => "element i is not the operation / method applied to element i (None must stay None), or the length changed")
      else if !m then "result differs from the model of the code (correspondence)"
      else if !obs.lenOk then "len(result) differs from the number of elements"
      else "the result is not a new vector"
    return verdict ok why (ofRes model)
  | "table" =>
    let o ← binOpOf (← strF c "op")
    let cols ← asList asVec (← field c "cols")
    let S ← semOf c
    let out ← asColsOut impl
    let (spec, model) ← match ← strF c "form" with
      | "table" => do
        let cols2 ← asList asVec (← field c "cols2")
        pure (specTableTable S o cols cols2, tableTable S o cols cols2)
      | _ => do
        let other ← operandOf c
        pure (specTableScalar S o cols other, tableScalar S o cols other)
    if anyType spec .key || resHas .key model then .error "oracle table incomplete"
    let modelJ := match model with
      | .ok r => Json.mkObj [("ok", ofList ofCol r)]
      | .error e => Json.mkObj [("err", Json.str e.name)]
    if anyType spec .type then
      return verdict true "skip: Python raises TypeError for some pair (mixed-type fallback, outside C05)" modelJ
    let cf := conformsTable spec out
    let m := match model with
      | .ok r => out == some r
      | .error _ => true
    let ok := cf && m
    let why :=
      if ok then ""
      else if !cf then
        (match spec, out with
         | none, _ => "tables of different width must raise"
         | some _, none => "raised although every column operation is defined"
         | some _, some _ => "the result is not the vector operation applied column by column")
      else "result differs from the model of the code (correspondence)"
    return verdict ok why modelJ
  | _ => .error s!"unknown family {fam}"

end Serif.Drive.C05
