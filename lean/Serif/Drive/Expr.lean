/-
  Shared driver handler of C03 and C18: a case is a program evaluated stepwise on the real code;
  every step carries the observations of its operands and of its result, and the Python-level
  oracles for that step.  Each step is judged with the definitions of Serif/Model/Expr.lean.
-/
import Serif.Wire
import Serif.Model.Expr
open Lean Serif.Wire

namespace Serif.Drive.Expr
open Serif.X

def asTag (j : Json) : P Tag := do return Tag.ofCode (← asNat j)
def asTags (j : Json) : P (List Tag) := asList asTag j

/-- scalar result on the wire: tag code ≥ 0, -1 = TypeError, anything else = other exception -/
def asSRes (j : Json) : P SRes := do
  let i ← asInt j
  if i ≥ 0 then return .ok (Tag.ofCode i.toNat) else if i = -1 then return .typeErr else return .err

/-- vector observation `[tags, dtype, name]` -/
def asAVec (j : Json) : P AVec := do
  match ← asArr j with
  | [ts, dt, nm] => return { tags := ← asTags ts, dtype := ← asDType dt, name := ← asOpt asStr nm }
  | _ => .error s!"expected [tags, dtype, name], got {j.compress}"

/-- object observation `["v", tags, dtype, name]`, `["t", [col, …]]`; `["x"]` = not a plain vector or table -/
def asObj (j : Json) : P (Option Obj) := do
  match ← asArr j with
  | [k, ts, dt, nm] =>
    if (← asStr k) == "v" then return some (.vec (← asAVec (Json.arr #[ts, dt, nm]))) else .error "bad object"
  | [k, cs] =>
    if (← asStr k) == "t" then return some (.tab (← asList asAVec cs)) else .error "bad object"
  | [_] => return none
  | _ => .error s!"bad object {j.compress}"

def ofTags (ts : List Tag) : Json := ofNatList (ts.map Tag.code)
def ofAVec (v : AVec) : Json := Json.arr #[ofTags v.tags, ofDType v.dtype, ofOptStr v.name]
def ofObj : Obj → Json
  | .vec v => Json.arr #[Json.str "v", ofTags v.tags, ofDType v.dtype, ofOptStr v.name]
  | .tab cs => Json.arr #[Json.str "t", ofList ofAVec cs]

def asOther (j : Json) : P (Option Other) :=
  asOpt (fun j => do
    let (k, v) ← asPair asStr pure j
    if k == "s" then return Other.scalar (← asTag v) else return Other.list (← asTags v)) j

def asAOp (s : String) : AOp :=
  if s == "add" then .add else if s == "radd" then .radd else .gen

def asUps (j : Json) : P (List (Nat × Tag)) := asList (asPair asNat asTag) j

def optF {α} (f : Json → P α) (j : Json) (k : String) (d : α) : P α :=
  match j.getObjVal? k with
  | .ok v => if v.isNull then pure d else f v
  | .error _ => pure d

def lookupStr (tbl : List (String × Option String)) (s : String) : Option String :=
  match tbl with
  | [] => none
  | (k, v) :: rest => if k == s then v else lookupStr rest s

/-- the oracle of one step, from the lists shipped with it (the site argument is ignored) -/
def asOracle (o : Json) : P Oracle := do
  let bin ← optF (asList (asList asSRes)) o "bin" []
  let un ← optF (asList asSRes) o "un" []
  let cast ← optF (asList asSRes) o "cast" []
  let agg ← optF (asList (asList asSRes)) o "agg" []
  let san ← optF (asList (asPair asStr (asOpt asStr))) o "san" []
  return {
    bin := fun _ col pos _ _ => (bin.getD col []).getD pos .err
    un := fun _ pos _ => un.getD pos .err
    cast := fun _ pos _ _ => cast.getD pos .err
    agg := fun _ k g => (agg.getD k []).getD g .err
    san := lookupStr san }

def asOp (name : String) (p : Json) : P Op := do
  let other ← optF asOther p "other" none
  let aop := asAOp (← optF asStr p "aop" "gen")
  match name with
  | "leaf" => return .leaf (← listF asNat p "tags" |>.map (·.map Tag.ofCode)) (← optF (asOpt asStr) p "name" none)
  | "dict" => return .dict (← listF asStr p "names") (← listF asTags p "cols")
  | "csv" => return .csv (← optF (asOpt (asList asStr)) p "hdr" none) (← listF asTags p "rows")
  | "arith" =>
    match other with
    | none => return .arith aop 0
    | some o => return .arithO aop 0 o
  | "cmp" =>
    match other with
    | none => return .cmp 0
    | some o => return .cmpO 0 o
  | "unary" => return .unary 0
  | "cast" => return .cast (Kind.ofCode (← natF p "k")) 0
  | "fillna" => return .fillna (Tag.ofCode (← natF p "t"))
  | "dropna" => return .dropna
  | "isna" => return .isna
  | "toObject" => return .toObject
  | "copy" => return .copy
  | "sortV" => return .sortV (← listF asNat p "perm")
  | "getIdx" => return .getIdx (← listF asNat p "idx")
  | "getMask" => return .getMask (← listF asBool p "m")
  | "getV" => return .getV (← optF (asList asBool) p "m" []) (← optF (asList asNat) p "idx" [])
  | "setitem" => return .setitem (← asUps (← field p "ups"))
  | "lshift" =>
    match other with
    | none => return .lshift
    | some o => return .lshiftO o
  | "rshift" =>
    match other with
    | none => return .rshift
    | some o => return .rshiftO o
  | "rshiftDict" => return .rshiftDict (← listF asStr p "names")
  | "table" => return .table
  | "selCol" => return .selCol (← natF p "j")
  | "selCols" => return .selCols (← listF asNat p "js")
  | "row" => return .row (← natF p "i")
  | "rowIdx" => return .rowIdx (← listF asNat p "idx")
  | "rowMask" => return .rowMask (← listF asBool p "m")
  | "rowV" => return .rowV (← optF (asList asBool) p "m" []) (← optF (asList asNat) p "idx" [])
  | "tarith" =>
    match other with
    | none => return .tarith aop 0
    | some o => return .tarithO aop 0 o
  | "transposeT" => return .transposeT
  | "join" =>
    let k ← strF p "kind"
    let kind : JoinKind := if k == "inner" then .inner else if k == "left" then .left else .full
    return .join kind (← listF (asPair (asOpt asNat) (asOpt asNat)) p "pairs")
  | "aggregate" =>
    let a : AggArgs := {
      keys := ← listF asNat p "keys", sum := ← optF (asList asNat) p "sum" [],
      mean := ← optF (asList asNat) p "mean" [], min := ← optF (asList asNat) p "min" [],
      max := ← optF (asList asNat) p "max" [], count := ← optF (asList asNat) p "count" [],
      stdev := ← optF (asList asNat) p "stdev" [],
      apply := ← optF (asList (asPair asStr asNat)) p "apply" [] }
    return .aggregate (← boolF p "window") a (← listF asNat p "rowGroup") (← natF p "ngroups") 0
  | "sortT" => return .sortT (← listF asNat p "perm")
  | "tabSet" => return .tabSet (← natF p "j") (← asUps (← field p "ups"))
  | "opaque" => return .opaque
  | _ => .error s!"unknown op {name}"

def ofNames : Names → Json
  | .vec n => ofOptStr n
  | .tab ns => ofList ofOptStr ns

structure StepVerdict where
  ok : Bool
  kind : String        -- "", "untruthful", "dtype-rule", "names"
  why : String
  note : String        -- diagnostics: how far the model could be compared
  model : Json

/-- judge one step for property `pid` -/
def judgeStep (pid : String) (s : Json) : P StepVerdict := do
  let name ← strF s "op"
  let p := fieldD s "p" (Json.mkObj [])
  let op ← asOp name p
  let ρ ← asOracle (fieldD s "or" (Json.mkObj []))
  let argsO ← listF asObj s "args"
  let out := fieldD s "out" Json.null
  let pass (note : String) (m : Json := Json.null) : StepVerdict := ⟨true, "", "", note, m⟩
  match out.getObjVal? "ok" with
  | .error _ => return pass "impl-raised"
  | .ok oj =>
    match ← asObj oj with
    | none => return pass "result-not-plain"
    | some o =>
      if argsO.any Option.isNone then
        -- operands outside the modelled universe: only the spec applies
        if pid == "C03" && !o.truthful then
          return ⟨false, "untruthful", s!"{name}: an element does not belong to the reported dtype", "args-not-plain", Json.null⟩
        else return pass "args-not-plain"
      else
      let args := argsO.filterMap id
      let model := step ρ op args
      let mj : Json := match model with
        | .ok m => ofObj m
        | .error e => Json.mkObj [("err", Json.str e.name)]
      if pid == "C03" then
        if !o.truthful then
          return ⟨false, "untruthful", s!"{name}: an element does not belong to the reported dtype", "", mj⟩
        match model with
        | .error _ => return pass "model-refuses" mj
        | .ok m =>
          if m.isTab != o.isTab || m.tagsOf != o.tagsOf then return pass "tags-differ" mj
          else if m.dtypesOf != o.dtypesOf then
            return ⟨false, "dtype-rule", s!"{name}: reported dtype differs from the dtype rule of the operation", "", mj⟩
          else return pass "full" mj
      else
        match model with
        | .error _ => return pass "model-refuses" mj
        | .ok m =>
          let spec := nameRule ρ.san op (args.map Obj.sh)
          if m.isTab != o.isTab then return pass "shape-differs" mj
          else if o.names != spec || m.names != spec then
            return ⟨false, "names", s!"{name}: result names differ from the name rule", "", ofNames spec⟩
          else return pass "full" (ofNames spec)

/-- all steps of a program; the first failing step decides -/
def handle (pid : String) (_fam : String) (c _impl : Json) : P Json := do
  let steps ← listF pure c "steps"
  let mut notes : List String := []
  let mut i := 0
  for s in steps do
    let v ← judgeStep pid s
    if !v.ok then
      return verdict false s!"step {i} {v.why}"
        (Json.mkObj [("step", toJson i), ("op", fieldD s "op" Json.null), ("kind", Json.str v.kind),
                     ("model", v.model)])
    notes := v.note :: notes
    i := i + 1
  return verdict true "" (Json.mkObj [("notes", ofList Json.str notes.reverse)])

end Serif.Drive.Expr
