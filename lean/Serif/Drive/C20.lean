import Serif.Wire
import Serif.Model.Repr
import Serif.Gen.Consts
open Lean Serif.Wire

namespace Serif.Drive.C20
open Serif.Repr

def asNumClass (j : Json) : P NumClass := do
  match ← asNat j with
  | 0 => return .finiteIntegral
  | 1 => return .finiteFractional
  | 2 => return .nan
  | 3 => return .inf
  | n => .error s!"bad number class {n}"

/-- a cell: `[flags, numclass|null, str, repr, g|null, f1|null, iso|null]`,
    flags = 1·isNone + 2·eqEllipsis + 4·isStr -/
def asCell (j : Json) : P Cell := do
  match ← asArr j with
  | [fl, nm, s, r, g, f1, iso] =>
    let fl ← asNat fl
    return { isNone := fl % 2 == 1, eqEllipsis := (fl / 2) % 2 == 1, isStr := (fl / 4) % 2 == 1,
             num := ← asOpt asNumClass nm, str := ← asStr s, repr := ← asStr r,
             g := ← asOpt asStr g, f1 := ← asOpt asStr f1, iso := ← asOpt asStr iso }
  | _ => .error s!"bad cell {j.compress}"

def asCol (j : Json) : P Col := do
  return { name := ← asOpt asStr (← field j "name"), shownName := ← strF j "shown",
           san := ← asOpt asStr (← field j "san"), lower := ← strF j "lower",
           dtype := ← asDType (← field j "dtype"), cells := ← listF asCell j "cells" }

def ofFooter (f : Footer) : Json := Json.str f.render

def ofOut (o : Out) : Json :=
  Json.mkObj [("header", ofList (fun h => Json.mkObj [("judged", Json.bool h.judged), ("cells", ofList Json.str h.cells)]) o.header),
              ("body", ofList (ofList Json.str) o.body), ("footer", ofFooter o.footer), ("bare", Json.bool o.bare)]

/-- families `vector`, `table` -/
def handle (fam : String) (c impl : Json) : P Json := do
  -- results of library operations on degenerate operands: judged by the harness alone (repr returns, names are names)
  if fam == "derived" then return verdict true ""
  let others ← listF asStr c "other_names"
  let otherName : Nat → String := fun n => others.getD n "?"
  -- the global row budget in force: the value passed to set_repr_rows, or what None resets it to
  let rows := (← asOpt asNat (← field c "rows")).getD Gen.reprRowsReset
  let cols ← listF asCol c "cols"
  let model : Res Out ←
    match fam, cols with
    | "vector", [v] => pure (reprVector otherName rows v)
    | "vector", _ => .error "vector family needs exactly one column"
    | "table", _ => do
      let ov ← asOpt asNat (← field c "override")
      pure (reprTable otherName rows Gen.maxHeadCols { cols := cols, reprRows := ov })
    | _, _ => .error s!"unknown family {fam}"
  let mj := match model with
    | .ok o => ofOut o
    | .error _ => Json.mkObj [("raises", Json.bool true)]
  match impl.getObjVal? "err" with
  | .ok e => return verdict false s!"repr raised {e.compress}; the property promises a string for every value" mj
  | .error _ =>
    let lines ← listF asStr impl "lines"
    let before ← field impl "before"
    let after ← field impl "after"
    if before.compress != after.compress then
      return verdict false "repr changed the object (values, dtype, name, fingerprint or row budget)" mj
    if (fieldD c "unpinned" (Json.bool false)).compress == "true" then
      return verdict true "content not pinned for this input; no exception, object unchanged" mj
    match model with
    | .error _ =>
      -- the model predicts an exception for a shown cell; the implementation printed something:
      -- the property holds (no exception, object unchanged), the content is not pinned by the model
      return verdict true "model predicts an exception; content not judged" mj
    | .ok o =>
      match judge o lines with
      | none => return verdict true "" mj
      | some why => return verdict false why mj

end Serif.Drive.C20
