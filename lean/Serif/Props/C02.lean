/-
  C02 — tables stay rectangular; row views agree with column views.
  Theorems about the pure table functions of Model/Tab.lean (the functions the driver executes), for every
  cell type, every shape (zero rows and zero columns included).  Lemmas in Proofs/Tab.lean.
-/
import Serif.Proofs.Tab
import Serif.Proofs.HeapRect

namespace Serif.C02
open Serif.Tab
variable {α : Type}

/-! #### row view = column view -/

/-- a rectangular table with n rows has exactly n rows when indexed or iterated, each as wide as the table … -/
theorem shape (cols : List (List α)) (n : Nat) (h : Rect cols n) :
    (rows cols n).length = n ∧ ∀ r ∈ rows cols n, r.length = cols.length := by
  refine ⟨rows_length cols n, ?_⟩
  intro r hr
  simp only [rows, List.mem_map, List.mem_range] at hr
  obtain ⟨i, hi, rfl⟩ := hr
  exact row_length cols n i h hi

/-- … and the i-th row holds the i-th value of every column, in column order:
    `rows[i][j] = cols[j][i]` for every i < n, j < width -/
theorem row_index_eq_columns (cols : List (List α)) (n i j : Nat) (h : Rect cols n) (hi : i < n)
    (hj : j < cols.length) :
    ((rows cols n)[i]?).bind (·[j]?) = (cols[j])[i]? := by
  rw [rows_getElem? cols n i hi]
  exact (row_eq_map cols n i h hi).2 j hj

/-- iteration yields the same rows as indexing (both are `rows`): the k-th row produced is row k, and there is
    no row at or beyond `len(table)` -/
theorem iter_eq_index (cols : List (List α)) (n k : Nat) :
    (rows cols n)[k]? = if k < n then some (row cols k) else none := by
  split
  · rename_i hk; exact rows_getElem? cols n k hk
  · rename_i hk; exact rows_getElem?_none cols n k (by omega)

/-! #### structural operations preserve rectangularity and cells -/

/-- `>>` appends columns and leaves the existing ones untouched -/
theorem stack_preserves_left (a b : List (List α)) :
    (stackCols a b).take a.length = a ∧ (stackCols a b).drop a.length = b := by
  simp [stackCols]

theorem stack_rect (a b : List (List α)) (n : Nat) (ha : Rect a n) (hb : Rect b n) : Rect (stackCols a b) n := by
  intro c hc
  simp only [stackCols, List.mem_append] at hc
  rcases hc with hc | hc
  · exact ha c hc
  · exact hb c hc

/-- `<<` appends rows to every column: column j of the result is column j of the left followed by column j of
    the right, the width is unchanged and the result is rectangular with n + m rows -/
theorem append_rows_every_column (a b : List (List α)) (n m : Nat) (ha : Rect a n) (hb : Rect b m)
    (hw : a.length = b.length) :
    Rect (appendRows a b) (n + m) ∧ (appendRows a b).length = a.length ∧
    ∀ j (hj : j < a.length), (appendRows a b)[j]? = some (a[j] ++ b[j]'(hw ▸ hj)) :=
  ⟨appendRows_rect a b n m ha hb, appendRows_length a b hw, fun j hj => appendRows_getElem? a b hw j hj⟩

/-- appending one row of cells (`t << [v0, v1, …]`) -/
theorem append_row_every_column (cols : List (List α)) (vals : List α) (n : Nat) (h : Rect cols n)
    (hw : cols.length = vals.length) :
    Rect (appendRow cols vals) (n + 1) ∧
    ∀ j (hj : j < cols.length), (appendRow cols vals)[j]? = some (cols[j] ++ [vals[j]'(hw ▸ hj)]) := by
  have hb : Rect (vals.map (fun v => [v])) 1 := by
    intro c hc; simp only [List.mem_map] at hc; obtain ⟨v, _, rfl⟩ := hc; rfl
  have hw' : cols.length = (vals.map (fun v => [v])).length := by simpa using hw
  refine ⟨appendRows_rect cols _ n 1 h hb, ?_⟩
  intro j hj
  have := appendRows_getElem? cols (vals.map (fun v => [v])) hw' j hj
  simpa [appendRow] using this

/-- row slices and masks apply uniformly to all columns: the selection is rectangular with one row per selected
    position, keeps the width, and its k-th row is the row of the k-th selected position -/
theorem rowsel_uniform (idxs : List Nat) (cols : List (List α)) (n : Nat) (h : Rect cols n)
    (hi : ∀ i ∈ idxs, i < n) :
    Rect (rowSel idxs cols) idxs.length ∧ (rowSel idxs cols).length = cols.length ∧
    ∀ k (hk : k < idxs.length), row (rowSel idxs cols) k = row cols idxs[k] :=
  ⟨rowSel_rect idxs cols n h hi, rowSel_length idxs cols, fun k hk => rowSel_row idxs cols n h hi k hk⟩

/-- the transpose is rectangular: one column per row, each as long as the table is wide -/
theorem transpose_rect (cols : List (List α)) (n : Nat) (h : Rect cols n) :
    Rect (transpose cols n) cols.length ∧ (transpose cols n).length = n := by
  refine ⟨?_, rows_length cols n⟩
  intro r hr
  exact (shape cols n h).2 r hr

/-- transposing twice gives back the original columns, hence the original cells -/
theorem transpose_transpose (cols : List (List α)) (n : Nat) (h : Rect cols n) :
    transpose (transpose cols n) cols.length = cols :=
  transpose_transpose_cols cols n h

/-- the executable rectangularity test used by the driver decides `Rect` -/
theorem rect_decidable (cols : List (List α)) (n : Nat) : rectB cols n = true ↔ Rect cols n :=
  rectB_iff cols n

/-! #### rectangularity is an invariant of every history -/

/-- **tables stay rectangular**: start from the empty heap and run any history whose accepted writes keep lengths (what the
    library enforces: ragged construction and wrong-length column assignment are refused, item assignment keeps the length
    — C08 `length_preserved`).  Then every table any handle shows, at the end of the history, is rectangular — including
    tables whose columns were written through views taken earlier, columns swapped by attribute assignment, and tables
    fingerprinted in between. -/
theorem rect_invariant (fpOf : VecVal → Int) (ops : List HOp) (ok : Heap.LenOKRun fpOf Heap.empty ops)
    (r : Nat) (cols : List VecVal) (hv : (Heap.run fpOf Heap.empty ops).view r = some (.tab cols)) :
    ∃ n, Rect (cols.map (·.data)) n := by
  have hr := Heap.run_rect fpOf ops Heap.empty Heap.wf_empty Heap.rect_empty ok
  unfold Heap.view at hv
  split at hv
  · cases hv
  · rename_i o ho
    obtain ⟨n, hn⟩ := Heap.abs_rect _ hr o cols hv
    refine ⟨n, ?_⟩
    intro c hc
    simp only [List.mem_map] at hc
    obtain ⟨v, hvm, rfl⟩ := hc
    exact hn v hvm

/-- the step form: one accepted operation keeps every table object rectangular -/
theorem rect_step (fpOf : VecVal → Int) (h : Heap) (op : HOp) (wf : Heap.WF h) (r : Heap.RectHeap h)
    (ok : Heap.LenOK h op) : Heap.RectHeap (Heap.step fpOf h op) :=
  Heap.step_rect fpOf h op wf r ok

/-- the length side-condition is needed: a write that changes one column's length breaks rectangularity of the table
    holding it (so the invariant really rests on C08 `length_preserved`, not on the heap discipline alone) -/
theorem rect_needs_length_preservation :
    ∃ ops : List HOp, ∃ cols, (Heap.run (fun _ => 0) Heap.empty ops).view 0 = some (.tab cols) ∧
      ¬ ∃ n, Rect (cols.map (·.data)) n := by
  refine ⟨[.derive 0 (.tab [⟨[1, 2], none, none⟩, ⟨[3, 4], none, none⟩]), .getCol 1 0 0, .mutate 1 ⟨[1], none, none⟩],
    [⟨[1], none, none⟩, ⟨[3, 4], none, none⟩], by decide, ?_⟩
  rintro ⟨n, hn⟩
  have h1 := hn [1] (by simp)
  have h2 := hn [3, 4] (by simp)
  simp at h1 h2; omega

/-! #### non-vacuity -/

example : Heap.LenOKRun (fun _ => 0) Heap.empty
    [.derive 0 (.tab [⟨[1, 2], none, none⟩, ⟨[3, 4], none, none⟩]), .getCol 1 0 0, .mutate 1 ⟨[7, 8], none, none⟩] := by
  refine ⟨⟨2, by simp⟩, trivial, ?_, trivial⟩
  intro o ho n hn
  have e1 : (Heap.step (fun _ => 0) (Heap.step (fun _ => 0) Heap.empty
      (.derive 0 (.tab [⟨[1, 2], none, none⟩, ⟨[3, 4], none, none⟩]))) (.getCol 1 0 0)).root 1 = some 0 := by decide
  rw [e1] at ho; cases ho
  have e2 : (Heap.step (fun _ => 0) (Heap.step (fun _ => 0) Heap.empty
      (.derive 0 (.tab [⟨[1, 2], none, none⟩, ⟨[3, 4], none, none⟩]))) (.getCol 1 0 0)).lenOf 0 = some 2 := by decide
  rw [e2] at hn; cases hn; rfl


example : rows [[1, 2, 3], [4, 5, 6]] 3 = [[1, 4], [2, 5], [3, 6]] := by decide
example : transpose (transpose [[1, 2, 3], [4, 5, 6]] 3) 2 = [[1, 2, 3], [4, 5, 6]] := by decide
example : appendRow [[1, 2], [3, 4]] [9, 8] = [[1, 2, 9], [3, 4, 8]] := by decide
example : rowSel [2, 0] [[1, 2, 3], [4, 5, 6]] = [[3, 1], [6, 4]] := by decide
example : rectB [[1, 2], [3]] 2 = false := by decide
example : transpose ([] : List (List Nat)) 0 = [] ∧ rows ([[], []] : List (List Nat)) 0 = [] := by decide

end Serif.C02
