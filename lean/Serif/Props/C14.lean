/-
  C14 — sorting is a stable permutation with direction-independent None placement.
  Property theorems only; helper lemmas live in Serif/Proofs/Sort.lean.

  Layers:
    generic   `sortKeys les l` (the loop "one stable sort per key, last key first") for ANY element type
              and ANY total preorders `les`: permutation, lexicographic order, stability, idempotence,
              uniqueness, equality with a single stable sort by the lexicographic order.
    key       the tuple order `(flag, value)` of the source with the flag tables regenerated from
              /repo on this run equals the specified key order (own direction, None last iff na_last).
    table     `sortByTable Gen.sortFlagTable …` (Table.sort_by) and
    vector    `sortByVector Gen.sortFlagVector …` (Vector.sort_by) satisfy the contract,
              and the executable contract `checkTable` / `checkVector` that the driver evaluates on the
              implementation's result holds of exactly one list: the model's.
-/
import Serif.Proofs.Sort
import Serif.Gen.Consts

namespace Serif.C14
open Serif.Sort

/-! #### generic: iterated stable sorts (any element type, any total preorders) -/

section generic
variable {α : Type}

/-- every element exactly once -/
theorem sortKeys_perm (les : List (α → α → Bool)) (l : List α) : (sortKeys les l).Perm l :=
  Sort.sortKeys_perm les l

/-- key lemma (DESIGN A.4): stable sorts from the last key to the first realise the lexicographic order -/
theorem sortKeys_sorted_lex {les : List (α → α → Bool)} (h : ∀ le ∈ les, TotalPreorder le) (l : List α) :
    (sortKeys les l).Pairwise (fun a b => lexLE les a b = true) :=
  Sort.sortKeys_sorted h l

/-- stability: the elements tied with `a` on all keys appear in the result exactly as in the input
    (same elements, same multiplicities, same relative order) -/
theorem sortKeys_stable {les : List (α → α → Bool)} (h : ∀ le ∈ les, TotalPreorder le) (a : α) (l : List α) :
    (sortKeys les l).filter (allTied les a) = l.filter (allTied les a) :=
  filter_sortKeys_allTied h a l

/-- stability, pairwise form: two elements tied on all keys keep their relative order -/
theorem sortKeys_stable_pair {les : List (α → α → Bool)} (h : ∀ le ∈ les, TotalPreorder le) {a b : α}
    {l : List α} (hab : [a, b].Sublist l) (ht : allTied les a b = true) :
    [a, b].Sublist (sortKeys les l) := by
  have s := pair_sublist_filter hab (allTied_refl h a) ht
  rw [← filter_sortKeys_allTied h a l] at s
  exact s.trans List.filter_sublist

/-- the contract (permutation + lexicographic order + stability) has exactly one solution -/
theorem sortKeys_unique {les : List (α → α → Bool)} (h : ∀ le ∈ les, TotalPreorder le) (l p : List α)
    (hp : p.Perm l) (hs : p.Pairwise (fun a b => lexLE les a b = true))
    (hf : ∀ a ∈ l, p.filter (allTied les a) = l.filter (allTied les a)) :
    p = sortKeys les l :=
  Sort.sortKeys_unique h l p hp hs hf

/-- the loop over the keys is one stable sort by the lexicographic order -/
theorem sortKeys_eq_isort_lex {les : List (α → α → Bool)} (h : ∀ le ∈ les, TotalPreorder le) (l : List α) :
    sortKeys les l = isort (lexLE les) l :=
  sortKeys_eq_isort_lexLE h l

/-- sorting a sorted list changes nothing -/
theorem sortKeys_idempotent {les : List (α → α → Bool)} (h : ∀ le ∈ les, TotalPreorder le) (l : List α) :
    sortKeys les (sortKeys les l) = sortKeys les l :=
  sortKeys_idem h l

/-- the executable contract is the contract -/
theorem checkSorted_iff [BEq α] [LawfulBEq α] (les : List (α → α → Bool)) (l p : List α) :
    checkSorted les l p = true ↔
      p.Perm l ∧ p.Pairwise (fun a b => lexLE les a b = true) ∧
      ∀ a ∈ l, p.filter (allTied les a) = l.filter (allTied les a) :=
  Sort.checkSorted_iff les l p

/-- … and it holds of exactly one list: the result of the sort loop -/
theorem checkSorted_iff_eq [BEq α] [LawfulBEq α] {les : List (α → α → Bool)} (h : ∀ le ∈ les, TotalPreorder le)
    (l p : List α) : checkSorted les l p = true ↔ p = sortKeys les l := by
  rw [Sort.checkSorted_iff]
  constructor
  · rintro ⟨hp, hs, hf⟩; exact Sort.sortKeys_unique h l p hp hs hf
  · rintro rfl
    exact ⟨Sort.sortKeys_perm les l, Sort.sortKeys_sorted h l, fun a _ => filter_sortKeys_allTied h a l⟩

end generic

/-! #### the key order: tie to the source through the regenerated truth tables -/

/-- `key_fn` of `Table.sort_by`, executed by the extractor on this run, gives None the larger flag
    exactly when `na_last != reverse` (whole table, in the kernel) -/
theorem flag_table_ok : flagOK Gen.sortFlagTable = true := by decide

/-- the same for the key function of `Vector.sort_by` -/
theorem flag_vector_ok : flagOK Gen.sortFlagVector = true := by decide

/-- Python's order on the key tuples of `Table.sort_by` is the specified order of one key, for every
    direction, every `na_last` and every pair of cells -/
theorem key_order_table (rev naLast : Bool) (a b : Cell) :
    pyLE (fun n => Gen.sortFlagTable n rev naLast) rev a b = specLE rev naLast a b :=
  pyLE_table_eq_specLE flag_table_ok rev naLast a b

theorem key_order_vector (rev naLast : Bool) (a b : Cell) :
    pyLE (fun n => Gen.sortFlagVector n rev naLast) rev a b = specLE rev naLast a b :=
  pyLE_table_eq_specLE flag_vector_ok rev naLast a b

/-- None placement does not depend on the direction: with `na_last` a value may stand in front of a None
    and never a None in front of a value; with `na_last=False` the other way round -/
theorem none_placement (rev naLast : Bool) (x : Nat) :
    pyLE (fun n => Gen.sortFlagTable n rev naLast) rev (some x) none = naLast ∧
    pyLE (fun n => Gen.sortFlagTable n rev naLast) rev none (some x) = !naLast ∧
    pyLE (fun n => Gen.sortFlagVector n rev naLast) rev (some x) none = naLast ∧
    pyLE (fun n => Gen.sortFlagVector n rev naLast) rev none (some x) = !naLast := by
  rw [key_order_table, key_order_table, key_order_vector, key_order_vector]
  simp [specLE]

/-- values follow the key's own direction -/
theorem value_direction (rev naLast : Bool) (x y : Nat) :
    pyLE (fun n => Gen.sortFlagTable n rev naLast) rev (some x) (some y)
      = (if rev then decide (y ≤ x) else decide (x ≤ y)) ∧
    pyLE (fun n => Gen.sortFlagVector n rev naLast) rev (some x) (some y)
      = (if rev then decide (y ≤ x) else decide (x ≤ y)) := by
  rw [key_order_table, key_order_vector]
  simp [specLE]

/-- the specified key order is a total preorder (so the generic theorems apply) -/
theorem spec_key_total_preorder (rev naLast : Bool) : TotalPreorder (specLE rev naLast) :=
  specLE_totalPreorder rev naLast

/-! #### Table.sort_by -/

section table
variable {n : Nat} {by_ : ByArg} {rev : RevArg} {naLast : Bool} {keys : List (List Cell × Bool)} {p : List Nat}

/-- the result is produced iff the arguments pass steps 1–3, and it is the sorted index list -/
theorem table_result (hv : validate n by_ rev = .ok keys) :
    sortByTable Gen.sortFlagTable n by_ rev naLast
      = .ok (sortKeys (keys.map (specRowLE naLast)) (List.range n)) := by
  rw [sortByTable_ok hv, sortIndices_eq_spec flag_table_ok]

/-- malformed requests are refused, with the error the first failing step raises -/
theorem table_refused {e : Err} (hv : validate n by_ rev = .error e) :
    sortByTable Gen.sortFlagTable n by_ rev naLast = .error e := by
  simp [sortByTable, hv]

/-- C14.perm: every row index exactly once (for any flag table, even a wrong one) -/
theorem perm (tbl : Bool → Bool → Bool → Bool) (h : sortByTable tbl n by_ rev naLast = .ok p) :
    p.Perm (List.range n) := by
  unfold sortByTable at h
  split at h
  · cases h
  · cases h; exact Sort.sortKeys_perm _ _

/-- every column is rebuilt through the same index list, so cells stay together and each column is
    a permutation of the input column -/
theorem column_perm {β : Type} (tbl : Bool → Bool → Bool → Bool) (d : β) (src : List β)
    (hlen : src.length = n) (h : sortByTable tbl n by_ rev naLast = .ok p) :
    (gather d src p).Perm src := by
  have h2 : (gather d src p).Perm (gather d src (List.range n)) := (perm tbl h).map _
  rwa [← hlen, gather_range] at h2

/-- C14.sorted_lex: rows are in lexicographic order of the keys, each key in its own direction with
    None last iff `na_last` -/
theorem sorted_lex (hv : validate n by_ rev = .ok keys)
    (h : sortByTable Gen.sortFlagTable n by_ rev naLast = .ok p) :
    p.Pairwise (fun i j => lexLE (keys.map (specRowLE naLast)) i j = true) := by
  rw [table_result hv] at h; cases h
  exact Sort.sortKeys_sorted (specRows_totalPreorder naLast keys) _

/-- C14.stable: the rows tied with row `a` on all keys come out in their original order, whatever the
    directions -/
theorem stable (hv : validate n by_ rev = .ok keys)
    (h : sortByTable Gen.sortFlagTable n by_ rev naLast = .ok p) (a : Nat) :
    p.filter (allTied (keys.map (specRowLE naLast)) a)
      = (List.range n).filter (allTied (keys.map (specRowLE naLast)) a) := by
  rw [table_result hv] at h; cases h
  exact filter_sortKeys_allTied (specRows_totalPreorder naLast keys) a _

/-- C14.stable, pairwise form: rows `i < j` tied on all keys appear as `… i … j …` -/
theorem stable_pair (hv : validate n by_ rev = .ok keys)
    (h : sortByTable Gen.sortFlagTable n by_ rev naLast = .ok p) {i j : Nat} (hij : i < j) (hj : j < n)
    (ht : allTied (keys.map (specRowLE naLast)) i j = true) : [i, j].Sublist p := by
  rw [table_result hv] at h; cases h
  exact sortKeys_stable_pair (specRows_totalPreorder naLast keys) (pair_sublist_range hij hj) ht

/-- C14.none_placement in the result: of two rows whose most significant key is None for one and a value
    for the other, the later one is the None row iff `na_last` — whatever the direction `r` of that key -/
theorem none_rows_placement {col : List Cell} {r : Bool} {rest : List (List Cell × Bool)}
    (hv : validate n by_ rev = .ok ((col, r) :: rest))
    (h : sortByTable Gen.sortFlagTable n by_ rev naLast = .ok p) {i j : Nat} (hij : [i, j].Sublist p)
    (hne : (cellAt col i).isNone ≠ (cellAt col j).isNone) : (cellAt col j).isNone = naLast := by
  have hs := List.pairwise_iff_forall_sublist.mp (sorted_lex hv h) hij
  simp only [List.map_cons, lexLE, Bool.and_eq_true] at hs
  have h1 := hs.1
  simp only [specRowLE] at h1
  cases hi : cellAt col i <;> cases hj : cellAt col j <;> simp_all [specLE]

/-- C14.idempotent: sort the sorted table again by the same keys (the key columns taken through the first
    result like every other column): no row moves -/
theorem idempotent (hv : validate n by_ rev = .ok keys)
    (h : sortByTable Gen.sortFlagTable n by_ rev naLast = .ok p) :
    sortIndices Gen.sortFlagTable naLast (keys.map (fun kr => (gather none kr.1 p, kr.2))) n
      = List.range n := by
  rw [table_result hv] at h; cases h
  rw [sortIndices_eq_spec flag_table_ok]
  exact resort_identity naLast keys n (validate_lengths hv)

/-- the contract the driver evaluates on the implementation's index list holds of the model's result and of
    nothing else -/
theorem check_table_iff (hv : validate n by_ rev = .ok keys) (p : List Nat) :
    checkTable naLast keys n p = true ↔ sortByTable Gen.sortFlagTable n by_ rev naLast = .ok p := by
  rw [table_result hv, checkTable, checkSorted_iff_eq (specRows_totalPreorder naLast keys)]
  constructor
  · rintro rfl; rfl
  · intro h; cases h; rfl

/-- a request is answered iff it is well-formed (one key or a non-empty sequence of keys, each with one cell
    per row, `reverse` one bool or one per key); everything else is refused -/
theorem answered_iff_wellFormed (tbl : Bool → Bool → Bool → Bool) :
    (∃ p, sortByTable tbl n by_ rev naLast = .ok p) ↔ wellFormed n by_ rev = true := by
  rw [← validate_isOk_iff]
  unfold sortByTable
  constructor
  · rintro ⟨p, h⟩
    split at h
    · cases h
    · exact ⟨_, ‹_›⟩
  · rintro ⟨keys, h⟩
    exact ⟨_, by rw [h]⟩

end table

/-! #### Vector.sort_by -/

section vector
variable (rev naLast : Bool) (data : List Elem)

/-- every element exactly once (for any flag table) -/
theorem vector_perm (tbl : Bool → Bool → Bool → Bool) : (sortByVector tbl rev naLast data).Perm data :=
  isort_perm _ data

/-- in order: own direction for values, None last iff `na_last` whatever the direction -/
theorem vector_sorted :
    (sortByVector Gen.sortFlagVector rev naLast data).Pairwise (fun a b => specElemLE rev naLast a b = true) := by
  rw [sortByVector, elemLE_eq_spec flag_vector_ok]
  exact isort_sorted (specElemLE_totalPreorder rev naLast) data

/-- stable in both directions: the elements tied with `a` (equal values, e.g. `1`, `True`, `1.0`; or all the
    Nones) come out in their input order -/
theorem vector_stable (a : Elem) :
    (sortByVector Gen.sortFlagVector rev naLast data).filter (eqv (specElemLE rev naLast) a)
      = data.filter (eqv (specElemLE rev naLast) a) := by
  rw [sortByVector, elemLE_eq_spec flag_vector_ok]
  exact filter_isort_eqv (specElemLE_totalPreorder rev naLast) a data

/-- of a None and a value, the later one in the result is the None iff `na_last` -/
theorem vector_none_placement {a b : Elem}
    (hab : [a, b].Sublist (sortByVector Gen.sortFlagVector rev naLast data))
    (hne : a.1.isNone ≠ b.1.isNone) : b.1.isNone = naLast := by
  have hs := List.pairwise_iff_forall_sublist.mp (vector_sorted rev naLast data) hab
  simp only [specElemLE] at hs
  cases ha : a.1 <;> cases hb : b.1 <;> simp_all [specLE]

/-- sorting a sorted vector changes nothing -/
theorem vector_idempotent :
    sortByVector Gen.sortFlagVector rev naLast (sortByVector Gen.sortFlagVector rev naLast data)
      = sortByVector Gen.sortFlagVector rev naLast data := by
  have h := vector_sorted rev naLast data
  rw [← elemLE_eq_spec flag_vector_ok] at h
  exact isort_of_sorted _ h

/-- the contract the driver evaluates on the implementation's result holds of the model's result only -/
theorem check_vector_iff (out : List Elem) :
    checkVector rev naLast data out = true ↔ out = sortByVector Gen.sortFlagVector rev naLast data := by
  rw [checkVector, checkSorted_iff_eq (specElems_totalPreorder rev naLast), sortByVector_eq_spec flag_vector_ok]

end vector

/-! #### non-vacuity: concrete inputs with ties, None and mixed directions -/

/-- keys a = [1, None, 0, 1] descending, b = [0, 1, None, 0] ascending, None first -/
example : sortByTable Gen.sortFlagTable 4
    (.seq [.cells [some 1, none, some 0, some 1], .cells [some 0, some 1, none, some 0]])
    (.many [true, false]) false = .ok [1, 0, 3, 2] := by rfl

/-- descending with ties keeps rows 0 and 3 in input order, None last -/
example : sortByTable Gen.sortFlagTable 4 (.single (.cells [some 1, none, some 0, some 1])) (.one true) true
    = .ok [0, 3, 2, 1] := by rfl

example : validate 4 (.single (.cells [some 1, none, some 0, some 1])) (.one true)
    = .ok [([some 1, none, some 0, some 1], true)] := by rfl

example : allTied [specRowLE true ([some 1, none, some 0, some 1], true)] 0 3 = true := by decide

example : sortByTable Gen.sortFlagTable 2 (.seq [.cells [some 0, some 1]]) (.many [true, false]) true
    = .error .value := by rfl

example : sortByTable Gen.sortFlagTable 2 (.seq [.cells [some 0, some 1], .missing]) (.one false) true
    = .error .key := by rfl

example : wellFormed 2 (.seq [.cells [some 0, some 1], .cells [none]]) (.one false) = false := by decide

/-- Vector([1, None, True, 0, 1.0]).sort_by(reverse=True): the three equal values keep their order -/
example : sortByVector Gen.sortFlagVector true true [(some 1, 1), (none, 0), (some 1, 2), (some 0, 3), (some 1, 4)]
    = [(some 1, 1), (some 1, 2), (some 1, 4), (some 0, 3), (none, 0)] := by decide

example : checkVector true true [(some 1, 1), (none, 0), (some 1, 2)] [(some 1, 1), (some 1, 2), (none, 0)] = true := by
  decide

example : checkVector true true [(some 1, 1), (none, 0), (some 1, 2)] [(some 1, 2), (some 1, 1), (none, 0)] = false := by
  decide

end Serif.C14
