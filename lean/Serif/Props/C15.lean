/-
  C15 — alias tracking is exact: no leaked write, no spurious refusal.
  Theorems about the registry model `Serif.AState` (Model/AliasHeap.lean), for every history and every choice of
  storage identities by the interpreter (including reuse of the identity of freed storage).
-/
import Serif.Proofs.AliasHeap
import Serif.Proofs.AliasTracker

namespace Serif.C15
open Serif Serif.AState

/-- **the registry is exact in every reachable state**: after any history of creation (fresh or over shared
    storage), re-initialisation, promotion, column replacement, writes (accepted or refused) and garbage
    collection — with storage identities chosen arbitrarily, reused ones included — the live references registered
    under a storage identity are exactly the live objects using that storage. -/
theorem registry_exact (ops : List AOp) : RegExact (AState.init.run ops) :=
  run_exact ops AState.init regExact_init

/-- **refused iff really shared**: in an exact state a write through a live object with non-empty storage is
    refused if and only if another live object uses the same storage. -/
theorem refused_iff_shared (st : AState) (h : RegExact st) (o s s' : Nat) (c : List Nat)
    (ho : st.store o = some s) (hs : s ≠ 0) :
    (st.step (.write o s' c)).2 = true ↔ ∃ o', o' ≠ o ∧ st.store o' = some s := by
  have hmem : o ∈ st.liveRefs s := (h.mem_liveRefs_iff s o).mpr ho
  have hne : (st.reg s).isEmpty = false := by
    have := ((mem_liveRefs st s o).mp hmem).1
    cases hr : st.reg s with
    | nil => rw [hr] at this; cases this
    | cons _ _ => rfl
  have hcw : (st.checkWritable s).2 = decide ((st.liveRefs s).length ≤ 1) := by
    simp [checkWritable, hne]
  simp only [step, ho, hs, if_false]
  have key : ((st.liveRefs s).length ≤ 1) ↔ ¬ ∃ o', o' ≠ o ∧ st.store o' = some s := by
    constructor
    · intro hl ⟨o', hne', ho'⟩
      have hm' : o' ∈ st.liveRefs s := (h.mem_liveRefs_iff s o').mpr ho'
      -- two distinct members of a list of length ≤ 1
      match hL : st.liveRefs s, hl with
      | [], _ => rw [hL] at hmem; cases hmem
      | [a], _ =>
        rw [hL] at hmem hm'
        simp at hmem hm'
        exact hne' (hm'.trans hmem.symm)
      | _ :: _ :: _, hl' => simp at hl'
    · intro hno
      match hL : st.liveRefs s with
      | [] => simp
      | [a] => simp
      | a :: b :: rest =>
        exfalso
        have nd := h.nodup s
        rw [hL] at nd hmem
        have hab : a ≠ b := by
          intro e; subst e; simp at nd
        have ha : st.store a = some s := (h.mem_liveRefs_iff s a).mp (by rw [hL]; simp)
        have hb : st.store b = some s := (h.mem_liveRefs_iff s b).mp (by rw [hL]; simp)
        by_cases e : a = o
        · exact hno ⟨b, fun e' => hab (e.trans e'.symm), hb⟩
        · exact hno ⟨a, e, ha⟩
  by_cases hle : (st.liveRefs s).length ≤ 1
  · have : (st.checkWritable s).2 = true := by rw [hcw]; simpa using hle
    simp only [this, if_true]
    constructor
    · intro h'; cases h'
    · intro hex; exact absurd hex (key.mp hle)
  · have : (st.checkWritable s).2 = false := by rw [hcw]; simpa using hle
    simp only [this]
    constructor
    · intro _; exact Classical.not_not.mp (fun hno => hle (key.mpr hno))
    · intro _; rfl

/-- **after any history**: a write is refused only while another live vector really shares the storage … -/
theorem refused_only_if_shared (ops : List AOp) (o s s' : Nat) (c : List Nat) :
    let st := AState.init.run ops
    st.store o = some s → s ≠ 0 → (st.step (.write o s' c)).2 = true → ∃ o', o' ≠ o ∧ st.store o' = some s :=
  fun ho hs hr => (refused_iff_shared _ (registry_exact ops) o s s' c ho hs).mp hr

/-- … and **an object that shares its storage with no other live object is always writable** — fresh vectors,
    copies, slices, operation results, table columns, and former sharers whose partners have since written or been
    collected — no matter how many other objects were created, re-initialised, promoted, dropped or collected
    before, and no matter which storage identities were reused. -/
theorem unshared_always_writable (ops : List AOp) (o s s' : Nat) (c : List Nat) :
    let st := AState.init.run ops
    st.store o = some s → (∀ o', o' ≠ o → st.store o' ≠ some s) → (st.step (.write o s' c)).2 = false := by
  intro st ho hun
  by_cases hs : s = 0
  · simp [step, ho, hs]
  · cases hr : (st.step (.write o s' c)).2 with
    | false => rfl
    | true =>
      obtain ⟨o', hne, ho'⟩ := (refused_iff_shared _ (registry_exact ops) o s s' c ho hs).mp hr
      exact absurd ho' (hun o' hne)

/-- a refused write changes nothing any object shows (only dead references are pruned) -/
theorem refused_changes_nothing (st : AState) (o s' : Nat) (c : List Nat)
    (hr : (st.step (.write o s' c)).2 = true) : ∀ x, (st.step (.write o s' c)).1.view x = st.view x := by
  intro x
  simp only [step] at hr ⊢
  cases ho : st.store o with
  | none => simp [ho] at hr
  | some s =>
    simp only [ho] at hr ⊢
    by_cases hs : s = 0
    · simp [hs] at hr
    · simp only [hs, if_false] at hr ⊢
      by_cases hw : (st.checkWritable s).2 = true
      · simp [hw] at hr
      · rw [if_neg hw]
        exact checkWritable_view st s x

/-- **no leaked write**: an accepted write allocates new storage and never changes what another live object
    shows, provided the interpreter does not hand out the identity of storage that is still in use by a live
    object with different contents (`Admissible` — CPython's guarantee). -/
theorem no_leak (st : AState) (o s' : Nat) (c : List Nat) (x : Nat) (hx : x ≠ o)
    (hadm : Admissible st (.write o s' c)) : (st.step (.write o s' c)).1.view x = st.view x := by
  have data_eq : ∀ (t : AState), t.store = st.store → t.data = st.data → ∀ sx, st.store x = some sx →
      (t.setData s' c).data sx = st.data sx := by
    intro t hts htd sx hsx
    simp only [setData, htd]
    split
    · rename_i e; subst e; exact (hadm x hsx).symm
    · rfl
  have swap_view : ∀ (t : AState), t.store = st.store → t.data = st.data →
      ((t.setData s' c).swapStorage o s').view x = st.view x := by
    intro t hts htd
    unfold swapStorage
    simp only [setData_store, hts]
    cases ho : st.store o with
    | none =>
      simp only [view, setData_store, hts]
      cases hsx : st.store x with
      | none => rfl
      | some sx => simp only [Option.map_some]; rw [data_eq t hts htd sx hsx]
    | some s =>
      simp only
      have hst : ∀ (u : AState) (a b : Nat), (u.register a b).store = u.store := by
        intro u a b; unfold register; split <;> rfl
      have hdt : ∀ (u : AState) (a b : Nat), (u.register a b).data = u.data := by
        intro u a b; unfold register; split <;> rfl
      have hst2 : ∀ (u : AState) (a b : Nat), (u.unregister a b).store = u.store := by
        intro u a b; unfold unregister; split <;> rfl
      have hdt2 : ∀ (u : AState) (a b : Nat), (u.unregister a b).data = u.data := by
        intro u a b; unfold unregister; split <;> rfl
      simp only [view, hst, hdt, setStore, hst2, hdt2, setData_store, hts, if_neg hx]
      cases hsx : st.store x with
      | none => rfl
      | some sx => simp only [Option.map_some]; rw [data_eq t hts htd sx hsx]
  simp only [step]
  cases ho : st.store o with
  | none => rfl
  | some s =>
    simp only
    split
    · exact swap_view st rfl rfl
    · split
      · exact swap_view _ (checkWritable_store st s) (checkWritable_data st s)
      · exact checkWritable_view st s x

/-- a refusal is never caused by a stale registration: in every reachable state a live object is registered under a
    storage identity only if it uses that storage now (reused identities with dead entries included) -/
theorem no_live_stale_registration (ops : List AOp) (s o : Nat) :
    let st := AState.init.run ops
    o ∈ st.reg s → st.alive o = true → st.store o = some s :=
  fun hm ha => (registry_exact ops).exact s o hm ha

/-- **fresh vectors are writable at once**: an object just created over storage no live object uses — whatever that
    identity was used for before, whatever is still registered under it — accepts a write -/
theorem fresh_create_writable (ops : List AOp) (s : Nat) (c c' : List Nat) (s' : Nat) :
    let st := AState.init.run ops
    (∀ o, st.store o ≠ some s) →
    ((st.step (.create s c)).1.step (.write st.next s' c')).2 = false := by
  intro st hfree
  have hrun : (st.step (.create s c)).1 = AState.init.run (ops ++ [.create s c]) := by
    simp [AState.run, List.foldl_append, st]
  rw [hrun]
  refine unshared_always_writable (ops ++ [AOp.create s c]) st.next s s' c' ?_ ?_
  · rw [← hrun]
    have hst : ∀ (u : AState) (a b : Nat), (u.register a b).store = u.store := by
      intro u a b; unfold register; split <;> rfl
    simp [step, hst, setStore]
  · intro o' hne
    rw [← hrun]
    have hst : ∀ (u : AState) (a b : Nat), (u.register a b).store = u.store := by
      intro u a b; unfold register; split <;> rfl
    simp only [step, hst, setStore, setData_store, if_neg hne]
    exact hfree o'

/-- **former sharers become writable when the partner is collected**: if exactly two live objects share a storage and one
    of them dies, a write through the other is accepted -/
theorem writable_after_partner_collected (ops : List AOp) (o o' s s' : Nat) (c : List Nat) :
    let st := AState.init.run ops
    st.store o = some s → o' ≠ o → (∀ x, x ≠ o → x ≠ o' → st.store x ≠ some s) →
    ((st.step (.drop o')).1.step (.write o s' c)).2 = false := by
  intro st ho hne honly
  have hrun : (st.step (.drop o')).1 = AState.init.run (ops ++ [.drop o']) := by
    simp [AState.run, List.foldl_append, st]
  rw [hrun]
  refine unshared_always_writable (ops ++ [AOp.drop o']) o s s' c ?_ ?_
  · rw [← hrun]; simp only [step, setStore, if_neg hne.symm]; exact ho
  · intro x hx
    rw [← hrun]
    simp only [step, setStore]
    split
    · simp
    · rename_i hxo'; exact honly x hx hxo'

/-- **the tracker class refines "the set of registered pairs"**: drive `register` / `unregister` / `check_writable` directly,
    in any order, with any identities (reused at will) and with objects dying at any point, the only discipline being that
    `register` / `unregister` are passed live objects.  Then every `check_writable` raises AliasError iff two different live
    objects are registered (and not since unregistered) under that identity — dead references lingering in the registry,
    the paths on which the pruned list is or is not stored back and the deletion of empty entries never show. -/
theorem tracker_refines_spec (ops : List TOp) (v : TValidRun AState.init ops) (s : Nat) :
    let p := trun (AState.init, []) ops
    (p.1.tstep (.check s)).2 = true ↔ SpecShared p.1 p.2 s :=
  check_spec _ _ (trun_inv ops AState.init [] tinv_init v) s

/-! #### non-vacuity: identity reuse after the double initialisation of a table (the history of defect #18) -/

/-- table object 0 is created over storage 11, re-initialised over storage 12 (storage 11 is freed), then a fresh
    vector is created over the *reused* identity 11 and written: the write is accepted -/
example :
    let st := AState.init.run [.create 11 [1], .swap 0 12 [1], .create 11 [7, 8]]
    (st.step (.write 1 13 [9, 8])).2 = false := by decide

/-- two vectors over one caller-supplied tuple: the write is refused while both live, accepted after one dies -/
example :
    let st := AState.init.run [.create 5 [1, 2], .create 5 [1, 2]]
    (st.step (.write 0 6 [9, 2])).2 = true ∧ ((st.step (.drop 1)).1.step (.write 0 6 [9, 2])).2 = false := by decide

/-- tracker level: two live objects under identity 7 are refused; after one dies the other is accepted although its dead
    reference still sits in the registry; a new object registered under the recycled identity is shared again -/
example : (((trun (AState.init, []) [.new, .new, .reg 0 7, .reg 1 7]).1.tstep (.check 7)).2 = true)
    ∧ (((trun (AState.init, []) [.new, .new, .reg 0 7, .reg 1 7, .kill 1]).1.tstep (.check 7)).2 = false)
    ∧ ((trun (AState.init, []) [.new, .new, .reg 0 7, .reg 1 7, .kill 1]).1.reg 7 = [0, 1])
    ∧ (((trun (AState.init, []) [.new, .new, .reg 0 7, .reg 1 7, .kill 1, .new, .reg 2 7]).1.tstep (.check 7)).2 = true) := by
  decide

end Serif.C15
