/-
  C07 — masks and indexing follow Python sequence semantics and compose.
  Property theorems only; helper lemmas live in Serif/Proofs/Index.lean.
  All statements are about the definitions of Serif/Model/Index.lean that the driver executes.
-/
import Serif.Proofs.Index
import Serif.Gen.Consts

namespace Serif.C07
open Serif.Index

variable {ν α β : Type}

/-! #### `v[i]` is the i-th element (Python subscripts: negative from the end, else IndexError) -/

theorem getitem_int (v : Vec ν α) (k : Nat) (h : k < v.data.length) :
    getitem v (.int k) = .ok (.scalar v.data[k]) := by
  have hn : normIndex v.data.length (k : Int) = .ok k := by
    unfold normIndex; simp [h]
  simp only [getitem]
  rw [getIdx_of_norm hn]; rfl

theorem getitem_int_neg (v : Vec ν α) (k : Nat) (h1 : 1 ≤ k) (h : k ≤ v.data.length) :
    getitem v (.int (-(k : Int))) = .ok (.scalar (v.data[v.data.length - k]'(by omega))) := by
  have hn : normIndex v.data.length (-(k : Int)) = .ok (v.data.length - k) := by
    unfold normIndex
    have h0 : ¬ (0 : Int) ≤ -(k : Int) := by omega
    have h2 : (0 : Int) ≤ -(k : Int) + v.data.length := by omega
    simp only [h0, h2, if_false, if_true, Except.ok.injEq]
    omega
  simp only [getitem]
  rw [getIdx_of_norm hn]; rfl

theorem getitem_int_out_of_range (v : Vec ν α) (i : Int)
    (h : (v.data.length : Int) ≤ i ∨ i < -(v.data.length : Int)) :
    getitem v (.int i) = .error .index := by
  have hn : normIndex v.data.length i = .error .index := by
    unfold normIndex
    rcases h with h | h
    · have h0 : (0 : Int) ≤ i := by omega
      have h1 : ¬ i < v.data.length := by omega
      simp [h0, h1]
    · have h0 : ¬ (0 : Int) ≤ i := by omega
      have h1 : ¬ (0 : Int) ≤ i + v.data.length := by omega
      simp [h0, h1]
  simp only [getitem]
  rw [getIdx_of_norm_error hn]; rfl

/-! #### slices -/

/-- `v[s]` holds exactly the elements at the positions `sliceIndices` (CPython's `slice.indices` + `range`),
    in that order, under the same name and dtype; it raises iff the step is 0 -/
theorem getitem_slice_eq_list_slice (v : Vec ν α) (s : Slice) :
    getitem v (.slice s)
      = rmap (fun idxs => .vec { data := gather v.data idxs, dtype := v.dtype, name := v.name })
          (sliceIndices v.data.length s) := by
  simp only [getitem]
  cases sliceIndices v.data.length s <;> rfl

/-- what the selected positions are, for every start/stop/step: position `j` of the result is
    `start' + j·step` (normalised start), all of them inside `0..n-1`, and there are exactly as many as
    stay strictly before `stop'` in the direction of the step — empty, reversed and out-of-range
    slices included -/
theorem slice_positions {n : Nat} {s : Slice} {a b c : Int} {idxs : List Nat}
    (ht : sliceTriple n s = .ok (a, b, c)) (hi : sliceIndices n s = .ok idxs) :
    c ≠ 0 ∧
    (∀ j : Nat, j < idxs.length ↔ (if 0 < c then a + j * c < b else b < a + j * c)) ∧
    (∀ j : Nat, j < idxs.length → 0 ≤ a + j * c ∧ a + j * c < n ∧ idxs[j]? = some (a + j * c).toNat) := by
  obtain ⟨hl, hs⟩ := sliceIndices_spec ht hi
  have hc := (sliceTriple_bounds ht).1
  refine ⟨hc, ?_, fun j hj => hs j (hl ▸ hj)⟩
  intro j
  rw [hl]
  by_cases hp : 0 < c
  · simp only [hp, if_true]; exact rangeLen_pos_iff a b c hp j
  · simp only [hp, if_false]; exact rangeLen_neg_iff a b c (by omega) j

/-- the values of a slice, position by position -/
theorem slice_values (v : Vec ν α) (s : Slice) (idxs : List Nat) (hi : sliceIndices v.data.length s = .ok idxs) :
    ∃ r, getitem v (.slice s) = .ok (.vec r) ∧ r.name = v.name ∧ r.dtype = v.dtype ∧
      r.data.length = idxs.length ∧ ∀ j : Nat, r.data[j]? = idxs[j]?.bind (v.data[·]?) := by
  refine ⟨{ data := gather v.data idxs, dtype := v.dtype, name := v.name }, by rw [getitem_slice_eq_list_slice, hi]; rfl, rfl, rfl, ?_, ?_⟩
  · exact gather_length _ _ (sliceIndices_lt hi)
  · exact gather_getElem? _ _ (sliceIndices_lt hi)

/-- a zero step is rejected, everything else is answered -/
theorem slice_error_iff (v : Vec ν α) (s : Slice) :
    (∃ e, getitem v (.slice s) = .error e) ↔ s.step = some 0 := by
  rw [getitem_slice_eq_list_slice]
  unfold sliceIndices sliceTriple
  cases hs : s.step with
  | none => simp [rmap]
  | some c =>
    by_cases hc : c = 0
    · simp [hc, rmap]
    · simp [hc, rmap]

/-- `typeutils.slice_length(s, n)` is the number of positions the slice selects (what `__setitem__` relies on) -/
theorem slice_length_correct (n : Nat) (s : Slice) :
    sliceLength n s = rmap List.length (sliceIndices n s) := by
  rw [sliceLength_eq_count, sliceIndices_length]

/-- tie to the source: `typeutils.slice_length`, executed by the extractor on this run over every slice with
    members in {None,-3,-1,0,1,2,4}, steps in {None,±1,±2,0} and n ≤ 3, is the model's `sliceLength`
    (whole finite table, in the kernel) -/
theorem slice_length_table_agrees : ∀ e ∈ Gen.sliceLengthTable, sliceLengthRowOk e = true := by decide +kernel

/-- the table was really extracted (an empty table would make the previous statement vacuous) -/
theorem slice_length_table_complete : Gen.sliceLengthTable.length = 1176 := by decide +kernel

/-- `v[a:b]` is `drop a` then `take (b - a)`, for all natural `a`, `b` (beyond the end, `b < a`, `a = b` included) -/
theorem slice_step_one (v : Vec ν α) (a b : Nat) :
    getitem v (.slice ⟨some a, some b, none⟩)
      = .ok (.vec { data := (v.data.drop a).take (b - a), dtype := v.dtype, name := v.name }) := by
  have ht : sliceTriple v.data.length ⟨some a, some b, none⟩
      = .ok (min (a : Int) v.data.length, min (b : Int) v.data.length, 1) := by
    simp only [sliceTriple, Option.getD_none, clamp]
    simp only [Int.reduceEq, if_false, Int.reduceLT, Except.ok.injEq, Prod.mk.injEq, and_true]
    constructor <;> (repeat' split) <;> omega
  cases hi : sliceIndices v.data.length ⟨some a, some b, none⟩ with
  | error e => simp [sliceIndices, ht] at hi
  | ok idxs =>
    obtain ⟨_, hiff, hval⟩ := slice_positions ht hi
    obtain ⟨r, hr, hn, hd, hlen, hget⟩ := slice_values v _ idxs hi
    rw [hr]
    congr 2
    cases r with
    | mk rd rdt rn =>
      simp only at hn hd hlen hget
      subst hn hd
      congr 1
      apply List.ext_getElem?
      intro j
      rw [hget j, List.getElem?_take]
      have hj := hiff j
      simp only [Int.reduceLT, if_true, Int.mul_one] at hj
      by_cases hlt : j < idxs.length
      · obtain ⟨_, _, hv⟩ := hval j hlt
        simp only [Int.mul_one] at hv
        have hjj := hj.mp hlt
        have h1 : j < b - a := by omega
        have h2 : (min (a : Int) v.data.length + j).toNat = a + j := by omega
        rw [hv, if_pos h1, List.getElem?_drop, h2]; rfl
      · have hnone : idxs[j]? = none := List.getElem?_eq_none (by omega)
        rw [hnone]
        have hjj : ¬ (min (a : Int) v.data.length + j < min (b : Int) v.data.length) := fun h => hlt (hj.mpr h)
        by_cases h1 : j < b - a
        · rw [if_pos h1, List.getElem?_drop]
          have : v.data.length ≤ a + j := by omega
          rw [List.getElem?_eq_none this]; rfl
        · rw [if_neg h1]; rfl

/-- `v[::-1]` is the reversed vector -/
theorem slice_reverse (v : Vec ν α) :
    getitem v (.slice ⟨none, none, some (-1)⟩)
      = .ok (.vec { data := v.data.reverse, dtype := v.dtype, name := v.name }) := by
  have ht : sliceTriple v.data.length ⟨none, none, some (-1)⟩ = .ok ((v.data.length : Int) - 1, -1, -1) := by
    simp [sliceTriple]
  cases hi : sliceIndices v.data.length ⟨none, none, some (-1)⟩ with
  | error e => simp [sliceIndices, ht] at hi
  | ok idxs =>
    obtain ⟨_, hiff, hval⟩ := slice_positions ht hi
    obtain ⟨r, hr, hn, hd, hlen, hget⟩ := slice_values v _ idxs hi
    rw [hr]
    congr 2
    cases r with
    | mk rd rdt rn =>
      simp only at hn hd hlen hget
      subst hn hd
      congr 1
      apply List.ext_getElem?
      intro j
      rw [hget j]
      have hj := hiff j
      simp only [Int.reduceLT, if_false] at hj
      have hm : (j : Int) * -1 = -(j : Int) := by omega
      by_cases hlt : j < idxs.length
      · obtain ⟨_, _, hv⟩ := hval j hlt
        have hjj := hj.mp hlt
        rw [hm] at hv hjj
        have h2 : ((v.data.length : Int) - 1 + -(j : Int)).toNat = v.data.length - 1 - j := by omega
        rw [hv, List.getElem?_reverse (by omega), h2]; rfl
      · have hnone : idxs[j]? = none := List.getElem?_eq_none (by omega)
        rw [hnone]
        have hjj : ¬ (-1 < (v.data.length : Int) - 1 + (j : Int) * -1) := fun h => hlt (hj.mpr h)
        rw [hm] at hjj
        rw [List.getElem?_eq_none (by simp; omega)]; rfl

/-! #### boolean masks -/

/-- a boolean list of the right length keeps exactly the positions holding `True`, in order,
    under the same name and dtype -/
theorem getitem_mask_eq_filter (v : Vec ν α) (ms : List Bool) (hne : ms ≠ []) (hl : v.data.length = ms.length) :
    getitem v (.list (ms.map .bool))
      = .ok (.vec { data := ((v.data.zip ms).filter (·.2)).map (·.1), dtype := v.dtype, name := v.name }) := by
  have h1 : (ms.map KElem.bool ≠ [] ∧ (ms.map KElem.bool).all KElem.isBool = true) := by
    exact ⟨by simpa using hne, all_isBool_map ms⟩
  have h2 : (ms.map KElem.bool).map KElem.truthy = ms := truthy_bool_map ms
  simp only [getitem]
  rw [if_pos h1, h2]
  simp [maskGet, hl, maskSel_eq_filter, copyWith]

/-- the same for a non-nullable boolean Vector used as mask (the empty mask included) -/
theorem getitem_maskvec_eq_filter (v : Vec ν α) (ms : List Bool) (hl : v.data.length = ms.length) :
    getitem v (.vec (some ⟨.bool, false⟩) (ms.map .bool))
      = .ok (.vec { data := ((v.data.zip ms).filter (·.2)).map (·.1), dtype := v.dtype, name := v.name }) := by
  have h2 : (ms.map KElem.bool).map KElem.truthy = ms := truthy_bool_map ms
  simp only [getitem, and_self, if_true]
  rw [h2]
  simp [maskGet, hl, maskSel_eq_filter, copyWith]

/-- a mask of the wrong length is an error, as list and as Vector -/
theorem getitem_mask_wrong_length (v : Vec ν α) (ms : List Bool) (hl : v.data.length ≠ ms.length) :
    (ms ≠ [] → getitem v (.list (ms.map .bool)) = .error .value) ∧
    getitem v (.vec (some ⟨.bool, false⟩) (ms.map .bool)) = .error .value := by
  have h2 : (ms.map KElem.bool).map KElem.truthy = ms := truthy_bool_map ms
  constructor
  · intro hne
    have h1 : (ms.map KElem.bool ≠ [] ∧ (ms.map KElem.bool).all KElem.isBool = true) := by
      exact ⟨by simpa using hne, all_isBool_map ms⟩
    simp only [getitem]
    rw [if_pos h1, h2]
    simp [maskGet, hl]
  · simp only [getitem, and_self, if_true]
    rw [h2]
    simp [maskGet, hl]

/-- an integer list `v[[i₁, i₂, …]]` is `[v[i₁], v[i₂], …]` (Python subscripts, in key order, repeats allowed),
    under the same name and dtype; one subscript out of range makes it an error -/
theorem getitem_ints_eq_map (v : Vec ν α) (is : List Int) (hne : is ≠ []) :
    getitem v (.list (is.map .int))
      = rmap (fun xs => .vec { data := xs, dtype := v.dtype, name := v.name }) (mapRes (getIdx v.data) is) := by
  have hb : ¬ ((is.map KElem.int) ≠ [] ∧ (is.map KElem.int).all KElem.isBool = true) := by
    cases is with
    | nil => exact absurd rfl hne
    | cons i is => simp [KElem.isBool]
  have hi : (is.map KElem.int) ≠ [] ∧ (is.map KElem.int).all KElem.isInt = true := by
    refine ⟨by simpa using hne, ?_⟩
    clear hb hne
    induction is with
    | nil => rfl
    | cons i is ih => simp only [List.map_cons, List.all_cons, ih]; rfl
  have hm : mapRes (elemGet v.data) (is.map KElem.int) = mapRes (getIdx v.data) is := by
    clear hb hi hne
    induction is with
    | nil => rfl
    | cons i is ih => simp only [List.map_cons, mapRes, ih]; rfl
  simp only [getitem]
  rw [if_neg hb, if_pos hi]
  unfold intsGet
  rw [hm]
  cases mapRes (getIdx v.data) is <;> rfl

/-- masking never reorders or invents elements -/
theorem mask_sublist (xs : List α) (ms : List Bool) : (((xs.zip ms).filter (·.2)).map (·.1)).Sublist xs := by
  rw [← maskSel_eq_filter]; exact maskSel_sublist xs ms

/-- every selecting key (slice, mask, integer list/Vector) returns the elements at a list of positions that
    depends only on the key and the length — never on the elements — and keeps name and dtype -/
theorem getitem_positions_only (v : Vec ν α) (k : Key) (hk : k.isSel = true) :
    selVec v k = rmap (fun idxs => { data := gather v.data idxs, dtype := v.dtype, name := v.name })
      (selIndices v.data.length k) ∧
    ∀ idxs, selIndices v.data.length k = .ok idxs → ∀ i ∈ idxs, i < v.data.length :=
  ⟨getitem_eq_gather v k hk, fun _ h => selIndices_lt h⟩

/-! #### comparisons and logical operators -/

/-- list / tuple operands take the same path as Vector operands -/
theorem compare_iter_eq_vec (cmp : α → β → Res Bool) (xs : List (Option α)) (ys : List (Option β)) :
    (Index.compare cmp xs (.iter ys) : Res (Vec ν Bool)) = Index.compare cmp xs (.vec ys) := rfl

/-- whatever is returned is a non-nullable bool vector of the operand's length -/
theorem compare_result_nonnullable_bool (cmp : α → β → Res Bool) (xs : List (Option α)) (o : Operand β)
    (r : Vec ν Bool) (h : Index.compare cmp xs o = .ok r) :
    r.dtype = some ⟨.bool, false⟩ ∧ r.data.length = xs.length := by
  have key : ∀ (q : Res (List Bool)), rmap (boolVec (ν := ν)) q = .ok r → ∃ bs, q = .ok bs ∧ r = boolVec bs := by
    intro q hq
    cases q with
    | error e => cases hq
    | ok bs => exact ⟨bs, rfl, by simpa [rmap] using hq.symm⟩
  cases o with
  | vec ys =>
    simp only [Index.compare] at h
    split at h
    · cases h
    · next hl =>
      obtain ⟨bs, hq, rfl⟩ := key _ h
      exact ⟨rfl, zipRes_length (by omega) hq⟩
  | iter ys =>
    simp only [Index.compare] at h
    split at h
    · cases h
    · next hl =>
      obtain ⟨bs, hq, rfl⟩ := key _ h
      exact ⟨rfl, zipRes_length (by omega) hq⟩
  | scalar y =>
    simp only [Index.compare] at h
    obtain ⟨bs, hq, rfl⟩ := key _ h
    exact ⟨rfl, mapRes_length hq⟩

/-- Vector ∘ Vector: where both elements are present the result is Python's own comparison of them -/
theorem compare_pointwise (cmp : α → β → Res Bool) (xs : List (Option α)) (ys : List (Option β))
    (r : Vec ν Bool) (h : Index.compare cmp xs (.vec ys) = .ok r) (i : Nat) (x : α) (y : β)
    (hx : xs[i]? = some (some x)) (hy : ys[i]? = some (some y)) :
    ∃ b, cmp x y = .ok b ∧ r.data[i]? = some b := by
  simp only [Index.compare] at h
  split at h
  · cases h
  · cases hz : zipRes (cmpPair cmp) xs ys with
    | error e => rw [hz] at h; cases h
    | ok bs =>
      rw [hz] at h; simp only [rmap, Except.ok.injEq] at h; subst h
      obtain ⟨b, hb, hbs⟩ := zipRes_getElem? hz hx hy
      exact ⟨b, hb, hbs⟩

/-- Vector ∘ Vector: a None on either side gives False at that position -/
theorem compare_none_false (cmp : α → β → Res Bool) (xs : List (Option α)) (ys : List (Option β))
    (r : Vec ν Bool) (h : Index.compare cmp xs (.vec ys) = .ok r) (i : Nat) (ox : Option α) (oy : Option β)
    (hx : xs[i]? = some ox) (hy : ys[i]? = some oy) (hnone : ox = none ∨ oy = none) :
    r.data[i]? = some false := by
  simp only [Index.compare] at h
  split at h
  · cases h
  · cases hz : zipRes (cmpPair cmp) xs ys with
    | error e => rw [hz] at h; cases h
    | ok bs =>
      rw [hz] at h; simp only [rmap, Except.ok.injEq] at h; subst h
      obtain ⟨b, hb, hbs⟩ := zipRes_getElem? hz hx hy
      rcases hnone with rfl | rfl
      · simp only [cmpPair, Except.ok.injEq] at hb; subst hb; exact hbs
      · cases ox <;> (simp only [cmpPair, Except.ok.injEq] at hb; subst hb; exact hbs)

/-- Vector ∘ scalar: elementwise against the scalar, None ↦ False -/
theorem compare_scalar_pointwise (cmp : α → β → Res Bool) (xs : List (Option α)) (y : β)
    (r : Vec ν Bool) (h : Index.compare cmp xs (.scalar y) = .ok r) (i : Nat) :
    (∀ x, xs[i]? = some (some x) → ∃ b, cmp x y = .ok b ∧ r.data[i]? = some b) ∧
    (xs[i]? = some none → r.data[i]? = some false) := by
  simp only [Index.compare] at h
  cases hz : mapRes (cmpScalar cmp y) xs with
  | error e => rw [hz] at h; cases h
  | ok bs =>
    rw [hz] at h; simp only [rmap, Except.ok.injEq] at h; subst h
    constructor
    · intro x hx
      obtain ⟨b, hb, hbs⟩ := mapRes_getElem? hz hx
      exact ⟨b, hb, hbs⟩
    · intro hx
      obtain ⟨b, hb, hbs⟩ := mapRes_getElem? hz hx
      simp only [cmpScalar, Except.ok.injEq] at hb; subst hb; exact hbs

/-- the comparison is answered whenever the lengths agree and Python defines every scalar comparison it
    needs; a length mismatch or a raising scalar comparison is an error -/
theorem compare_defined_iff (cmp : α → β → Res Bool) (xs : List (Option α)) (ys : List (Option β)) :
    (∃ r : Vec ν Bool, Index.compare cmp xs (.vec ys) = .ok r) ↔
      xs.length = ys.length ∧
      ∀ (i : Nat) (x : α) (y : β), xs[i]? = some (some x) → ys[i]? = some (some y) → ∃ b, cmp x y = .ok b := by
  constructor
  · rintro ⟨r, h⟩
    have hl : xs.length = ys.length := by
      simp only [Index.compare] at h
      split at h
      · cases h
      · omega
    refine ⟨hl, fun i x y hx hy => ?_⟩
    obtain ⟨b, hb, _⟩ := compare_pointwise cmp xs ys r h i x y hx hy
    exact ⟨b, hb⟩
  · rintro ⟨hl, hall⟩
    have : ∃ zs, zipRes (cmpPair cmp) xs ys = .ok zs := by
      apply zipRes_ok_of_forall
      intro i ox oy hx hy
      cases ox with
      | none => exact ⟨false, rfl⟩
      | some x =>
        cases oy with
        | none => exact ⟨false, rfl⟩
        | some y => exact hall i x y hx hy
    obtain ⟨zs, hz⟩ := this
    exact ⟨boolVec zs, by simp [Index.compare, hl, hz, rmap]⟩

/-! #### tables -/

/-- a row selection (slice, boolean mask, integer Vector) restricts every column to the same rows: there is
    one position list, determined by the key and the row count alone, and every column of the result is the
    gather of the corresponding column at those positions, with its name and dtype; if the key raises
    (zero step, mask of the wrong length, subscript out of range) or is no row selection, no table comes back -/
theorem table_rowsel_uniform [DecidableEq ν] (ops : NameOps ν) (t : Tab ν α) (n : Nat)
    (hR : t.Rect n) (hne : t.cols ≠ []) (k : Key) :
    ok? (asTab (getitemTab ops t (.row k)))
      = (tabSel n k).map (fun idxs => ⟨t.cols.map (fun c => { data := gather c.data idxs, dtype := c.dtype, name := c.name })⟩) :=
  rowBranch_eq ops hR hne k

/-- a boolean mask whose length is not the row count is an error -/
theorem table_mask_wrong_length [DecidableEq ν] (ops : NameOps ν) (t : Tab ν α) (ms : List Bool)
    (hl : t.nrows ≠ ms.length) :
    getitemTab ops t (.row (.vec (some ⟨.bool, false⟩) (ms.map .bool))) = .error .other ∧
    (ms ≠ [] → getitemTab ops t (.row (.list (ms.map .bool))) = .error .other) := by
  constructor
  · simp [getitemTab, maskRows, hl]
  · intro hne
    have h1 : (ms.map KElem.bool ≠ [] ∧ (ms.map KElem.bool).all KElem.isBool = true) := by
      exact ⟨by simpa using hne, all_isBool_map ms⟩
    simp only [getitemTab]
    rw [if_pos h1]
    simp [maskRows, hl]

/-- a string that no column answers to (neither by exact name nor by a sanitised form) is an error, and
    conversely a lookup only fails that way -/
theorem missing_column_errors [DecidableEq ν] (ops : NameOps ν) (cols : List (Vec ν α)) (key : ν) :
    (∀ j c, cols[j]? = some c → answers ops key j c.name = false) ↔ resolve ops cols key = .error .key := by
  unfold resolve
  constructor
  · intro h
    have h1 : findCol (fun _ nm => nm == some key) 0 cols = none := by
      rw [findCol_none]; intro j c hc
      have := h j c hc; simp only [answers, Bool.or_eq_false_iff] at this; exact this.1
    have h2 : findCol (matchSan ops (ops.lower key)) 0 cols = none := by
      rw [findCol_none]; intro j c hc
      have := h j c hc; simp only [answers, Bool.or_eq_false_iff] at this
      simpa using this.2
    rw [h1, h2]
  · intro h j c hc
    cases h1 : findCol (fun _ nm => nm == some key) 0 cols with
    | some c1 => rw [h1] at h; cases h
    | none =>
      rw [h1] at h
      cases h2 : findCol (matchSan ops (ops.lower key)) 0 cols with
      | some c2 => rw [h2] at h; cases h
      | none =>
        have a := findCol_none.mp h1 j c hc
        have b := findCol_none.mp h2 j c hc
        simp only [Nat.zero_add] at a b
        simp [answers, a, b]

/-- in a multi-name selection one missing name makes the whole selection an error (nothing is dropped
    silently), also in the 2-D form `t[rows, names]` -/
theorem missing_column_errors_multi [DecidableEq ν] (ops : NameOps ν) (t : Tab ν α) (ks : List ν) (k : ν)
    (hk : k ∈ ks) (hmiss : ∀ j c, t.cols[j]? = some c → answers ops k j c.name = false) :
    (∃ e, getitemTab ops t (.names ks) = .error e) ∧
    ∀ s, ∃ e, getitemTab ops t (.two (.slice s) (.names ks)) = .error e := by
  constructor
  · have := (missing_column_errors ops t.cols k).mp hmiss
    obtain ⟨e, he⟩ := mapRes_error_of_mem hk this
    exact ⟨e, by simp [getitemTab, selectNames, he]⟩
  · intro s
    simp only [getitemTab, getTwo, Spec.isRow, if_true]
    cases hr : rowsel t (.slice s) with
    | error e => exact ⟨e, rfl⟩
    | ok rs =>
      simp only
      have hmiss' : ∀ j c, rs.cols[j]? = some c → answers ops k j c.name = false := by
        intro j c hc
        unfold rowsel at hr
        cases hm : mapRes (fun c => selVec c (.slice s)) t.cols with
        | error e => rw [hm] at hr; cases hr
        | ok cs =>
          rw [hm] at hr; simp only [rmap, Except.ok.injEq] at hr; subst hr
          have hlen := mapRes_length hm
          have hj : j < t.cols.length := by
            have := (List.getElem?_eq_some_iff.mp hc).1; simp only at this; omega
          obtain ⟨c', hsel, hc'⟩ := mapRes_getElem? hm (List.getElem?_eq_getElem hj)
          simp only at hc
          rw [hc] at hc'; simp only [Option.some.injEq] at hc'; subst hc'
          have hname : c.name = (t.cols[j]).name := by
            rw [getitem_eq_gather _ _ rfl] at hsel
            cases hq : selIndices (t.cols[j]).data.length (.slice s) with
            | error e => rw [hq] at hsel; cases hsel
            | ok idxs => rw [hq] at hsel; simp only [rmap, Except.ok.injEq] at hsel; rw [← hsel]; rfl
          rw [hname]
          exact hmiss j _ (List.getElem?_eq_getElem hj)
      have := (missing_column_errors ops rs.cols k).mp hmiss'
      obtain ⟨e, he⟩ := mapRes_error_of_mem hk this
      exact ⟨e, by simp [selectNames, he]⟩

/-- a successful lookup returns a column of the table that answers to the key; an exact name wins over
    every sanitised form, and among equals the leftmost column wins -/
theorem resolve_sound [DecidableEq ν] (ops : NameOps ν) (cols : List (Vec ν α)) (key : ν) (c : Vec ν α)
    (h : resolve ops cols key = .ok c) :
    ∃ j, cols[j]? = some c ∧ answers ops key j c.name = true ∧
      ((∃ c' ∈ cols, c'.name = some key) → c.name = some key ∧
        ∀ j' c', j' < j → cols[j']? = some c' → c'.name ≠ some key) := by
  unfold resolve at h
  cases h1 : findCol (fun _ nm => nm == some key) 0 cols with
  | some c1 =>
    rw [h1] at h; simp only [Except.ok.injEq] at h; subst h
    obtain ⟨j, hj, hp, hmin⟩ := findCol_some h1
    have hp' : c1.name = some key := by simpa using hp
    refine ⟨j, hj, by simp [answers, hp'], fun _ => ⟨hp', ?_⟩⟩
    intro j' c' hlt hc'
    have := hmin j' c' hlt hc'
    simpa using this
  | none =>
    rw [h1] at h
    cases h2 : findCol (matchSan ops (ops.lower key)) 0 cols with
    | none => rw [h2] at h; cases h
    | some c2 =>
      rw [h2] at h; simp only [Except.ok.injEq] at h; subst h
      obtain ⟨j, hj, hp, _⟩ := findCol_some h2
      simp only [Nat.zero_add] at hp
      refine ⟨j, hj, by simp [answers, hp], ?_⟩
      rintro ⟨c', hc', hn⟩
      obtain ⟨j', hj'⟩ := List.getElem?_of_mem hc'
      have := findCol_none.mp h1 j' c' hj'
      simp [hn] at this

/-- a multi-name selection returns one column per requested name, in request order, repeats included -/
theorem select_names_columns [DecidableEq ν] (ops : NameOps ν) (t : Tab ν α) (ks : List ν) (t' : Tab ν α)
    (h : getitemTab ops t (.names ks) = .ok (.tab t')) :
    t'.cols.length = ks.length ∧
    ∀ (i : Nat) (k : ν), ks[i]? = some k → ∃ c, resolve ops t.cols k = .ok c ∧ t'.cols[i]? = some c := by
  simp only [getitemTab, selectNames] at h
  cases hm : mapRes (resolve ops t.cols) ks with
  | error e => rw [hm] at h; cases h
  | ok cs =>
    rw [hm] at h; simp only [rmap, Except.ok.injEq, TItem.tab.injEq] at h; subst h
    exact ⟨mapRes_length hm, fun i k hk => mapRes_getElem? hm hk⟩

/-- the 2-D form is the sequential form, whichever member comes first:
    `t[s, names] = t[names, s] = t[s][names]` -/
theorem two_d_eq_sequential [DecidableEq ν] (ops : NameOps ν) (t : Tab ν α) (s : Slice) (ks : List ν) :
    getitemTab ops t (.two (.names ks) (.slice s)) = getitemTab ops t (.two (.slice s) (.names ks)) ∧
    asTab (getitemTab ops t (.two (.slice s) (.names ks))) = rowsThenCols ops t (.slice s) ks := by
  constructor
  · rfl
  · simp only [getitemTab, getTwo, Spec.isRow, if_true, rowsThenCols, asTab_rmap_tab]
    cases rowsel t (.slice s) with
    | error e => rfl
    | ok rs => simp only [asTab_rmap_tab]

/-- row selection and column selection commute: `t[rows][names]` and `t[names][rows]` either both fail or
    return the same table (same cells, same names, same dtypes, same column order) — for every key in the
    row position (slices, masks of the right or wrong length, integer Vectors, and keys that select nothing)
    and every non-empty tuple of names with repeats and missing names -/
theorem select_commute [DecidableEq ν] (ops : NameOps ν) (t : Tab ν α) (n : Nat)
    (hR : t.Rect n) (hne : t.cols ≠ []) (k : Key) (ks : List ν) (hks : ks ≠ []) :
    ok? (rowsThenCols ops t k ks) = ok? (colsThenRows ops t k ks) := by
  have hg : ∀ idxs (c : Vec ν α), (gatherCol idxs c).name = c.name := fun _ _ => rfl
  -- left: rows first
  have hL : ok? (rowsThenCols ops t k ks)
      = (tabSel n k).bind (fun idxs => (ok? (selectNames ops t.cols ks)).map (gatherTab idxs)) := by
    have h := rowBranch_eq ops hR hne k
    unfold rowsThenCols
    cases hb : asTab (getitemTab ops t (.row k)) with
    | error e =>
      rw [hb] at h
      cases hs : tabSel n k with
      | none => rfl
      | some idxs => rw [hs] at h; cases h
    | ok t' =>
      rw [hb] at h
      cases hs : tabSel n k with
      | none => rw [hs] at h; cases h
      | some idxs =>
        rw [hs] at h
        simp only [ok?_ok, Option.map_some, Option.some.injEq] at h
        subst h
        simp only [getitemTab, asTab_rmap_tab, Option.bind_some, gatherTab]
        rw [selectNames_map ops (gatherCol idxs) (hg idxs), ok?_rmap]
        rfl
  -- right: names first
  have hRt : ok? (colsThenRows ops t k ks)
      = (ok? (selectNames ops t.cols ks)).bind (fun t' => (tabSel n k).map (fun idxs => gatherTab idxs t')) := by
    unfold colsThenRows
    simp only [getitemTab, asTab_rmap_tab]
    cases hs : selectNames ops t.cols ks with
    | error e => rfl
    | ok t' =>
      simp only [ok?_ok, Option.bind_some]
      unfold selectNames at hs
      cases hm : mapRes (resolve ops t.cols) ks with
      | error e => rw [hm] at hs; cases hs
      | ok cs =>
        rw [hm] at hs; simp only [rmap, Except.ok.injEq] at hs; subst hs
        have hR' : (Tab.mk cs).Rect n := by
          intro c hc
          obtain ⟨k', _, hk'⟩ := mapRes_mem hm hc
          exact hR c (resolve_mem hk')
        have hne' : (Tab.mk cs).cols ≠ [] := by
          intro h0
          have := mapRes_length hm
          simp only at h0
          rw [h0] at this
          exact hks (List.eq_nil_of_length_eq_zero this.symm)
        exact rowBranch_eq ops hR' hne' k
  rw [hL, hRt]
  cases tabSel n k <;> cases ok? (selectNames ops t.cols ks) <;> rfl

/-! #### non-vacuity: the hypotheses are satisfiable and the statements bite on concrete inputs -/

section examples
def v5 : Vec String Nat := { data := [10, 11, 12, 13, 14], dtype := some ⟨.int, false⟩, name := some "x" }

example : getitem v5 (.slice ⟨some 5, some 9, none⟩) = .ok (.vec { v5 with data := [] }) := by decide
example : getitem v5 (.slice ⟨some 2, some 2, none⟩) = .ok (.vec { v5 with data := [] }) := by decide
example : getitem v5 (.slice ⟨some (-2), none, some (-2)⟩) = .ok (.vec { v5 with data := [13, 11] }) := by decide
example : getitem v5 (.slice ⟨none, none, some 0⟩) = .error .value := by decide
example : sliceLength 5 ⟨some (-2), none, some (-2)⟩ = .ok 2 := by decide
example : getitem v5 (.list [.bool true, .bool false, .bool true, .bool false, .bool false])
    = .ok (.vec { v5 with data := [10, 12] }) := by decide
example : getitem v5 (.list [.bool true]) = .error .value := by decide
example : getitem v5 (.vec (some ⟨.int, false⟩) [.int (-1), .int 0]) = .ok (.vec { v5 with data := [14, 10] }) := by decide
example : getitem v5 (.list []) = .error .type := by decide

def opsEx : NameOps String :=
  { lower := fun s => if s = "A_B" then "a_b" else s
    sanitize := fun s => if s = "A b" then some "a_b" else if s = "!!" then none else some s
    uniq := fun b i => b ++ "__" ++ toString i
    sys := fun i => "col" ++ toString i ++ "_" }
def tEx : Tab String Nat :=
  ⟨[{ data := [1, 2, 3], dtype := none, name := some "a" }, { data := [4, 5, 6], dtype := none, name := some "A b" },
    { data := [7, 8, 9], dtype := none, name := some "a" }, { data := [0, 0, 0], dtype := none, name := none }]⟩

example : tEx.Rect 3 := by simp [Tab.Rect, tEx]
example : ok? (rowsThenCols opsEx tEx (.slice ⟨some 1, none, none⟩) ["A_B", "a", "a__2", "col3_"])
    = some ⟨[{ data := [5, 6], dtype := none, name := some "A b" }, { data := [2, 3], dtype := none, name := some "a" },
             { data := [8, 9], dtype := none, name := some "a" }, { data := [0, 0], dtype := none, name := none }]⟩ := by decide
example : ok? (colsThenRows opsEx tEx (.slice ⟨some 1, none, none⟩) ["A_B", "a", "a__2", "col3_"])
    = ok? (rowsThenCols opsEx tEx (.slice ⟨some 1, none, none⟩) ["A_B", "a", "a__2", "col3_"]) := by decide
example : getitemTab opsEx tEx (.names ["a", "missing"]) = .error .key := by decide
example : (Index.compare (ν := String) (fun (x y : Nat) => .ok (decide (x < y))) [some 1, none, some 5] (.vec [some 2, some 3, none])).toOption
    = some (boolVec [true, false, false]) := by decide
end examples

end Serif.C07
