/-
  C04 — dtype inference and promotion form an order-independent lattice.
  Property theorems only; helper lemmas live in Serif/Proofs.
-/
import Serif.Proofs.DType
import Serif.Gen.Consts

namespace Serif.C04

/-! #### the kind order is a join-semilattice -/

theorem join_comm (a b : Kind) : a.join b = b.join a := Kind.join_comm a b
theorem join_assoc (a b c : Kind) : (a.join b).join c = a.join (b.join c) := Kind.join_assoc a b c
theorem join_idem (a : Kind) : a.join a = a := Kind.join_idem a

/-- every kind is below `object`; the two ladders are what the statement says -/
theorem join_object (a : Kind) : a.join .object = .object := by
  cases a <;> simp [Kind.join, Kind.isNumeric, Kind.isTemporal]

theorem ladders :
    Kind.le .bool .int ∧ Kind.le .int .float ∧ Kind.le .float .complex ∧ Kind.le .date .datetime ∧
    Kind.join .int .str = .object ∧ Kind.join .date .int = .object ∧
    ∀ n m, n ≠ m → Kind.join (.other n) (.other m) = .object := by
  simp [Kind.le, Kind.join, Kind.isNumeric, Kind.isTemporal]

/-! #### inference = join of the kinds that occur, nullable iff None occurs -/

/-- the loop of `infer_dtype` computes the specification, for every sequence -/
theorem infer_eq_spec (l : List Tag) : infer l = inferSpec l := by
  unfold infer inferSpec
  rw [fold_none]
  cases kindsOf l <;> simp

/-- order independence: permuting the elements never changes the inferred dtype -/
theorem infer_perm {l₁ l₂ : List Tag} (h : l₁.Perm l₂) : infer l₁ = infer l₂ := by
  rw [infer_eq_spec, infer_eq_spec]
  unfold inferSpec
  have hk : (kindsOf l₁).Perm (kindsOf l₂) := h.filterMap _
  have hn : l₁.contains .none = l₂.contains .none := by
    simp only [List.contains_eq_mem]; congr 1; exact propext h.mem_iff
  cases h1 : kindsOf l₁ with
  | nil =>
    rw [h1] at hk; rw [List.nil_perm.mp hk]
  | cons k ks =>
    cases h2 : kindsOf l₂ with
    | nil => rw [h1, h2] at hk; exact absurd hk.symm (by simp)
    | cons k' ks' =>
      rw [h1, h2] at hk
      simp only [hn, DType.mk.injEq, and_true]
      have e1 : ks.foldl Kind.join k = (k :: ks).foldl Kind.join k := by
        simp [Kind.join_idem]
      have e2 : ks'.foldl Kind.join k' = (k' :: ks').foldl Kind.join k' := by
        simp [Kind.join_idem]
      rw [e1, e2, foldl_join_perm hk k]
      exact foldl_join_start_mem _ _ _ (hk.mem_iff.mp List.mem_cons_self) List.mem_cons_self

/-- the result depends only on *which* types occur (and whether None occurs):
    neither length, multiplicity nor position matters -/
theorem infer_depends_on_type_set {l₁ l₂ : List Tag} (h : ∀ t, t ∈ l₁ ↔ t ∈ l₂) :
    infer l₁ = infer l₂ := by
  rw [infer_eq_spec, infer_eq_spec]
  unfold inferSpec
  have hk : ∀ k, k ∈ kindsOf l₁ ↔ k ∈ kindsOf l₂ := by
    intro k
    simp only [kindsOf, List.mem_filterMap]
    constructor
    · rintro ⟨t, ht, e⟩; exact ⟨t, (h t).mp ht, e⟩
    · rintro ⟨t, ht, e⟩; exact ⟨t, (h t).mpr ht, e⟩
  have hn : l₁.contains .none = l₂.contains .none := by
    simp only [List.contains_eq_mem]; congr 1; exact propext (h _)
  cases h1 : kindsOf l₁ with
  | nil =>
    cases h2 : kindsOf l₂ with
    | nil => rfl
    | cons k' ks' =>
      have := (hk k').mpr (by rw [h2]; exact List.mem_cons_self)
      rw [h1] at this; cases this
  | cons k ks =>
    cases h2 : kindsOf l₂ with
    | nil =>
      have := (hk k).mp (by rw [h1]; exact List.mem_cons_self)
      rw [h2] at this; cases this
    | cons k' ks' =>
      simp only [hn, DType.mk.injEq, and_true]
      rw [h1, h2] at hk
      have e1 : ks.foldl Kind.join k = (k :: ks).foldl Kind.join k := by simp [Kind.join_idem]
      have e2 : ks'.foldl Kind.join k' = (k' :: ks').foldl Kind.join k' := by simp [Kind.join_idem]
      rw [e1, e2]
      have a := foldl_join_subset (k :: ks) (k' :: ks') k k' (fun x hx => (hk x).mp hx)
        (join_absorb_mem _ _ _ ((hk k).mp List.mem_cons_self))
      have b := foldl_join_subset (k' :: ks') (k :: ks) k' k (fun x hx => (hk x).mpr hx)
        (join_absorb_mem _ _ _ ((hk k').mpr List.mem_cons_self))
      rw [Kind.join_comm] at b
      rw [← a, b]

/-- None only ever adds nullability -/
theorem infer_nullable_iff (l : List Tag) (h : kindsOf l ≠ []) :
    (infer l).nullable = true ↔ Tag.none ∈ l := by
  rw [infer_eq_spec]; unfold inferSpec
  cases hk : kindsOf l with
  | nil => exact absurd hk h
  | cons k ks => simp

/-! #### promotion -/

/-- promoting never narrows the kind and never drops nullability -/
theorem promote_monotone (d : DType) (t : Tag) :
    Kind.le d.kind (promote d t).kind ∧ (d.nullable = true → (promote d t).nullable = true) := by
  cases t with
  | none => rw [promote_none]; simp [Kind.le, Kind.join_idem]
  | ty v =>
    rw [promote_ty]
    refine ⟨?_, fun h => h⟩
    show d.kind.join (d.kind.join v) = d.kind.join v
    rw [← Kind.join_assoc, Kind.join_idem]

/-- promoting twice with the same value is promoting once -/
theorem promote_idempotent (d : DType) (t : Tag) : promote (promote d t) t = promote d t := by
  cases t with
  | none => simp [promote_none]
  | ty v => simp [promote_ty, Kind.join_assoc, Kind.join_idem]

/-- the order in which two values are absorbed does not matter -/
theorem promote_comm (d : DType) (s t : Tag) :
    promote (promote d s) t = promote (promote d t) s := by
  cases s <;> cases t <;> simp [promote_none, promote_ty]
  rename_i a b
  rw [Kind.join_assoc, Kind.join_assoc, Kind.join_comm a b]

/-! #### tie to the source: the tables regenerated from /repo on this run -/

/-- `DataType.promote_with`, executed by the extractor on one representative value per exact
    type × every dtype, is the model's `promote` (whole finite table, in the kernel) -/
theorem promote_table_agrees :
    ∀ e ∈ Gen.promoteTable, promote ⟨Kind.ofCode e.1, e.2.1⟩ (Tag.ofCode e.2.2.1)
      = ⟨Kind.ofCode e.2.2.2.1, e.2.2.2.2⟩ := by decide +kernel

/-- `infer_kind` likewise -/
theorem infer_kind_table_agrees :
    ∀ e ∈ Gen.inferKindTable, (inferKind (Tag.ofCode e.1)).map Kind.code = e.2 := by decide +kernel

/-- `validate_scalar` accepts exactly what the model's `validates` accepts -/
theorem validate_table_agrees :
    ∀ e ∈ Gen.validateTable, validates ⟨Kind.ofCode e.1, e.2.1⟩ (Tag.ofCode e.2.2.1) = e.2.2.2 := by
  decide +kernel

/-! #### non-vacuity -/

example : infer [.ty .int, .none, .ty .bool, .ty .float] = ⟨.float, true⟩ := by decide
example : infer [.none, .ty .int] = infer [.ty .int, .none] := by decide
example : infer [.ty .date, .ty .datetime, .ty .date] = ⟨.datetime, false⟩ := by decide
example : infer [.ty (.other 3), .ty (.other 4)] = ⟨.object, false⟩ := by decide
example : Gen.promoteTable.length > 100 := by decide +kernel

end Serif.C04
