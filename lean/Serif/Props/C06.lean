/-
  C06 — None is handled uniformly: it propagates through arithmetic, compares False, is skipped by
  reductions; isna / dropna / fillna agree with one another.
  Property theorems only; helper lemmas live in Serif/Proofs/Vec.lean.
  As in C05 every statement holds for every element type and every scalar semantics.
-/
import Serif.Proofs.Vec

namespace Serif.C06
open Serif.Vec

variable {α β γ ρ σ : Type}

/-! #### None propagates through every elementwise arithmetic operation -/

/-- `v op other` (vector, list or scalar operand): a None on either side gives None -/
theorem none_propagates {op : α → β → Res γ} {xs : Col α} {o : Operand β} {r : Col γ}
    (h : elementwise op xs o = .ok r) {i : Nat} {x : Option α} {y : Option β}
    (hx : xs[i]? = some x) (hy : o.get? i = some y) (hn : x = none ∨ y = none) :
    r[i]? = some none := by
  apply apply_ok_const h hx hy
  rcases hn with rfl | rfl
  · exact cell_none_left op y
  · exact cell_none_right op x

/-- all seven operators, direct and reflected, `_Date.__add__` included - and, unlike the
    written-order theorem of C05, without any assumption on Python's `*` -/
theorem none_propagates_vector {S : Sem α} {o : BinOp} {refl : Bool} {v : Vec α} {other : Operand α}
    {r : Col α} (h : vectorBinary S o refl v other = .ok r) {i : Nat} {x y : Option α}
    (hx : v.data[i]? = some x) (hy : other.get? i = some y) (hn : x = none ∨ y = none) :
    r[i]? = some none :=
  vectorBinary_none h hx hy hn

/-- unary `-`, `+`, `abs` and every broadcast method / property: None stays None -/
theorem none_propagates_unary {f : α → Res β} {xs : Col α} {r : Col β} (h : broadcast f xs = .ok r)
    {i : Nat} (hx : xs[i]? = some none) : r[i]? = some none := by
  obtain ⟨c, hc, hr⟩ := mapRes_ok_get h hx
  rcases cell1_ok hc with ⟨_, rfl⟩ | ⟨a, b, ha, _, _⟩
  · exact hr
  · cases ha

/-- and None is the only thing that produces None: where both operands are present the result
    is the (non-None) value Python computes -/
theorem not_none_elsewhere {op : α → β → Res γ} {xs : Col α} {o : Operand β} {r : Col γ}
    (h : elementwise op xs o = .ok r) {i : Nat} {a : α} {b : β}
    (hx : xs[i]? = some (some a)) (hy : o.get? i = some (some b)) :
    ∃ c, op a b = .ok c ∧ r[i]? = some (some c) := by
  obtain ⟨y, c, hy', hc, hr⟩ := apply_ok_get h hx
  rw [hy] at hy'; cases hy'
  obtain ⟨v, hv, rfl⟩ := cell_some_ok hc
  exact ⟨v, hv, hr⟩

/-! #### comparisons are False at None and return a non-nullable bool vector -/

/-- every comparison, every operand form: a None on either side compares False -/
theorem compare_none_false {op : α → β → Res Bool} {xs : Col α} {o : Operand β} {r : BoolVec}
    (h : Vec.compare op xs o = .ok r) {i : Nat} {x : Option α} {y : Option β}
    (hx : xs[i]? = some x) (hy : o.get? i = some y) (hn : x = none ∨ y = none) :
    r.data[i]? = some false := by
  obtain ⟨l, hl, rfl⟩ := toBoolVec_ok h
  apply apply_ok_const hl hx hy
  rcases hn with rfl | rfl
  · cases y <;> rfl
  · cases x <;> rfl

/-- where both sides are present the result is Python's own comparison -/
theorem compare_pointwise {op : α → β → Res Bool} {xs : Col α} {o : Operand β} {r : BoolVec}
    (h : Vec.compare op xs o = .ok r) {i : Nat} {a : α} {b : β}
    (hx : xs[i]? = some (some a)) (hy : o.get? i = some (some b)) :
    ∃ t, op a b = .ok t ∧ r.data[i]? = some t := by
  obtain ⟨l, hl, rfl⟩ := toBoolVec_ok h
  obtain ⟨y, c, hy', hc, hr⟩ := apply_ok_get hl hx
  rw [hy] at hy'; cases hy'
  exact ⟨c, hc, hr⟩

/-- the result is `DataType(bool, nullable=False)`, has the length of the vector, and (by its
    type: `List Bool`) holds nothing but booleans - in particular no None -/
theorem compare_result_nonnullable_bool {op : α → β → Res Bool} {xs : Col α} {o : Operand β}
    {r : BoolVec} (h : Vec.compare op xs o = .ok r) :
    r.dtype = { kind := .bool, nullable := false } ∧ r.data.length = xs.length := by
  obtain ⟨l, hl, rfl⟩ := toBoolVec_ok h
  exact ⟨rfl, apply_ok_length hl⟩

/-- the comparison model is an acceptable observation of "False at None, else Python's comparison",
    and where Python defines every pair the executable judge accepts nothing else -/
theorem compare_model_conforms (op : α → β → Res Bool) (xs : Col α) (o : Operand β) :
    conforms (specCompare op xs o) (outcome (apply (cmpCell op) xs o)) = true :=
  conforms_apply _ xs o

/-- comparing against a sequence of another length raises -/
theorem compare_length_mismatch_errors {op : α → β → Res Bool} {xs : Col α} {o : Operand β} {n : Nat}
    (hn : o.len? = some n) (hne : xs.length ≠ n) : ∃ e, Vec.compare op xs o = .error e := by
  unfold Vec.compare; rw [apply_mismatch hn hne]; exact ⟨.value, rfl⟩

/-- the same for date vectors (`_Date._elementwise_compare`), whatever the other operand is: a
    str-kind Vector or str scalar read as ISO dates, a list, any other vector (an untyped empty one
    included), any other scalar.  (The datetime branches raise for every element, so they return a
    result only for empty vectors.) -/
theorem date_compare_none_false {isStr isDt : β → Bool} {op : α → β → Res Bool}
    {iso : α → β → Res Bool} {xs : Col α} {o : Operand β} {r : BoolVec}
    (h : dateCompare isStr isDt op iso xs o = .ok r) {i : Nat} {x : Option α} {y : Option β}
    (hx : xs[i]? = some x) (hy : o.get? i = some y) (hn : x = none ∨ y = none) :
    r.data[i]? = some false :=
  dateCompare_none h hx hy hn

/-- a date vector against a str-kind Vector of ISO dates with None on both sides, and against an
    untyped empty vector (the operands repaired by fa481f4) -/
example : dateCompare (α := Nat) (β := Nat) (fun _ => false) (fun _ => false) (fun _ _ => .error .type)
    (fun a b => .ok (decide (a < b))) [none, some 1, some 5] (.vec [some 2, none, some 9] (some ⟨.str, true⟩))
    = .ok { data := [false, false, true], dtype := boolDType } := by decide
example : dateCompare (α := Nat) (β := Nat) (fun _ => false) (fun _ => false) (fun _ _ => .ok true)
    (fun _ _ => .ok true) [] (.vec [] none) = .ok { data := [], dtype := boolDType } := by decide

/-! #### reductions skip None -/

/-- every reduction (sum, mean, min, max, stdev, any, all - any function of the None-free
    list): the result depends only on the non-None elements, in their order -/
theorem reduction_skips_none (f : List α → ρ) {xs ys : Col α} (h : nonNone xs = nonNone ys) :
    reduce f xs = reduce f ys := by
  unfold reduce; rw [h]

/-- inserting or deleting None anywhere never changes a reduction -/
theorem reduction_ignores_none_at (f : List α → ρ) (l₁ l₂ : Col α) :
    reduce f (l₁ ++ none :: l₂) = reduce f (l₁ ++ l₂) := by
  apply reduction_skips_none
  simp [nonNone]

/-- a reduction of the vector is the reduction of the None-free vector -/
theorem reduction_eq_on_dropped (f : List α → ρ) (xs : Col α) :
    reduce f xs = reduce f ((nonNone xs).map some) := by
  apply reduction_skips_none
  rw [nonNone_map_some]

/-- the same for a reduction written as an accumulating loop that tests each element:
    skipping in the loop = folding over the None-free list, for every step function -/
theorem reduction_loop_skips_none (step : σ → α → σ) (init : σ) (xs : Col α) :
    reduceLoop step init xs = reduce (fun l => l.foldl step init) xs :=
  reduceLoop_eq_foldl_nonNone step init xs

/-- instances: the seven reductions of `Vector`, over arbitrary scalar arithmetic `A` -/
theorem builtin_reductions_skip_none (A : Arith α) (population : Bool) {xs ys : Col α}
    (h : nonNone xs = nonNone ys) :
    vsum A xs = vsum A ys ∧ vmean A xs = vmean A ys ∧ vmin A xs = vmin A ys ∧
    vmax A xs = vmax A ys ∧ vstdev A population xs = vstdev A population ys ∧
    vany A xs = vany A ys ∧ vall A xs = vall A ys :=
  ⟨reduction_skips_none _ h, reduction_skips_none _ h, reduction_skips_none _ h,
   reduction_skips_none _ h, reduction_skips_none _ h, reduction_skips_none _ h,
   reduction_skips_none _ h⟩

/-- `sum` as the loop `acc = acc + v` that skips None -/
theorem sum_is_skipping_loop (A : Arith α) (xs : Col α) :
    vsum A xs = reduceLoop A.add A.zero xs :=
  (reduceLoop_eq_foldl_nonNone A.add A.zero xs).symm

/-- None still counts towards `len()`: the length is the number of non-None elements plus the
    number of Nones -/
theorem len_counts_none (xs : Col α) :
    xs.length = (nonNone xs).length + (xs.filter Option.isNone).length := by
  induction xs with
  | nil => rfl
  | cons x xs ih => cases x <;> simp [nonNone] at ih ⊢ <;> omega

/-! #### isna, dropna, fillna agree with one another -/

/-- `isna` marks exactly the None positions (and is a non-nullable bool vector of the same length) -/
theorem isna_spec (v : Vec α) :
    (isna v).dtype = { kind := .bool, nullable := false } ∧
    (isna v).data.length = v.data.length ∧
    ∀ (i : Nat) (x : Option α), v.data[i]? = some x → (isna v).data[i]? = some (decide (x = none)) := by
  refine ⟨rfl, by simp [isna], fun i x hx => ?_⟩
  cases x <;> simp [isna, hx]

/-- `dropna` returns exactly the elements at the positions `isna` does not mark, in order - for
    every vector, typed or not -/
theorem dropna_eq_filter_isna (v : Vec α) :
    (dropna v).data = ((v.data.zip (isna v).data).filter (fun p => !p.2)).map (·.1) := by
  simp only [dropna, isna]
  generalize v.data = xs
  induction xs with
  | nil => rfl
  | cons x xs ih => cases x <;> simp [nonNone] at ih ⊢ <;> exact ih

/-- what `dropna` returns has no None left, keeps the other elements in order, and reports
    itself non-nullable with the kind unchanged -/
theorem dropna_spec (v : Vec α) :
    (dropna v).data = (nonNone v.data).map some ∧ none ∉ (dropna v).data ∧
    (dropna v).data.Sublist v.data ∧ reportsNullable (dropna v).dtype = false ∧
    (dropna v).dtype.map (·.kind) = v.dtype.map (·.kind) := by
  refine ⟨rfl, by simp [dropna], ?_, ?_, ?_⟩
  · simp only [dropna]
    generalize v.data = xs
    induction xs with
    | nil => exact List.Sublist.refl _
    | cons x xs ih =>
      cases x with
      | none => simpa [nonNone] using List.Sublist.cons _ (by simpa [nonNone] using ih)
      | some a => simpa [nonNone] using ih
  · cases hd : v.dtype <;> simp [dropna, withNullable, reportsNullable, hd]
  · cases hd : v.dtype <;> simp [dropna, withNullable, hd]

/-- `fillna(x)` writes `x` at exactly the positions `isna` marks and leaves every other position
    alone - up to the element conversion `c` of a dtype promotion (`c = id` unless `x` is
    incompatible with the dtype and the vector is promoted to `x`'s kind) -/
theorem fillna_pointwise {kindOf : α → Kind} {conv : Kind → α → α} {v r : Vec α} {x : Option α}
    (h : fillna kindOf conv v x = .ok r) :
    ∃ c : α → α, (c = id ∨ ∃ a, x = some a ∧ c = conv (kindOf a)) ∧
      r.data.length = v.data.length ∧
      ∀ i : Nat, (v.data[i]? = some none → r.data[i]? = some x) ∧
           (∀ a, v.data[i]? = some (some a) → r.data[i]? = some (some (c a))) := by
  obtain ⟨c, hc, hr⟩ := fillna_ok h
  refine ⟨c, hc, by rw [hr, fillWith_length], fun i => ⟨fun hi => ?_, fun a hi => ?_⟩⟩
  · rw [hr]; exact fillWith_get_none c x hi
  · rw [hr]; exact fillWith_get_some c x hi

/-- when `x` is compatible with the dtype (or the vector is untyped / object / `x` is None)
    nothing else changes at all -/
theorem fillna_compatible_untouched {kindOf : α → Kind} {conv : Kind → α → α} {v : Vec α}
    {x : Option α}
    (hcompat : ∀ d a, v.dtype = some d → x = some a → d.kind = .object ∨ validates d (.ty (kindOf a)) = true) :
    ∃ r, fillna kindOf conv v x = .ok r ∧ r.data = fillWith id x v.data :=
  fillna_compatible hcompat

/-- for `x ≠ None` both `fillna(x)` and `dropna()` return vectors that report themselves
    non-nullable - and truthfully so: they contain no None -/
theorem fillna_dropna_nonnullable {kindOf : α → Kind} {conv : Kind → α → α} {v : Vec α} {a : α} :
    (∀ r, fillna kindOf conv v (some a) = .ok r → reportsNullable r.dtype = false ∧ none ∉ r.data) ∧
    (reportsNullable (dropna v).dtype = false ∧ none ∉ (dropna v).data) := by
  constructor
  · intro r h
    exact fillna_some_nonnullable h
  · obtain ⟨_, h2, _, h4, _⟩ := dropna_spec v
    exact ⟨h4, h2⟩

/-- `fillna(x)` and `dropna()` agree: dropping after filling removes nothing, and the elements
    that `dropna` keeps are the ones `fillna` leaves alone -/
theorem fillna_dropna_agree {kindOf : α → Kind} {conv : Kind → α → α} {v r : Vec α} {a : α}
    (h : fillna kindOf conv v (some a) = .ok r) :
    (nonNone r.data).length = v.data.length := by
  obtain ⟨c, _, hr⟩ := fillna_ok h
  rw [hr]
  generalize v.data = xs
  induction xs with
  | nil => rfl
  | cons x xs ih => cases x <;> simp [fillWith, nonNone] at ih ⊢ <;> exact ih

/-! #### non-vacuity -/

section examples
private def sub' : Nat → Nat → Res Nat := fun a b => if b ≤ a then .ok (a - b) else .error .other
private def lt' : Nat → Nat → Res Bool := fun a b => .ok (decide (a < b))

example : elementwise sub' [some 5, none, some 7] (.seq [some 1, some 2, none]) = .ok [some 4, none, none] := by decide
example : Vec.compare lt' [some 5, none, some 7] (.scalar 6)
    = .ok { data := [true, false, false], dtype := boolDType } := by decide
example : reduce List.sum [some 1, none, some 2] = reduce List.sum [none, none, some 1, some 2] := by decide
example : dropna ({ data := [some 1, none, some 3], dtype := some ⟨.int, true⟩ } : Vec Nat)
    = { data := [some 1, some 3], dtype := some ⟨.int, false⟩ } := by decide
example : dropna ({ data := [], dtype := none } : Vec Nat) = { data := [], dtype := none } := by decide
example : (fillna (fun _ => Kind.float) (fun _ n => n + 100)
    ({ data := [some 1, none], dtype := some ⟨.int, true⟩ } : Vec Nat) (some 7)).toOption.map (·.data)
    = some [some 101, some 7] := by decide
end examples

end Serif.C06
