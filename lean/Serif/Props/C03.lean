/-
  C03 — a vector's reported dtype is always truthful, for every composition of public operations.
  Property theorems only; helper lemmas live in Serif/Proofs/Expr.lean, the model in Serif/Model/Expr.lean.

  `X.truthful tags dtype`  : every element belongs to the reported dtype (`belongs`: exact kind, the widenings
                             bool→int→float→complex and date→datetime, `object` admits every non-None value,
                             None needs `nullable`).
  `X.step ρ op args`       : one public operation applied to evaluated operands, with the dtype rule the code uses.
  `X.eval ρ e`             : a program (tree of operations over leaves built by inference).
  `ρ : X.Oracle`           : the exact type of every Python scalar result — the theorems hold for every ρ.
-/
import Serif.Proofs.Expr
import Serif.Gen.Consts

namespace Serif.C03
open Serif.X

/-! #### vectors built by inference -/

/-- the dtype `infer_dtype` computes admits every element, for every sequence of element types -/
theorem infer_truthful (ts : List Tag) : truthful ts (some (infer ts)) = true := X.infer_truthful ts

/-- `Vector(values, name=…)` is truthful -/
theorem leaf_truthful (ts : List Tag) (n : Option String) : (mkVec ts none n).truthful = true :=
  mk_none_truthful ts n

/-! #### `validate_scalar` accepts exactly what belongs -/

/-- for every kind except `object` (whose columns the code never validates):
    `validate_scalar(value, dtype)` returns iff the value belongs to the dtype -/
theorem validate_iff_belongs (d : DType) (t : Tag) (h : d.kind ≠ .object) :
    validates d t = true ↔ belongs d t = true := by
  rw [validates_eq_belongs d t h]

/-! #### one preservation lemma per operation -/

/-- arithmetic (vector∘vector, vector∘scalar, vector∘list, reflected, `__radd__`, the `_Date` day arithmetic, the
    mixed-type tuple fallback): the result is truthful whatever the operands and whatever Python computed -/
theorem arith_truthful (ρ : Oracle) (s c : Nat) (op : AOp) (a b r : AVec) (o : Other) :
    (arithVV ρ s c op a b = .ok r → r.truthful = true) ∧ (arithVO ρ s c op a o = .ok r → r.truthful = true) :=
  ⟨arithVV_truthful ρ s c op a b r, arithVO_truthful ρ s c op a r o⟩

theorem compare_truthful (ρ : Oracle) (s : Nat) (a b r : AVec) (o : Other) :
    (cmpVV ρ s a b = .ok r → r.truthful = true) ∧ (cmpVO ρ s a o = .ok r → r.truthful = true) :=
  ⟨cmpVV_truthful ρ s a b r, cmpVO_truthful ρ s a r o⟩

theorem unary_truthful (ρ : Oracle) (s : Nat) (a r : AVec) (h : unary ρ s a = .ok r) : r.truthful = true :=
  X.unary_truthful ρ s a r h

theorem concat_truthful (a b r : AVec) (o : Other) :
    (lshiftVV a b = .ok r → r.truthful = true) ∧ (lshiftVO a o = .ok r → r.truthful = true) :=
  ⟨lshiftVV_truthful a b r, lshiftVO_truthful a r o⟩

/-- `v[key] = value` (promotion on assignment): every new value is examined, the column is converted and made
    nullable as needed; an `object` column accepts everything and becomes nullable when a None is written -/
theorem setitem_truthful (ups : List (Nat × Tag)) (a r : AVec) (ha : a.truthful = true)
    (h : setitem ups a = .ok r) : r.truthful = true :=
  X.setitem_truthful ups a r ha h

/-- `cast(T)`: declared kind, nullable iff a None was seen; `cast(date)` keeps the calendar day of a datetime -/
theorem cast_truthful (ρ : Oracle) (hρ : CastSound ρ) (s : Nat) (k : Kind) (a r : AVec)
    (h : cast ρ s k a = .ok r) : r.truthful = true :=
  X.cast_truthful ρ hρ s k a r h

theorem fillna_truthful (t : Tag) (a r : AVec) (ha : a.truthful = true) (h : fillna t a = .ok r) :
    r.truthful = true := X.fillna_truthful t a r ha h

theorem dropna_truthful (a r : AVec) (ha : a.truthful = true) (h : dropna a = .ok r) : r.truthful = true :=
  X.dropna_truthful a r ha h

theorem isna_truthful (a : AVec) : (isna a).truthful = true := X.isna_truthful a

/-- `to_object()`: `object`, nullable iff a None is held -/
theorem to_object_truthful (a : AVec) : (toObject a).truthful = true := X.toObject_truthful a

/-- copy, slice, index list, mask (list or vector key), sort: same dtype, a sub-multiset of the elements -/
theorem selection_truthful (a k r : AVec) (ha : a.truthful = true) (idx p : List Nat) (m : List Bool) :
    a.copy.truthful = true ∧ (getIdx idx a = .ok r → r.truthful = true) ∧ (getMask m a = .ok r → r.truthful = true) ∧
    (getV m idx a k = .ok r → r.truthful = true) ∧ (sortV p a = .ok r → r.truthful = true) :=
  ⟨copy_truthful a ha, getIdx_truthful idx a r ha, getMask_truthful m a r ha, getV_truthful m idx a k r ha,
   sortV_truthful p a r ha⟩

/-- join / aggregate / window / sort / transpose / CSV result columns are built by inference -/
theorem relational_columns_truthful (ρ : Oracle) (o : Obj) :
    (∀ k pairs ls rs, join k pairs ls rs = .ok o → o.truthful = true) ∧
    (∀ s w a rg ng cs, aggregate ρ s w a rg ng cs = .ok o → o.truthful = true) ∧
    (∀ p cs, sortT p cs = .ok o → o.truthful = true) ∧
    (∀ cs, transposeT cs = .ok o → o.truthful = true) ∧
    (∀ hdr rows, csv hdr rows = .ok o → o.truthful = true) :=
  ⟨fun k pairs ls rs => join_truthful k pairs ls rs o, fun s w a rg ng cs => aggregate_truthful ρ s w a rg ng cs o,
   fun p cs => sortT_truthful p cs o, fun cs => transposeT_truthful cs o, fun hdr rows => csv_truthful hdr rows o⟩

/-- every operation of the language, applied to truthful operands, returns a truthful object -/
theorem step_truthful (ρ : Oracle) (hρ : CastSound ρ) (op : Op) (args : List Obj) (o : Obj)
    (hargs : ∀ a ∈ args, a.truthful = true) (h : step ρ op args = .ok o) : o.truthful = true :=
  X.step_truthful ρ hρ op args o hargs h

/-! #### the "programs" quantifier -/

/-- every value of every program over the public operations is truthful, whatever Python's scalar operations
    return (`ρ`), provided constructors return instances of their class (structural induction over programs) -/
theorem closed (ρ : Oracle) (hρ : CastSound ρ) (e : Expr) (o : Obj) (h : eval ρ e = .ok o) : o.truthful = true :=
  (closed_aux ρ hρ).1 e o h

/-- `silent` (an oracle that answers nothing) satisfies the assumption, so `closed` is not vacuous -/
theorem castSound_silent : CastSound silent := by intro s i k x t h; cases h

/-! #### writing an element back -/

/-- "writing any element back into its own position is always accepted and never changes the dtype":
    in a truthful vector the assignment returns the very same vector (elements, dtype and name) -/
theorem writeback_noop (a : AVec) (ha : a.truthful = true) (i : Nat) (hi : i < a.tags.length) :
    setitem [(i, a.tags[i])] a = .ok a := setitem_writeback a ha i hi

/-! #### tie to the source: tables regenerated from /repo on this run -/

/-- `_PROMOTABLE` is the model's `promotable` (all pairs of the 15 tabulated classes) -/
theorem promotable_table_agrees :
    ∀ a ∈ List.range 16, ∀ b ∈ List.range 16,
      promotable (Kind.ofCode a) (Kind.ofCode b) = Gen.promotablePairs.contains (a, b) := by decide +kernel

/-- `Vector._promote`, executed on one column per kind, converts exactly where the model's `promoteVec` does -/
theorem promoteVec_table_agrees :
    ∀ e ∈ Gen.promoteVecTable, (promoteVec (Kind.ofCode e.1) (Kind.ofCode e.2.1)).map Kind.code = e.2.2 := by
  decide +kernel

/-! #### non-vacuity -/

-- a program with promotion on assignment (int → float, then nullable) followed by a fill
example :
    eval silent (.node (.fillna (.ty .float))
      (.cons (.node (.setitem [(0, .ty .float), (1, .none)])
        (.cons (.node (.leaf [.ty .int, .ty .int, .ty .bool] (some "a")) .nil) .nil)) .nil))
    = .ok (.vec ⟨[.ty .float, .ty .float, .ty .float], some ⟨.float, false⟩, some "a"⟩) := by rfl
example :
    eval silent (.node (.setitem [(0, .ty .float), (1, .none)])
        (.cons (.node (.leaf [.ty .int, .ty .int, .ty .bool] none) .nil) .nil))
    = .ok (.vec ⟨[.ty .float, .none, .ty .float], some ⟨.float, true⟩, none⟩) := by rfl
example : truthful [.ty .int, .ty .bool, .none] (some ⟨.float, true⟩) = true := by decide
example : truthful [.ty .float] (some ⟨.int, false⟩) = false := by decide
-- the three programs that were untruthful before the repairs cbd2cdb, bd89f49, cca3c72 now evaluate to truthful vectors
example :
    eval silent (.node .toObject (.cons (.node (.leaf [.ty .int, .none] none) .nil) .nil))
    = .ok (.vec ⟨[.ty .int, .none], some ⟨.object, true⟩, none⟩) := by rfl
example :
    eval silent (.node (.cast .date 0) (.cons (.node (.leaf [.ty .datetime] none) .nil) .nil))
    = .ok (.vec ⟨[.ty .date], some ⟨.date, false⟩, none⟩) := by rfl
example :
    eval silent (.node (.setitem [(0, .none)]) (.cons (.node (.leaf [.ty .int, .ty .str] none) .nil) .nil))
    = .ok (.vec ⟨[.none, .ty .str], some ⟨.object, true⟩, none⟩) := by rfl
example : Gen.promotablePairs.length = 4 := by decide

end Serif.C03
