/-
  C19 — CSV ingestion is faithful to the file.
  Property theorems only; helper lemmas live in Serif/Proofs/Csv.lean.
  Everything is stated for an arbitrary cell-text type `τ`, an arbitrary type `ν` of Python values
  and an arbitrary `Oracle` (Python's `strip`, `int()`, `float()`): the statements are about the
  pipeline after `csv.reader`, for every list of records of every shape.
-/
import Serif.Proofs.Csv
import Serif.Proofs.CsvLex
import Serif.Proofs.CsvLexU

namespace Serif.C19
open Serif.Csv

variable {τ ν : Type} (O : Oracle τ ν)

/-! #### columns and names -/

/-- one column per header cell -/
theorem one_column_per_header_cell (hdr : List τ) (rest : List (List τ)) :
    (readCsv O true (hdr :: rest)).length = hdr.length := by
  rw [readCsv_length]; simp [headerOf]

/-- … named verbatim, in order; nothing is deduplicated, trimmed or renamed (repeats are kept) -/
theorem names_verbatim (hdr : List τ) (rest : List (List τ)) :
    names (readCsv O true (hdr :: rest)) = hdr.map O.raw := by
  rw [names_readCsv]; simp [headerOf]

/-- header-less input: one column per cell of the *first* record, called col_0, col_1, … -/
theorem headerless_names (first : List τ) (rest : List (List τ)) :
    names (readCsv O false (first :: rest)) = colNames first.length ∧
    (readCsv O false (first :: rest)).length = first.length := by
  rw [names_readCsv, readCsv_length]; simp [headerOf, colNames]

/-- the generated names are exactly `col_<i>` -/
theorem colNames_get (n i : Nat) (h : i < n) :
    (colNames n)[i]? = some ("col_" ++ toString i) := by
  simp [colNames, h]

/-! #### rows -/

/-- every column has one entry per data record (the table is rectangular) -/
theorem rectangular (hh : Bool) (all : List (List τ)) :
    ∀ col ∈ readCsv O hh all, col.data.length = (dataRecords hh all).length :=
  fun col h => mem_readCsv_data_length O hh all col h

/-- one row per data record — provided there is at least one column (a blank header line, or a
    blank first line of a header-less file, yields zero columns, and a table without columns
    has no rows) -/
theorem one_row_per_record (hh : Bool) (all : List (List τ)) (h : readCsv O hh all ≠ []) :
    nrows (readCsv O hh all) = (dataRecords hh all).length := by
  cases hc : readCsv O hh all with
  | nil => exact absurd hc h
  | cons col cols =>
    simp only [nrows]
    exact mem_readCsv_data_length O hh all col (by rw [hc]; exact List.mem_cons_self)

/-- the zero-column boundary, stated: it arises exactly from an empty first record -/
theorem zero_columns_iff (hh : Bool) (first : List τ) (rest : List (List τ)) :
    readCsv O hh (first :: rest) = [] ↔ first = [] := by
  rw [← List.length_eq_zero_iff, readCsv_length, ← List.length_eq_zero_iff]
  cases hh <;> simp [headerOf, colNames]

/-! #### cells -/

/-- cell (r, c) is the classification of the c-th text of the r-th data record if that record is
    long enough, else None; cells beyond the header width are never used -/
theorem cell (hh : Bool) (all : List (List τ)) (c r : Nat) (col : Column ν) (rec : List τ)
    (hc : (readCsv O hh all)[c]? = some col) (hr : (dataRecords hh all)[r]? = some rec) :
    col.data[r]? = some (if h : c < rec.length then inferType O rec[c] else O.none) := by
  cases all with
  | nil => simp [readCsv] at hc
  | cons first rest =>
    rw [readCsv_getElem?] at hc
    cases hh' : (headerOf O hh first)[c]? with
    | none => rw [hh'] at hc; simp at hc
    | some name =>
      rw [hh'] at hc
      simp only [Option.map_some, Option.some.injEq] at hc
      subst hc
      simp only [column_getElem?, hr, Option.map_some]
      rfl

/-- the classification order of `_infer_type`: blank → None … -/
theorem classify_blank (v : τ) (h : O.blank v = true) : inferType O v = O.none := by
  simp [inferType, h]

/-- … else the int if `int()` accepts the stripped text … -/
theorem classify_int (v : τ) (i : ν) (hb : O.blank v = false) (h : O.int? v = some i) :
    inferType O v = i := by
  simp [inferType, hb, h]

/-- … else the float if `float()` does … -/
theorem classify_float (v : τ) (f : ν) (hb : O.blank v = false) (hi : O.int? v = none)
    (h : O.float? v = some f) : inferType O v = f := by
  simp [inferType, hb, hi, h]

/-- … else the stripped string -/
theorem classify_text (v : τ) (hb : O.blank v = false) (hi : O.int? v = none)
    (hf : O.float? v = none) : inferType O v = O.text v := by
  simp [inferType, hb, hi, hf]

/-- cells beyond the header width are dropped: truncating every data record to the header width
    does not change the table -/
theorem extra_cells_dropped (hdr : List τ) (rest : List (List τ)) :
    readCsv O true (hdr :: rest) = readCsv O true (hdr :: rest.map (List.take hdr.length)) := by
  apply List.ext_getElem?
  intro c
  rw [readCsv_getElem?, readCsv_getElem?]
  cases hc : (headerOf O true hdr)[c]? with
  | none => rfl
  | some name =>
    have hlt : c < hdr.length := by
      have := (List.getElem?_eq_some_iff.mp hc).1
      simpa [headerOf] using this
    simp only [Option.map_some, Option.some.injEq, Column.mk.injEq, true_and]
    simp only [dataRecords, if_true, List.drop_one, List.tail_cons, column, List.map_map]
    apply List.map_congr_left
    intro r _
    simp [cellAt, hlt]

/-! #### dtypes -/

/-- the dtype of every column is the ordinary inference rule applied to its cells (C04: the join
    of the kinds that occur, nullable iff a None occurs — in particular independent of whether
    the first cell of the column is empty) -/
theorem dtype_by_infer (tagOf : ν → Tag) (hh : Bool) (all : List (List τ))
    (hrec : dataRecords hh all ≠ []) :
    ∀ col ∈ readCsv O hh all, colDType tagOf col.data = some (inferSpec (col.data.map tagOf)) := by
  intro col hcol
  have hl := mem_readCsv_data_length O hh all col hcol
  have hne : col.data ≠ [] := by
    intro h
    rw [h] at hl
    exact hrec (List.length_eq_zero_iff.mp hl.symm)
  simp [colDType, hne, infer_eq_inferSpec]

/-! #### degenerate inputs give empty tables, not errors (the model is a total function) -/

/-- header only: the columns exist, named verbatim, with no rows -/
theorem header_only_empty_table (hdr : List τ) :
    readCsv O true [hdr] = hdr.map (fun h => { name := O.raw h, data := [] }) ∧
    nrows (readCsv O true [hdr]) = 0 := by
  constructor
  · simp [readCsv]
  · cases hdr <;> simp [readCsv, nrows]

/-- empty input: the table without columns -/
theorem empty_input_empty_table (hh : Bool) :
    readCsv O hh ([] : List (List τ)) = [] ∧ nrows (readCsv O hh ([] : List (List τ))) = 0 := by
  simp [readCsv, nrows]

/-! #### non-vacuity: a concrete jagged file with a repeated header name -/

/-- texts are strings; "values" are (tag, text) pairs; digits-only texts are ints -/
def demoOracle : Oracle String (Tag × String) where
  raw := id
  blank := fun s => s == "" || s == " "
  int? := fun s => if s == "1" || s == "2" then some (.ty .int, s) else none
  float? := fun s => if s == "2.5" then some (.ty .float, s) else none
  text := fun s => (.ty .str, s)
  none := (.none, "")

example :
    readCsv demoOracle true [["a", "a", "b"], ["1", "x"], [], ["2", "2.5", " ", "extra"]] =
      [⟨"a", [(.ty .int, "1"), (.none, ""), (.ty .int, "2")]⟩,
       ⟨"a", [(.ty .str, "x"), (.none, ""), (.ty .float, "2.5")]⟩,
       ⟨"b", [(.none, ""), (.none, ""), (.none, "")]⟩] := by decide

example : names (readCsv demoOracle false [["1", "x"], ["2"]]) = ["col_0", "col_1"] := by decide
example : readCsv demoOracle true [["a", "b"]] = [⟨"a", []⟩, ⟨"b", []⟩] := by decide
example : readCsv demoOracle true [[], ["1", "2"]] = [] := by decide
example : (readCsv demoOracle true [["a"], ["", "1"], ["2"]]).map (fun c => colDType Prod.fst c.data)
    = [some ⟨.int, true⟩] := by decide

/-! #### the lexical layer: "fields containing delimiters, quotes or newlines are read as the csv module defines them"

`Serif.CsvLex` models `csv.reader(file_obj, delimiter=d)` with the dialect defaults `read_csv` leaves in place (CPython's
six-state machine driven line by line).  The theorems below say what that definition *means* for every text a writer of the same
dialect can produce: for every delimiter other than the quote and the line-end characters, every list of records, every field
text (delimiters, quotes, CR, LF, anything) and every admissible choice of which fields to quote, reading the written text back
yields exactly the records — so `read_csv` sees the cell texts that were written, whatever they contain. -/

open Serif.CsvLex in
/-- reading back what the writer wrote (character-stream view of the reader) -/
theorem lexer_roundtrip (d : Char) (g : GoodDelim d) (crlf : Bool) (rs : List (List (Bool × List Char)))
    (hw : ∀ r ∈ rs, wellQuoted d r = true) :
    parseText d (renderText d crlf rs) = .ok (rs.map (·.map (·.2))) :=
  parseText_renderText d g crlf rs hw

open Serif.CsvLex in
/-- the same for the reader as CPython drives it: line by line over the lines of the text (split at `'\n'`, ends kept) -/
theorem lexer_roundtrip_lines (d : Char) (g : GoodDelim d) (crlf : Bool) (rs : List (List (Bool × List Char)))
    (hw : ∀ r ∈ rs, wellQuoted d r = true) :
    parseLines d (splitLF (renderText d crlf rs)) = .ok (rs.map (·.map (·.2))) := by
  rw [parseLines_splitLF]; exact parseText_renderText d g crlf rs hw

open Serif.CsvLex in
/-- the same for a file opened with `newline=''` — how `read_csv` opens a path —, whose iteration ends lines at `'\n'`, `'\r\n'` and a lone
    `'\r'` (a quoted field that holds CR or CR LF is then delivered in pieces; inside quotes it does not matter where lines end) -/
theorem lexer_roundtrip_universal (d : Char) (g : GoodDelim d) (crlf : Bool) (rs : List (List (Bool × List Char)))
    (hw : ∀ r ∈ rs, wellQuoted d r = true) :
    parseLines d (splitP univ (renderText d crlf rs)) = .ok (rs.map (·.map (·.2))) :=
  parseP_renderText univ_policy g crlf rs hw

open Serif.CsvLex in
/-- … and under every line-splitting policy that ends a line after `'\n'`, never after an ordinary character and not between `'\r'` and
    `'\n'`: what the reader yields does not depend on the file object's way of cutting lines -/
theorem lexer_roundtrip_any_policy (inj : Char → List Char → Bool) (p : Policy inj) (d : Char) (g : GoodDelim d) (crlf : Bool)
    (rs : List (List (Bool × List Char))) (hw : ∀ r ∈ rs, wellQuoted d r = true) :
    parseLines d (splitP inj (renderText d crlf rs)) = .ok (rs.map (·.map (·.2))) :=
  parseP_renderText p g crlf rs hw

open Serif.CsvLex in
/-- the policies are not interchangeable on arbitrary text: a bare CR inside a line is a record end for a `newline=''` file and an
    error for a stream that splits at LF only — which is why the harness hands the model the lines of the very kind of source it gives
    `read_csv` -/
example : (parseLines ',' (splitP univ "a\rb".toList)).toOption = some [["a".toList], ["b".toList]] ∧
    (parseLines ',' (splitP lf "a\rb".toList)).toOption = none ∧
    splitP univ "x\r\ny\rz\n".toList = ["x\r\n".toList, "y\r".toList, "z\n".toList] ∧
    (parseLines ',' (splitP univ "\"p\rq\r\nr\",1\r\n".toList)).toOption = some [["p\rq\r\nr".toList, "1".toList]] := by decide

open Serif.CsvLex in
/-- a text without carriage returns is read the same from every kind of source (path, file object, StringIO): all admissible
    policies cut it at `'\n'` only, and the line-driven reader then is the character-stream reader -/
theorem source_kind_irrelevant_without_cr (d : Char) (inj : Char → List Char → Bool) (p : Policy inj) (t : List Char)
    (h : ∀ c ∈ t, c ≠ '\r') : parseLines d (splitP inj t) = parseText d t :=
  parseP_eq_of_no_cr d inj p t h

open Serif.CsvLex in
/-- line-driven and character-driven reading agree on every text, well-formed or not (including the texts the reader rejects) -/
theorem lexer_lines_eq_stream (d : Char) (t : List Char) : parseLines d (splitLF t) = parseText d t :=
  parseLines_splitLF d t

open Serif.CsvLex in
/-- a quoted field is read verbatim whatever it contains: one record, one field -/
theorem quoted_field_verbatim (d : Char) (g : GoodDelim d) (f : List Char) :
    parseText d (quote :: (escape f ++ [quote, '\n'])) = .ok [[f]] := by
  have h := parseText_renderText d g false [[(true, f)]] (by simp [wellQuoted])
  simpa [renderText, renderRecord, renderFields, renderField] using h

open Serif.CsvLex in
/-- a blank line is the empty record (which `read_csv` turns into a row of None, or into zero columns when it is the first line) -/
theorem blank_line_is_empty_record (d : Char) (g : GoodDelim d) (rs₁ rs₂ : List (List (Bool × List Char)))
    (h₁ : ∀ r ∈ rs₁, wellQuoted d r = true) (h₂ : ∀ r ∈ rs₂, wellQuoted d r = true) :
    parseText d (renderText d false rs₁ ++ '\n' :: renderText d false rs₂) =
      .ok (rs₁.map (·.map (·.2)) ++ [] :: rs₂.map (·.map (·.2))) := by
  have h := parseText_renderText d g false (rs₁ ++ [] :: rs₂) (by
    intro r hr
    rcases List.mem_append.mp hr with h | h
    · exact h₁ r h
    · rcases List.mem_cons.mp h with h | h
      · subst h; rfl
      · exact h₂ r h)
  have hr : ∀ (a b : List (List (Bool × List Char))), renderText d false (a ++ b) = renderText d false a ++ renderText d false b := by
    intro a b; induction a with
    | nil => rfl
    | cons x xs ih => simp [renderText, ih]
  simpa [hr, renderText, renderRecord, renderFields] using h

open Serif.CsvLex in
/-- end to end: the table read from a written file is the table of the written records -/
theorem read_written_records (O : Oracle (List Char) ν) (hh : Bool) (d : Char) (g : GoodDelim d) (crlf : Bool)
    (rs : List (List (Bool × List Char))) (hw : ∀ r ∈ rs, wellQuoted d r = true) :
    (parseText d (renderText d crlf rs)).map (readCsv O hh) = .ok (readCsv O hh (rs.map (·.map (·.2)))) := by
  rw [parseText_renderText d g crlf rs hw]; rfl

open Serif.CsvLex in
/-- the four delimiters the check drives, and the tab, are admissible -/
theorem usual_delimiters_good : GoodDelim ',' ∧ GoodDelim ';' ∧ GoodDelim '\t' ∧ GoodDelim '|' :=
  ⟨⟨by decide, by decide⟩, ⟨by decide, by decide⟩, ⟨by decide, by decide⟩, ⟨by decide, by decide⟩⟩

/-! non-vacuity of the lexer theorems: a record with an embedded delimiter, quote, CR LF and a bare field; a lone empty field
    must be quoted (bare it *is* the blank line); an unterminated quote runs to the end of the input; a bare CR inside a
    line the reader does not split is rejected -/
open Serif.CsvLex in
example : wellQuoted ',' [(true, "a,\"b\r\nc".toList), (false, "x y".toList), (false, [])] = true ∧
    (parseText ',' "\"a,\"\"b\r\nc\",x y,\n".toList).toOption = some [["a,\"b\r\nc".toList, "x y".toList, []]] := by decide
open Serif.CsvLex in
example : wellQuoted ',' [(false, [])] = false ∧ (parseText ',' "\n".toList).toOption = some [[]] ∧
    (parseText ',' "\"\"\n".toList).toOption = some [[[]]] := by decide
open Serif.CsvLex in
example : (parseText ',' "\"ab".toList).toOption = some [["ab".toList]] ∧ (parseText ',' "a\rb".toList).toOption = none ∧
    (parseLines ',' ["a\r".toList, "b".toList]).toOption = some [["a".toList], ["b".toList]] := by decide

end Serif.C19
