/-
  C10 — left and full outer joins keep every row and pad with None.
  Property theorems only; helper lemmas live in Serif/Proofs/Join.lean.
-/
import Serif.Proofs.Join

namespace Serif.C10
open Serif.Join

variable {K : Type} [DecidableEq K] {α : Type}

/-! #### emitted rows = definition, as lists -/

/-- `join(..., expect='many_to_many')`: per left row, in order, its matches in right order, or — if it has
    none — one row holding it and None on the right, at that left row's position -/
theorem left_eq_spec (lkeys rkeys : List K) :
    joinPairs .left "many_to_many" lkeys rkeys = .ok (leftSpec lkeys rkeys) := by
  rw [joinPairs_eq_spec]
  simp [specJoinPairs, valid_mm, specCore_mm, specPairs]

/-- `full_join(..., expect='many_to_many')`: the left-join rows followed by one row, None on the left, for
    each right row whose key occurs nowhere on the left, in right-table order -/
theorem full_eq_spec (lkeys rkeys : List K) :
    joinPairs .full "many_to_many" lkeys rkeys = .ok (leftSpec lkeys rkeys ++ rightOnly lkeys rkeys) := by
  rw [joinPairs_eq_spec]
  simp [specJoinPairs, valid_mm, specCore_mm, specPairs, fullSpec]

/-- under every expectation: whenever the call returns, it returns the rows of the definition -/
theorem eq_spec_any (kind : JKind) (e : String) (lkeys rkeys : List K) (ps : List Pair)
    (h : joinPairs kind e lkeys rkeys = .ok ps) : ps = specPairs kind lkeys rkeys := by
  rw [joinPairs_eq_spec] at h
  unfold specJoinPairs at h
  split at h
  · cases h
  · exact specCore_ok kind e lkeys rkeys ps h

/-- which rows a left join has: a matched pair of key-equal rows, or an unmatched left row padded -/
theorem left_mem_iff (lkeys rkeys : List K) (p : Pair) :
    p ∈ leftSpec lkeys rkeys ↔
      (∃ k i j, lkeys[i]? = some k ∧ rkeys[j]? = some k ∧ p = (some i, some j))
      ∨ (∃ k i, lkeys[i]? = some k ∧ k ∉ rkeys ∧ p = (some i, none)) := by
  simp only [mem_leftSpec, List.mk_mem_zipIdx_iff_getElem?]

/-- which rows a full join has: additionally the right rows whose key is absent on the left -/
theorem full_mem_iff (lkeys rkeys : List K) (p : Pair) :
    p ∈ fullSpec lkeys rkeys ↔
      (∃ k i j, lkeys[i]? = some k ∧ rkeys[j]? = some k ∧ p = (some i, some j))
      ∨ (∃ k i, lkeys[i]? = some k ∧ k ∉ rkeys ∧ p = (some i, none))
      ∨ (∃ k j, rkeys[j]? = some k ∧ k ∉ lkeys ∧ p = (none, some j)) := by
  simp only [mem_fullSpec, RowOf, List.mk_mem_zipIdx_iff_getElem?]

/-- no row is ever duplicated -/
theorem left_nodup (lkeys rkeys : List K) : (leftSpec lkeys rkeys).Nodup := leftSpec_nodup lkeys rkeys
theorem full_nodup (lkeys rkeys : List K) : (fullSpec lkeys rkeys).Nodup := fullSpec_nodup lkeys rkeys

/-! #### completeness -/

/-- every left row appears at least once in a left join -/
theorem every_left_row_appears (lkeys rkeys : List K) (i : Nat) (h : i < lkeys.length) :
    ∃ p ∈ leftSpec lkeys rkeys, p.1 = some i := by
  have hk : lkeys[i]? = some lkeys[i] := List.getElem?_eq_getElem h
  by_cases hm : lkeys[i] ∈ rkeys
  · obtain ⟨j, hj⟩ := List.mem_iff_getElem?.mp hm
    exact ⟨(some i, some j), (left_mem_iff lkeys rkeys _).mpr (Or.inl ⟨_, i, j, hk, hj, rfl⟩), rfl⟩
  · exact ⟨(some i, none), (left_mem_iff lkeys rkeys _).mpr (Or.inr ⟨_, i, hk, hm, rfl⟩), rfl⟩

/-- every row of both tables appears at least once in a full join -/
theorem every_row_appears_full (lkeys rkeys : List K) :
    (∀ i, i < lkeys.length → ∃ p ∈ fullSpec lkeys rkeys, p.1 = some i) ∧
    (∀ j, j < rkeys.length → ∃ p ∈ fullSpec lkeys rkeys, p.2 = some j) := by
  constructor
  · intro i h
    obtain ⟨p, hp, e⟩ := every_left_row_appears lkeys rkeys i h
    exact ⟨p, by simp [fullSpec, hp], e⟩
  · intro j h
    have hk : rkeys[j]? = some rkeys[j] := List.getElem?_eq_getElem h
    by_cases hm : rkeys[j] ∈ lkeys
    · obtain ⟨i, hi⟩ := List.mem_iff_getElem?.mp hm
      exact ⟨(some i, some j), (full_mem_iff lkeys rkeys _).mpr (Or.inl ⟨_, i, j, hi, hk, rfl⟩), rfl⟩
    · exact ⟨(none, some j), (full_mem_iff lkeys rkeys _).mpr (Or.inr (Or.inr ⟨_, j, hk, hm, rfl⟩)), rfl⟩

/-- an unmatched row appears exactly once, a matched left row once per match: the number of result rows
    carrying left row `i` is `max 1 (number of right rows with its key)` -/
theorem left_row_multiplicity (lkeys rkeys : List K) :
    leftSpec lkeys rkeys
      = lkeys.zipIdx.flatMap (fun p =>
          if matchIdx rkeys 0 p.1 = [] then [(some p.2, none)]
          else (matchIdx rkeys 0 p.1).map (fun j => (some p.2, some j))) := by
  simp [leftSpec]

/-- "placed at that left row's position": the rows of a left join come in left-row order (all rows of left
    row `i`, matched or padded, before all rows of left row `i' > i`) -/
theorem left_rows_in_left_order (lkeys rkeys : List K) :
    (leftSpec lkeys rkeys).Pairwise (fun a b => ∀ i i', a.1 = some i → b.1 = some i' → i ≤ i') :=
  leftSpec_left_order lkeys rkeys

/-! #### containment -/

/-- inner ⊆ left: the inner-join rows are the left-join rows with the padded ones removed, order kept -/
theorem inner_sublist_left (lkeys rkeys : List K) :
    ((innerSpec lkeys rkeys).map liftPair).Sublist (leftSpec lkeys rkeys) :=
  Join.inner_sublist_left lkeys rkeys

/-- left ⊆ full: the left-join rows are an initial segment of the full-join rows -/
theorem left_prefix_full (lkeys rkeys : List K) : leftSpec lkeys rkeys <+: fullSpec lkeys rkeys :=
  List.prefix_append _ _

/-- the same two statements about what the methods return -/
theorem containment (lkeys rkeys : List K) (pi pl pf : List Pair)
    (hi : joinPairs .inner "many_to_many" lkeys rkeys = .ok pi)
    (hl : joinPairs .left "many_to_many" lkeys rkeys = .ok pl)
    (hf : joinPairs .full "many_to_many" lkeys rkeys = .ok pf) :
    pi.Sublist pl ∧ pl <+: pf := by
  have e1 := eq_spec_any .inner _ lkeys rkeys pi hi
  have e2 := eq_spec_any .left _ lkeys rkeys pl hl
  have e3 := eq_spec_any .full _ lkeys rkeys pf hf
  subst e1; subst e2; subst e3
  exact ⟨Join.inner_sublist_left lkeys rkeys, List.prefix_append _ _⟩

/-! #### symmetry -/

/-- swapping the tables of a full join gives the same rows up to column order (`swapPair`) and row order -/
theorem full_symmetric (lkeys rkeys : List K) :
    (fullSpec lkeys rkeys).Perm ((fullSpec rkeys lkeys).map swapPair) := fullSpec_symm lkeys rkeys

/-- the same about what `full_join` returns -/
theorem full_symmetric_run (lkeys rkeys : List K) (p q : List Pair)
    (hp : joinPairs .full "many_to_many" lkeys rkeys = .ok p)
    (hq : joinPairs .full "many_to_many" rkeys lkeys = .ok q) : p.Perm (q.map swapPair) := by
  have e1 := eq_spec_any .full _ lkeys rkeys p hp
  have e2 := eq_spec_any .full _ rkeys lkeys q hq
  subst e1; subst e2
  exact fullSpec_symm lkeys rkeys

/-! #### padding -/

/-- a padded side is None (`pad`) in every one of its columns -/
theorem padded_side_none (pad : α) (cols : List (List α)) :
    rowAt pad cols none = List.replicate cols.length pad := rowAt_none pad cols

/-- so the row of an unmatched left row is that row followed by None in every right column, and the row of an
    unmatched right row is None in every left column followed by that row -/
theorem padded_rows (pad : α) (L R : Tab α) (ps : List Pair) (p : Nat) (h : p < ps.length) :
    (∀ i, ps[p] = (some i, none) →
      (resultCols pad L R ps).map (fun c => c[p]?.getD pad)
        = L.cols.map (fun c => c[i]?.getD pad) ++ List.replicate R.cols.length pad) ∧
    (∀ j, ps[p] = (none, some j) →
      (resultCols pad L R ps).map (fun c => c[p]?.getD pad)
        = List.replicate L.cols.length pad ++ R.cols.map (fun c => c[j]?.getD pad)) := by
  constructor
  · intro i e; rw [row_resultCols pad L R ps p h, e, rowAt_none, rowAt_some]
  · intro j e; rw [row_resultCols pad L R ps p h, e, rowAt_none, rowAt_some]

/-! #### non-vacuity -/

example : joinPairs .left "many_to_many" [7, 1, 7, 2] [1, 3, 1, 3]
    = .ok [(some 0, none), (some 1, some 0), (some 1, some 2), (some 2, none), (some 3, none)] := by decide
example : joinPairs .full "many_to_many" [7, 1, 7, 2] [1, 3, 1, 3]
    = .ok [(some 0, none), (some 1, some 0), (some 1, some 2), (some 2, none), (some 3, none),
           (none, some 1), (none, some 3)] := by decide
example : joinPairs .full "many_to_many" ([] : List Nat) [4, 4] = .ok [(none, some 0), (none, some 1)] := by decide
example : (fullSpec [7, 1] [1, 3]).Perm ((fullSpec [1, 3] [7, 1]).map swapPair) := by decide

end Serif.C10
