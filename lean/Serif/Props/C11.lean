/-
  C11 — join cardinality expectations are enforced exactly.
  Property theorems only; helper lemmas live in Serif/Proofs/Join.lean.

  The model reads, for each of inner_join / join / full_join, the three tuples
      `expect not in (...)`,  `check_right_unique = expect in (...)`,  `check_left_unique = expect in (...)`
  from `Serif.Gen` (regenerated from the source by ast on every run).  The proofs below unfold those
  definitions, so a changed tuple makes this file fail to build.
-/
import Serif.Proofs.Join

namespace Serif.C11
open Serif.Join

variable {K : Type} [DecidableEq K]

/-! #### what the four values mean (the specification side, fixed here) -/

theorem expect_meaning :
    (needsLeft "one_to_one" = true ∧ needsRight "one_to_one" = true) ∧
    (needsLeft "many_to_one" = false ∧ needsRight "many_to_one" = true) ∧
    (needsLeft "one_to_many" = true ∧ needsRight "one_to_many" = false) ∧
    (needsLeft "many_to_many" = false ∧ needsRight "many_to_many" = false) ∧
    ∀ e, validExpect e = true ↔ e ∈ ["one_to_one", "many_to_one", "one_to_many", "many_to_many"] := by
  refine ⟨by decide, by decide, by decide, by decide, ?_⟩
  intro e; simp [validExpect, expectValues]

/-! #### the tuples in the source say exactly that -/

/-- each method accepts exactly the four documented values -/
theorem source_accepts (kind : JKind) (e : String) : acceptsExpect kind e = validExpect e := accepts_iff kind e

/-- each method checks the right side exactly for 'one_to_one' / 'many_to_one' and the left side exactly for
    'one_to_one' / 'one_to_many' (this is the statement the unrepaired left join failed) -/
theorem source_checks (kind : JKind) (e : String) (hv : validExpect e = true) :
    chkRight kind e = needsRight e ∧ chkLeft kind e = needsLeft e :=
  ⟨chkRight_eq kind e hv, chkLeft_eq kind e hv⟩

/-! #### building blocks: the two uniqueness checks as coded -/

/-- the `duplicates` dict of the build loop ends non-empty iff some right key occurs twice — anywhere,
    matched or not -/
theorem right_check_exact (rkeys : List K) : (build true rkeys).2 ≠ [] ↔ ¬ rkeys.Nodup := by
  rw [Ne, dups_build]

/-- the `left_keys_seen` test of the probe loop raises iff some left key occurs twice — whether or not it
    has matches, because the test precedes the lookup -/
theorem left_check_exact (outer : Bool) (ix : Index K) (lkeys : List K) :
    probe outer true ix lkeys 0 [] = .error .value ↔ ¬ lkeys.Nodup := by
  rw [probe_eq]
  by_cases h : lkeys.Nodup <;> simp [h]

/-- without the flag the loop never raises -/
theorem left_check_off (outer : Bool) (ix : Index K) (lkeys : List K) :
    ∃ r, probe outer false ix lkeys 0 [] = .ok r := ⟨_, probe_nochk outer ix lkeys 0 []⟩

/-! #### the property -/

/-- for each of the three joins and each of the four expectations the call raises — and then a
    SerifValueError — if and only if a required uniqueness fails; `Nodup` ranges over all rows, so a
    duplicate among unmatched rows counts -/
theorem exact (kind : JKind) (e : String) (hv : validExpect e = true) (lkeys rkeys : List K) :
    joinPairs kind e lkeys rkeys = .error .value ↔
      (needsRight e = true ∧ ¬ rkeys.Nodup) ∨ (needsLeft e = true ∧ ¬ lkeys.Nodup) := by
  rw [joinPairs_eq_spec]
  unfold specJoinPairs specCore
  simp only [hv, Bool.not_true, Bool.false_eq_true, if_false]
  split
  · rename_i h; simpa using h
  · rename_i h; simp at h ⊢; exact h

/-- there is no other way to fail: any error is that value error -/
theorem raises_iff (kind : JKind) (e : String) (hv : validExpect e = true) (lkeys rkeys : List K) :
    (∃ err, joinPairs kind e lkeys rkeys = .error err) ↔
      (needsRight e = true ∧ ¬ rkeys.Nodup) ∨ (needsLeft e = true ∧ ¬ lkeys.Nodup) := by
  rw [← exact kind e hv]
  constructor
  · rintro ⟨err, h⟩
    rw [joinPairs_eq_spec] at h ⊢
    unfold specJoinPairs specCore at h ⊢
    simp only [hv, Bool.not_true, Bool.false_eq_true, if_false] at h ⊢
    split at h
    · rename_i hc; simp [hc]
    · cases h
  · intro h; exact ⟨_, h⟩

/-- spelled out per expectation -/
theorem decision_table (kind : JKind) (lkeys rkeys : List K) :
    ((∃ err, joinPairs kind "one_to_one" lkeys rkeys = .error err) ↔ ¬ rkeys.Nodup ∨ ¬ lkeys.Nodup) ∧
    ((∃ err, joinPairs kind "many_to_one" lkeys rkeys = .error err) ↔ ¬ rkeys.Nodup) ∧
    ((∃ err, joinPairs kind "one_to_many" lkeys rkeys = .error err) ↔ ¬ lkeys.Nodup) ∧
    ((∃ err, joinPairs kind "many_to_many" lkeys rkeys = .error err) ↔ False) := by
  refine ⟨?_, ?_, ?_, ?_⟩
  · rw [raises_iff kind _ (by decide)]; simp [expect_meaning.1]
  · rw [raises_iff kind _ (by decide)]; simp [expect_meaning.2.1]
  · rw [raises_iff kind _ (by decide)]; simp [expect_meaning.2.2.1]
  · rw [raises_iff kind _ (by decide)]; simp [expect_meaning.2.2.2.1]

/-- any other expect value is always rejected — before the keys are even looked at -/
theorem bad_expect_rejected (kind : JKind) (e : String) (hv : validExpect e = false) (lkeys rkeys : List K) :
    joinPairs kind e lkeys rkeys = .error .value := by
  rw [joinPairs_eq_spec]; simp [specJoinPairs, hv]

/-- the same for the whole call, whatever the tables and key arguments (even malformed ones) -/
theorem bad_expect_rejected_call (kind : JKind) (e : String) (hv : validExpect e = false)
    (L R : Tab Cell) (lon ron : OnArg) : run kind e L R lon ron = .error .value := by
  rw [run_eq_specRun]; simp [specRun, hv]

/-- when the expectation holds the result is identical to the 'many_to_many' result -/
theorem result_eq_many_to_many (kind : JKind) (e : String) (lkeys rkeys : List K) (ps : List Pair)
    (h : joinPairs kind e lkeys rkeys = .ok ps) :
    joinPairs kind "many_to_many" lkeys rkeys = .ok ps := by
  rw [joinPairs_eq_spec] at h ⊢
  unfold specJoinPairs at h ⊢
  split at h
  · cases h
  · rw [specCore_ok kind e lkeys rkeys ps h]
    simp [valid_mm, specCore_mm]

/-- the same for the whole call: same names, cells and dtypes -/
theorem result_eq_many_to_many_call (kind : JKind) (e : String) (L R : Tab Cell) (lon ron : OnArg)
    (o : Out Cell) (h : run kind e L R lon ron = .ok o) :
    run kind "many_to_many" L R lon ron = .ok o := by
  rw [run_eq_specRun] at h ⊢
  unfold specRun at h ⊢
  split at h
  · cases h
  · simp only [valid_mm, Bool.not_true, Bool.false_eq_true, if_false]
    cases hk : validateKeys L R lon ron with
    | error er => rw [hk] at h; cases h
    | ok kp =>
      rw [hk] at h
      simp only at h ⊢
      rw [specCore_mm]
      cases hc : specCore kind e (keyTuples L.nrows (kp.map (·.1))) (keyTuples R.nrows (kp.map (·.2))) with
      | error er => rw [hc] at h; cases h
      | ok ps =>
        rw [hc] at h
        rw [specCore_ok kind e _ _ ps hc] at h
        exact h

/-! #### non-vacuity: cells of the decision table, including duplicates only among unmatched rows -/

-- right duplicates (key 3) match nothing on the left, yet 'many_to_one' must raise, for all three joins
example : joinPairs .inner "many_to_one" [1, 2] [1, 3, 3] = .error .value := by decide
example : joinPairs .left "many_to_one" [1, 2] [1, 3, 3] = .error .value := by decide
example : joinPairs .full "many_to_one" [1, 2] [1, 3, 3] = .error .value := by decide
-- left duplicates (key 9) match nothing on the right: 'one_to_many' raises, 'many_to_one' does not
example : joinPairs .left "one_to_many" [9, 1, 9] [1, 2] = .error .value := by decide
example : joinPairs .left "many_to_one" [9, 1, 9] [1, 2]
    = .ok [(some 0, none), (some 1, some 0), (some 2, none)] := by decide
-- the README lookup: repeated left keys under the default 'many_to_one'
example : joinPairs .left "many_to_one" [1, 1, 2] [1, 2]
    = .ok [(some 0, some 0), (some 1, some 0), (some 2, some 1)] := by decide
example : joinPairs .left "one_to_many" [1, 1, 2] [1, 2] = .error .value := by decide
example : joinPairs .inner "one_to_on" [1] [1] = .error .value := by decide
example : joinPairs .full "one_to_one" [1, 2] [2, 3]
    = .ok [(some 0, none), (some 1, some 0), (none, some 1)] := by decide

end Serif.C11
