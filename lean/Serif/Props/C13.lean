/-
  C13 — window functions keep every row in place and agree with aggregate.
  Property theorems only; helper lemmas live in Serif/Proofs/Group.lean.  Same model as C12
  (Serif/Model/Group.lean): `windowCol` is `compute_group_values` followed by `expand_to_rows`.
-/
import Serif.Proofs.Group

namespace Serif.C13
open Serif.Group

section column
variable {κ α β : Type} [DecidableEq κ]

/-- `expand_to_rows` never meets a key that `compute_group_values` did not store (no KeyError), and row `i`
    receives `f` of the values of the rows that share row `i`'s key, for ANY per-group function `f` -/
theorem window_col_closed_form (data : List α) (keys : List κ) (f : List α → β) :
    windowCol data keys f = .ok (keys.map (fun k => f (groupVals keys data k))) :=
  windowCol_eq data keys f

/-- a window column has one entry per input row, in input order -/
theorem row_count_and_order (data : List α) (keys : List κ) (f : List α → β) (w : List β)
    (h : windowCol data keys f = .ok w) : w.length = keys.length := by
  rw [windowCol_eq] at h; cases h; simp

/-- the defining equation: row `i` of the window column is the aggregate column at the output row of
    row `i`'s group (`groupIndex` = position of the key among the distinct keys in first-appearance order) -/
theorem eq_aggregate_expanded (data : List α) (keys : List κ) (f : List α → β) (w : List β)
    (h : windowCol data keys f = .ok w) (i : Nat) (hi : i < keys.length) :
    w[i]? = (aggCol data (partition keys) f)[groupIndex keys keys[i]]? := by
  rw [windowCol_eq] at h; cases h
  rw [aggCol_partition, aggSpec, groupIndex,
    getElem?_map_idxOf (dedup keys) (fun k => f (groupVals keys data k)) keys[i]
      ((mem_dedup keys _).mpr (List.getElem_mem hi))]
  simp [List.getElem?_eq_getElem hi]

/-- as a list: the window column is the aggregate column joined back to the rows on the key -/
theorem eq_aggregate_joined_back (data : List α) (keys : List κ) (f : List α → β) :
    windowCol data keys f =
      .ok ((keys.map (groupIndex keys)).filterMap ((aggCol data (partition keys) f)[·]?)) := by
  rw [windowCol_eq, aggCol_partition, aggSpec, expand_groupIndex keys keys _ (fun _ h => h)]

/-- rows of one group receive identical values -/
theorem same_group_same_value (data : List α) (keys : List κ) (f : List α → β) (w : List β)
    (h : windowCol data keys f = .ok w) (i j : Nat) (hij : keys[i]? = keys[j]?) : w[i]? = w[j]? := by
  rw [windowCol_eq] at h; cases h
  simp [List.getElem?_map, hij]

end column

section whole
variable {κc ρ α β : Type} [DecidableEq κc]

/-- `window` accepts exactly the arguments `aggregate` accepts; its only error is the length check -/
theorem window_ok_iff (sfx : Nat → String) (a : Args κc ρ α β) :
    ((∃ cols, window sfx a = .ok cols) ↔ (keyLensOk a = true ∧ aggLensOk a = true)) ∧
    ((∃ cols, window sfx a = .ok cols) ↔ ∃ cols, aggregate sfx a = .ok cols) ∧
    ∀ e, window sfx a = .error e → e = .value := by
  unfold window aggregate
  rw [windowCells_eq_spec]
  cases h1 : keyLensOk a <;> cases h2 : aggLensOk a <;> simp

/-- the whole result in specification form: the key columns themselves, then per built-in argument and per
    custom entry one column whose row `i` is the (textbook) value of the group of row `i` -/
theorem window_eq_spec (sfx : Nat → String) (a : Args κc ρ α β) (cols : List (OutCol κc ρ β))
    (h : window sfx a = .ok cols) : cols.map (·.cells) = windowCellsSpec a := window_cells sfx a cols h

/-- the partition key columns are reproduced unchanged, first -/
theorem keys_unchanged (sfx : Nat → String) (a : Args κc ρ α β) (cols : List (OutCol κc ρ β))
    (h : window sfx a = .ok cols) :
    (cols.take a.over.length).map (·.cells) = a.over.map (fun c => OutCells.objs c.objs) := by
  rw [List.map_take, window_eq_spec sfx a cols h]
  simp [windowCellsSpec]

/-- every column of the result has the table's row count (`hobjs`: the two views of a key column that the wire
    carries — equality classes and cells — have the same length) -/
theorem result_row_count (sfx : Nat → String) (a : Args κc ρ α β) (cols : List (OutCol κc ρ β))
    (h : window sfx a = .ok cols) (hobjs : ∀ c ∈ a.over, c.objs.length = c.cells.length) :
    ∀ c ∈ cols, c.cells.length = a.nrows := by
  have hk : keyLensOk a = true := (((window_ok_iff sfx a).1).mp ⟨cols, h⟩).1
  intro c hc
  have hm : c.cells ∈ cols.map (·.cells) := List.mem_map.mpr ⟨c, hc, rfl⟩
  rw [window_eq_spec sfx a cols h] at hm
  simp only [windowCellsSpec, List.mem_append, List.mem_map] at hm
  rcases hm with (⟨kc, hkc, e⟩ | ⟨p, _, e⟩) | ⟨p, _, e⟩
  · rw [← e]
    simp only [OutCells.length, hobjs kc hkc]
    simp only [keyLensOk, List.all_eq_true, beq_iff_eq] at hk
    exact hk kc hkc
  · rw [← e]; simp [OutCells.length, keysOf_length]
  · rw [← e]; simp [OutCells.length, keysOf_length]

/-- window = aggregate joined back to the rows on the partition key: same column names, and every non-key
    column of window is the corresponding aggregate column read at each row's group index -/
theorem window_eq_aggregate_joined_back (sfx : Nat → String) (a : Args κc ρ α β)
    (wcols acols : List (OutCol κc ρ β)) (hw : window sfx a = .ok wcols) (ha : aggregate sfx a = .ok acols) :
    wcols.map (·.name) = acols.map (·.name) ∧
    (wcols.drop a.over.length).map (·.cells) =
      (acols.drop a.over.length).map
        (fun c => c.cells.expand ((keysOf a).map (groupIndex (keysOf a)))) := by
  constructor
  · rw [window_names sfx a wcols hw, aggregate_names sfx a acols ha]
  · have h1 := window_eq_spec sfx a wcols hw
    have h2 := aggregate_cells sfx a acols ha
    rw [List.map_drop, h1]
    have e0 : (List.drop a.over.length acols).map
          (fun c => OutCells.expand ((keysOf a).map (groupIndex (keysOf a))) c.cells) =
        (List.drop a.over.length (acols.map (·.cells))).map
          (OutCells.expand ((keysOf a).map (groupIndex (keysOf a)))) := by
      rw [← List.map_drop, List.map_map]; rfl
    rw [e0, h2]
    simp only [windowCellsSpec, aggregateCellsSpec]
    have e1 : ∀ (l1 l2 l3 : List (OutCells κc ρ β)), l1.length = a.over.length →
        List.drop a.over.length (l1 ++ l2 ++ l3) = l2 ++ l3 := by
      intro l1 l2 l3 hl
      rw [List.append_assoc, List.drop_append_of_le_length (by omega), ← hl, List.drop_length]
      rfl
    rw [e1 _ _ _ (by simp), e1 _ _ _ (by simp)]
    simp only [List.map_append, List.map_map, Function.comp_def, OutCells.expand]
    congr 1
    · apply List.map_congr_left
      intro p _
      rw [expand_groupIndex (keysOf a) (keysOf a) _ (fun _ h => h)]
    · apply List.map_congr_left
      intro p _
      rw [expand_groupIndex (keysOf a) (keysOf a) _ (fun _ h => h)]

end whole

/-! #### non-vacuity -/

-- interleaved groups with unequal values: values come back in row order, not in group order
example : (windowCol [some 5, none, some 7, some 1, none] [2, 9, 2, 1, 9] sumF).toOption = some [12, 0, 12, 1, 0] := by decide
example : aggCol [some 5, none, some 7, some 1, none] (partition [2, 9, 2, 1, 9]) sumF = [12, 0, 1] := by decide
example : [2, 9, 2, 1, 9].map (groupIndex [2, 9, 2, 1, 9]) = [0, 1, 0, 2, 1] := by decide
example : (windowCol [some 5, none, some 7, some 1, none] [some 2, none, some 2, some 1, none] minF).toOption
    = some [some 5, none, some 5, some 1, none] := by decide
example : (window (fun i => toString i) exampleArgs).toOption.map (fun cols => cols.map (·.cells.length))
    = some [5, 5, 5, 5] := by decide +kernel
example : (window (fun i => toString i) exampleArgs).toOption.map (fun cols => cols.map (·.name))
    = (aggregate (fun i => toString i) exampleArgs).toOption.map (fun cols => cols.map (·.name)) := by decide +kernel

end Serif.C13
