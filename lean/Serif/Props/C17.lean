/-
  C17 — every column is reachable by exactly one advertised, valid accessor name.
  Property theorems only (helper lemmas: Serif/Proofs/Names.lean).  All statements are about the
  definitions of Serif/Model/Names.lean that the driver executes; strings are arbitrary `List Char`
  (any Unicode scalar), name lists have any width, histories any length.
-/
import Serif.Proofs.Names
import Serif.Gen.Consts

namespace Serif.C17
open Serif.Names

/-! #### sanitisation -/

/-- for EVERY input string the sanitised name is `None` or a non-empty identifier whose first character
    is a letter `a–z` and whose other characters are in `[a-z0-9_]` -/
theorem sanitize_identifier (s r : Str) (h : sanitizeCore s = some r) :
    isIdent r = true ∧ ∃ c cs, r = c :: cs ∧ isLower c = true ∧ ∀ x ∈ cs, okChar x = true := by
  have hb : Base r := ⟨s, h⟩
  exact ⟨hb.ident, isIdent_iff.mp hb.ident⟩

/-- after the substitution step only characters of `[a-z0-9_]` — all ASCII — remain, whatever the input:
    Python's Unicode-aware `str.isdigit()` and `\d` therefore coincide with ASCII digits from there on -/
theorem substitution_ascii (s : Str) : ∀ c ∈ subRuns false s, okChar c = true ∧ c.toNat < 128 :=
  fun c hc => ⟨subRuns_ok false s c hc, subRuns_ascii false s c hc⟩

/-- a sanitised name is never a public Vector/Table method or property name -/
theorem not_reserved (s r : Str) (h : sanitizeCore s = some r) : r ∉ reserved :=
  Base.not_reserved ⟨s, h⟩

/-- `reserved` is the list regenerated from the live classes on this run -/
theorem reserved_is_generated : reserved = Gen.reservedNames.map String.toList := rfl

/-- the facts about the regenerated reserved list the proofs rest on (whole list, in the kernel):
    appending `_` leaves the list, no reserved name looks like `name__digits`, `col<digits>` or `col<digits>_` -/
theorem reserved_side_conditions :
    (∀ n ∈ reserved, n ++ ['_'] ∉ reserved) ∧ (∀ n ∈ reserved, matchesIndexed n = false) ∧
    (∀ n ∈ reserved, isColDigits n = false) ∧ (∀ n ∈ reserved, colNDigits n = none) :=
  ⟨reserved_suffix_free, reserved_not_matches, reserved_not_colDigits, reserved_not_colN⟩

/-- a sanitised name never looks like an indexed accessor `name__digits` nor like a generated `col<N>_` -/
theorem sanitize_not_generated_shape (s r : Str) (h : sanitizeCore s = some r) :
    matchesIndexed r = false ∧ colNDigits r = none ∧ ∀ i, r ≠ colN i :=
  ⟨Base.not_matches ⟨s, h⟩, Base.colNDigits_none ⟨s, h⟩, Base.ne_colN ⟨s, h⟩⟩

/-- fixed points: a sanitised name that does not end in `_` sanitises to itself; one that does
    (reserved / pattern guard) is what its stem sanitises to -/
theorem sanitize_fixed_point (s r : Str) (h : sanitizeCore s = some r) :
    (endsWithU r = false → sanitizeCore r = some r) ∧
    (endsWithU r = true → sanitizeCore r.dropLast = some r) := sanitize_fixed h

/-- an already clean name (over `[a-z0-9_]`, no outer `_`, not starting with a digit, not of the shape
    `name__digits`, not reserved) is left alone: the documented rules change nothing else -/
theorem sanitize_clean_unchanged (a : Str) (hne : a ≠ []) (hok : ∀ c ∈ a, okChar c = true)
    (hhead : ∀ c, a.head? = some c → isU c = false ∧ isDigit c = false) (hlast : a.getLast? ≠ some '_')
    (hm : matchesIndexed a = false) (hr : a ∉ reserved) : sanitizeCore a = some a := by
  have hc : Clean a := ⟨hne, hok, fun c h => (hhead c h).1, hlast⟩
  rw [hc.sanitize]
  have hp : prefixC a = a := by
    cases a with
    | nil => rfl
    | cons x xs => simp [prefixC, (hhead x rfl).2]
  simp [finish, hp, guardIndexed, hm, guardReserved_of_not_mem hr]

/-! #### the accessors of a table (any width) -/

/-- validity: every advertised accessor is an identifier over `[a-z0-9_]` starting with a letter -/
theorem accessors_valid (names : List (Option Str)) : ∀ a ∈ accessors names, isIdent a = true :=
  fun _ h => accessor_ident h

/-- no shadowing: no advertised accessor is a reserved Vector/Table attribute name -/
theorem accessors_not_reserved (names : List (Option Str)) : ∀ a ∈ accessors names, a ∉ reserved :=
  fun _ h => accessor_not_reserved h

/-- Python's keywords are among the reserved names of the current source (whole lists, in the kernel) … -/
theorem keywords_reserved : ∀ k ∈ Gen.pyKeywords, k.toList ∈ reserved := by
  decide +kernel

/-- … hence no advertised accessor is a Python keyword: `t.<accessor>` is always syntactically possible -/
theorem accessors_not_keyword (names : List (Option Str)) :
    ∀ a ∈ accessors names, ∀ k ∈ Gen.pyKeywords, a ≠ k.toList := by
  intro a ha k hk e
  exact accessors_not_reserved names a ha (e ▸ keywords_reserved k hk)

/-- distinctness: one accessor per column, pairwise distinct, whatever the duplication pattern -/
theorem accessors_distinct (names : List (Option Str)) :
    (accessors names).Nodup ∧ (accessors names).length = names.length :=
  ⟨accessorsFrom_nodup 0 [] names, accessors_length names⟩

/-- what `dir(t)` advertises (the keys of `_build_column_map()`, in order) are exactly these accessors,
    and the map sends the accessor of column `k` to `k` -/
theorem map_is_accessors (names : List (Option Str)) :
    Dict.keys (buildColumnMap names) = accessors names ∧
    ∀ k a, (accessors names)[k]? = some a → Dict.get? (buildColumnMap names) a = some k :=
  ⟨keys_buildColumnMap names, fun _ _ h => map_get names h⟩

/-- unnamed columns are `col<N>_` -/
theorem unnamed_is_colN (names : List (Option Str)) (k : Nat) (h : names[k]? = some none) :
    (accessors names)[k]? = some (colN k) := unnamed_accessor h

/-- resolution by attribute access: `getattr(t, accessor of column k)` is column `k` -/
theorem getattr_resolves_to_own_index (names : List (Option Str)) (k : Nat) (a : Str)
    (h : (accessors names)[k]? = some a) : resolveAttr names (buildColumnMap names) a = .col k :=
  resolveAttr_own h

/-- resolution as a column key of table item assignment (`t[row, accessor] = x`), of attribute
    assignment (`t.accessor = v`) and of row attribute access (`t[i].accessor`) -/
theorem setitem_key_resolves_to_own_index (names : List (Option Str)) (k : Nat) (a : Str)
    (h : (accessors names)[k]? = some a) :
    resolveSetItem (buildColumnMap names) a = .col k ∧
    resolveSetAttr names (buildColumnMap names) a = .col k ∧
    resolveRow (buildColumnMap names) a = .col k :=
  ⟨resolveSetItem_own h, resolveSetAttr_own h, resolveRow_own h⟩

/-- string indexing by a stored name gives the first column with that stored name -/
theorem string_index_first_occurrence (cols : List (Option Name)) (key : Name) (i : Nat)
    (h : firstOccurrence cols key = some i) :
    stringIndex cols key = some i ∧
    ∃ hi : i < cols.length, sameName cols[i] (some key) = true ∧
      ∀ j (hj : j < i), sameName (cols[j]'(Nat.lt_trans hj hi)) (some key) = false := by
  refine ⟨stringIndex_of_first h, ?_⟩
  unfold firstOccurrence at h
  obtain ⟨hi, hp, hq⟩ := List.findIdx?_eq_some_iff_getElem.mp h
  exact ⟨hi, hp, fun j hj => by simpa using hq j hj⟩

/-- …and a stored name that occurs is always found -/
theorem string_index_finds_stored (cols : List (Option Name)) (key : Name) (h : some key ∈ cols) :
    ∃ i, stringIndex cols key = some i := by
  have hrefl : sameName (some key) (some key) = true := by simp [sameName]
  cases hf : firstOccurrence cols key with
  | some i => exact ⟨i, stringIndex_of_first hf⟩
  | none =>
    unfold firstOccurrence at hf
    have := List.findIdx?_eq_none_iff.mp hf _ h
    rw [hrefl] at this; cases this

/-- the dot row of repr: `_compute_headers`, which recomputes the names independently, yields exactly
    the accessors of the shown columns — for every set of shown columns (wide tables included) -/
theorem repr_dot_row_eq_map (names : List (Option Str)) (shown : List Nat) :
    computeHeaders names shown = shownAccessors names shown := computeHeaders_eq names shown

/-! #### stored names and histories -/

/-- sanitisation never alters stored names: every lookup path (and attribute replacement) leaves the
    stored names as they are; `rename_column` changes exactly the first column whose stored name matches -/
theorem stored_names_untouched (s : TState) (h : Fresh s) (a : Str) :
    (step s (.getattr a)).1.cols = s.cols ∧ (step s (.row a)).1.cols = s.cols ∧
    (step s (.setitem a)).1.cols = s.cols ∧ (step s (.replace a)).1.cols = s.cols ∧
    (step s .dir).1.cols = s.cols ∧
    ∀ old new, renameFirst old new s.cols =
      (s.cols.findIdx? (fun c => sameName c old)).map (fun i => s.cols.set i new) := by
  obtain ⟨h1, h2, h3, h4⟩ := step_lookup_cols h a
  exact ⟨h1, h2, h3, h4, step_dir.2, fun old new => renameFirst_eq old new s.cols⟩

/-- history invariant: after ANY sequence of renames, renames through a live view, replacements,
    column additions, `dir()` calls and lookups, a cached map that no wild column invalidates is the
    map of the current names -/
theorem map_fresh (init : List (Option Name)) (ops : List Op) : Fresh (run (mkTable init) ops).1 :=
  run_Fresh (fresh_mkTable init) ops

/-- …so after any history every advertised accessor still resolves to the column at its own position
    on every lookup path, and `dir` advertises exactly the accessors of the current stored names -/
theorem history_lookup_correct (init : List (Option Name)) (ops : List Op) :
    let s := (run (mkTable init) ops).1
    (step s .dir).2 = .names (accessors s.lowers) ∧
    ∀ k a, (accessors s.lowers)[k]? = some a →
      (step s (.getattr a)).2 = .look (.col k) ∧ (step s (.row a)).2 = .look (.col k) ∧
      (step s (.setitem a)).2 = .look (.col k) ∧ (step s (.replace a)).2 = .look (.col k) ∧
      ∀ new, (step s (.viewAttr a new)).1.cols = s.cols.set k new := by
  intro s
  have h : Fresh s := map_fresh init ops
  refine ⟨step_dir.1, fun k a ha => ⟨step_getattr_own h ha, step_row_own h ha, step_setitem_own h ha,
    (step_replace_own h ha).1, fun new => (step_viewAttr_own h new ha).2⟩⟩

/-! #### non-vacuity and the documented rules on concrete inputs -/

private def S (s : String) : Option Str := some s.toList
private def N (i : Nat) (s : String) : Option Name := some ⟨i, s.toList⟩

example : sanitizeCore "column names".toList = some "column_names_".toList := by decide
example : sanitizeCore "  --a b!!c__ ".toList = some "a_b_c".toList := by decide
example : sanitizeCore "2nd".toList = some "c2nd".toList := by decide
example : sanitizeCore "a__1".toList = some "a__1_".toList := by decide
example : sanitizeCore "sum".toList = some "sum_".toList := by decide
example : sanitizeCore "_!_".toList = none := by decide
example : (accessors [S "sum", S "sum", S "a", none, S "a", S "a__4", S "", S "col3_"]).map String.ofList
    = ["sum_", "sum__1", "a", "col3_", "a__4", "a__4_", "col6_", "col3"] := by decide
example : resolveAttr [S "sum", S "sum"] (buildColumnMap [S "sum", S "sum"]) "sum__1".toList = .col 1 := by decide
example : computeHeaders [S "x", S "y", S "x"] [0, 2] = ["x".toList, "x__2".toList] := by decide
example : stringIndex [N 1 "b", N 2 "a", N 2 "a"] ⟨2, "a".toList⟩ = some 1 := by decide
example : (run (mkTable [N 1 "a", N 2 "b"]) [.view 0 (N 3 "zz"), .dir, .getattr "zz".toList]).2
    = [.done, .names ["zz".toList, "b".toList], .look (.col 0)] := by decide
example : reserved.length > 30 := by decide +kernel

end Serif.C17
