/-
  C12 — group-by aggregation: one row per key in first-appearance order, correct values.
  Property theorems only; helper lemmas live in Serif/Proofs/Group.lean.
  All statements are about the definitions of Serif/Model/Group.lean that the driver executes, for every key type
  with decidable equality (None is just another key), every value list and every custom function.
-/
import Serif.Proofs.Group

namespace Serif.C12
open Serif.Group

section partition
variable {κ : Type} [DecidableEq κ]

/-! #### the partition index -/

/-- the keys of the partition index are the distinct keys of the table in first-appearance order -/
theorem partition_keys_first_appearance (keys : List κ) :
    Dict.keys (partition keys) = dedup keys := by
  rw [partition_eq]; simp [Dict.keys, List.map_map, Function.comp_def]

/-- what "distinct keys in first-appearance order" means: no repeats, exactly the keys that occur,
    ordered by the row of their first occurrence (these three facts determine the list) -/
theorem first_appearance_characterised (keys : List κ) :
    (dedup keys).Nodup ∧ (∀ k, k ∈ dedup keys ↔ k ∈ keys) ∧
    (dedup keys).Pairwise (fun a b => keys.idxOf a < keys.idxOf b) :=
  ⟨dedup_nodup keys, mem_dedup keys, dedup_sorted_by_first_index keys⟩

/-- the bucket of `k` is the list of exactly the rows whose key is `k`; a key that does not occur has no bucket -/
theorem partition_rows_filter (keys : List κ) (k : κ) :
    Dict.get? (partition keys) k = if k ∈ keys then some (rowsOf keys k) else none :=
  dict_get?_partition keys k

/-- … and that list is ascending, contains row `i` iff `keys[i] = k`, and is non-empty for a key that occurs -/
theorem partition_rows_ascending (keys : List κ) (k : κ) :
    (rowsOf keys k).Pairwise (· < ·) ∧ (∀ i, i ∈ rowsOf keys k ↔ keys[i]? = some k) ∧
    (k ∈ keys → rowsOf keys k ≠ []) :=
  ⟨rowsOf_ascending keys k, mem_rowsOf keys k, rowsOf_ne_nil keys k⟩

/-- `group_items` in closed form -/
theorem group_items_closed_form (keys : List κ) :
    partition keys = (dedup keys).map (fun k => (k, rowsOf keys k)) := partition_eq keys

/-- gathering a column through a bucket gives the values of the rows with that key, in row order
    (also when the column is shorter or longer than the key list: both sides stop at the shorter one) -/
theorem gather_is_group {α : Type} (keys : List κ) (data : List α) (k : κ) :
    gather data (rowsOf keys k) = groupVals keys data k := gather_rowsOf keys data k

/-! #### one row per key, any aggregate function -/

/-- `aggregate_col` with ANY function `f` is textbook group-by: one entry per distinct key, in first-appearance
    order, `f` applied to the values of that key's rows in row order -/
theorem aggregate_col_eq_groupby {α β : Type} (data : List α) (keys : List κ) (f : List α → β) :
    aggCol data (partition keys) f = (dedup keys).map (fun k => f (groupVals keys data k)) :=
  aggCol_partition data keys f

/-- one output row per distinct key -/
theorem one_row_per_key {α β : Type} (data : List α) (keys : List κ) (f : List α → β) :
    (aggCol data (partition keys) f).length = (dedup keys).length := by
  rw [aggCol_partition]; simp [aggSpec]

/-- a custom function is called exactly once per group, in group order, with that group's values (None
    included: nothing is filtered) in row order -/
theorem apply_called_once_per_group_in_order {α : Type} (data : List α) (keys : List κ) :
    callLog data (partition keys) = (dedup keys).map (fun k => groupVals keys data k) :=
  callLog_partition data keys

end partition

/-! #### the built-ins equal the textbook functions of the non-None values -/

/-- sum (a left fold from 0 in the code) is the sum of the non-None values; an all-None group gives 0 -/
theorem sum_textbook (vals : List (Option Int)) :
    sumF vals = (clean vals).sum ∧ (clean vals = [] → sumF vals = 0) := by
  have h : sumF vals = (clean vals).sum := by simp [sumF, foldl_add_int]
  exact ⟨h, fun e => by rw [h, e]; rfl⟩

/-- count is the number of non-None values; an all-None group gives 0 -/
theorem count_textbook (vals : List (Option Int)) :
    countF vals = (clean vals).length ∧ (clean vals = [] → countF vals = 0) := by
  have h : countF vals = (clean vals).length := by simp [countF, foldl_count]
  exact ⟨h, fun e => by rw [h, e]; rfl⟩

/-- min is the least non-None value (Python's first-minimum scan = `List.min?`), None for an all-None group -/
theorem min_textbook (vals : List (Option Int)) :
    minF vals = (clean vals).min? ∧ (clean vals = [] → minF vals = none) ∧
    ∀ m, minF vals = some m ↔ m ∈ clean vals ∧ ∀ v ∈ clean vals, m ≤ v := by
  have h : minF vals = (clean vals).min? := pyMin_eq _
  refine ⟨h, fun e => by rw [h, e]; rfl, fun m => ?_⟩
  rw [h]; exact tbMin_spec _ m

theorem max_textbook (vals : List (Option Int)) :
    maxF vals = (clean vals).max? ∧ (clean vals = [] → maxF vals = none) ∧
    ∀ m, maxF vals = some m ↔ m ∈ clean vals ∧ ∀ v ∈ clean vals, v ≤ m := by
  have h : maxF vals = (clean vals).max? := pyMax_eq _
  refine ⟨h, fun e => by rw [h, e]; rfl, fun m => ?_⟩
  rw [h]; exact tbMax_spec _ m

/-- mean is Σ/n over the non-None values as an exact rational, None for an all-None group -/
theorem mean_textbook (vals : List (Option Int)) :
    meanF vals = tbMean (clean vals) ∧ (clean vals = [] → meanF vals = none) := by
  refine ⟨meanF_eq vals, fun e => ?_⟩
  rw [meanF_eq, e]; rfl

/-- stdev² is the sample variance Σ(v − mean)²/(n − 1) of the non-None values; fewer than two values give None -/
theorem stdev_textbook (vals : List (Option Int)) :
    varF vals = tbVar (clean vals) ∧ ((clean vals).length < 2 → varF vals = none) := by
  refine ⟨varF_eq vals, fun h => ?_⟩
  rw [varF_eq]; simp [tbVar, h]

/-- the sample variance in its computational form (n·Σv² − (Σv)²) / (n·(n − 1)) -/
theorem stdev_second_moment_form (c : List Int) (h : 2 ≤ c.length) :
    tbVar c = some (((c.length : Rat) * (c.map (fun (v : Int) => (v : Rat) ^ 2)).sum - ((c.sum : Int) : Rat) ^ 2)
      / ((c.length : Rat) * ((c.length : Rat) - 1))) :=
  tbVar_second_moment c h

/-- all six at once, in the form the driver evaluates -/
theorem builtin_textbook (fn : Fn) (vals : List (Option Int)) :
    builtin fn vals = textbook fn (clean vals) := builtin_eq_textbook fn vals

/-! #### the whole result -/

section whole
variable {κc ρ α β : Type} [DecidableEq κc]

/-- `aggregate` succeeds exactly when every key, value and apply column has the table's length -/
theorem aggregate_ok_iff (sfx : Nat → String) (a : Args κc ρ α β) :
    (∃ cols, aggregate sfx a = .ok cols) ↔ (keyLensOk a = true ∧ aggLensOk a = true) := by
  unfold aggregate
  cases h1 : keyLensOk a <;> cases h2 : aggLensOk a <;> simp

/-- the result of `aggregate`, column by column: first one column per partition key holding the distinct key
    tuples in first-appearance order, then for each built-in argument (sum, mean, min, max, count, stdev blocks)
    the textbook value over each group's non-None values, then the custom results — one row per key throughout -/
theorem aggregate_eq_spec (sfx : Nat → String) (a : Args κc ρ α β) (cols : List (OutCol κc ρ β))
    (h : aggregate sfx a = .ok cols) :
    cols.map (·.cells) = aggregateCellsSpec a := aggregate_cells sfx a cols h

/-- key columns first -/
theorem keys_first (sfx : Nat → String) (a : Args κc ρ α β) (cols : List (OutCol κc ρ β))
    (h : aggregate sfx a = .ok cols) :
    (cols.take a.over.length).map (·.cells) =
      (List.range a.over.length).map (fun idx => OutCells.keys ((dedup (keysOf a)).filterMap (·[idx]?))) := by
  rw [List.map_take, aggregate_eq_spec sfx a cols h]
  simp [aggregateCellsSpec]

/-- every result column has exactly one row per distinct key tuple -/
theorem result_one_row_per_key (sfx : Nat → String) (a : Args κc ρ α β) (cols : List (OutCol κc ρ β))
    (h : aggregate sfx a = .ok cols) (hk : keyLensOk a = true) :
    ∀ c ∈ cols, c.cells.length = (dedup (keysOf a)).length := by
  intro c hc
  have hm : c.cells ∈ cols.map (·.cells) := List.mem_map.mpr ⟨c, hc, rfl⟩
  rw [aggregate_eq_spec sfx a cols h] at hm
  simp only [aggregateCellsSpec, List.mem_append, List.mem_map, List.mem_range] at hm
  rcases hm with (⟨idx, hidx, e⟩ | ⟨p, _, e⟩) | ⟨p, _, e⟩
  · rw [← e]
    simp only [OutCells.length]
    apply length_filterMap_of_isSome
    intro k hk'
    have hlen := keysOf_row_length a hk k ((mem_dedup _ k).mp hk')
    simp [List.getElem?_eq_getElem (by omega : idx < k.length)]
  · rw [← e]; simp [OutCells.length]
  · rw [← e]; simp [OutCells.length]

omit [DecidableEq κc] in
/-- composite keys: two rows fall into the same group iff they agree on every key column (so tuples that agree on
    one component only are different keys) -/
theorem composite_key_eq_iff (a : Args κc ρ α β) (h : keyLensOk a = true) (i j : Nat)
    (hi : i < a.nrows) (hj : j < a.nrows) :
    (keysOf a)[i]? = (keysOf a)[j]? ↔ ∀ c ∈ a.over, c.cells[i]? = c.cells[j]? := by
  rw [keysOf_getElem? a i hi, keysOf_getElem? a j hj, Option.some.injEq]
  simp only [keyLensOk, List.all_eq_true, beq_iff_eq] at h
  rw [filterMap_eq_iff_of_isSome]
  · simp
  · intro c hc
    obtain ⟨kc, hkc, rfl⟩ := List.mem_map.mp hc
    simp [List.getElem?_eq_getElem (by rw [h kc hkc]; exact hi : i < kc.cells.length)]
  · intro c hc
    obtain ⟨kc, hkc, rfl⟩ := List.mem_map.mp hc
    simp [List.getElem?_eq_getElem (by rw [h kc hkc]; exact hj : j < kc.cells.length)]

/-- the custom functions of the whole call: each is called once per group, in group order, with the group's cells -/
theorem apply_logs (a : Args κc ρ α β) :
    applyLogs a = a.apply.map (fun p => (dedup (keysOf a)).map (fun k => groupVals (keysOf a) p.data k)) := by
  unfold applyLogs
  apply List.map_congr_left
  intro p _
  exact callLog_partition _ _

end whole

/-! #### whole-column reductions -/

/-- `Vector.sum/mean/min/max/stdev` on a vector with at least one non-None value return what `aggregate` computes
    for that column taken as a single group (any constant key) -/
theorem vector_reduction_eq_single_group {κ : Type} [DecidableEq κ] (fn : Fn) (vals : List (Option Int)) (k : κ)
    (h : clean vals ≠ []) :
    (aggCol vals (partition (List.replicate vals.length k)) (builtin fn)).map some = [vecReduce fn vals] := by
  have hv : vals ≠ [] := by intro e; apply h; rw [e]; rfl
  rw [aggCol_single_group vals k _ hv, vecReduce_eq fn vals h]
  rfl

/-! #### output names (shared with C18) -/

/-- the `while` loop of `uniquify` ends within `len(used) + 1` iterations, at the smallest numeric suffix ≥ 2
    that is still free, for every injective rendering of the number -/
theorem uniquify_terminates (sfx : Nat → String) (name : String)
    (hinj : ∀ i j, name ++ sfx i = name ++ sfx j → i = j) (used : List String) :
    ∃ j, 2 ≤ j ∧ uniqLoop sfx name used (used.length + 1) 2 = name ++ sfx j ∧ name ++ sfx j ∉ used ∧
      ∀ j', 2 ≤ j' → j' < j → name ++ sfx j' ∈ used :=
  uniqLoop_spec sfx name hinj (used.length + 1) used 2 (Nat.lt_succ_self _)

/-- `uniquify` keeps a free name as it is, and always hands out a name that was not used before -/
theorem uniquify_fresh_name (sfx : Nat → String) (hinj : ∀ name i j, name ++ sfx i = name ++ sfx j → i = j)
    (used : List String) (name : String) :
    (name ∉ used → (uniquify sfx used name).1 = name) ∧ (uniquify sfx used name).1 ∉ used := by
  refine ⟨fun h => ?_, (uniquify_fresh sfx hinj used name).1⟩
  simp [uniquify, h]

/-- Python's rendering of the suffix (`str(i)`, modelled by `toString`) is injective -/
theorem suffix_rendering_injective (name : String) (i j : Nat) (h : name ++ toString i = name ++ toString j) :
    i = j := toString_suffix_injective name i j h

/-- the column names of an aggregate result are pairwise distinct -/
theorem agg_names_nodup {κc ρ α β : Type} [DecidableEq κc] (a : Args κc ρ α β) (cols : List (OutCol κc ρ β))
    (h : aggregate (fun i => toString i) a = .ok cols) : (cols.map (·.name)).Nodup := by
  rw [aggregate_names _ a cols h]
  exact (uniquifyAll_fresh_nodup _ (fun n i j e => toString_suffix_injective n i j e) _ _).1

/-- their form: a name that is free stays as it is — key columns are called `col._name or "key"`, built-in
    columns `<sanitised>_<fn>`, custom columns by their dictionary key — in column order -/
theorem agg_names_form {κc ρ α β : Type} [DecidableEq κc] (a : Args κc ρ α β) (cols : List (OutCol κc ρ β))
    (h : aggregate (fun i => toString i) a = .ok cols) (hn : (rawNames a).Nodup) :
    cols.map (·.name) = rawNames a := by
  rw [aggregate_names _ a cols h]
  exact uniquifyAll_of_nodup _ _ [] hn (by simp)

/-! #### non-vacuity: concrete inputs -/

-- interleaved groups, a None key (`none`), first-appearance order
example : partition [some 2, none, some 2, some 1, none] = [(some 2, [0, 2]), (none, [1, 4]), (some 1, [3])] := by decide
example : dedup [some 2, none, some 2, some 1, none] = [some 2, none, some 1] := by decide
example : aggCol [some 5, none, some 7, some 1, none] (partition [2, 9, 2, 1, 9]) sumF = [12, 0, 1] := by decide
example : aggCol [some 5, none, some 7, some 1, none] (partition [2, 9, 2, 1, 9]) countF = [2, 0, 1] := by decide
example : aggCol [some 5, none, some 7, some 1, none] (partition [2, 9, 2, 1, 9]) minF = [some 5, none, some 1] := by decide
example : aggCol [some 5, none, some 7, some 1, none] (partition [2, 9, 2, 1, 9]) meanF = [some 6, none, some 1] := by
  decide +kernel
example : varF [some 1, none, some 2, some 4] = some (7 / 3) := by decide +kernel
example : callLog [some 5, none, some 7, some 1, none] (partition [2, 9, 2, 1, 9]) =
    [[some 5, some 7], [none, none], [some 1]] := by decide
example : uniquifyAll (fun i => toString i) ["k", "x_sum", "x_sum", "x_sum2", "x_sum"] [] =
    ["k", "x_sum", "x_sum2", "x_sum22", "x_sum3"] := by decide +kernel
-- a whole call: names (with uniquify), one row per key in every column
example : (aggregate (fun i => toString i) exampleArgs).toOption.map (fun cols => cols.map (·.name))
    = some ["k", "x_sum", "x_sum2", "x_sum3"] := by decide +kernel
example : (aggregate (fun i => toString i) exampleArgs).toOption.map (fun cols => cols.map (·.cells.length))
    = some [3, 3, 3, 3] := by decide +kernel

end Serif.C12
