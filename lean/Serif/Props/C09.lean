/-
  C09 — inner join returns exactly the key-equal row pairs, in left-major order.
  Property theorems only; helper lemmas live in Serif/Proofs/Join.lean.
  `K` is any key type with decidable equality (the driver instantiates it with the list of equality-class ids
  of a row's key components), `α` any cell type.
-/
import Serif.Proofs.Join

namespace Serif.C09
open Serif.Join

variable {K : Type} [DecidableEq K] {α : Type}

/-! #### the right index -/

/-- after the build loop the bucket of every key holds exactly the positions of its occurrences,
    whatever else the loop records (`chk` = whether the `duplicates` dict is maintained) -/
theorem index_bucket (chk : Bool) (rkeys : List K) (k : K) :
    bucketOf (build chk rkeys).1 k = matchIdx rkeys 0 k := bucket_build chk rkeys k

/-- … where "positions of its occurrences" means: `j` is listed iff row `j` carries key `k` … -/
theorem bucket_mem (rkeys : List K) (k : K) (j : Nat) : j ∈ matchIdx rkeys 0 k ↔ rkeys[j]? = some k := by
  rw [mem_matchIdx, List.mk_mem_zipIdx_iff_getElem?]

/-- … each once and in ascending order -/
theorem bucket_sorted (rkeys : List K) (k : K) : (matchIdx rkeys 0 k).Pairwise (· < ·) :=
  matchIdx_sorted rkeys 0 k

/-! #### emitted rows = nested-loop definition, as lists (so the order is included) -/

/-- `inner_join(..., expect='many_to_many')` never raises on valid keys and emits exactly
    `[(i, j) for i, k in enumerate(L) for j, k' in enumerate(R) if k == k']`, in that order -/
theorem pairs_eq_spec (lkeys rkeys : List K) :
    joinPairs .inner "many_to_many" lkeys rkeys = .ok ((innerSpec lkeys rkeys).map liftPair) := by
  rw [joinPairs_eq_spec]
  simp [specJoinPairs, valid_mm, specCore_mm, specPairs]

/-- under every other expectation: whenever the call returns, it returns that same list -/
theorem pairs_eq_spec_any (e : String) (lkeys rkeys : List K) (ps : List Pair)
    (h : joinPairs .inner e lkeys rkeys = .ok ps) : ps = (innerSpec lkeys rkeys).map liftPair := by
  rw [joinPairs_eq_spec] at h
  unfold specJoinPairs at h
  split at h
  · cases h
  · exact specCore_ok .inner e lkeys rkeys ps h

/-- exactly the key-equal pairs: `(i, j)` is emitted iff both rows exist and carry equal keys … -/
theorem pairs_mem_iff (lkeys rkeys : List K) (i j : Nat) :
    (i, j) ∈ innerSpec lkeys rkeys ↔ ∃ k, lkeys[i]? = some k ∧ rkeys[j]? = some k := by
  simp only [mem_innerSpec, List.mk_mem_zipIdx_iff_getElem?]

/-- … and exactly one row per such pair -/
theorem pairs_nodup (lkeys rkeys : List K) : (innerSpec lkeys rkeys).Nodup := innerSpec_nodup lkeys rkeys

/-- left-major order, stated without reference to the loop: any two emitted rows appear in
    lexicographic order of (left position, right position) -/
theorem pairs_left_major (lkeys rkeys : List K) :
    (innerSpec lkeys rkeys).Pairwise (fun a b => a.1 < b.1 ∨ (a.1 = b.1 ∧ a.2 < b.2)) := by
  unfold innerSpec
  rw [List.pairwise_flatMap]
  constructor
  · rintro ⟨k, i⟩ _
    rw [List.pairwise_filterMap]
    refine (zipIdx_snd_lt rkeys 0).imp ?_
    intro p q hlt b hb c hc
    split at hb <;> split at hc <;> simp at hb hc
    subst hb; subst hc; exact Or.inr ⟨rfl, hlt⟩
  · refine (zipIdx_snd_lt lkeys 0).imp ?_
    rintro ⟨k, i⟩ ⟨k', i'⟩ hlt x hx y hy
    simp only [List.mem_filterMap] at hx hy
    obtain ⟨q, _, hq⟩ := hx
    obtain ⟨q', _, hq'⟩ := hy
    split at hq <;> split at hq' <;> simp at hq hq'
    subst hq; subst hq'; exact Or.inl hlt

/-- no dependence on how the dict stores its buckets (hence none on hash order or hash seed):
    the probe loop gives the same result for any two indexes that answer `get` alike -/
theorem dict_independent (outer chkL : Bool) (ix ix' : Index K) (h : ∀ k, bucketOf ix k = bucketOf ix' k)
    (lkeys : List K) : probe outer chkL ix lkeys 0 [] = probe outer chkL ix' lkeys 0 [] :=
  probe_congr outer chkL ix ix' h lkeys 0 []

/-! #### result rows and names -/

/-- output row `p` carries all left columns followed by all right columns of the paired rows -/
theorem rows (pad : α) (L R : Tab α) (ps : List Pair) (p : Nat) (h : p < ps.length) :
    (resultCols pad L R ps).map (fun c => c[p]?.getD pad)
      = rowAt pad L.cols ps[p].1 ++ rowAt pad R.cols ps[p].2 := row_resultCols pad L R ps p h

/-- for an inner join both halves are real rows: `L.row i ++ R.row j` -/
theorem rows_inner (pad : α) (L R : Tab α) (ij : List (Nat × Nat)) (p : Nat) (h : p < ij.length) :
    (resultCols pad L R (ij.map liftPair)).map (fun c => c[p]?.getD pad)
      = L.cols.map (fun c => c[ij[p].1]?.getD pad) ++ R.cols.map (fun c => c[ij[p].2]?.getD pad) := by
  rw [row_resultCols pad L R _ p (by simpa using h)]
  simp [rowAt, cellAt, liftPair]

/-- every result column has one cell per emitted pair -/
theorem column_lengths (pad : α) (L R : Tab α) (ps : List Pair) :
    ∀ c ∈ resultCols pad L R ps, c.length = ps.length := resultCols_length pad L R ps

/-- unless the empty-result shortcut applies, the result carries the left names followed by the right
    names and the buffers as filled; with the shortcut it is the zero-column table -/
theorem names (pad : α) (tagOf : α → Tag) (kind : JKind) (L R : Tab α) (ps : List Pair) :
    (shortcut kind L.nrows R.nrows (resultCols pad L R ps) = false →
      (assemble pad tagOf kind L R ps).names = L.names ++ R.names ∧
      (assemble pad tagOf kind L R ps).cols = resultCols pad L R ps) ∧
    (shortcut kind L.nrows R.nrows (resultCols pad L R ps) = true →
      assemble pad tagOf kind L R ps = { names := [], cols := [], dtypes := [] }) := by
  constructor <;> intro h <;> simp [assemble, h]

/-- the inner-join shortcut fires exactly when no pair was emitted (or there is no column at all) -/
theorem inner_shortcut_iff (pad : α) (L R : Tab α) (ps : List Pair) :
    shortcut .inner L.nrows R.nrows (resultCols pad L R ps) = true ↔ (ps = [] ∨ (L.cols = [] ∧ R.cols = [])) := by
  simp only [shortcut, List.all_eq_true, List.isEmpty_iff]
  constructor
  · intro h
    by_cases hp : ps = []
    · exact Or.inl hp
    · right
      have hlen := resultCols_length pad L R ps
      have hall : ∀ c ∈ resultCols pad L R ps, False := by
        intro c hc
        have h1 := h c hc
        have h2 := hlen c hc
        rw [h1] at h2
        exact hp (List.eq_nil_of_length_eq_zero h2.symm)
      have hnil : resultCols pad L R ps = [] := List.eq_nil_iff_forall_not_mem.mpr (fun c hc => hall c hc)
      simpa [resultCols] using hnil
  · rintro (rfl | ⟨h1, h2⟩)
    · intro c hc
      simp only [resultCols, List.mem_append, List.mem_map] at hc
      rcases hc with ⟨_, _, rfl⟩ | ⟨_, _, rfl⟩ <;> rfl
    · intro c hc; simp [resultCols, h1, h2] at hc

/-! #### the whole call: model of the method = its specification -/

/-- for every method, expectation, pair of tables and key arguments: the model of the implementation
    (index, duplicates dict, seen set, probe loop, sweep; `expect` tuples as read from the source)
    returns what the specification (nested loops; `Nodup` tests) returns — same error or same table -/
theorem run_eq_spec (kind : JKind) (e : String) (L R : Tab Cell) (lon ron : OnArg) :
    run kind e L R lon ron = specRun kind e L R lon ron := run_eq_specRun kind e L R lon ron

/-! #### non-vacuity -/

example : joinPairs .inner "many_to_many" [1, 2, 1] [1, 1, 3, 2]
    = .ok [(some 0, some 0), (some 0, some 1), (some 1, some 3), (some 2, some 0), (some 2, some 1)] := by decide
example : innerSpec [[1, 0], [1, 1], [0, 0]] [[1, 1], [0, 1], [1, 1]] = [(1, 0), (1, 2)] := by decide
example : bucketOf (build true [5, 7, 5, 5]).1 5 = [0, 2, 3] := by decide
example : (resultCols 0 ⟨[some "k", some "x"], [[1, 2], [10, 20]]⟩ ⟨[some "k"], [[2, 2]]⟩
    [(some 1, some 0), (some 1, some 1)]) = [[2, 2], [20, 20], [2, 2]] := by decide

end Serif.C09
