/-
  C08 — in-place assignment matches list assignment, promotes or rejects, and is atomic.
  Property theorems only; helper lemmas live in Serif/Proofs/Assign.lean.

  `setitem P conv shared key value s` is the model of `Vector.__setitem__` (Serif/Model/Assign.lean);
  it returns (exception?, state at the point where it stopped).  The theorems hold for every
  promotable relation `P` and every conversion oracle `conv`; the driver runs the same function
  with `P := genP` (the set extracted from the source on this run).
-/
import Serif.Proofs.Assign
import Serif.Gen.Consts

namespace Serif.C08
open Serif.Assign

/-! #### Vector.__setitem__ -/

/-- Atomicity: whatever the reason an assignment fails — alias refusal, wrong key type, index out
    of range, mask / slice / index-list length mismatch, `len(value)` raising, the value iterator
    raising after any number of items, an incompatible value anywhere in the sequence, a refused
    promotion, an element conversion that raises — the vector (contents, dtype, name, fingerprint
    memo) is exactly as it was. -/
theorem vector_atomic (P : Kind → Kind → Bool) (conv : Kind → Nat → Option Nat) (shared : Bool)
    (key : Key) (value : Value) (s : VState) (e : Err)
    (h : (setitem P conv shared key value s).1 = some e) :
    (setitem P conv shared key value s).2 = s :=
  setitem_err_unchanged P conv shared key value s e h

/-- the length never changes, whatever the outcome -/
theorem length_preserved (P : Kind → Kind → Bool) (conv : Kind → Nat → Option Nat) (shared : Bool)
    (key : Key) (value : Value) (s : VState) :
    (setitem P conv shared key value s).2.data.length = s.data.length := by
  cases h : setitem P conv shared key value s with
  | mk r s' =>
    cases r with
    | some e =>
      have := setitem_err_unchanged P conv shared key value s e (by rw [h])
      rw [h] at this; simp at this; rw [this]
    | none =>
      obtain ⟨ups, s1, _, ht, hs⟩ := setitem_ok P conv shared key value s s' h
      rcases typePhase_result P conv (ups.map (·.2)) s with ⟨e, he⟩ | ⟨s1', he, _, _, hl, _⟩
      · rw [he] at ht; cases ht
      · rw [he] at ht; injection ht with _ ht; subst ht
        simp [hs, materialise, applyUpdates_length, hl]

/-- the name never changes, whatever the outcome -/
theorem name_preserved (P : Kind → Kind → Bool) (conv : Kind → Nat → Option Nat) (shared : Bool)
    (key : Key) (value : Value) (s : VState) :
    (setitem P conv shared key value s).2.name = s.name := by
  cases h : setitem P conv shared key value s with
  | mk r s' =>
    cases r with
    | some e =>
      have := setitem_err_unchanged P conv shared key value s e (by rw [h])
      rw [h] at this; simp at this; rw [this]
    | none =>
      obtain ⟨ups, s1, _, ht, hs⟩ := setitem_ok P conv shared key value s s' h
      rcases typePhase_result P conv (ups.map (·.2)) s with ⟨e, he⟩ | ⟨s1', he, hn, _, _, _⟩
      · rw [he] at ht; cases ht
      · rw [he] at ht; injection ht with _ ht; subst ht
        simp [hs, materialise, hn]

/-- A successful assignment leaves exactly what Python list assignment leaves:
    the key addresses valid positions in Python's order (`specUpdates`: int with negative
    wrap-around, `range(*slice.indices(n))` for slices incl. extended and negative steps, the True
    positions of a mask, the normalised entries of an index list), a scalar is repeated and a
    sequence supplies one item per position, and every position ends up holding the last value
    addressed to it — later duplicates win — or its old element (`listAssign`), the old elements
    being converted iff the column kind was promoted (`convertedOld`). -/
theorem ok_eq_list_assign (P : Kind → Kind → Bool) (conv : Kind → Nat → Option Nat) (shared : Bool)
    (key : Key) (value : Value) (s s' : VState)
    (h : setitem P conv shared key value s = (none, s')) :
    ∃ ups old, specUpdates key value s.data.length = some ups ∧
      convertedOld conv s s' = some old ∧ s'.data = listAssign old ups := by
  obtain ⟨ups, s1, hb, ht, hs⟩ := setitem_ok P conv shared key value s s' h
  rcases typePhase_result P conv (ups.map (·.2)) s with ⟨e, he⟩ | ⟨s1', he, _, _, _, hc⟩
  · rw [he] at ht; cases ht
  · rw [he] at ht; injection ht with _ ht; subst ht
    refine ⟨ups, s1'.data, buildUpdates_spec key value _ ups hb, ?_, ?_⟩
    · have : convertedOld conv s s' = convertedOld conv s s1' := by
        simp [convertedOld, hs, materialise]
      rw [this, hc]
    · simp [hs, materialise, applyUpdates_eq_listAssign]

/-- cells the key does not address keep their (possibly converted) old element -/
theorem untouched_cells (P : Kind → Kind → Bool) (conv : Kind → Nat → Option Nat) (shared : Bool)
    (key : Key) (value : Value) (s s' : VState)
    (h : setitem P conv shared key value s = (none, s')) :
    ∃ ts old, keyTargets key s.data.length = some ts ∧ convertedOld conv s s' = some old ∧
      ∀ i, i ∉ ts → s'.data[i]? = old[i]? := by
  obtain ⟨ups, old, hu, hc, hd⟩ := ok_eq_list_assign P conv shared key value s s' h
  unfold specUpdates at hu
  cases hk : keyTargets key s.data.length with
  | none => simp [hk] at hu
  | some ts =>
    simp only [hk] at hu
    cases hv : valueCells key value ts.length with
    | none => simp [hv] at hu
    | some vs =>
      simp only [hv] at hu; injection hu with hu
      refine ⟨ts, old, rfl, hc, ?_⟩
      intro i hi
      rw [hd]
      apply listAssign_untouched
      intro u hmem heq
      rw [← hu] at hmem
      have := List.of_mem_zip hmem
      exact hi (heq ▸ this.1)

/-- … and a cell that is addressed holds one of the values addressed to it -/
theorem addressed_cells (P : Kind → Kind → Bool) (conv : Kind → Nat → Option Nat) (shared : Bool)
    (key : Key) (value : Value) (s s' : VState)
    (h : setitem P conv shared key value s = (none, s')) :
    ∃ ups, specUpdates key value s.data.length = some ups ∧
      ∀ i v, lookupLast ups i = some v → i < s.data.length → s'.data[i]? = some v := by
  obtain ⟨ups, old, hu, hc, hd⟩ := ok_eq_list_assign P conv shared key value s s' h
  refine ⟨ups, hu, ?_⟩
  intro i v hl hi
  have hlen : old.length = s.data.length := by
    have := length_preserved P conv shared key value s
    rw [h] at this; simp only at this
    rw [hd, listAssign_length] at this; exact this
  rw [hd, listAssign, getElem?_assignFrom, Nat.zero_add, hl, List.getElem?_eq_getElem (by omega)]
  simp

/-- the fingerprint memo is dropped by every successful assignment -/
theorem memo_invalidated (P : Kind → Kind → Bool) (conv : Kind → Nat → Option Nat) (shared : Bool)
    (key : Key) (value : Value) (s s' : VState)
    (h : setitem P conv shared key value s = (none, s')) : s'.fp = none := by
  obtain ⟨ups, s1, _, _, hs⟩ := setitem_ok P conv shared key value s s' h
  simp [hs, materialise]

/-- Completeness: a well-formed list assignment (valid key, scalar or same-length sequence that can
    be consumed without an exception) on a vector that shares no storage can only be refused by
    the dtype check. -/
theorem valid_assignment_reaches_type_check (P : Kind → Kind → Bool) (conv : Kind → Nat → Option Nat)
    (key : Key) (value : Value) (s : VState) (ups : List (Nat × Cell))
    (hf : value.faulty = false ∨ ∃ i, key = .int i)
    (h : specUpdates key value s.data.length = some ups) :
    (setitem P conv false key value s).1 = (typePhase P conv (ups.map (·.2)) s).1 := by
  unfold setitem
  simp only [Bool.and_false, Bool.false_eq_true, if_false, buildUpdates_complete key value _ ups hf h]
  split <;> simp_all

/-- None is accepted and makes the column nullable — every typed column, `object` columns
    included; an already nullable column stays nullable -/
theorem none_makes_nullable (P : Kind → Kind → Bool) (conv : Kind → Nat → Option Nat) (shared : Bool)
    (key : Key) (value : Value) (s s' : VState) (d : DType)
    (h : setitem P conv shared key value s = (none, s'))
    (hd : s.dtype = some d) :
    ∃ ups d', specUpdates key value s.data.length = some ups ∧ s'.dtype = some d' ∧
      d'.nullable = (d.nullable || hasNone (ups.map (·.2))) := by
  obtain ⟨ups, s1, hb, ht, hs⟩ := setitem_ok P conv shared key value s s' h
  refine ⟨ups, ?_⟩
  have hspec := buildUpdates_spec key value _ ups hb
  by_cases hv : ups.map (·.2) = []
  · rw [typePhase_trivial P conv _ s (Or.inl hv)] at ht
    injection ht with _ ht; subst ht
    exact ⟨d, hspec, by simp [hs, materialise, hd], by simp [hv, hasNone]⟩
  · by_cases ho : d.kind = .object
    · rw [typePhase_object P conv _ s d hd ho hv] at ht
      injection ht with _ ht; subst ht
      exact ⟨⟨.object, d.nullable || hasNone (ups.map (·.2))⟩, hspec, by simp [hs, materialise], rfl⟩
    · rcases typePhase_checked P conv _ s d hd ho hv with ⟨e, he⟩ | ⟨target, cvt, hf, _, he⟩
      · rw [he] at ht; cases ht
      · rw [he] at ht; injection ht with _ ht; subst ht
        refine ⟨⟨target.kind, d.nullable || target.nullable⟩, hspec, by simp [hs, materialise], ?_⟩
        simp only
        rw [foldTarget_nullable P conv d target _ hf]
        cases d.nullable <;> simp

/-! #### promotion: the decision data of the live source -/

/-- every pair in `_PROMOTABLE` is a conversion `Vector._promote` performs, with the required
    kind as the result -/
theorem promotable_pairs_convertible :
    ∀ p ∈ Gen.promotable, promoteVec (Kind.ofCode p.1) (Kind.ofCode p.2) = some (Kind.ofCode p.2) := by
  decide +kernel

/-- `_PROMOTABLE` is transitively closed, so the kind worked out over several values is always one
    `_promote` reaches in a single step from the column's kind -/
theorem promotable_transitive :
    ∀ p ∈ Gen.promotable, ∀ q ∈ Gen.promotable, p.2 = q.1 → (p.1, q.2) ∈ Gen.promotable := by
  decide +kernel

/-- the model of `_promote` agrees with `Vector._promote` executed on every (current, target) pair -/
theorem promote_vec_table_agrees :
    ∀ e ∈ Gen.promoteVecTable,
      (promoteVec (Kind.ofCode e.1) (Kind.ofCode e.2.1)).map Kind.code = e.2.2 := by
  decide +kernel

/-- what one new value does to a column — accept / accept-as-nullable / widen / reject — for every
    (column kind, nullable, value type) of the table tabulated from the live `validate_scalar`
    (16 exact types × every non-object dtype), with `_PROMOTABLE` as extracted:
    None → accepted, nullable; accepted by `validate_scalar` → unchanged dtype;
    otherwise widened to the value's kind iff the pair is in `_PROMOTABLE`; otherwise SerifTypeError -/
theorem promotion_table :
    ∀ e ∈ Gen.validateTable, e.1 ≠ 12 →
      foldTarget genP (fun _ _ => some 0) ⟨Kind.ofCode e.1, e.2.1⟩ [⟨Tag.ofCode e.2.2.1, 0⟩] =
        (if e.2.2.1 = 0 then .ok ⟨Kind.ofCode e.1, true⟩
         else if e.2.2.2 then .ok ⟨Kind.ofCode e.1, e.2.1⟩
         else if (e.1, e.2.2.1) ∈ Gen.promotable then .ok ⟨Kind.ofCode e.2.2.1, e.2.1⟩
         else .error .type) := by
  decide +kernel

/-- `_PROMOTABLE`, as it stands in the source now, is exactly the four value-converting widenings
    the specification demands (int→float, int→complex, float→complex, date→datetime); in particular
    bool columns are never widened (the clean refusal recorded under "Boundaries") -/
theorem promotable_is_ladders (a b : Kind) : genP a b = widens a b := genP_eq_widens a b

/-- Order independence of the dtype decision: the loop over the new values (validate, else widen by
    `_PROMOTABLE`, else reject — in sequence order, the later value possibly being the incompatible
    one) accepts iff the join of the column kind with *all* written kinds is the column kind or one
    of its widenings, and then yields exactly that join, nullable iff the column was or a None is
    written.  So accept / widen / reject never depends on the order or multiplicity of the values. -/
theorem promotion_order_independent (conv : Kind → Nat → Option Nat) (d : DType) (vals : List Cell)
    (ho : d.kind ≠ .object) (hc : coercible conv vals) :
    foldTarget genP conv d vals =
      if specKind d.kind vals = d.kind ∨ widens d.kind (specKind d.kind vals) = true
      then .ok ⟨specKind d.kind vals, d.nullable || hasNone vals⟩ else .error .type := by
  rw [genP_is_widens]; exact foldTarget_eq_join conv d vals ho hc

/-- an incompatible value anywhere among the written ones is rejected with SerifTypeError (and, by
    `vector_atomic`, nothing changes) -/
theorem incompatible_rejected (conv : Kind → Nat → Option Nat) (key : Key) (value : Value) (s : VState)
    (d : DType) (ups : List (Nat × Cell))
    (hf : value.faulty = false ∨ ∃ i, key = .int i)
    (hs : specUpdates key value s.data.length = some ups) (hne : ups.map (·.2) ≠ [])
    (hd : s.dtype = some d) (ho : d.kind ≠ .object) (hc : coercible conv (ups.map (·.2)))
    (hbad : ¬(specKind d.kind (ups.map (·.2)) = d.kind ∨
              widens d.kind (specKind d.kind (ups.map (·.2))) = true)) :
    setitem genP conv false key value s = (some .type, s) := by
  have h1 := valid_assignment_reaches_type_check genP conv key value s ups hf hs
  rw [typePhase_checkedOut genP conv _ s d hd ho hne] at h1
  have hfold : foldTarget genP conv d (ups.map (·.2)) = .error .type := by
    rw [genP_is_widens, foldTarget_eq_join conv d _ ho hc]; simp only [hbad, if_false]
  rw [hfold] at h1
  simp only [checkedOut] at h1
  have h2 := vector_atomic genP conv false key value s .type h1
  exact Prod.ext h1 h2

/-- The model meets the specification: on every input (any key, any value with any fault, any
    conversion oracle, shared storage or not) the outcome of the model of the present code is
    accepted by the executable judge `accepts (demand …)` — the judge the driver applies to the
    outcome observed on the real code.  `demand` is the executable form of the property: a
    well-formed assignment must succeed with the list-assignment contents, the joined dtype and the
    old name; an ill-formed one (bad key, length mismatch, value raising before enough items) must
    raise and change nothing; an incompatible value must raise SerifTypeError and change nothing;
    latitude only for bool ← number, `v[[]] = x`, values without `len` or raising at their very
    end, coercions that raise, and shared storage. -/
theorem model_meets_spec (conv : Kind → Nat → Option Nat) (shared : Bool) (key : Key) (value : Value)
    (s : VState) (hf : fpFresh s = true) :
    accepts (demand conv shared key value s) s (setitem genP conv shared key value s) = true :=
  setitem_meets_demand conv shared key value s hf

/-! #### Table.__setitem__ -/

/-- **Table atomicity**: a failed table assignment — malformed key, column not found, value that cannot be consumed,
    shapes that disagree, or ANY addressed column refusing its write, the first or a later one — leaves the table exactly
    as it was: every column's contents, dtype, name and memo. -/
theorem table_atomic (P : Kind → Kind → Bool) (conv : Kind → Nat → Option Nat)
    (key : TKey) (value : TValue) (t : TState) (e : Err)
    (h : (tsetitem P conv key value t).1 = some e) :
    (tsetitem P conv key value t).2 = t := by
  unfold tsetitem at h ⊢
  cases hp : plan (t.cols.map (·.name)) t.cols.length key value with
  | error e' => rfl
  | ok rw =>
    obtain ⟨row, ws⟩ := rw
    simp only [hp] at h ⊢
    cases hw : writeCols P conv row ws t with
    | mk r t' =>
      rw [hw] at h
      cases r with
      | some e' => rfl
      | none => simp at h

/-- a successful table assignment is the column loop: every addressed column gets its vector assignment, in order -/
theorem table_ok_is_column_loop (P : Kind → Kind → Bool) (conv : Kind → Nat → Option Nat)
    (key : TKey) (value : TValue) (t t' : TState)
    (h : tsetitem P conv key value t = (none, t')) :
    ∃ row ws, plan (t.cols.map (·.name)) t.cols.length key value = .ok (row, ws) ∧
      writeCols P conv row ws t = (none, t') := by
  unfold tsetitem at h
  cases hp : plan (t.cols.map (·.name)) t.cols.length key value with
  | error e' => rw [hp] at h; cases h
  | ok rw =>
    obtain ⟨row, ws⟩ := rw
    simp only [hp] at h
    cases hw : writeCols P conv row ws t with
    | mk r t'' =>
      rw [hw] at h
      cases r with
      | some e' => cases h
      | none => cases h; exact ⟨row, ws, rfl, hw⟩

/-- why the wrapper is needed (the defect repaired in /repo ff19998): the column loop by itself is not atomic —
    `t[0] = [9, 5]` on an int and a str column fails at the second column after the first was written -/
theorem column_loop_alone_not_atomic :
    let a : VState := ⟨[⟨.ty .int, 1⟩, ⟨.ty .int, 2⟩], some ⟨.int, false⟩, some 1, none⟩
    let b : VState := ⟨[⟨.ty .str, 3⟩, ⟨.ty .str, 4⟩], some ⟨.str, false⟩, some 2, none⟩
    let nine : Value := .scalar ⟨.ty .int, 9⟩
    let five : Value := .scalar ⟨.ty .int, 5⟩
    let loop := writeCols genP (fun _ _ => none) (.int 0) [(0, nine), (1, five)] ⟨[a, b]⟩
    let whole := tsetitem genP (fun _ _ => none) (.single (.int 0))
      (.iter .listOrTuple ⟨.ty .list, 7⟩ [nine, five] false none) ⟨[a, b]⟩
    loop.1 = some .type ∧ loop.2 = ⟨[{ a with data := [⟨.ty .int, 9⟩, ⟨.ty .int, 2⟩] }, b]⟩ ∧
      whole = (some .type, ⟨[a, b]⟩) := by
  decide +kernel

/-- whatever the outcome, a table assignment keeps the number of columns, every column's length
    and every column's name -/
theorem table_shape_preserved (P : Kind → Kind → Bool) (conv : Kind → Nat → Option Nat)
    (key : TKey) (value : TValue) (t : TState) :
    shape (tsetitem P conv key value t).2 = shape t := by
  unfold tsetitem
  split
  · rfl
  · rename_i row ws _
    have := writeCols_shape P conv row ws t
    cases hw : writeCols P conv row ws t with
    | mk r t' =>
      rw [hw] at this
      cases r <;> simp_all

/-- … and changes addressed columns only (within them, `untouched_cells` applies to each write) -/
theorem table_untouched_columns (P : Kind → Kind → Bool) (conv : Kind → Nat → Option Nat)
    (key : TKey) (value : TValue) (t : TState) (j : Nat)
    (h : ∀ row ws, plan (t.cols.map (·.name)) t.cols.length key value = .ok (row, ws) →
      ∀ w ∈ ws, tupleIndex t.cols.length w.1 ≠ some j) :
    (tsetitem P conv key value t).2.cols[j]? = t.cols[j]? := by
  unfold tsetitem
  split
  · rfl
  · rename_i row ws hp
    have := writeCols_untouched P conv row ws t j (h row ws hp)
    cases hw : writeCols P conv row ws t with
    | mk r t' =>
      rw [hw] at this
      cases r <;> simp_all

/-! #### Table.rename_columns -/

/-- a failed `rename_columns` (length mismatch, missing old name at any position, name lists that
    raise while being read) leaves every column name as it was -/
theorem rename_columns_atomic (olds news : List (Option Nat)) (ra : Option Nat)
    (names : List (Option Nat)) (e : Err)
    (h : (renameColumns olds news ra names).1 = some e) :
    (renameColumns olds news ra names).2 = names := by
  unfold renameColumns at h ⊢
  split
  · rfl
  · split
    · rfl
    · rename_i h1 _ _ h2; simp [h1, h2] at h

/-- a successful `rename_columns` applies exactly the simulated renames: sequential first-match
    renaming, no pair skipped -/
theorem rename_columns_ok (olds news : List (Option Nat)) (ra : Option Nat)
    (names names' : List (Option Nat))
    (h : renameColumns olds news ra names = (none, names')) :
    olds.length = news.length ∧ renameSpec (olds.zip news) names = some names' := by
  unfold renameColumns at h
  split at h
  · cases h
  · rename_i hl
    split at h
    · cases h
    · rename_i r hs
      have := renameSim_ok ra 0 _ names r hs
      injection h with _ h
      refine ⟨by simpa using hl, ?_⟩
      rw [this.1, ← h, this.2]

/-! #### non-vacuity -/

private def v123 : VState := ⟨[⟨.ty .int, 1⟩, ⟨.ty .int, 2⟩, ⟨.ty .int, 3⟩], some ⟨.int, false⟩, some 1, some []⟩
private def conv0 : Kind → Nat → Option Nat := fun _ u => some (u + 100)

-- v[[0, 0, -1]] = [7, 8, 9]: later duplicate wins, negative index wraps
example : setitem genP conv0 false (.idxList [0, 0, -1])
    (.seq ⟨.ty .list, 50⟩ [⟨.ty .int, 7⟩, ⟨.ty .int, 8⟩, ⟨.ty .int, 9⟩] .ok none) v123
    = (none, { v123 with data := [⟨.ty .int, 8⟩, ⟨.ty .int, 2⟩, ⟨.ty .int, 9⟩], fp := none }) := by decide +kernel
-- v[::-1] = [7, 8, 9]
example : (setitem genP conv0 false (.slice none none (some (-1)))
    (.seq ⟨.ty .list, 50⟩ [⟨.ty .int, 7⟩, ⟨.ty .int, 8⟩, ⟨.ty .int, 9⟩] .ok none) v123).2.data
    = [⟨.ty .int, 9⟩, ⟨.ty .int, 8⟩, ⟨.ty .int, 7⟩] := by decide +kernel
-- v[0:2] = [1.5, None]: promoted to float?, old elements converted
example : setitem genP conv0 false (.slice (some 0) (some 2) none)
    (.seq ⟨.ty .list, 50⟩ [⟨.ty .float, 7⟩, ⟨.none, 0⟩] .ok none) v123
    = (none, { data := [⟨.ty .float, 7⟩, ⟨.none, 0⟩, ⟨.ty .float, 103⟩], dtype := some ⟨.float, true⟩,
               name := some 1, fp := none }) := by decide +kernel
-- v[0:2] = [1.5, 'a']: the later value is the incompatible one; rejected, nothing changed
example : setitem genP conv0 false (.slice (some 0) (some 2) none)
    (.seq ⟨.ty .list, 50⟩ [⟨.ty .float, 7⟩, ⟨.ty .str, 8⟩] .ok none) v123 = (some .type, v123) := by decide +kernel
-- the value iterator raises after one item
example : setitem genP conv0 false (.maskList [true, false, true])
    (.seq ⟨.ty (.other 5), 50⟩ [⟨.ty .int, 7⟩, ⟨.ty .int, 8⟩] .ok (some 1)) v123 = (some .other, v123) := by decide +kernel
-- a conversion of an existing element raises inside `_promote`
example : setitem genP (fun _ _ => none) false (.int 0) (.scalar ⟨.ty .float, 7⟩) v123 = (some .other, v123) := by
  decide +kernel
-- an object column: v[1] = None is accepted and the schema becomes object?
example : setitem genP conv0 false (.int 1) (.scalar ⟨.none, 0⟩)
    ⟨[⟨.ty .int, 1⟩, ⟨.ty .str, 2⟩], some ⟨.object, false⟩, none, some []⟩
    = (none, ⟨[⟨.ty .int, 1⟩, ⟨.none, 0⟩], some ⟨.object, true⟩, none, none⟩) := by decide +kernel
example : renameColumns [some 1, some 2] [some 2, some 3] none [some 1, some 2] = (none, [some 3, some 2]) := by
  decide +kernel
example : renameColumns [some 1, some 9] [some 2, some 3] none [some 1, some 2] = (some .key, [some 1, some 2]) := by
  decide +kernel
example : Gen.promotable.length = 4 := by decide

end Serif.C08
