/-
  C05 — elementwise operations equal the Python scalar operation, shape preserved.
  Property theorems only; helper lemmas live in Serif/Proofs/Vec.lean.

  Every statement holds for every element type and for EVERY scalar semantics (`op`, `f`, `S.py`,
  `S.days` are arbitrary functions that may raise): the theorems are about what serif does around
  the scalar operation - strict zipping, operand order, None guards, branch selection.
-/
import Serif.Proofs.Vec

namespace Serif.C05
open Serif.Vec

variable {α β γ : Type}

/-! #### shape -/

/-- the result of `v <op> other` has the length of `v`, for each operand form -/
theorem length_preserved {op : α → β → Res γ} {xs : Col α} {o : Operand β} {r : Col γ}
    (h : elementwise op xs o = .ok r) : r.length = xs.length :=
  apply_ok_length h

/-- … for all seven operators, direct and reflected (`__radd__`, `__rmul__`, the `_reverse_*`
    wrappers) and for `_Date.__add__` -/
theorem length_preserved_vector {S : Sem α} {o : BinOp} {refl : Bool} {v : Vec α} {other : Operand α}
    {r : Col α} (h : vectorBinary S o refl v other = .ok r) : r.length = v.data.length := by
  unfold vectorBinary at h
  split at h
  · exact dateAdd_ok_length h
  · exact binary_ok_length h

/-- unary operators, broadcast methods and properties keep the length -/
theorem length_preserved_broadcast {f : α → Res β} {xs : Col α} {r : Col β}
    (h : broadcast f xs = .ok r) : r.length = xs.length :=
  mapRes_ok_length h

/-! #### element i is the scalar operation on the i-th operands, in the written order -/

/-- forms 1-3 (`v op vector`, `v op list`, `v op scalar`): element `i` of the result is
    `op xs[i] other[i]`, `None` if either is `None` -/
theorem pointwise {op : α → β → Res γ} {xs : Col α} {o : Operand β} {r : Col γ}
    (h : elementwise op xs o = .ok r) {i : Nat} {x : Option α} (hx : xs[i]? = some x) :
    ∃ y c, o.get? i = some y ∧ r[i]? = some c ∧ IsCellOf op x y c := by
  obtain ⟨y, c, hy, hc, hr⟩ := apply_ok_get h hx
  exact ⟨y, c, hy, hr, cell_ok_iff.mp hc⟩

/-- form 1 spelled out: another vector -/
theorem pointwise_vector {op : α → β → Res γ} {xs : Col α} {ys : Col β} {dt : Option DType}
    {r : Col γ} (h : elementwise op xs (.vec ys dt) = .ok r) {i : Nat} {x : Option α}
    (hx : xs[i]? = some x) : ∃ y c, ys[i]? = some y ∧ r[i]? = some c ∧ IsCellOf op x y c :=
  pointwise h hx

/-- form 2 spelled out: a plain sequence -/
theorem pointwise_list {op : α → β → Res γ} {xs : Col α} {ys : Col β} {r : Col γ}
    (h : elementwise op xs (.seq ys) = .ok r) {i : Nat} {x : Option α} (hx : xs[i]? = some x) :
    ∃ y c, ys[i]? = some y ∧ r[i]? = some c ∧ IsCellOf op x y c :=
  pointwise h hx

/-- form 3 spelled out: a scalar meets every element -/
theorem pointwise_scalar {op : α → β → Res γ} {xs : Col α} {s : β} {r : Col γ}
    (h : elementwise op xs (.scalar s) = .ok r) {i : Nat} {x : Option α} (hx : xs[i]? = some x) :
    ∃ c, r[i]? = some c ∧ IsCellOf op x (some s) c := by
  obtain ⟨y, c, hy, hr, hc⟩ := pointwise h hx
  cases hy
  exact ⟨c, hr, hc⟩

/-- forms 4-5 (`scalar op v`, `list op v`) for `-  /  //  %  **`: element `i` is
    `other[i] op xs[i]` - the OTHER operand on the left -/
theorem pointwise_reflected {op : β → α → Res γ} {xs : Col α} {o : Operand β} {r : Col γ}
    (h : relementwise op xs o = .ok r) {i : Nat} {x : Option α} (hx : xs[i]? = some x) :
    ∃ y c, o.get? i = some y ∧ r[i]? = some c ∧ IsCellOf op y x c := by
  rw [relementwise_eq_apply] at h
  obtain ⟨y, c, hy, hc, hr⟩ := apply_ok_get h hx
  exact ⟨y, c, hy, hr, cell_ok_iff.mp hc⟩

/-- forms 4-5 for `+` (`__radd__` has its own loops): element `i` is `other[i] + xs[i]` -/
theorem pointwise_radd {add : β → α → Res γ} {xs : Col α} {o : Operand β} {r : Col γ}
    (h : radd add xs o = .ok r) {i : Nat} {x : Option α} (hx : xs[i]? = some x) :
    ∃ y c, o.get? i = some y ∧ r[i]? = some c ∧ IsCellOf add y x c := by
  rw [radd_eq_apply] at h
  obtain ⟨y, c, hy, hc, hr⟩ := apply_ok_get h hx
  exact ⟨y, c, hy, hr, cell_ok_iff.mp hc⟩

/-- all seven operators in all five forms at once.  `refl = false`: `xs[i] <o> other[i]`;
    `refl = true`: `other[i] <o> xs[i]` — for `*` too, whatever the elements' multiplication does (the hypothesis "Python's `*`
    commutes on the operands" that this theorem carried until `__rmul__` was repaired is gone). -/
theorem pointwise_binary {py : BinOp → α → α → Res α} {o : BinOp} {refl : Bool} {xs : Col α}
    {other : Operand α} {r : Col α}
    (h : binary py o refl xs other = .ok r) {i : Nat} {x : Option α} (hx : xs[i]? = some x) :
    ∃ y c, other.get? i = some y ∧ r[i]? = some c ∧
      (if refl then IsCellOf (py o) y x c else IsCellOf (py o) x y c) := by
  rw [binary_eq_apply py o refl] at h
  obtain ⟨y, c, hy, hc, hr⟩ := apply_ok_get h hx
  refine ⟨y, c, hy, hr, ?_⟩
  cases refl with
  | true => exact cell_ok_iff.mp hc
  | false => exact cell_ok_iff.mp hc

/-- … including the class dispatch: on a date vector `+` adds days for an int-kind vector or an
    int scalar (`scalarOpOf` names the scalar operation that applies), everything else as above -/
theorem pointwise_any_vector {S : Sem α} {o : BinOp} {refl : Bool} {v : Vec α} {other : Operand α}
    {r : Col α}
    (h : vectorBinary S o refl v other = .ok r) {i : Nat} {x : Option α} (hx : v.data[i]? = some x) :
    ∃ y c, other.get? i = some y ∧ r[i]? = some c ∧
      (if refl then IsCellOf (scalarOpOf S o refl v other) y x c
       else IsCellOf (scalarOpOf S o refl v other) x y c) := by
  rw [vectorBinary_eq_apply S o refl v other] at h
  obtain ⟨y, c, hy, hc, hr⟩ := apply_ok_get h hx
  refine ⟨y, c, hy, hr, ?_⟩
  cases refl with
  | true => exact cell_ok_iff.mp hc
  | false => exact cell_ok_iff.mp hc

/-! #### lengths that differ raise: nothing is truncated, recycled or broadcast -/

/-- a vector or sequence operand of another length is an error, for every scalar operation -/
theorem length_mismatch_errors {op : α → β → Res γ} {xs : Col α} {o : Operand β} {n : Nat}
    (hn : o.len? = some n) (h : xs.length ≠ n) : ∃ e, elementwise op xs o = .error e :=
  ⟨.value, apply_mismatch hn h⟩

/-- … for all seven operators, direct and reflected, and for `_Date.__add__` -/
theorem length_mismatch_errors_vector {S : Sem α} {o : BinOp} {refl : Bool} {v : Vec α}
    {other : Operand α} {n : Nat} (hn : other.len? = some n) (h : v.data.length ≠ n) :
    ∃ e, vectorBinary S o refl v other = .error e := by
  unfold vectorBinary
  split
  · exact ⟨.value, dateAdd_mismatch hn h⟩
  · exact ⟨.value, binary_mismatch hn h⟩

/-- conversely a returned result proves the lengths were equal (the zip is strict) -/
theorem result_implies_equal_length {S : Sem α} {o : BinOp} {refl : Bool} {v : Vec α}
    {other : Operand α} {r : Col α} (h : vectorBinary S o refl v other = .ok r) {n : Nat}
    (hn : other.len? = some n) : v.data.length = n := by
  rcases Nat.decEq v.data.length n with hne | heq
  · obtain ⟨e, he⟩ := length_mismatch_errors_vector (S := S) (o := o) (refl := refl) hn hne
    rw [he] at h; cases h
  · exact heq

/-- no spurious refusals: equal lengths and every evaluated pair defined ⇒ a result is returned -/
theorem defined_when_python_defines {op : α → β → Res γ} {xs : Col α} {o : Operand β}
    (hlen : ∀ n, o.len? = some n → xs.length = n)
    (hdef : ∀ (i : Nat) (a : α) (b : β), xs[i]? = some (some a) → o.get? i = some (some b) →
      ∃ c, op a b = .ok c) :
    ∃ r, elementwise op xs o = .ok r := by
  apply apply_total hlen
  intro i x y hx hy
  cases x with
  | none => exact ⟨none, cell_none_left op y⟩
  | some a =>
    cases y with
    | none => exact ⟨none, rfl⟩
    | some b =>
      obtain ⟨c, hc⟩ := hdef i a b hx hy
      exact ⟨some c, by simp [cell, hc]⟩

/-! #### Table arithmetic is the vector operation column by column -/

/-- `table <o> scalar` (any non-Table operand): one result column per column, each the vector
    operation on that column -/
theorem table_is_columnwise {S : Sem α} {o : BinOp} {cols : List (Vec α)} {other : Operand α}
    {R : List (Col α)} (h : tableScalar S o cols other = .ok R) :
    R.length = cols.length ∧
    ∀ (j : Nat) (c : Vec α), cols[j]? = some c →
      ∃ rc, R[j]? = some rc ∧ vectorBinary S o false c other = .ok rc := by
  refine ⟨mapRes_ok_length h, fun j c hc => ?_⟩
  obtain ⟨rc, h1, h2⟩ := mapRes_ok_get h hc
  exact ⟨rc, h2, h1⟩

/-- `scalar <o> table` (scalar, list or tuple on the left): one result column per column, each the *reflected* vector
    operation on that column — the same shape and column order as `table <o> scalar` -/
theorem table_reflected_is_columnwise {S : Sem α} {o : BinOp} {cols : List (Vec α)} {other : Operand α}
    {R : List (Col α)} (h : tableScalarRefl S o cols other = .ok R) :
    R.length = cols.length ∧
    ∀ (j : Nat) (c : Vec α), cols[j]? = some c →
      ∃ rc, R[j]? = some rc ∧ vectorBinary S o true c other = .ok rc := by
  refine ⟨mapRes_ok_length h, fun j c hc => ?_⟩
  obtain ⟨rc, h1, h2⟩ := mapRes_ok_get h hc
  exact ⟨rc, h2, h1⟩

/-- `-table`, `+table`, `abs(table)`: one result column per column, each the unary operation broadcast over that column —
    shape kept, nothing transposed -/
theorem table_unary_is_columnwise {β : Type} {f : α → Res β} {cols : List (Vec α)} {R : List (Col β)}
    (h : tableUnary f cols = .ok R) :
    R.length = cols.length ∧
    ∀ (j : Nat) (c : Vec α), cols[j]? = some c →
      ∃ rc, R[j]? = some rc ∧ broadcast f c.data = .ok rc ∧ rc.length = c.data.length := by
  refine ⟨mapRes_ok_length h, fun j c hc => ?_⟩
  obtain ⟨rc, h1, h2⟩ := mapRes_ok_get h hc
  exact ⟨rc, h2, h1, mapRes_ok_length h1⟩

/-- `table <o> table`: equal widths, and column `j` is `left[j] <o> right[j]` -/
theorem table_table_is_columnwise {S : Sem α} {o : BinOp} {a b : List (Vec α)} {R : List (Col α)}
    (h : tableTable S o a b = .ok R) :
    a.length = b.length ∧ R.length = a.length ∧
    ∀ (j : Nat) (ca cb : Vec α), a[j]? = some ca → b[j]? = some cb →
      ∃ rc, R[j]? = some rc ∧ vectorBinary S o false ca (.vec cb.data cb.dtype) = .ok rc := by
  unfold tableTable at h
  split at h
  · cases h
  · rename_i hw
    have hw : a.length = b.length := by simpa using hw
    refine ⟨hw, ?_, fun j ca cb hca hcb => ?_⟩
    · rw [mapRes_ok_length h, List.length_zip, ← hw, Nat.min_self]
    · obtain ⟨rc, h1, h2⟩ := mapRes_ok_get h (zip_get hca hcb)
      exact ⟨rc, h2, h1⟩

/-- tables of different widths are refused -/
theorem table_width_mismatch_errors {S : Sem α} {o : BinOp} {a b : List (Vec α)}
    (h : a.length ≠ b.length) : tableTable S o a b = .error .value := by
  unfold tableTable; rw [if_pos h]

/-- cell (j, i) of `table <o> other` is the scalar operation on cell (j, i) and `other[i]` -/
theorem table_cellwise {S : Sem α} {o : BinOp} {cols : List (Vec α)} {other : Operand α}
    {R : List (Col α)} (h : tableScalar S o cols other = .ok R)
    {j i : Nat} {c : Vec α} {x : Option α} (hc : cols[j]? = some c) (hx : c.data[i]? = some x) :
    ∃ rc y v, R[j]? = some rc ∧ other.get? i = some y ∧ rc[i]? = some v ∧
      IsCellOf (scalarOpOf S o false c other) x y v := by
  obtain ⟨rc, hrc, hv⟩ := (table_is_columnwise h).2 j c hc
  obtain ⟨y, v, hy, hr, hcell⟩ := pointwise_any_vector hv hx
  exact ⟨rc, y, v, hrc, hy, hr, by simpa using hcell⟩

/-! #### unary operators, broadcast methods and properties -/

/-- element `i` of `-v`, `v.upper()`, `dates.year`, … is `f` of element `i`; None stays None;
    for every length -/
theorem broadcast_pointwise {f : α → Res β} {xs : Col α} {r : Col β} (h : broadcast f xs = .ok r)
    (i : Nat) :
    (xs[i]? = some none → r[i]? = some none) ∧
    (∀ a, xs[i]? = some (some a) → ∃ b, f a = .ok b ∧ r[i]? = some (some b)) := by
  constructor
  · intro hx
    obtain ⟨c, hc, hr⟩ := mapRes_ok_get h hx
    rcases cell1_ok hc with ⟨_, rfl⟩ | ⟨a, b, ha, _, _⟩
    · exact hr
    · cases ha
  · intro a hx
    obtain ⟨c, hc, hr⟩ := mapRes_ok_get h hx
    rcases cell1_ok hc with ⟨ha, _⟩ | ⟨a', b, ha, hb, rfl⟩
    · cases ha
    · cases ha; exact ⟨b, hb, hr⟩

/-- whenever the method is defined on every non-None element, the broadcast returns
    `[None if x is None else g(x) for x in v]` -/
theorem broadcast_eq_map {f : α → Res β} (g : α → β) {xs : Col α}
    (h : ∀ a, some a ∈ xs → f a = .ok (g a)) : broadcast f xs = .ok (xs.map (Option.map g)) := by
  apply mapRes_eq_ok_map
  intro x hx
  cases x with
  | none => rfl
  | some a => simp [cell1, h a hx]

/-- None never reaches the method -/
theorem broadcast_all_none (f : α → Res β) (n : Nat) :
    broadcast f (List.replicate n none) = .ok (List.replicate n none) := by
  induction n with
  | zero => rfl
  | succ n ih =>
    unfold broadcast at ih ⊢
    simp only [List.replicate_succ, mapRes, cell1, ih]

/-! #### the executable judge used by the driver accepts exactly this -/

/-- the model's run is always an acceptable observation for the written-order requirement -/
theorem model_conforms (py : BinOp → α → α → Res α) (o : BinOp) (refl : Bool) [DecidableEq α]
    (xs : Col α)
    (other : Operand α) :
    conforms (specBinary (py o) refl xs other) (outcome (binary py o refl xs other)) = true := by
  rw [binary_eq_apply py o refl]
  exact conforms_apply _ xs other

/-- the same with the class dispatch of date vectors -/
theorem vector_model_conforms (S : Sem α) (o : BinOp) (refl : Bool) [DecidableEq α] (v : Vec α)
    (other : Operand α)
 :
    conforms (specBinary (scalarOpOf S o refl v other) refl v.data other)
      (outcome (vectorBinary S o refl v other)) = true := by
  rw [vectorBinary_eq_apply S o refl v other]
  exact conforms_apply _ v.data other

/-- where Python defines every position, the judge accepts exactly one observation: the vector
    of those values (in particular it rejects an error, a shorter and a longer result) -/
theorem judge_exact [DecidableEq γ] (vals : List γ) (impl : Option (List γ)) :
    conforms (some (vals.map Except.ok)) impl = true ↔ impl = some vals :=
  conformsCells_total vals impl

/-- on a length mismatch the judge accepts exactly "raised" -/
theorem judge_mismatch [DecidableEq γ] (impl : Option (List γ)) :
    conforms (none : Option (List (Res γ))) impl = true ↔ impl = none := by
  cases impl <;> simp [conforms]

/-- the broadcast model is an acceptable observation of "f of element i, None stays None" -/
theorem broadcast_conforms [DecidableEq β] (f : α → Res β) (xs : Col α) :
    conformsCells (xs.map (cell1 f)) (outcome (broadcast f xs)) = true :=
  conformsCells_mapRes _ _

/-- the table model is an acceptable observation of the column-by-column requirement
    (`table <o> scalar`): every column conforms, and the call raises only if some column does -/
theorem table_model_conforms (S : Sem α) (o : BinOp) [DecidableEq α] (cols : List (Vec α))
    (other : Operand α) :
    conformsTable (specTableScalar S o cols other) (outcome (tableScalar S o cols other)) = true := by
  unfold specTableScalar tableScalar
  apply conformsTable_mapRes
  intro c _
  exact vector_model_conforms S o false c other

/-- the same for `table <o> table`; tables of different width must raise and the model does -/
theorem table_table_model_conforms (S : Sem α) (o : BinOp) [DecidableEq α] (a b : List (Vec α)) :
    conformsTable (specTableTable S o a b) (outcome (tableTable S o a b)) = true := by
  unfold specTableTable tableTable
  by_cases hw : a.length = b.length
  · rw [if_pos hw, if_neg (by simpa using hw)]
    apply conformsTable_mapRes (spec := fun p : Vec α × Vec α =>
      specBinary (scalarOpOf S o false p.1 (.vec p.2.data p.2.dtype)) false p.1.data (.vec p.2.data p.2.dtype))
    intro p _
    exact vector_model_conforms S o false p.1 _
  · rw [if_neg hw, if_pos hw]; rfl

/-! #### non-vacuity: concrete runs of the same definitions (Nat "scalars", truncating subtraction raises) -/

section examples
private def sub' : Nat → Nat → Res Nat := fun a b => if b ≤ a then .ok (a - b) else .error .other
private def S' : Sem Nat :=
  { py := fun o a b => match o with
                       | .sub => sub' a b
                       | .mul => .ok (a * b)
                       | _ => .ok (a + b),
    days := fun d n => .ok (d + 1000 * n), isInt := fun n => n < 100 }

-- the five operand forms, with None on either side; operand order visible through `-`
example : elementwise sub' [some 9, none, some 7] (.vec [some 1, some 2, none] none) = .ok [some 8, none, none] := by decide
example : elementwise sub' [some 9, none] (.seq [some 1, some 2]) = .ok [some 8, none] := by decide
example : elementwise sub' [some 9, none] (.scalar 4) = .ok [some 5, none] := by decide
example : relementwise sub' [some 3, none] (.scalar 10) = .ok [some 7, none] := by decide
example : relementwise sub' [some 3, some 4] (.seq [some 10, some 20]) = .ok [some 7, some 16] := by decide
example : radd sub' [some 3, some 4] (.seq [some 10, some 20]) = .ok [some 7, some 16] := by decide
-- reflected `*` with a multiplication that does NOT commute (`a * b := 10 * a + b`): `other * element`, the written order
example : binary (fun _ a b => .ok (10 * a + b)) .mul true [some 3, none] (.scalar 7) = .ok [some 73, none] := by decide
example : binary (fun _ a b => .ok (10 * a + b)) .mul false [some 3, none] (.scalar 7) = .ok [some 37, none] := by decide
example : binary (fun _ a b => .ok (10 * a + b)) .mul true [some 3, some 4] (.seq [some 7, some 8]) = .ok [some 73, some 84] := by decide
-- lengths that differ raise, also for a length-1 operand (no broadcasting) and for the empty vector
example : elementwise sub' [some 9, some 8] (.seq [some 1]) = .error .value := by decide
example : elementwise sub' [] (.vec [some 1] none) = .error .value := by decide
example : binary S'.py .sub true [some 1, some 2] (.seq [some 5, some 6, some 7]) = .error .value := by decide
-- a pair for which the scalar operation raises makes the call raise
example : elementwise sub' [some 1] (.scalar 4) = .error .other := by decide
-- date + int days (vector of int kind / int scalar) versus Python's own `+`
example : vectorBinary S' .add false ⟨[some 500, none], some ⟨.date, true⟩⟩ (.scalar 3) = .ok [some 3500, none] := by decide
example : vectorBinary S' .add false ⟨[some 500], some ⟨.date, false⟩⟩ (.vec [some 2] (some ⟨.int, false⟩)) = .ok [some 2500] := by decide
example : vectorBinary S' .add false ⟨[some 500], some ⟨.date, false⟩⟩ (.seq [some 2]) = .ok [some 502] := by decide
-- an empty date vector plus an untyped empty vector is the empty vector (repaired by 31a39a6)
example : vectorBinary S' .add false ⟨[], some ⟨.date, false⟩⟩ (.vec [] none) = .ok [] := by decide
-- tables
example : tableScalar S' .sub [⟨[some 5, none], none⟩, ⟨[some 9, some 8], none⟩] (.scalar 2)
    = .ok [[some 3, none], [some 7, some 6]] := by decide
example : tableTable S' .sub [⟨[some 5], none⟩] [⟨[some 1], none⟩, ⟨[some 2], none⟩] = .error .value := by decide
-- broadcast
example : broadcast (fun n : Nat => if n = 0 then .error .value else .ok (n + 1)) [some 1, none, some 2]
    = .ok [some 2, none, some 3] := by decide
-- the judge: accepts the right vector, rejects truncation, a wrong element, and an error
example : conforms (specBinary sub' false [some 9, none] (.seq [some 1, some 2])) (some [some 8, none]) = true := by decide
example : conforms (specBinary sub' false [some 9, none] (.seq [some 1, some 2])) (some [some 8]) = false := by decide
example : conforms (specBinary sub' true [some 9, none] (.seq [some 10, some 2])) (some [some 8, none]) = false := by decide
example : conforms (specBinary sub' false [some 9, none] (.seq [some 1, some 2])) none = false := by decide
example : conforms (specBinary sub' false [some 9, none] (.seq [some 1])) (some [some 8]) = false := by decide
example : conforms (specBinary sub' false [some 9, none] (.seq [some 1])) none = true := by decide
end examples

end Serif.C05
