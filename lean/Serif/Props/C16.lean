/-
  C16 — fingerprints track content: never stale, and they notice every change.
  Part 1 (histories): in the heap model every set memo equals the fingerprint of the current contents after any
  operation sequence, so `fingerprint()` is a function of what the object shows.
  Part 2 (sensitivity): number theory of the rolling hash with the constants read from the source on this run.
-/
import Serif.Proofs.FpHeap
import Serif.Proofs.Fingerprint
import Serif.Props.C01

namespace Serif.C16
open Serif Serif.Heap Serif.FP

variable (fpOf : VecVal → Int) (comb : List Int → Int)

/-! #### never stale -/

/-- **coherence over histories**: after any interleaving of constructions, derivations, column views, column
    replacement, vector and table writes, drops and `fingerprint()` calls, every cached fingerprint equals the
    fingerprint of the object's current contents. -/
theorem coherent (ops : List HOp) : Coherent fpOf (run fpOf Heap.empty ops) :=
  coherent_run fpOf ops Heap.empty (coherent_empty fpOf)

/-- **a function of current contents only**: what `fingerprint()` returns through any handle after any history is
    the fingerprint of a freshly built vector/table showing the same contents — whether or not it had been
    called, and cached, earlier. -/
theorem fresh_equal (ops : List HOp) (o : Nat) :
    let h := run fpOf Heap.empty ops
    fpRead fpOf comb h o = (h.abs o).map (fpAbs fpOf comb) :=
  fpRead_eq fpOf comb _ (coherent fpOf ops) o

/-- **read-only operations never change it** (fingerprint itself, failed/refused operations, taking a column view,
    dropping a handle) -/
theorem readonly_unchanged (ops : List HOp) (op : HOp) (o : Nat)
    (hop : (∃ r, op = .fingerprint r) ∨ op = .noop ∨ (∃ d t j, op = .getCol d t j) ∨ (∃ r, op = .drop r)) :
    let h := run fpOf Heap.empty ops
    fpRead fpOf comb (step fpOf h op) o = fpRead fpOf comb h o := by
  intro h
  have c := coherent fpOf ops
  rw [fpRead_eq fpOf comb _ (coherent_step fpOf h op c) o, fpRead_eq fpOf comb _ c o,
    C01.readonly_frame fpOf h op hop o]

/-- a write clears the memo of the written vector: the next `fingerprint()` is computed from the new contents -/
theorem write_then_read (ops : List HOp) (r w : Nat) (v v0 : VecVal) (m : Option Int) :
    let h := run fpOf Heap.empty ops
    h.root r = some w → h.objs w = some (.vec v0 m) →
    fpRead fpOf comb (step fpOf h (.mutate r v)) w = some (fpOf v) := by
  intro h hr hw
  have c := coherent fpOf ops
  rw [fpRead_eq fpOf comb _ (coherent_step fpOf h _ c) w]
  simp only [step, hr]
  rw [abs_setVec_self h w v v0 m hw]
  rfl

/-! #### the constants of the current source -/

theorem P_pos : 0 < Gen.FP_P := by decide
theorem B_pos : 1 ≤ Gen.FP_B := by decide
theorem coprime_B_P : Nat.Coprime Gen.FP_B Gen.FP_P := by decide +kernel
theorem coprime_B1_P : Nat.Coprime (Gen.FP_B - 1) Gen.FP_P := by decide +kernel
/-- the base a table combines its columns with: prime to P, and so is its difference from the column base -/
theorem coprime_BT_P : Nat.Coprime Gen.FP_BT Gen.FP_P := by decide +kernel
theorem B_le_BT : Gen.FP_B ≤ Gen.FP_BT := by decide
theorem coprime_BTmB_P : Nat.Coprime (Gen.FP_BT - Gen.FP_B) Gen.FP_P := by decide +kernel

/-! #### notices every change -/

/-- **a write that changes an element's hash (mod P) changes the vector's fingerprint** — any position, any
    length. `hs` are the element hashes (`hash(x)`, the None/NaN literals). -/
theorem write_changes (hs : List Int) (i : Nat) (y : Int) (hi : i < hs.length)
    (hne : ¬ (Gen.FP_P : Int) ∣ y - hs[i]) : fpVec (hs.set i y) ≠ fpVec hs := by
  have hset : hs.set i y = hs.take i ++ y :: hs.drop (i + 1) := by
    rw [List.set_eq_take_append_cons_drop, if_pos hi]
  have hself : hs = hs.take i ++ hs[i] :: hs.drop (i + 1) := by
    rw [List.getElem_cons_drop, List.take_append_drop]
  rw [hset]
  conv => rhs; rw [hself]
  exact H_set_ne Gen.FP_P Gen.FP_B coprime_B_P _ _ _ _ hne

/-- the same for the combination of column fingerprints into a table fingerprint (base `BT`) -/
theorem comb_changes (fps : List Int) (i : Nat) (y : Int) (hi : i < fps.length)
    (hne : ¬ (Gen.FP_P : Int) ∣ y - fps[i]) : fpComb (fps.set i y) ≠ fpComb fps := by
  have hset : fps.set i y = fps.take i ++ y :: fps.drop (i + 1) := by
    rw [List.set_eq_take_append_cons_drop, if_pos hi]
  have hself : fps = fps.take i ++ fps[i] :: fps.drop (i + 1) := by
    rw [List.getElem_cons_drop, List.take_append_drop]
  rw [hset]
  conv => rhs; rw [hself]
  exact H_set_ne Gen.FP_P Gen.FP_BT coprime_BT_P _ _ _ _ hne

/-- fingerprints are reduced modulo P -/
theorem fp_range (hs : List Int) : 0 ≤ fpVec hs ∧ fpVec hs < Gen.FP_P :=
  H_range _ _ (by have := P_pos; unfold FP.P; omega) hs

/-- **… and the fingerprint of every table containing it**: if a column's fingerprint changes, so does the table's
    (column fingerprints are already reduced mod P, so distinct ones are never congruent) -/
theorem table_changes (cols : List (List Int)) (j : Nat) (c' : List Int) (hj : j < cols.length)
    (hne : fpVec c' ≠ fpVec cols[j]) : fpTab (cols.set j c') ≠ fpTab cols := by
  unfold fpTab Htab
  rw [List.map_set]
  have hj' : j < (cols.map (H P B)).length := by simpa using hj
  have := comb_changes (cols.map (H FP.P FP.B)) j (H FP.P FP.B c') hj' (by
    simp only [List.getElem_map]
    intro hd
    have r1 := fp_range c'
    have r2 := fp_range cols[j]
    unfold fpVec at r1 r2 hne
    obtain ⟨k, hk0⟩ := hd
    have hk : H (Gen.FP_P : Int) B c' - H (Gen.FP_P : Int) B cols[j] = (Gen.FP_P : Int) * k := hk0
    have hP : (0 : Int) < Gen.FP_P := by have := P_pos; omega
    have : k = 0 := by
      rcases Int.lt_trichotomy k 0 with h | h | h
      · exfalso
        have : (Gen.FP_P : Int) * k ≤ (Gen.FP_P : Int) * (-1) := Int.mul_le_mul_of_nonneg_left (by omega) (by omega)
        unfold FP.P at r1 r2; omega
      · exact h
      · exfalso
        have : (Gen.FP_P : Int) * 1 ≤ (Gen.FP_P : Int) * k := Int.mul_le_mul_of_nonneg_left (by omega) (by omega)
        unfold FP.P at r1 r2; omega
    subst this
    apply hne; omega)
  exact this

/-- **one table-level write that exchanges two cells of different columns is noticed too** — in particular the exchange
    along an anti-diagonal (cell below-left with cell above-right), which is what transposing a square table does and
    what the fingerprint could not see as long as tables combined their columns with the columns' own base -/
theorem antidiagonal_exchange_changes (pa sa pb sb : List Int) (x y : Int) (hlen : sb.length = sa.length + 1)
    (hxy : ¬ (Gen.FP_P : Int) ∣ y - x) :
    fpTab [pa ++ y :: sa, pb ++ x :: sb] ≠ fpTab [pa ++ x :: sa, pb ++ y :: sb] :=
  Htab_antidiag_ne Gen.FP_P Gen.FP_B Gen.FP_BT coprime_B_P coprime_BTmB_P B_le_BT pa sa pb sb x y hlen hxy

/-- with the columns' own base the anti-diagonal exchange is invisible (the defect, kept as a proved counterexample):
    a square table and its transpose collide -/
theorem same_base_transpose_collides :
    Htab P B B [[1, 2], [3, 4]] = Htab P B B [[1, 3], [2, 4]] ∧ fpTab [[1, 2], [3, 4]] ≠ fpTab [[1, 3], [2, 4]] := by
  decide +kernel

/-- **element order matters**: swapping two neighbours whose hashes differ (mod P) changes the fingerprint -/
theorem order_matters (pre post : List Int) (a b : Int) (hab : ¬ (Gen.FP_P : Int) ∣ a - b) :
    fpVec (pre ++ a :: b :: post) ≠ fpVec (pre ++ b :: a :: post) :=
  H_swap_ne Gen.FP_P Gen.FP_B coprime_B_P coprime_B1_P B_pos pre post a b hab

/-- the hypothesis "hashes differ mod P" is strictly stronger than "hashes differ": the rolling hash cannot tell
    apart two element hashes that differ by a multiple of P (known finding C16/hash-congruent-mod-P) -/
theorem congruent_hashes_collide_counterexample :
    fpVec [5] = fpVec [5 - (Gen.FP_P : Int)] ∧ (5 : Int) ≠ 5 - (Gen.FP_P : Int) := by
  decide +kernel

/-! #### non-vacuity -/

example : fpVec [1, 2, 3] ≠ fpVec [1, 2, 4] := by decide +kernel
example : fpVec [1, 2, 3] ≠ fpVec [2, 1, 3] := by decide +kernel
example : ¬ (Gen.FP_P : Int) ∣ (7 : Int) - 3 := by decide +kernel
example : fpTab [[1, 2], [3, 4]] ≠ fpTab [[1, 2], [3, 5]] := by decide +kernel

/-! #### container-valued elements (sets, tuples, lists of scalars or of further containers) -/

private theorem P_pos' : (0 : Int) < FP.P := by have := P_pos; unfold FP.P; omega

/-- the starting accumulators read off the current source are residues modulo P … -/
theorem seeds_are_residues :
    Gen.fpSeeds.all (fun e => decide (0 ≤ e.2) && decide (e.2 < FP.P)) = true := by decide +kernel

/-- … nonzero and pairwise different for the 21 (kind, length) pairs tabulated (kinds set / tuple / list, lengths 0–6):
    `()`, `[]`, `set()`, and containers of the same items but another kind or length class start differently -/
theorem seeds_distinct : (Gen.fpSeeds.map (·.2)).Nodup ∧ Gen.fpSeeds.all (fun e => decide (e.2 ≠ 0)) = true := by
  decide +kernel

/-- … and far from the hash of any small integer (an empty container hashes to its bare starting value: `()`, `[]`, `set()` must not
    look like 2, 3, 1) -/
theorem seeds_spread :
    Gen.fpSeeds.all (fun e => decide ((2 : Int) ^ 32 ≤ e.2) && decide (e.2 ≤ (Gen.FP_P : Int) - 2 ^ 32)) = true := by decide +kernel

/-- … and from the two fixed hashes of `_hash_element` (None, NaN): `set()` must not look like None (it did for an hour: the first
    multiplier chosen for the starting values was the very constant used for None) -/
theorem seeds_avoid_literals :
    Gen.fpSeeds.all (fun e => decide (e.2 ≠ (Gen.NONE_HASH : Int) % Gen.FP_P) && decide (e.2 ≠ (Gen.NAN_HASH : Int) % Gen.FP_P)) = true := by
  decide +kernel

/-- an empty container hashes to the starting value of its kind -/
theorem empty_container_hash (k : Nat) : (Elem.seq k []).hash = seedOf k 0 := by
  simp [Elem.hash, Elem.hashFrom]

theorem seed_range (k n : Nat) : 0 ≤ seedOf k n ∧ seedOf k n < FP.P := seedOf_range P_pos' seeds_are_residues k n

/-- `_hash_element` of a set / tuple / list is the rolling hash over the items' hashes (a set: its sorted items), started from the
    accumulator of its kind and length -/
theorem container_hash (k : Nat) (es : List Elem) :
    (Elem.seq k es).hash = ev FP.P FP.B (seedOf k es.length) (es.map Elem.hash) := Elem.hash_seq k es

/-- **a change anywhere inside a container-valued element shows in the vector's fingerprint**: replacing the scalar at any
    nesting depth (`path`) of element `i` by one whose hash is not congruent changes the fingerprint -/
theorem container_write_changes (es : List Elem) (i : Nat) (path : List Nat) (x y : Int) (hi : i < es.length)
    (hx : es[i].leafAt path = some x) (hne : ¬ (Gen.FP_P : Int) ∣ y - x) :
    fpElems (es.set i (es[i].setAt path y)) ≠ fpElems es := by
  unfold fpElems
  rw [List.map_set]
  have hi' : i < (es.map Elem.hash).length := by simpa using hi
  apply write_changes (es.map Elem.hash) i _ hi'
  simp only [List.getElem_map]
  exact Elem.setAt_changes coprime_B_P P_pos' seed_range es[i] path x y hx hne

/-- **the kind of a container matters**: the same items as a set, a tuple and a list are hashed differently (lengths 0–6) -/
theorem container_kind_matters (es : List Elem) (hlen : es.length ≤ 6) :
    (Elem.seq 1 es).hash ≠ (Elem.seq 2 es).hash ∧ (Elem.seq 2 es).hash ≠ (Elem.seq 3 es).hash
      ∧ (Elem.seq 1 es).hash ≠ (Elem.seq 3 es).hash := by
  have key : ∀ n, n ≤ 6 → seedOf 1 n ≠ seedOf 2 n ∧ seedOf 2 n ≠ seedOf 3 n ∧ seedOf 1 n ≠ seedOf 3 n := by
    intro n hn
    have : n = 0 ∨ n = 1 ∨ n = 2 ∨ n = 3 ∨ n = 4 ∨ n = 5 ∨ n = 6 := by omega
    rcases this with h | h | h | h | h | h | h <;> subst h <;> decide +kernel
  obtain ⟨h12, h23, h13⟩ := key es.length hlen
  exact ⟨Elem.kind_ne coprime_B_P P_pos' seed_range 1 2 es h12, Elem.kind_ne coprime_B_P P_pos' seed_range 2 3 es h23,
         Elem.kind_ne coprime_B_P P_pos' seed_range 1 3 es h13⟩

/-- **a value and the one-item container holding it are told apart** — `x` against `{x}`, `(x,)`, `[x]` (the collision the
    unseeded hash had) -/
theorem wrapped_value_differs (k : Nat) (hk : k = 1 ∨ k = 2 ∨ k = 3) (e : Elem) :
    ¬ (Gen.FP_P : Int) ∣ (Elem.seq k [e]).hash - e.hash := by
  have h0 : seedOf k 1 ≠ 0 := by rcases hk with h | h | h <;> subst h <;> decide +kernel
  exact Elem.wrap_ne coprime_B_P P_pos' seed_range k e h0

/-- non-vacuity: a vector `[5, (1, [2, 3])]`, the innermost 2 replaced by 7 -/
example : ([Elem.leaf 5, .seq 2 [.leaf 1, .seq 3 [.leaf 2, .leaf 3]]] : List Elem)[1].leafAt [1, 0] = some 2
    ∧ ¬ (Gen.FP_P : Int) ∣ 7 - 2 := by
  refine ⟨rfl, ?_⟩
  decide +kernel

end Serif.C16
