/-
  C20 — repr never fails and never misstates shape, dtype or data.
  Property theorems only; helper lemmas live in Serif/Proofs/Repr.lean.
  All statements are about the definitions of Serif/Model/Repr.lean that the driver executes, for
  every column length, every preview budget `k`, every column limit `m`, and every instantiation
  of Python's string formatting (the texts carried by `Cell` / `Col`).
-/
import Serif.Proofs.Repr
import Serif.Gen.Consts

namespace Serif.C20
open Serif.Repr

/-! #### the preview: first k, one ellipsis, last k — or everything -/

/-- data longer than the limit shows exactly its first and last `k` rows around one ellipsis;
    shorter data shows every row -/
theorem preview_exact {α : Type} (k : Nat) (xs : List α) :
    (xs.length > 2 * k →
      preview k xs = (xs.take k).map .cell ++ [.ellipsis] ++ (xs.drop (xs.length - k)).map .cell) ∧
    (xs.length ≤ 2 * k → preview k xs = xs.map .cell) := by
  constructor
  · intro h
    have : xs.length > k * 2 := by omega
    simp [preview, this]
  · intro h
    have : ¬ xs.length > k * 2 := by omega
    simp [preview, this]

/-- number of printed body lines -/
theorem preview_length {α : Type} (k : Nat) (xs : List α) :
    (preview k xs).length = if xs.length > 2 * k then 2 * k + 1 else xs.length := by
  by_cases h : xs.length > 2 * k
  · rw [(preview_exact k xs).1 h]
    simp [h, List.length_take, List.length_drop]
    omega
  · rw [(preview_exact k xs).2 (by omega)]
    simp [h]

/-- line `i < k` of a truncated preview is row `i` -/
theorem preview_head {α : Type} (k : Nat) (xs : List α) (h : xs.length > 2 * k) (i : Nat) (hi : i < k) :
    (preview k xs)[i]? = (xs[i]?).map .cell := by
  rw [(preview_exact k xs).1 h, List.append_assoc]
  rw [List.getElem?_append_left (by simp [List.length_take]; omega)]
  simp [hi]

/-- the ellipsis stands at position `k` -/
theorem preview_ellipsis_position {α : Type} (k : Nat) (xs : List α) (h : xs.length > 2 * k) :
    (preview k xs)[k]? = some .ellipsis := by
  rw [(preview_exact k xs).1 h, List.append_assoc]
  rw [List.getElem?_append_right (by simp [List.length_take]; omega)]
  have : k - (List.map Shown.cell (List.take k xs)).length = 0 := by
    simp [List.length_take]; omega
  rw [this]; rfl

/-- line `k + 1 + j` of a truncated preview is row `n - k + j`: the last `k` rows, in order -/
theorem preview_tail {α : Type} (k : Nat) (xs : List α) (h : xs.length > 2 * k) (j : Nat) :
    (preview k xs)[k + 1 + j]? = (xs[xs.length - k + j]?).map .cell := by
  rw [(preview_exact k xs).1 h, List.append_assoc]
  rw [List.getElem?_append_right (by simp [List.length_take]; omega)]
  have : k + 1 + j - (List.map Shown.cell (List.take k xs)).length = j + 1 := by
    simp [List.length_take]; omega
  rw [this]
  simp [List.getElem?_drop]

/-- the rows a preview shows form a sublist of the data: nothing is shown twice, reordered or
    invented, for every `k` (including 0 and 1) -/
theorem preview_shows_sublist {α : Type} (k : Nat) (xs : List α) :
    (shownCells (preview k xs)).Sublist xs := by
  by_cases h : xs.length > 2 * k
  · rw [(preview_exact k xs).1 h]
    simp only [shownCells_append, shownCells_map_cell, shownCells, List.append_nil]
    have e : xs = xs.take k ++ xs.drop k := (List.take_append_drop k xs).symm
    conv => rhs; rw [e]
    exact List.Sublist.append (List.Sublist.refl _) (List.drop_sublist_drop_left xs (by omega))
  · rw [(preview_exact k xs).2 (by omega), shownCells_map_cell]
    exact List.Sublist.refl _

/-! #### totality: no operation of the formatter is partial -/

/-- the float branch is defined on all four classes of real numbers (the guard keeps `int(v)` away
    from nan and ±inf) -/
theorem total_float_classes (n : NumClass) (c : Cell) (hnum : c.num = some n)
    (hg : c.g.isSome = true) (hf : c.f1.isSome = true) : ∃ s, fmtCell (some .float) c = .ok s :=
  fmtCell_float_total c (by simp [hnum]) hg hf

/-- which text each class gets: whole finite numbers `:.1f`, everything else `:g` -/
theorem float_class_dispatch (n : NumClass) (c : Cell) (hnum : c.num = some n)
    (he : c.eqEllipsis = false) (hn : c.isNone = false) :
    fmtCell (some .float) c = need (if n = .finiteIntegral then c.f1 else c.g) := by
  cases n <;> simp [fmtCell, he, hn, isWhole, hnum, pyInt, bind, Except.bind]

/-- the cell formatter returns for every dtype and every value whose Python formatting is defined -/
theorem total (kind : Option Kind) (c : Cell) (h : c.formattable kind = true) :
    ∃ s, fmtCell kind c = .ok s := fmtCell_total kind c h

/-- … hence repr of a vector returns -/
theorem repr_vector_total (otherName : Nat → String) (rows : Nat) (v : Col)
    (h : ∀ c ∈ v.cells, c.formattable (v.dtype.map (·.kind)) = true) :
    ∃ out, reprVector otherName rows v = .ok out := by
  unfold reprVector
  split
  · exact ⟨_, rfl⟩
  · obtain ⟨ls, hls⟩ := formatColumn_total (rows / 2) v h
    rw [hls]
    exact ⟨_, rfl⟩

/-- … and repr of a table returns, for every width, length and budget -/
theorem repr_table_total (otherName : Nat → String) (rows m : Nat) (t : Tab)
    (h : ∀ col ∈ t.cols, ∀ c ∈ col.cells, c.formattable (col.dtype.map (·.kind)) = true) :
    ∃ out, reprTable otherName rows m t = .ok out := by
  unfold reprTable
  split
  · exact ⟨_, rfl⟩
  · have hb : ∃ b, tableBody (tableK rows t) m t.cols = .ok b := by
      unfold tableBody
      have : ∃ f, mapRes (formatColumn (tableK rows t)) (shownCols m t.cols) = .ok f := by
        apply mapRes_total
        intro col hcol
        apply formatColumn_total
        apply h
        unfold shownCols at hcol
        split at hcol
        · rcases List.mem_append.mp hcol with h1 | h1
          · exact List.mem_of_mem_take h1
          · exact List.mem_of_mem_drop h1
        · exact hcol
      obtain ⟨f, hf⟩ := this
      rw [hf]
      exact ⟨_, rfl⟩
    obtain ⟨b, hb⟩ := hb
    simp only [hb]
    exact ⟨_, rfl⟩

/-- the one way the formatter can fail (known finding): a float column may hold an int that is
    whole but has no `:.1f` text because it exceeds the float range -/
theorem total_counterexample :
    ∃ c : Cell, c.isNone = false ∧ c.num = some .finiteIntegral ∧ c.g.isSome = true ∧
      fmtCell (some .float) c = .error .other :=
  ⟨{ isNone := false, eqEllipsis := false, isStr := false, num := some .finiteIntegral,
     str := "1e400", repr := "1e400", g := some "1e+400", f1 := none, iso := none },
   rfl, rfl, rfl, rfl⟩

/-! #### footer: true counts and dtypes -/

/-- a vector's footer carries its true element count and its dtype token -/
theorem footer_counts_vector (otherName : Nat → String) (rows : Nat) (v : Col) (out : Out)
    (h : reprVector otherName rows v = .ok out) :
    out.footer = .vector v.cells.length (dtypeText otherName v.dtype) := by
  unfold reprVector at h
  split at h
  · rename_i he
    cases h
    have : v.cells.length = 0 := by simpa using he
    simp [this]
  · split at h
    · cases h
    · cases h; rfl

/-- a table's footer carries its true row count × column count -/
theorem footer_counts_table (otherName : Nat → String) (rows m : Nat) (t : Tab) (out : Out)
    (h : reprTable otherName rows m t = .ok out) (hne : t.cols ≠ []) :
    out.footer = .table t.nrows t.cols.length
      (footerTypes m (tableHeader otherName m t.cols).2 (decide (t.cols.length > m * 2))
        (t.cols.map (fun c => dtypeText otherName c.dtype))) := by
  unfold reprTable at h
  have : t.cols.isEmpty = false := by cases hc : t.cols <;> simp_all
  simp only [this, Bool.false_eq_true, if_false] at h
  split at h
  · cases h
  · cases h; rfl

/-- `len(table)` is the common column length -/
theorem nrows_rectangular (t : Tab) (r : Nat) (hne : t.cols ≠ [])
    (h : ∀ c ∈ t.cols, c.cells.length = r) : t.nrows = r := by
  unfold Tab.nrows
  cases hc : t.cols with
  | nil => exact absurd hc hne
  | cons c cs => exact h c (by rw [hc]; exact List.mem_cons_self)

/-- how the counts are written -/
theorem footer_render_counts (n r c : Nat) (dt : String) :
    (Footer.vector n dt).render = "# " ++ toString n ++ " element vector <" ++ dt ++ ">" ∧
    (Footer.table r c dt).render = "# " ++ toString r ++ "×" ++ toString c ++ " table <" ++ dt ++ ">" :=
  ⟨rfl, rfl⟩

/-- the dtype token: kind name, `?` iff nullable; `object` when there is no dtype -/
theorem footer_dtypes (otherName : Nat → String) (k : Kind) :
    dtypeText otherName (some ⟨k, true⟩) = kindName otherName k ++ "?" ∧
    dtypeText otherName (some ⟨k, false⟩) = kindName otherName k ∧
    dtypeText otherName none = "object" := by
  simp [dtypeText]

/-- tokens never misstate: two dtypes over the twelve built-in kinds print the same token only
    if they are the same dtype -/
theorem dtype_token_injective (otherName : Nat → String) (d₁ d₂ : DType)
    (h₁ : ∀ n, d₁.kind ≠ .other n) (h₂ : ∀ n, d₂.kind ≠ .other n)
    (h : dtypeText otherName (some d₁) = dtypeText otherName (some d₂)) : d₁ = d₂ := by
  obtain ⟨k₁, n₁⟩ := d₁
  obtain ⟨k₂, n₂⟩ := d₂
  cases k₁ <;> cases k₂ <;> cases n₁ <;> cases n₂ <;>
    first
    | rfl
    | (exfalso; exact h₁ _ rfl)
    | (exfalso; exact h₂ _ rfl)
    | (exfalso; revert h; simp only [dtypeText, kindName]; decide)

/-- `<mixed>` iff the displayed columns differ in dtype, in which case … (see `mixed_header_row`) -/
theorem footer_types_mixed (m : Nat) (tr : Bool) (all : List String) :
    footerTypes m true tr all = "mixed" := rfl

/-- one token stands for the whole table only when every column has exactly that dtype token -/
theorem footer_types_homogeneous (m : Nat) (tr : Bool) (all : List String)
    (hh : heterogeneous all = false) :
    footerTypes m false tr all = all.headD "object" ∧ ∀ d ∈ all, d = all.headD "object" := by
  refine ⟨by simp [footerTypes, hh], ?_⟩
  cases all with
  | nil => intro d hd; cases hd
  | cons a r =>
    intro d hd
    simp only [heterogeneous, List.any_eq_false, bne_iff_ne, ne_eq, Decidable.not_not] at hh
    rcases List.mem_cons.mp hd with rfl | hd
    · rfl
    · exact hh d hd

/-- the dtype row / `<mixed>` appears exactly when two displayed columns differ in dtype token -/
theorem mixed_iff (otherName : Nat → String) (m : Nat) (cols : List Col) :
    (tableHeader otherName m cols).2 = true ↔
      ∃ a ∈ ((shownCols m cols).map (fun c => dtypeText otherName c.dtype)).filter (· != "..."),
      ∃ b ∈ ((shownCols m cols).map (fun c => dtypeText otherName c.dtype)).filter (· != "..."),
        a ≠ b := by
  rw [← heterogeneous_iff]
  unfold tableHeader
  simp only [computeHeaders_dts, decide_eq_true_eq]
  split
  · rw [filter_insertAt_ellipsis]
  · rfl

/-- otherwise the dtypes are listed in column order: all of them, or the first and last `m`
    around `...` when columns are hidden -/
theorem footer_types_listed (m : Nat) (all : List String) (hh : heterogeneous all = true) :
    footerTypes m false false all = joinComma all ∧
    footerTypes m false true all =
      joinComma (all.take m) ++ ", ..., " ++ joinComma (lastN m all) := by
  simp [footerTypes, hh]

/-! #### headers -/

/-- a vector's header line exists iff it has a non-empty name, and shows that name -/
theorem headers_show_stored_names_vector (otherName : Nat → String) (rows : Nat) (v : Col) (out : Out)
    (h : reprVector otherName rows v = .ok out) (hne : v.cells.isEmpty = false) :
    out.header = if nameTruthy v.name then [{ judged := true, cells := [v.shownName] }] else [] := by
  unfold reprVector at h
  simp only [hne, Bool.false_eq_true, if_false] at h
  split at h
  · cases h
  · cases h; rfl

/-- the columns a table displays: all of them, or the first and last `m` -/
theorem displayed_columns {α : Type} (m : Nat) (cols : List α) :
    shownCols m cols = if cols.length > 2 * m then cols.take m ++ cols.drop (cols.length - m) else cols := by
  unfold shownCols
  by_cases h : cols.length > m * 2
  · have : cols.length > 2 * m := by omega
    simp [h, this]
  · have : ¬ cols.length > 2 * m := by omega
    simp [h, this]

/-- `_compute_headers` reports exactly the displayed columns: their stored names, the texts shown
    for them and their dtype tokens, in order -/
theorem headers_report_displayed_columns (otherName : Nat → String) (m : Nat) (cols : List Col) :
    let h := computeHeaders otherName cols (shownIdx m cols.length)
    h.disp = (shownCols m cols).map (fun c => c.name.getD "") ∧
    h.shown = (shownCols m cols).map (·.shownName) ∧
    h.dts = (shownCols m cols).map (fun c => dtypeText otherName c.dtype) :=
  ⟨computeHeaders_disp otherName m cols, computeHeaders_shown otherName m cols,
   computeHeaders_dts otherName m cols⟩

/-- when any displayed column has a name, the first header row shows the stored name of every
    displayed column, with `...` standing for the hidden columns -/
theorem headers_show_stored_names (otherName : Nat → String) (m : Nat) (cols : List Col)
    (hany : ∃ c ∈ shownCols m cols, c.name.getD "" ≠ "" ∧ c.name.getD "" ≠ "...") :
    let disp := (shownCols m cols).map (fun c => c.name.getD "")
    let names := (shownCols m cols).map (·.shownName)
    let disp' := if cols.length > m * 2 then insertAt m "..." disp else disp
    let names' := if cols.length > m * 2 then insertAt m "..." names else names
    (tableHeader otherName m cols).1.head? =
      some { judged := true,
             cells := (disp'.zip names').map (fun (d, s) => if d == "..." then "..." else s) } := by
  intro disp names disp' names'
  unfold tableHeader
  simp only [computeHeaders_disp, computeHeaders_shown, decide_eq_true_eq]
  have hany' : (disp'.any (fun d => d != "..." && d != "")) = true := by
    obtain ⟨c, hc, h1, h2⟩ := hany
    rw [List.any_eq_true]
    refine ⟨c.name.getD "", ?_, by simp [h1, h2]⟩
    have hmem : c.name.getD "" ∈ disp := List.mem_map.mpr ⟨c, hc, rfl⟩
    show c.name.getD "" ∈ (if cols.length > m * 2 then insertAt m "..." disp else disp)
    split
    · unfold insertAt
      rw [← List.take_append_drop m disp] at hmem
      rcases List.mem_append.mp hmem with h | h
      · exact List.mem_append_left _ h
      · exact List.mem_append_right _ (List.mem_cons_of_mem _ h)
    · exact hmem
  show List.head? ((if (disp'.any (fun d => d != "..." && d != "")) = true then _ else _) ++ _ ++ _) = _
  rw [hany']
  rfl

/-- when the displayed columns differ in dtype, a header row lists `[dtype]` for every displayed
    column (and the footer says `<mixed>`): the dtypes are stated per column -/
theorem mixed_header_row (otherName : Nat → String) (m : Nat) (cols : List Col)
    (hmix : (tableHeader otherName m cols).2 = true) :
    let dts := (shownCols m cols).map (fun c => dtypeText otherName c.dtype)
    let dts' := if cols.length > m * 2 then insertAt m "..." dts else dts
    (tableHeader otherName m cols).1.getLast? =
      some { judged := true, cells := dts'.map (fun d => if d != "..." then "[" ++ d ++ "]" else "...") } := by
  intro dts dts'
  unfold tableHeader at hmix ⊢
  simp only [computeHeaders_dts, decide_eq_true_eq] at hmix ⊢
  rw [hmix]
  simp only [if_true, List.getLast?_append, List.getLast?_singleton]
  rfl

/-! #### body -/

/-- a vector prints one body line per preview entry, showing that entry's text -/
theorem body_lines_vector (otherName : Nat → String) (rows : Nat) (v : Col) (out : Out)
    (h : reprVector otherName rows v = .ok out) (hne : v.cells.isEmpty = false) :
    out.body.length = (if v.cells.length > 2 * (rows / 2) then 2 * (rows / 2) + 1 else v.cells.length) ∧
    ∀ (i : Nat) (s : Shown Cell), (preview (rows / 2) v.cells)[i]? = some s →
      ∃ t, fmtShown (v.dtype.map (·.kind)) s = .ok t ∧ out.body[i]? = some [t] := by
  unfold reprVector at h
  simp only [hne, Bool.false_eq_true, if_false] at h
  split at h
  · cases h
  · rename_i body hb
    cases h
    constructor
    · simp only [List.length_map]
      rw [formatColumn_length _ _ _ hb, preview_length]
    · intro i s hs
      obtain ⟨t, ht, hi⟩ := mapRes_ok_getElem? hb i s hs
      exact ⟨t, ht, by simp [hi]⟩

/-- a table prints as many body lines as the preview of its (common) column length, each with
    one cell per displayed column plus one for the `...` column -/
theorem body_lines_table (otherName : Nat → String) (rows m : Nat) (t : Tab) (out : Out) (r : Nat)
    (h : reprTable otherName rows m t = .ok out) (hne : t.cols ≠ []) (hm : m > 0)
    (hrect : ∀ c ∈ t.cols, c.cells.length = r) :
    out.body.length = (if r > 2 * tableK rows t then 2 * tableK rows t + 1 else r) ∧
    ∀ row ∈ out.body, row.length =
      (shownCols m t.cols).length + (if t.cols.length > m * 2 then 1 else 0) := by
  unfold reprTable at h
  have hem : t.cols.isEmpty = false := by cases hc : t.cols <;> simp_all
  simp only [hem, Bool.false_eq_true, if_false] at h
  split at h
  · cases h
  · rename_i body hb
    cases h
    simp only
    unfold tableBody at hb
    split at hb
    · cases hb
    · rename_i fcols hf
      simp only [Except.ok.injEq] at hb
      subst hb
      have hlen := mapRes_ok_length hf
      -- the first displayed column is the first column
      obtain ⟨c0, cs, hc⟩ : ∃ c0 cs, t.cols = c0 :: cs := by
        cases hc : t.cols with
        | nil => exact absurd hc hne
        | cons a b => exact ⟨a, b, rfl⟩
      have hhead : (shownCols m t.cols)[0]? = some c0 := by
        unfold shownCols
        split
        · rw [List.getElem?_append_left (by simp [List.length_take]; omega)]
          simp [hm, hc]
        · simp [hc]
      obtain ⟨l0, hl0, hf0⟩ := mapRes_ok_getElem? hf 0 c0 hhead
      have hnb : (fcols.headD []).length = (preview (tableK rows t) c0.cells).length := by
        cases fcols with
        | nil => simp at hf0
        | cons a b =>
          simp only [List.getElem?_cons_zero, Option.some.injEq] at hf0
          subst hf0
          simpa using formatColumn_length _ _ _ hl0
      constructor
      · simp only [rowsOf, List.length_map, List.length_range]
        rw [hnb, preview_length, hrect c0 (by rw [hc]; exact List.mem_cons_self)]
      · intro row hrow
        simp only [rowsOf, List.mem_map, List.mem_range] at hrow
        obtain ⟨i, _, rfl⟩ := hrow
        simp only [List.length_map]
        split
        · simp only [insertAt, List.length_append, List.length_take, List.length_cons, List.length_drop]
          omega
        · omega

/-! #### tie to the source: the limits regenerated from display.py on this run -/

/-- the limits are usable: a positive column limit (the model's `formatted_cols[0]` exists) -/
theorem limits_positive : Gen.maxHeadCols > 0 := by decide

/-! #### non-vacuity -/

def demoCell (n : Nat) : Cell :=
  { isNone := false, eqEllipsis := false, isStr := false, num := some .finiteIntegral,
    str := toString n, repr := toString n, g := some (toString n), f1 := some (toString n ++ ".0"), iso := none }

def demoCol (name : String) (n : Nat) (dt : Kind) : Col :=
  { name := some name, shownName := name, san := some name, lower := name, dtype := some ⟨dt, false⟩,
    cells := (List.range n).map demoCell }

example : preview 2 [1, 2, 3, 4, 5, 6] = [.cell 1, .cell 2, .ellipsis, .cell 5, .cell 6] := by decide
example : preview 0 [1, 2, 3] = [.ellipsis] := by decide
example : preview 1 [1, 2, 3] = [.cell 1, .ellipsis, .cell 3] := by decide
example : preview 2 [1, 2, 3, 4] = [.cell 1, .cell 2, .cell 3, .cell 4] := by decide

example : (reprVector (fun _ => "?") 4 (demoCol "x" 5 .int)).toOption.map (fun o => (o.header.map (·.cells), o.body, o.footer.render)) =
    some ([["x"]], [["0"], ["1"], ["..."], ["3"], ["4"]], "# 5 element vector <int>") := by decide

example : (reprTable (fun _ => "?") 12 1 ⟨[demoCol "a" 2 .int, demoCol "b" 2 .float, demoCol "c" 2 .int], none⟩).toOption.map
    (fun o => (o.header.map (·.cells), o.body, o.footer.render)) =
    some ([["a", "...", "c"]], [["0", "...", "0"], ["1", "...", "1"]], "# 2×3 table <int, ..., int>") := by decide

example : (reprTable (fun _ => "?") 12 5 ⟨[demoCol "a" 1 .int, demoCol "b" 1 .float], none⟩).toOption.map
    (fun o => (o.header.map (·.cells), o.body, o.footer.render)) =
    some ([["a", "b"], ["[int]", "[float]"]], [["0", "0.0"]], "# 1×2 table <mixed>") := by decide

/-- the judge accepts any alignment of the right cells and rejects a wrong row, a missing
    ellipsis, a wrong count -/
def demoOut : Out :=
  { header := [⟨true, ["a", "'b c'"]⟩], body := [["1", "x y"], ["...", "..."], ["None", ""]],
    footer := .table 5 2 "mixed", bare := false }

example : judge demoOut ["a  'b c'", "   1  x y", " ...  ...", "None     ", "", "# 5×2 table <mixed>"] = none := by decide
example : judge demoOut ["a 'b c'", "1 x y", "... ...", "None", "", "# 5×2 table <mixed>"] = none := by decide
example : (judge demoOut ["a  'b c'", "   2  x y", " ...  ...", "None     ", "", "# 5×2 table <mixed>"]).isSome := by decide
example : (judge demoOut ["a  'b c'", "   1  x y", "None     ", "", "# 5×2 table <mixed>"]).isSome := by decide
example : (judge demoOut ["a  'b c'", "   1  x y", " ...  ...", "None     ", "", "# 4×2 table <mixed>"]).isSome := by decide
example : lineMatches ["12", "3"] "12  3" = true ∧ lineMatches ["12", "3"] "1  23" = false := by decide

end Serif.C20
