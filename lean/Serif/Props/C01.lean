/-
  C01 — value semantics: writes stay local, read-only operations are pure.
  Theorems about the object-identity model `Serif.Heap` (Model/ObjHeap.lean); helper lemmas in Proofs/ObjHeap.lean.
-/
import Serif.Proofs.ObjHeap

namespace Serif.C01
open Serif Serif.Heap

variable (fpOf : VecVal → Int)

/-- **write frame.** An accepted in-place write through handle `r` (object `w`) leaves what any handle `r'` shows
    unchanged, unless `r'` is bound to `w` itself or to a table that holds `w` as a column. -/
theorem write_frame (h : Heap) (r r' w o : Nat) (v : VecVal)
    (hr : h.root r = some w) (hr' : h.root r' = some o) (hi : h.indep o w = true) :
    (step fpOf h (.mutate r v)).view r' = h.view r' := by
  simp only [step, hr]
  simp only [view, root, setVec_roots] at *
  rw [hr']
  exact abs_setVec_indep h o w v hi

/-- the written handle shows the written content -/
theorem write_shows (h : Heap) (r w : Nat) (v v0 : VecVal) (fp : Option Int)
    (hr : h.root r = some w) (hw : h.objs w = some (.vec v0 fp)) :
    (step fpOf h (.mutate r v)).view r = some (.vec v) := by
  simp only [step, hr]
  simp only [view, root, setVec_roots] at *
  rw [hr]
  exact abs_setVec_self h w v v0 fp hw

/-- in a well-formed heap at most one table can hold the written object, so a write through a column view
    is visible in that one table only -/
theorem owner_unique (h : Heap) (wf : WF h) (o1 o2 w : Nat)
    (h1 : w ∈ h.columnsOf o1) (h2 : w ∈ h.columnsOf o2) : o1 = o2 := by
  unfold columnsOf obj at h1 h2
  cases e1 : h.objs o1 with
  | none => simp [e1] at h1
  | some ob1 =>
    cases ob1 with
    | vec _ _ => simp [e1] at h1
    | tab c1 =>
      cases e2 : h.objs o2 with
      | none => simp [e2] at h2
      | some ob2 =>
        cases ob2 with
        | vec _ _ => simp [e2] at h2
        | tab c2 =>
          simp [e1] at h1; simp [e2] at h2
          exact wf.own o1 o2 c1 c2 w e1 e2 h1 h2

/-- **table write frame.** A write through a table handle changes only that table and the live views of its
    columns: any handle bound to another object that is not one of its columns shows what it showed. -/
theorem tab_write_frame (h : Heap) (wf : WF h) (t r' ot o : Nat) (vs : List VecVal)
    (ht : h.root t = some ot) (hr' : h.root r' = some o)
    (hne : o ≠ ot) (hcol : o ∉ h.columnsOf ot) :
    (step fpOf h (.tabMutate t vs)).view r' = h.view r' := by
  simp only [step, ht]
  cases hobj : h.obj ot with
  | none => rfl
  | some ob =>
    cases ob with
    | vec _ _ => rfl
    | tab cols =>
      simp only
      have hcols : h.columnsOf ot = cols := by simp [columnsOf, hobj]
      rw [hcols] at hcol
      -- generalise over the remaining (columns, values) and the heap reached so far
      have key : ∀ (cs : List Nat) (vs : List VecVal) (g : Heap),
          (∀ c ∈ cs, c ∈ cols) → g.roots = h.roots → (∀ k, g.columnsOf k = h.columnsOf k) → g.abs o = h.abs o →
          (g.setVecs cs vs).view r' = h.view r' := by
        intro cs
        induction cs with
        | nil =>
          intro vs g _ hroots _ habs
          simp only [setVecs, view, root, hroots] at *
          rw [hr']; exact habs
        | cons c cs ih =>
          intro vs g hsub hroots hcolsOf habs
          cases vs with
          | nil =>
            simp only [setVecs, view, root, hroots] at *
            rw [hr']; exact habs
          | cons v vs =>
            simp only [setVecs]
            apply ih vs (g.setVec c v) (fun x hx => hsub x (List.mem_cons_of_mem _ hx))
            · rw [setVec_roots]; exact hroots
            · intro k
              unfold columnsOf obj
              cases hk : g.objs k with
              | none => rw [(setVec_none g c k v).mpr hk]; have := hcolsOf k; simp [columnsOf, obj, hk] at this; simp [this]
              | some ob =>
                cases ob with
                | vec x f =>
                  obtain ⟨x', f', hx'⟩ := (setVec_isVec g c k v).mpr ⟨x, f, hk⟩
                  rw [hx']; have := hcolsOf k; simp [columnsOf, obj, hk] at this; simp [this]
                | tab cs' =>
                  rw [(setVec_tab g c k v cs').mpr hk]; have := hcolsOf k; simp [columnsOf, obj, hk] at this; simp [this]
            · rw [← habs]
              apply abs_setVec_indep
              have hc : c ∈ cols := hsub c List.mem_cons_self
              simp only [indep, Bool.and_eq_true, bne_iff_ne, ne_eq, Bool.not_eq_true', List.contains_eq_mem,
                decide_eq_false_iff_not]
              refine ⟨fun e => hcol (e ▸ hc), ?_⟩
              rw [hcolsOf o]
              intro hmem
              exact hne (owner_unique h wf o ot c hmem (by rw [hcols]; exact hc))
      exact key cols vs h (fun _ hx => hx) rfl (fun _ => rfl) rfl

/-- **read-only operations are pure.** Reading a fingerprint, a failed or refused operation, obtaining a column
    view and dropping a handle change what no object shows. -/
theorem readonly_frame (h : Heap) (op : HOp)
    (hop : (∃ r, op = .fingerprint r) ∨ op = .noop ∨ (∃ d t j, op = .getCol d t j) ∨ (∃ r, op = .drop r)) :
    ∀ o, (step fpOf h op).abs o = h.abs o := by
  intro o
  rcases hop with ⟨r, rfl⟩ | rfl | ⟨d, t, j, rfl⟩ | ⟨r, rfl⟩
  · simp only [step]
    split
    · rename_i w hw
      split
      · rename_i v fp0 hv
        exact abs_upd_memo h w v fp0 _ hv o
      · exact memo_foldl_abs fpOf _ h o
      · rfl
    · rfl
  · rfl
  · simp only [step]
    split
    · split
      · split <;> rfl
      · rfl
    · rfl
  · rfl

/-- … and they leave every other handle bound as it was, so every handle shows what it showed -/
theorem readonly_view (h : Heap) (r r' : Nat) :
    (step fpOf h (.fingerprint r)).view r' = h.view r' ∧ (step fpOf h .noop).view r' = h.view r' := by
  refine ⟨?_, rfl⟩
  have habs := readonly_frame fpOf h (.fingerprint r) (Or.inl ⟨r, rfl⟩)
  have hroots : (step fpOf h (.fingerprint r)).roots = h.roots := by
    simp only [step]
    split
    · split
      · rfl
      · exact memo_foldl_roots fpOf _ h
      · rfl
    · rfl
  simp only [view, root, hroots]
  cases h.roots r' with
  | none => rfl
  | some o => exact habs o

/-- a refused write (AliasError) or any failed operation is a no-op on the whole heap -/
theorem refusal_is_noop (h : Heap) : step fpOf h .noop = h := rfl

/-- **derived objects are fresh.** An operation returning a new vector or table binds `dst` to an object graph
    that shows the returned value, every other handle shows what it showed, … -/
theorem derive_frame (h : Heap) (wf : WF h) (dst : Nat) (val : AbsVal) :
    (step fpOf h (.derive dst val)).view dst = some val ∧
    ∀ r', r' ≠ dst → (step fpOf h (.derive dst val)).view r' = h.view r' := by
  obtain ⟨a, b, c, d, e, f⟩ := alloc_spec h val wf
  simp only [step]
  constructor
  · simp only [view, root, upd_same]
    exact f
  · intro r' hr'
    simp only [view, root, upd_ne _ _ _ _ hr', d]
    cases hro : h.roots r' with
    | none => rfl
    | some o =>
      simp only
      have holt : o < h.next := wf.roots_lt r' o hro
      apply abs_congr
      · exact e o holt
      · intro x hx
        apply vecOf_congr
        apply e
        -- columns of an existing table are existing objects
        unfold columnsOf obj at hx
        cases ho : h.objs o with
        | none => simp [ho] at hx
        | some ob =>
          cases ob with
          | vec _ _ => simp [ho] at hx
          | tab cs =>
            simp [ho] at hx
            obtain ⟨z, fp, hz⟩ := wf.cols_vec o cs ho x hx
            exact wf.lt_of_some hz

/-- … and the new object shares nothing with any object that existed before: later writes through the new handle
    cannot reach an older object, and writes through older handles cannot reach the new one.
    (This is the statement for "inputs a table was built from, tables derived by selection, slicing, filtering,
    stacking, joining or sorting, copies".) -/
theorem derive_independent (h : Heap) (wf : WF h) (dst : Nat) (val : AbsVal) (o : Nat) (ho : o < h.next) :
    let h' := step fpOf h (.derive dst val)
    ∀ n, h'.root dst = some n → h'.indep o n = true ∧ h'.indep n o = true ∧
      (∀ c ∈ h'.columnsOf n, h'.indep o c = true ∧ h'.indep c o = true) := by
  intro h' n hn
  obtain ⟨a, b, c, d, e, f⟩ := alloc_spec h val wf
  have hn' : n = (h.alloc val).2 := by
    simp only [h', step, root, upd_same] at hn; exact (Option.some.inj hn).symm
  have hobjs : ∀ k, h'.objs k = (h.alloc val).1.objs k := fun _ => rfl
  have wf' : WF h' := step_wf fpOf h _ wf
  -- columns of old objects are old; columns of the new object are new
  have oldcols : ∀ x ∈ h'.columnsOf o, x < h.next := by
    intro x hx
    unfold columnsOf obj at hx
    rw [hobjs, e o ho] at hx
    cases hobj : h.objs o with
    | none => simp [hobj] at hx
    | some ob =>
      cases ob with
      | vec _ _ => simp [hobj] at hx
      | tab cs =>
        simp [hobj] at hx
        obtain ⟨z, fp, hz⟩ := wf.cols_vec o cs hobj x hx
        exact wf.lt_of_some hz
  have newcols : ∀ x ∈ h'.columnsOf n, h.next ≤ x := by
    intro x hx
    rcases Nat.lt_or_ge x h.next with l | l
    · exfalso
      -- x would be an old vector object that the new table holds: but the new table's columns were allocated fresh
      unfold columnsOf obj at hx
      cases hobj : h'.objs n with
      | none => simp [hobj] at hx
      | some ob =>
        cases ob with
        | vec _ _ => simp [hobj] at hx
        | tab cs =>
          simp [hobj] at hx
          cases val with
          | vec v =>
            rw [hobjs, hn'] at hobj
            simp [alloc, allocVec] at hobj
          | tab cols =>
            obtain ⟨_, b2, _, _, e2, _, _⟩ := allocVecs_spec h cols wf
            rw [hobjs, hn'] at hobj
            simp only [alloc, upd_same] at hobj
            have : cs = (h.allocVecs cols).2 := by injection hobj with h1; injection h1 with h2; exact h2.symm
            rw [this, e2] at hx
            have := (List.mem_range'_1.mp hx).1
            omega
    · exact l
  have hno : n ≠ o := by omega
  simp only [indep, Bool.and_eq_true, bne_iff_ne, ne_eq, Bool.not_eq_true', List.contains_eq_mem,
    decide_eq_false_iff_not]
  refine ⟨⟨fun e => hno e.symm, fun hm => ?_⟩, ⟨hno, fun hm => ?_⟩, fun c hc => ⟨⟨?_, fun hm => ?_⟩, ⟨?_, fun hm => ?_⟩⟩⟩
  · have := oldcols n hm; omega
  · have := newcols o hm; omega
  · intro e; subst e; have := newcols o hc; omega
  · have := oldcols c hm; have := newcols c hc; omega
  · intro e; subst e; have := newcols c hc; omega
  · -- c is a vector object: it has no columns
    obtain ⟨z, fp, hz⟩ : ∃ z fp, h'.objs c = some (.vec z fp) := by
      unfold columnsOf obj at hc
      cases hobj : h'.objs n with
      | none => simp [hobj] at hc
      | some ob =>
        cases ob with
        | vec _ _ => simp [hobj] at hc
        | tab cs => simp [hobj] at hc; exact wf'.cols_vec n cs hobj c hc
    simp [columnsOf, obj, hz] at hm

/-- **column replacement stores a copy.** `t.<name> = src` changes what the table shows and nothing else:
    every handle bound to another object — in particular `src` and earlier views of the replaced column — shows
    what it showed. -/
theorem setAttr_frame (h : Heap) (wf : WF h) (t j src r' ot o : Nat)
    (ht : h.root t = some ot) (hr' : h.root r' = some o) (hne : o ≠ ot) :
    (step fpOf h (.setAttr t j src)).view r' = h.view r' := by
  have holt : o < h.next := wf.roots_lt r' o hr'
  simp only [step, ht]
  split
  · rename_i ot' os hot hos
    cases hot
    split
    · rename_i cols sv hcols hsv
      split
      · rename_i oc hoc
        have hr'' : h.roots r' = some o := hr'
        simp only [view, root, allocVec_roots, hr'']
        apply abs_congr
        · show upd _ ot _ o = _
          rw [upd_ne _ _ _ _ hne]; exact allocVec_objs_lt h _ o (by omega)
        · intro x hx
          have hxlt : x < h.next := by
            unfold columnsOf obj at hx
            cases hobj : h.objs o with
            | none => simp [hobj] at hx
            | some ob =>
              cases ob with
              | vec _ _ => simp [hobj] at hx
              | tab cs =>
                simp [hobj] at hx
                obtain ⟨z, fp, hz⟩ := wf.cols_vec o cs hobj x hx
                exact wf.lt_of_some hz
          have hxne : x ≠ ot := by
            intro e; subst e
            unfold columnsOf obj at hx
            cases hobj : h.objs o with
            | none => simp [hobj] at hx
            | some ob =>
              cases ob with
              | vec _ _ => simp [hobj] at hx
              | tab cs =>
                simp [hobj] at hx
                obtain ⟨z, fp, hz⟩ := wf.cols_vec o cs hobj x hx
                simp only [obj] at hcols
                rw [hcols] at hz; cases hz
          apply vecOf_congr
          show upd _ ot _ x = _
          rw [upd_ne _ _ _ _ hxne]; exact allocVec_objs_lt h _ x (by omega)
      · rfl
    · rfl
  · rfl

/-- **every reachable heap is well-formed** — whatever finite interleaving of constructions, derivations,
    views, column replacements, writes, drops and fingerprint calls produced it. -/
theorem reachable_wf (ops : List HOp) : WF (run fpOf Heap.empty ops) :=
  run_wf fpOf ops Heap.empty wf_empty

/-- **value semantics over histories.** After any history, an accepted write through handle `r` changes what
    another handle `r'` shows only if `r'` is bound to the written object itself or to the one table holding it;
    every other handle still shows exactly its previous contents, names and dtypes. -/
theorem value_semantics (ops : List HOp) (r r' w o : Nat) (v : VecVal) :
    let h := run fpOf Heap.empty ops
    h.root r = some w → h.root r' = some o → o ≠ w →
    (∀ t, w ∈ h.columnsOf t → o ≠ t) →
    (step fpOf h (.mutate r v)).view r' = h.view r' := by
  intro h hr hr' hne hown
  apply write_frame fpOf h r r' w o v hr hr'
  simp only [indep, Bool.and_eq_true, bne_iff_ne, ne_eq, Bool.not_eq_true', List.contains_eq_mem,
    decide_eq_false_iff_not]
  exact ⟨hne, fun hm => hown o hm rfl⟩

/-! #### non-vacuity: concrete histories -/

private def v1 : VecVal := { data := [1, 2, 3], dtype := some ⟨.int, false⟩, name := some "a" }
private def v2 : VecVal := { data := [4, 5, 6], dtype := some ⟨.int, false⟩, name := some "b" }
private def v9 : VecVal := { data := [9, 2, 3], dtype := some ⟨.int, false⟩, name := some "a" }
private def fp0 : VecVal → Int := fun _ => 0

/-- build `d`, build a table, take a column view, assign `d` as a column, write through `d`:
    the table still shows its old column, and the view shows the table's column -/
example :
    let h := run fp0 Heap.empty [.derive 0 (.vec v1), .derive 1 (.tab [v1, v2]), .getCol 2 1 0, .setAttr 1 0 0,
                                 .mutate 0 v9]
    h.view 0 = some (.vec v9) ∧ h.view 1 = some (.tab [v1, v2]) ∧ h.view 2 = some (.vec v1) := by decide

/-- a write through a live column view is visible in its table and nowhere else -/
example :
    let h := run fp0 Heap.empty [.derive 0 (.tab [v1, v2]), .derive 1 (.tab [v1, v2]), .getCol 2 0 0, .mutate 2 v9]
    h.view 0 = some (.tab [v9, v2]) ∧ h.view 1 = some (.tab [v1, v2]) := by decide

end Serif.C01
