/-
  C18 — names propagate by fixed rules: math drops them, structure keeps them; for every composition.
  Property theorems only; helper lemmas live in Serif/Proofs/ExprNames.lean, model and spec in Serif/Model/Expr.lean.

  `X.nameRule san op shapes` : the rule of one operation — a function of the operands' names and row counts only
                               (never of element values, dtypes or history).
  `X.specNames ρ e`          : names of the result of program `e`, computed compositionally from the rules.
  `X.eval ρ e`               : the model of what the code does (names are carried by every constructor call).
-/
import Serif.Proofs.ExprNames
import Serif.Gen.Consts

namespace Serif.C18
open Serif.X

/-! #### the "all compositions" quantifier -/

/-- one operation: the names of whatever it returns are given by its rule -/
theorem step_names (ρ : Oracle) (op : Op) (args : List Obj) (o : Obj) (h : step ρ op args = .ok o) :
    o.names = nameRule ρ.san op (args.map Obj.sh) := X.step_names ρ op args o h

/-- every program: the names the code produces are the names the rules prescribe (structural induction;
    possible because no rule depends on history) -/
theorem names_eq_spec (ρ : Oracle) (e : Expr) (o : Obj) (h : eval ρ e = .ok o) :
    o.names = specNames ρ e := (names_aux ρ).1 e o h

/-! #### the rules of the statement, read off `nameRule` -/

/-- binary arithmetic and comparisons (vector, scalar, list, reflected) give unnamed results -/
theorem math_drops_name (san : String → Option String) (aop : AOp) (s : Nat) (o : Other) (args : List Sh) :
    nameRule san (.arith aop s) args = .vec none ∧ nameRule san (.arithO aop s o) args = .vec none ∧
    nameRule san (.cmp s) args = .vec none ∧ nameRule san (.cmpO s o) args = .vec none := ⟨rfl, rfl, rfl, rfl⟩

/-- copy, slicing, masking, sorting, in-place writes and promotion keep the vector's name -/
theorem structure_keeps_name (san : String → Option String) (n : Option String) (len : Nat)
    (idx p : List Nat) (m : List Bool) (ups : List (Nat × Tag)) :
    nameRule san .copy [⟨.vec n, len⟩] = .vec n ∧ nameRule san (.getIdx idx) [⟨.vec n, len⟩] = .vec n ∧
    nameRule san (.getMask m) [⟨.vec n, len⟩] = .vec n ∧ nameRule san (.sortV p) [⟨.vec n, len⟩] = .vec n ∧
    nameRule san (.setitem ups) [⟨.vec n, len⟩] = .vec n := ⟨rfl, rfl, rfl, rfl, rfl⟩

/-- table-with-scalar arithmetic keeps every column name; table-with-table arithmetic keeps the left name exactly
    when the right name is absent or equal -/
theorem table_arith_names (san : String → Option String) (aop : AOp) (s : Nat) (o : Other)
    (ls rs : List (Option String)) (n m : Nat) :
    nameRule san (.tarithO aop s o) [⟨.tab ls, n⟩] = .tab ls ∧
    nameRule san (.tarith aop s) [⟨.tab ls, n⟩, ⟨.tab rs, m⟩] = .tab (zipResolve ls rs) := ⟨rfl, rfl⟩

theorem resolve_keeps_left_iff (l r : Option String) :
    resolveBinaryName l r = (if r = none ∨ r = l then l else none) := rfl

/-- construction from vectors, `>>`, row filters, sorting and joins keep each source column's name, in order -/
theorem table_structure_names (san : String → Option String) (ls rs : List (Option String)) (n m : Nat)
    (hl : ls ≠ []) (idx p : List Nat) (k : JoinKind) (pairs : List (Option Nat × Option Nat)) (hp : pairs ≠ [])
    (hn : n ≠ 0) :
    nameRule san .rshift [⟨.tab ls, n⟩, ⟨.tab rs, m⟩] = .tab (ls ++ rs) ∧
    nameRule san (.rowIdx idx) [⟨.tab ls, n⟩] = .tab ls ∧
    nameRule san (.sortT p) [⟨.tab ls, n⟩] = .tab ls ∧
    nameRule san (.join k pairs) [⟨.tab ls, n⟩, ⟨.tab rs, m⟩] = .tab (ls ++ rs) := by
  refine ⟨?_, ?_, rfl, ?_⟩
  · simp [nameRule, shCols, Names.cols, ofCols, hl]
  · simp [nameRule, shCols, Names.cols, ofCols, hl]
  · cases k <;> simp [nameRule, shCols, Names.cols, hl, hp, hn]

/-! #### aggregate / window output names -/

/-- key names come first, then one name per aggregation; every output is its candidate
    (`name or "key"`, `<sanitised column>_<function>`, or the given `apply` name) followed by nothing or by
    a numeric suffix ≥ 2 -/
theorem agg_names_form (san : String → Option String) (cols : List (Option String)) (a : AggArgs) :
    (aggNames san cols a).length = a.keys.length + a.flat.length ∧
    ∀ p ∈ (aggCands san cols a).zip (aggNames san cols a),
      p.2 = p.1 ∨ ∃ j, 2 ≤ j ∧ p.2 = p.1 ++ toString j := by
  refine ⟨?_, uniqAll_form [] _⟩
  simp [aggNames, uniqAll_length, aggCands]

/-- the output names are pairwise distinct, whatever the argument list (same column twice, a key named like an
    output, an `apply` name equal to a generated one) -/
theorem agg_names_nodup (san : String → Option String) (cols : List (Option String)) (a : AggArgs) :
    (aggNames san cols a).Nodup := uniqAll_nodup [] _

/-- the `while f"{name}{i}" in used` loop ends within `len(used) + 1` iterations: the model's fuel suffices,
    and what it returns is not in `used` -/
theorem uniquify_terminates (used : List String) (name : String) :
    (∃ c, findFresh name used (used.length + 1) 2 = some c) ∧ uniquify used name ∉ used :=
  ⟨findFresh_terminates name used, (uniquify_spec used name).1⟩

/-! #### tie to the source -/

/-- `_resolve_binary_name`, executed on {None, 'a', 'b'}², is the model's `resolveBinaryName` -/
theorem resolve_table_agrees :
    ∀ e ∈ Gen.resolveBinaryNameTable, resolveBinaryName e.1 e.2.1 = e.2.2 := by decide +kernel

/-! #### non-vacuity -/

-- (a + b)[mask] of two named vectors is unnamed; a slice of a named vector keeps its name
example :
    specNames silent (.node (.getMask [true, false])
      (.cons (.node (.arith .gen 0) (.cons (.node (.leaf [.none, .none] (some "a")) .nil)
        (.cons (.node (.leaf [.none, .none] (some "b")) .nil) .nil))) .nil)) = .vec none := by rfl
example :
    (eval silent (.node (.getIdx [1]) (.cons (.node (.leaf [.ty .int, .ty .str] (some "a")) .nil) .nil))).toOption.map Obj.names
      = some (.vec (some "a")) := by rfl
-- the same column aggregated twice, and a key named like an output
example :
    aggNames (fun s => some s) [some "b_sum", some "b"]
      ⟨[0, 0], [1, 1], [], [], [], [], [], [("b_sum", 1)]⟩ = ["b_sum", "b_sum2", "b_sum3", "b_sum4", "b_sum5"] := by decide
example : Gen.resolveBinaryNameTable.length = 9 := by decide

end Serif.C18
