/-
  Shared vocabulary of the serif model.  Core Lean only (no Mathlib) so that the
  driver can be compiled to a native executable.
-/
namespace Serif

/-- The `kind` of a serif `DataType`, i.e. a Python class.  `other n` stands for the
    n-th class that `typing.infer_kind` does not know about (one `Nat` per class). -/
inductive Kind where
  | bool | int | float | complex | str | bytes | date | datetime
  | list | dict | tuple | object
  | other (cls : Nat)
  deriving DecidableEq, Repr, Inhabited

/-- `DataType(kind, nullable)`. -/
structure DType where
  kind : Kind
  nullable : Bool
  deriving DecidableEq, Repr, Inhabited

/-- Exact Python type of one scalar: `None`, or an instance of exactly class `k`
    (`k ≠ object` for generated data; instances of `object` itself behave as `other`). -/
inductive Tag where
  | none
  | ty (k : Kind)
  deriving DecidableEq, Repr, Inhabited

namespace Kind
/-- numeric code used on the wire (harness ↔ driver) -/
def code : Kind → Nat
  | bool => 1 | int => 2 | float => 3 | complex => 4 | str => 5 | bytes => 6
  | date => 7 | datetime => 8 | list => 9 | dict => 10 | tuple => 11 | object => 12
  | other n => 13 + n

def ofCode : Nat → Kind
  | 1 => bool | 2 => int | 3 => float | 4 => complex | 5 => str | 6 => bytes
  | 7 => date | 8 => datetime | 9 => list | 10 => dict | 11 => tuple | 12 => object
  | n => other (n - 13)
end Kind

namespace Tag
def code : Tag → Nat
  | none => 0
  | ty k => k.code
def ofCode : Nat → Tag
  | 0 => none
  | n => ty (Kind.ofCode n)
end Tag

/-- Python exception classes, as far as the checks distinguish them. -/
inductive Err where
  | alias | type | value | key | index | attr | other
  deriving DecidableEq, Repr, Inhabited

namespace Err
def name : Err → String
  | alias => "alias" | type => "type" | value => "value" | key => "key"
  | index => "index" | attr => "attr" | other => "other"
end Err

abbrev Res (α : Type) := Except Err α

/-! ### Insertion-ordered dictionary (observable behaviour of a CPython ≥ 3.7 `dict`) -/

abbrev Dict (κ ν : Type) := List (κ × ν)

namespace Dict
variable {κ ν : Type} [DecidableEq κ]

def get? (d : Dict κ ν) (k : κ) : Option ν :=
  match d with
  | [] => none
  | (k', v) :: rest => if k' = k then some v else get? rest k

/-- `d[k] = f(d.get(k))`, keeping the position of an existing key, appending a new one. -/
def upsert (d : Dict κ ν) (k : κ) (f : Option ν → ν) : Dict κ ν :=
  match d with
  | [] => [(k, f none)]
  | (k', v) :: rest => if k' = k then (k', f (some v)) :: rest else (k', v) :: upsert rest k f

def keys (d : Dict κ ν) : List κ := d.map (·.1)
end Dict

/-! ### Stable insertion sort (structural, so it reduces in the kernel) -/

/-- insert `x` in front of the first element `y` with `le x y` (so in front of its ties) -/
def ins {α : Type} (le : α → α → Bool) (x : α) : List α → List α
  | [] => [x]
  | y :: ys => if le x y then x :: y :: ys else y :: ins le x ys

/-- stable sort by insertion from the right: equivalent elements keep their input order -/
def isort {α : Type} (le : α → α → Bool) (l : List α) : List α := l.foldr (ins le) []

end Serif
