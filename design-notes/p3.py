import warnings, gc
warnings.simplefilter("ignore")
from serif import *
from serif.typing import infer_dtype
from datetime import date, datetime
def show(label, f):
    try:
        r = f()
        print(label, "->", r if not isinstance(r, Vector) or isinstance(r, Table) else (list(r), r.schema(), r.name))
    except Exception as e:
        print(label, "!!", type(e).__name__, str(e)[:100])
def tb(t): return (t.column_names(), [list(c) for c in t.cols()], [c.schema() for c in t.cols()])

print("== C03")
show("1.5 + intvec", lambda: 1.5 + Vector([1,2]))
show("[1.5,2.5] + intvec", lambda: [1.5,2.5] + Vector([1,2]))
show("-boolvec", lambda: -Vector([True, False]))
show("abs boolvec", lambda: abs(Vector([True, False])))
show("+boolvec", lambda: +Vector([True, False]))
show("~boolvec", lambda: ~Vector([True, False]))
show("~intvec", lambda: ~Vector([1, 2]))
show("-vec with None", lambda: -Vector([1, None]))
show("int << float", lambda: Vector([1,2]) << Vector([1.5]))
show("int << [None]", lambda: Vector([1,2]) << [None])
show("int << 'a'", lambda: Vector([1,2]) << 'a')
show("int? << str", lambda: Vector([1,None]) << Vector(['a']))
def f():
    v = Vector([1,2,3]); v[0:2] = [1.5, 'a']; return v
show("multi assign [1.5,'a']", f)
def f():
    v = Vector([1,2,3]); v[0:2] = [1, 'a']; return v
show("multi assign [1,'a']", f)
def f():
    v = Vector([1,2,3]); v[0:2] = [1.5, None]; return v
show("multi assign [1.5,None]", f)
def f():
    v = Vector([1,2,3]); v[0] = None; return v
show("None into int", f)
def f():
    v = Vector([1.0,2.0,3.0]); v[0] = 1; return v
show("int into float", f)
def f():
    v = Vector([1.0,2.0,3.0]); v[0] = True; return v
show("bool into float", f)
def f():
    v = Vector([True,False]); v[0] = 2; return v
show("int into bool", f)
def f():
    v = Vector([1,2]); v[0] = True; return v
show("bool into int", f)
def f():
    v = Vector([1,2]); v[0] = 1j; return v
show("complex into int", f)
def f():
    v = Vector(['a','b']); v[0] = 1; return v
show("int into str", f)
def f():
    v = Vector([date(2020,1,1)]); v[0] = datetime(2020,1,1,5); return v
show("datetime into date", f)
def f():
    v = Vector([1, None]); v[1] = 2.5; return v
show("float into int?", f)
def f():
    v = Vector([None, None]); v[1] = 2.5; return v
show("float into object?", f)
def f():
    v = Vector([]); v[0:0] = []; return v
show("empty assign", f)
show("cast float", lambda: Vector([1,None,3]).cast(float))
show("cast str", lambda: Vector([1,2,3]).cast(str))
show("fillna", lambda: Vector([1,None,3]).fillna(0))
show("fillna float", lambda: Vector([1,None,3]).fillna(0.5))
show("fillna None", lambda: Vector([1,None,3]).fillna(None))
show("fillna str", lambda: Vector([1,None,3]).fillna('x'))
show("fillna on no-none", lambda: Vector([1,2,3]).fillna(0))
show("dropna", lambda: Vector([1,None,3],name='q').dropna())
show("dropna obj", lambda: Vector([None,None]).dropna())
show("isna", lambda: Vector([1,None,3]).isna())
show("fillna obj", lambda: Vector([None,None]).fillna(1))
show("fillna name", lambda: Vector([None,1], name='n').fillna(1))

print("== C05/C06")
show("2 - v", lambda: 2 - Vector([1,2]))
show("2 / v", lambda: 2 / Vector([1,2]))
show("2 ** v", lambda: 2 ** Vector([1,3]))
show("[1,2] - v", lambda: [5,5] - Vector([1,2]))
show("v + [1]", lambda: Vector([1,2]) + [1])
show("v + v3", lambda: Vector([1,2]) + Vector([1,2,3]))
show("'a' + strvec", lambda: 'a' + Vector(['x','y']))
show("strvec + 'a'", lambda: Vector(['x','y']) + 'a')
show("empty + 1", lambda: Vector([]) + 1)
show("v + None", lambda: Vector([1,2]) + None)
show("v + [None,1]", lambda: Vector([1,2]) + [None,1])
show("v/0", lambda: Vector([1,2]) / 0)
show("v + 'a'", lambda: Vector([1,2]) + 'a')
show("v + ['a','b']", lambda: Vector([1,2]) + ['a','b'])
show("max none", lambda: Vector([1,None,3]).max())
show("min none", lambda: Vector([None,1,3]).min())
show("sum none", lambda: Vector([None,1,3]).sum())
show("mean allnone", lambda: Vector([None,None]).mean())
show("sum allnone", lambda: Vector([None,None]).sum())
show("stdev", lambda: Vector([None,1,3]).stdev())
show("any", lambda: Vector([None,0]).any())
show("all", lambda: Vector([None,1]).all())
show("cmp none", lambda: Vector([None,1,3]) > 2)
show("cmp none rhs list", lambda: Vector([1,1,3]) > [None,0,5])
show("eq none vec", lambda: Vector([None,1]) == Vector([None,1]))
show("ne none vec", lambda: Vector([None,1]) != Vector([None,2]))
show("2 < v", lambda: 2 < Vector([1,3]))
show("date + 1", lambda: Vector([date(2020,1,1), None]) + 1)
show("date + intvec", lambda: Vector([date(2020,1,1), None]) + Vector([1,2]))
show("date + timedelta", lambda: Vector([date(2020,1,1)]) + __import__('datetime').timedelta(days=1))
show("date.year", lambda: Vector([date(2020,1,1), None]).year)
show("upper", lambda: Vector(['a', None]).upper())
show("bit_length", lambda: Vector([5, None]).bit_length())
show("is_integer", lambda: Vector([5.0, None, 1.5]).is_integer())
show("real (int prop)", lambda: Vector([5, None]).real)
show("table+1", lambda: tb(Table({'a':[1,2],'b':[3.0,None]}) + 1))
show("table+table", lambda: tb(Table({'a':[1,2],'b':[3.0,None]}) + Table({'a':[1,2],'b':[3.0,1.0]})))
show("1+table", lambda: tb(1 + Table({'a':[1,2]})))
show("2-table", lambda: tb(2 - Table({'a':[1,2]})))
show("-table", lambda: tb(-Table({'a':[1,2]})))
