# C01/C02/C16 history exploration on patched tree with a plain-Python shadow
import warnings, random, copy, gc
warnings.simplefilter("ignore")
from serif import *
from serif.errors import *
bad=[]
def note(*a):
    if len(bad) < 30: bad.append(a)
def snapV(v): return ('V', [(type(x).__name__, x) for x in v], v.name, repr(v.schema()))
def snapT(t): return ('T', [snapV(c) for c in t.cols()], len(t))
def snap(o): return snapT(o) if isinstance(o, Table) else snapV(o)
def rebuild_fp(o):
    if isinstance(o, Table):
        return Table([Vector(list(c), dtype=c.schema(), name=c.name) for c in o.cols()]).fingerprint() if o.cols() else Table().fingerprint()
    return Vector(list(o), dtype=o.schema(), name=o.name).fingerprint()
random.seed(4)
pool=[0,1,2,None]
def newvec(n=3, name=None): return Vector([random.choice(pool) for _ in range(n)], name=name)
opsstat={}
for hist in range(3000):
    live=[]   # list of (obj, tag)
    a=newvec(name='a'); b=newvec(name='b')
    live += [a,b, Table({'x':[0,1,2],'y':[2,1,0]})]
    log=[]
    for step in range(random.randint(3,14)):
        before=[snap(o) for o in live]
        tabs=[i for i,o in enumerate(live) if isinstance(o,Table) and o.cols()]
        vecs=[i for i,o in enumerate(live) if not isinstance(o,Table)]
        op=random.choice(['copy','slice','mask','stack','stackdict','select','rowslice','rowmask','getcol','setattr','write','tabwrite','sort','join','fp','repr','arith','drop','T','lshift'])
        opsstat[op]=opsstat.get(op,0)+1
        changed=set()   # indices allowed to change
        new=None
        try:
            if op=='copy' and live: i=random.randrange(len(live)); new=live[i].copy()
            elif op=='slice' and vecs: i=random.choice(vecs); new=live[i][random.choice([slice(0,2),slice(1,None),slice(None,None,-1),slice(2,2)])]
            elif op=='mask' and vecs: i=random.choice(vecs); new=live[i][[random.random()<0.5 for _ in range(len(live[i]))]] if len(live[i]) else None
            elif op=='stack' and len(vecs)>=2:
                i,j=random.sample(vecs,2)
                if len(live[i])==len(live[j]) and len(live[i])>0: new=live[i]>>live[j]
            elif op=='stackdict' and tabs and vecs:
                i=random.choice(tabs); j=random.choice(vecs)
                if len(live[j])==len(live[i]): new=live[i]>>{'z':live[j]}
            elif op=='select' and tabs:
                i=random.choice(tabs); nm=[n for n in live[i].column_names() if n]
                if nm: new=live[i][tuple(random.sample(nm, random.randint(1,len(nm))))]
            elif op=='rowslice' and tabs: i=random.choice(tabs); new=live[i][random.choice([slice(0,2),slice(1,None),slice(None,None,-1)])]
            elif op=='rowmask' and tabs:
                i=random.choice(tabs); m=[random.random()<0.6 for _ in range(len(live[i]))]
                if any(m): new=live[i][m]
            elif op=='getcol' and tabs:
                i=random.choice(tabs); c=random.randrange(len(live[i].cols())); new=live[i].cols()[c]
                live.append(new); log.append((op,i,c)); new=None
                continue
            elif op=='setattr' and tabs and vecs:
                i=random.choice(tabs); j=random.choice(vecs)
                acc=sorted(live[i]._build_column_map().keys())
                if len(live[j])==len(live[i]) and acc:
                    setattr(live[i], random.choice(acc), live[j]); changed.add(i)
                    # old column views of that table may be orphaned (still unchanged themselves)
            elif op=='write' and vecs:
                i=random.choice(vecs); v=live[i]
                if len(v):
                    k=random.choice([0,-1,slice(0,2),[True]+[False]*(len(v)-1)])
                    v[k]=random.choice([5,None,7.5])
                    changed.add(i)
                    # table owning v (live column) may change too
                    for ti,o in enumerate(live):
                        if isinstance(o,Table) and any(c is v for c in o.cols()): changed.add(ti)
            elif op=='tabwrite' and tabs:
                i=random.choice(tabs); t=live[i]
                if len(t):
                    t[random.randrange(len(t)), random.randrange(len(t.cols()))]=random.choice([9,None])
                    changed.add(i)
                    for vi,o in enumerate(live):
                        if not isinstance(o,Table) and any(c is o for c in t.cols()): changed.add(vi)
            elif op=='sort' and tabs: i=random.choice(tabs); new=live[i].sort_by(live[i].cols()[0])
            elif op=='join' and len(tabs)>=1:
                i=random.choice(tabs); j=random.choice(tabs)
                new=live[i].inner_join(live[j], live[i].cols()[0], live[j].cols()[0], expect='many_to_many')
            elif op=='fp' and live: i=random.randrange(len(live)); live[i].fingerprint()
            elif op=='repr' and live: i=random.randrange(len(live)); repr(live[i])
            elif op=='arith' and vecs: i=random.choice(vecs); new=live[i]+1
            elif op=='drop' and len(live)>2: i=random.randrange(len(live)); del live[i]; gc.collect(); continue
            elif op=='T' and tabs: i=random.choice(tabs); new=live[i].T
            elif op=='lshift' and tabs: i=random.choice(tabs); new=live[i] << [1]*len(live[i].cols())
        except (SerifError, AliasError, TypeError, ValueError, IndexError, AssertionError) as e:
            changed=set()  # failed op must change nothing
            log.append((op,'ERR',type(e).__name__))
        else:
            log.append((op,))
        after=[snap(o) for o in live[:len(before)]]
        for idx,(x,y) in enumerate(zip(before,after)):
            if x!=y and idx not in changed: note('leak',op,log[-5:],x,y)
        if new is not None and isinstance(new,(Vector,)): live.append(new)
        # invariants on all live objects
        for o in live:
            if isinstance(o,Table):
                if o.cols():
                    lens={len(c) for c in o.cols()}
                    if lens!={len(o)} and not (len(o)==0 and lens=={0}): note('ragged',op,log[-5:],lens,len(o))
                    if o.shape!=(len(o),len(o.cols())): note('shape',op,o.shape,len(o),len(o.cols()))
                    rws=[tuple(r) for r in o]
                    if rws!=[tuple(c[i] for c in [list(c) for c in o.cols()]) for i in range(len(o))]: note('rowview',op)
            try:
                if o.fingerprint()!=rebuild_fp(o): note('fp-stale',op,log[-6:],snap(o))
            except TypeError as e: note('fp-exc',op,str(e)[:60])
print('ops',opsstat)
print('bad',len(bad))
for b in bad[:12]: print(b)
