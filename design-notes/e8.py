import warnings, random, itertools, math, re
warnings.simplefilter("ignore")
from serif import *
import serif
from datetime import date, datetime
bad=[]
def note(*a):
    if len(bad) < 30: bad.append(a)
random.seed(8)
pools={
 'int':[0,-1,10**30,7], 'float':[1.0,2.5,float('nan'),float('inf'),-float('inf'),1e308,1e-300,-0.0],
 'bool':[True,False], 'str':['a','','bb','...'], 'date':[date(2020,1,1),date(1,1,1)], 'datetime':[datetime(2020,1,1,5)],
 'complex':[1j,2+0j], 'obj':[1,'a',2.5,(1,2)], 'none':[None]}
def mkvals(kind,n,nulls):
    return [None if (nulls and random.random()<0.3) else random.choice(pools[kind]) for _ in range(n)]
def dt_token(s):
    if s is None: return 'object'
    return s.kind.__name__+('?' if s.nullable else '')
cnt=0
for rr in [None,0,1,2,3,4,12,13]:
    serif.set_repr_rows(rr)
    k=(12 if rr is None else rr)//2
    for kind in pools:
        for n in sorted({0,1,2,max(0,2*k-1),2*k,2*k+1,2*k+2,30}):
            for nulls in (False,True):
                vals=mkvals(kind,n,nulls)
                for nm in (None,'x','sum','a b'):
                    v=Vector(vals,name=nm); before=(list(map(repr,v)),v.name,repr(v.schema()))
                    cnt+=1
                    try: s=repr(v)
                    except Exception as e: note('vec-exc',kind,n,rr,type(e).__name__,str(e)[:50]); continue
                    if (list(map(repr,v)),v.name,repr(v.schema()))!=before: note('mutated')
                    lines=s.split('\n')
                    foot=lines[-1]
                    if n==0:
                        if not foot.startswith('# empty'): note('empty-footer',foot)
                        continue
                    m=re.fullmatch(r'# (\d+) element vector <(.+)>',foot)
                    if not m: note('footer-form',foot); continue
                    if int(m.group(1))!=n: note('count',n,foot)
                    if m.group(2)!=dt_token(v.schema()): note('dtype',foot,v.schema())
                    body=lines[:-2]
                    if nm: body=body[1:]
                    if kind in ('str','obj') : continue   # multi-line/ambiguous cells
                    if n>2*k:
                        if len(body)!=2*k+1: note('body-len-trunc',kind,n,rr,len(body)); continue
                        if body[k].strip()!='...': note('ellipsis-pos',kind,n,rr,body)
                    else:
                        if len(body)!=n: note('body-len-full',kind,n,rr,len(body))
serif.set_repr_rows(None)
print('vec reprs',cnt,'bad',len(bad))
# tables
for trial in range(3000):
    ncols=random.choice([1,2,5,9,10,11,14]); n=random.choice([0,1,5,11,12,13,14,40])
    kinds=[random.choice(['int','float','bool','date','none']) for _ in range(ncols)]
    names=[random.choice(['a','b','x y','sum',None,'','a']) for _ in range(ncols)]
    cols=[Vector(mkvals(kd,n,random.random()<0.3),name=nm) for kd,nm in zip(kinds,names)]
    try: t=Table(cols)
    except Exception as e: note('tctor',type(e).__name__); continue
    ov=random.choice([None,None,4,6])
    if ov: t._repr_rows=ov
    try: s=repr(t)
    except Exception as e: note('tab-exc',kinds,n,type(e).__name__,str(e)[:60]); continue
    foot=s.split('\n')[-1]
    m=re.match(r'# (\d+)×(\d+) table',foot)
    if not m: note('tfoot',foot); continue
    if (int(m.group(1)),int(m.group(2)))!=(len(t),ncols): note('tshape',foot,len(t),ncols)
    k=(ov or 12)//2
    lines=s.split('\n')[:-2]
    # count body lines = lines after header rows; header rows count unknown -> check from bottom
    exp_body = (2*k+1) if n>2*k else n
    toks=[l for l in lines]
    if n>2*k:
        # the ellipsis line is k lines from the bottom
        if len(lines)<exp_body or set(lines[-k-1].split())!={'...'}: note('t-ellipsis',n,k,lines[-k-2:] )
print('bad',len(bad))
from collections import Counter
print(Counter(b[0] for b in bad))
for b in bad[:12]: print(b)
