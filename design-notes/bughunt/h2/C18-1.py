# C18: "table-with-scalar arithmetic keeps every column name"
# With the scalar on the LEFT (reflected operators) the names are lost: 2 - t, 2 / t, 2 // t,
# 2 % t, 2 ** t return tables whose columns are all unnamed (only 2 * t keeps them), and 2 + t
# even returns the table transposed (one unnamed column per ROW).
import sys, warnings
from serif import Table
warnings.simplefilter('ignore')
t = Table({'a': [1, 2, 3], 'b b': [4.0, 5.0, 6.0]})
viol = False
for label, f in [('t - 2', lambda: t - 2), ('2 * t', lambda: 2 * t), ('2 + t', lambda: 2 + t), ('2 - t', lambda: 2 - t),
                 ('2 / t', lambda: 2 / t), ('2 // t', lambda: 2 // t), ('2 % t', lambda: 2 % t), ('2 ** t', lambda: 2 ** t)]:
    r = f()
    names = r.column_names()
    print(f'{label:7} -> names {names} shape {r.shape}')
    if names != ['a', 'b b']:
        viol = True
sys.exit(1 if viol else 0)
