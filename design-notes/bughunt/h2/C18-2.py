# C18: "Tables built from vectors, stacked with >>, filtered, sliced, sorted or joined keep each
# source column's stored name in order"  (C09 likewise: "each output row carries all left columns
# followed by all right columns, under their original names"; quantifier: any row counts incl. zero)
# When a join produces no rows (no key matches for inner_join; an empty left table for join; both
# tables empty for full_join) the result is Table(()) - a 0x0 table with NO columns, so every source
# column name is lost. (sort_by, slicing and masking of the same empty data keep all columns.)
import sys, warnings
from serif import Table
warnings.simplefilter('ignore')
left = Table({'id': [1, 2], 'name': ['x', 'y']})
right = Table({'id': [3, 4], 'score': [7, 8]})
want = ['id', 'name', 'id', 'score']
viol = False
for label, f in [('inner_join, no match', lambda: left.inner_join(right, 'id', 'id')),
                 ('inner_join, empty right', lambda: left.inner_join(right[0:0], 'id', 'id')),
                 ('join, empty left', lambda: left[0:0].join(right, 'id', 'id')),
                 ('full_join, both empty', lambda: left[0:0].full_join(right[0:0], 'id', 'id')),
                 ('control: join, no match', lambda: left.join(right, 'id', 'id'))]:
    r = f()
    print(f'{label:26} -> shape {r.shape} names {r.column_names()}')
    if r.column_names() != want:
        viol = True
print('control: empty slice keeps', left[0:0].column_names(), ' empty sort keeps', left[0:0].sort_by('id').column_names())
sys.exit(1 if viol else 0)
