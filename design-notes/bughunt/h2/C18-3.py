# C18: "Tables built from vectors, stacked with >>, ... keep each source column's stored name in
# order"; quantifier "all compositions of the public operations over named and unnamed vectors and
# over tables".
#  * vector >> table (prepend a column) crashes with AttributeError ('NoneType' object has no
#    attribute 'nullable') whenever the vector is non-nullable, because Table.schema() is None; with
#    a nullable vector the same expression works and keeps the names.
#  * Vector([], name='a') >> Vector([], name='b') (two untyped empty vectors) crashes with
#    AttributeError ('NoneType' object has no attribute 'kind'); Table([a, b]) of the same works.
# Confidence low (crashes, not wrong names).
import sys, warnings
from serif import Table, Vector
warnings.simplefilter('ignore')
t = Table({'a': [1, 2, 3], 'b': [4, 5, 6]})
print('nullable  v >> t ->', (Vector([1, None, 3], name='u') >> t).column_names())
viol = False
for label, f, want in [('plain v >> t', lambda: Vector([1, 2, 3], name='u') >> t, ['u', 'a', 'b']),
                       ('empty >> empty', lambda: Vector([], name='a') >> Vector([], name='b'), ['a', 'b'])]:
    try:
        r = f(); print(label, '->', r.column_names()); viol |= r.column_names() != want
    except Exception as e:
        print(label, 'raised', type(e).__name__, e); viol = True
print('control Table([empty, empty]) ->', Table([Vector([], name='a'), Vector([], name='b')]).column_names())
sys.exit(1 if viol else 0)
