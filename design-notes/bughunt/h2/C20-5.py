# C20: "repr() of any vector or table returns a string without raising ... for every dtype and value"
# An int vector holding an integer of more than 4300 digits cannot be repr'd: display uses str(v),
# which hits CPython's int->str digit limit and raises ValueError out of repr(). Confidence low
# (the interpreter's own limit; repr(10**5000) of a bare int fails the same way).
import sys, warnings
from serif import Vector
warnings.simplefilter('ignore')
v = Vector([1, 10 ** 5000])
print('schema', v.schema(), 'len', len(v))
try:
    repr(v); print('repr ok'); sys.exit(0)
except Exception as e:
    print('repr raised', type(e).__name__, str(e)[:80]); sys.exit(1)
