# C20: "repr() of any vector or table returns a string without raising ... for every dtype and value"
# display._format_column tests every cell with `v == '...'`. If a cell of an object-dtype vector or
# column is itself a Vector (ragged nested vectors, a vector next to None or a scalar, a Table held
# as a value), that comparison yields a Vector whose truth value raises, so repr() raises TypeError.
import sys, warnings
from serif import Vector, Table
warnings.simplefilter('ignore')
viol = False
cases = [('Vector([Vector([1,2]), Vector([1])])', lambda: Vector([Vector([1, 2]), Vector([1])])),
         ('Vector([1, Vector([1,2])])', lambda: Vector([1, Vector([1, 2])])),
         ('Vector([Vector([1,2]), None])', lambda: Vector([Vector([1, 2]), None])),
         ("Table({'a':[1,2],'b':[Vector([1]),Vector([1,2])]})", lambda: Table({'a': [1, 2], 'b': [Vector([1]), Vector([1, 2])]}))]
for label, mk in cases:
    obj = mk()
    try:
        r = repr(obj)
        print(label, '-> ok', repr(r)[:60])
    except Exception as e:
        print(label, '-> repr raised', type(e).__name__)
        viol = True
sys.exit(1 if viol else 0)
