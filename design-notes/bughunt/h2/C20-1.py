# C20: "repr() of any vector or table ... for every dtype and value - None, NaN, infinities, empty,
# very long, very wide. Its footer states the true element count or rows x columns and the true
# dtype(s) with nullability"
# For EVERY empty vector (typed or not, named or not, e.g. an empty slice of an int vector) repr is
# the single line "# empty (repr not yet implemented)": no element count (0) and no dtype, although
# the vector has a dtype (<int>). Empty tables do get a proper footer ("# 0×2 table <int>").
import sys, warnings
from serif import Vector, Table
from serif.typing import DataType
warnings.simplefilter('ignore')
viol = False
for label, v in [('Vector([1,2,3])[0:0]', Vector([1, 2, 3], name='q')[0:0]),
                 ('Vector([], dtype=float)', Vector([], dtype=float)),
                 ('int? mask none', Vector([1, None])[Vector([False, False])]),
                 ('Vector([])', Vector([]))]:
    r = repr(v)
    print(f'{label:24} schema={v.schema()} len={len(v)} repr={r!r}')
    if 'not yet implemented' in r or ('0' not in r):
        viol = True
print('control, empty table:', repr(repr(Table({'a': [1], 'b': [2]})[0:0])))
sys.exit(1 if viol else 0)
