# C20: "data longer than the preview limit shows exactly its first and last rows around an ellipsis
# while shorter data shows every row ... QUANTIFIER: ... all set_repr_rows settings"
# The limit is halved with integer division, so for an ODD limit n (set_repr_rows(5), (7), (13) ...)
# data of exactly n rows - not longer than the limit - is truncated: the middle row is replaced by
# "..." (and the output still uses n lines). With set_repr_rows(1) a one-element vector shows only
# "...". For even limits (default 12) data of exactly `limit` rows is shown in full, as expected.
import sys, warnings
from serif import Vector, Table, set_repr_rows
warnings.simplefilter('ignore')
viol = False
for limit in (12, 4, 5, 7, 1):
    set_repr_rows(limit)
    data = list(range(100, 100 + limit))
    for label, obj, skip in (('vector', Vector(data), 0), ('table', Table({'a': data}), 1)):
        body = [l.strip() for l in repr(obj).split('\n')[skip:-2]]
        full = body == [str(x) for x in data]
        print(f'set_repr_rows({limit}), {label} of {limit} rows ->', 'all rows shown' if full else f'TRUNCATED: {body}')
        if not full:
            viol = True
set_repr_rows(None)
sys.exit(1 if viol else 0)
