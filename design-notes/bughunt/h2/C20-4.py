# C20: "column headers show the stored names" (QUANTIFIER: every ... name pattern)
# Names are tested for truthiness, so a stored non-string name that is falsy (0, False, 0.0 - e.g.
# Table({0: [...], 1: [...]})) is shown as an unnamed column: header '' for the column whose stored
# name is 0 (the sibling name 1 is shown), and a vector named 0 shows no header line at all.
# display._needs_quote explicitly caters for non-string names ("shown by their repr"), so they are
# an intended input. Confidence low (non-string names).
import sys, warnings
from serif import Table, Vector
warnings.simplefilter('ignore')
t = Table({0: [1, 2], 1: [3, 4]})
print('stored names:', t.column_names())
r = repr(t); print(r)
head = r.split('\n')[0].split()
v = Vector([1, 2], name=0)
print(repr(repr(v)), '<- Vector named 0;', repr(repr(Vector([1, 2], name=5))), '<- Vector named 5')
sys.exit(1 if head != ['0', '1'] else 0)
