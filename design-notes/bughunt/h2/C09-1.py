# C09 (also C10): "inner_join returns exactly one row for every pair (left row, right row) whose
# key tuples are equal ... QUANTIFIER: all key columns over int, str, bool, date and None values
# with arbitrary duplication on both sides"
# A key column that happens to hold only None on one side (a legal placement of None values in an
# int/str/bool/date key column) is inferred as <object?>, and every join kind then refuses the call
# with SerifTypeError "mismatched dtypes: object (left) vs int (right)" instead of returning the
# key-equal pairs (None == None matches, as it does when the column also holds one non-None value).
import sys, warnings
from datetime import date
from serif import Table
warnings.simplefilter('ignore')
viol = False
for other in ([1, None], ['a', None], [True, None], [date(2020, 1, 1), None]):
    left = Table({'k': [None, None], 'v': [10, 20]})
    right = Table({'k': other, 'w': [3, 4]})
    for kind, nrows in (('inner_join', 2), ('join', 2), ('full_join', 3)):
        try:
            res = getattr(left, kind)(right, 'k', 'k', expect='many_to_many')
            rows = [tuple(c[i] for c in res.cols()) for i in range(len(res))]
            print(kind, other, '->', rows)
            if len(rows) != nrows:
                viol = True
        except Exception as e:
            print(kind, other, 'raised', type(e).__name__, e)
            viol = True
# control: same data, but with one non-None value on the left the join works and None matches None
ctl = Table({'k': [None, None, 7], 'v': [10, 20, 30]}).inner_join(Table({'k': [1, None], 'w': [3, 4]}), 'k', 'k', expect='many_to_many')
print('control rows:', [tuple(c[i] for c in ctl.cols()) for i in range(len(ctl))])
sys.exit(1 if viol else 0)
