# C19: "one row per data record; each cell is None if empty or blank, else an int ...; records
# shorter than the header are padded with None ...; other delimiters and header-less files (columns
# col_0, col_1, ...) behave the same way"  /  "CSV ingestion is faithful to the file"
# With has_header=False the number of columns is taken from the FIRST record only. Cells of later,
# longer records are silently dropped, and if the first record is an empty line every record is
# dropped (0x0 table) - the table is not faithful to the file. Confidence low: with a header the
# statement itself fixes "one column per header cell"; for header-less input it leaves the width open.
import sys, io
from serif import read_csv
t = read_csv(io.StringIO('1\n2,3\n4,5,6\n'), has_header=False)
print(repr(t)); print('names', t.column_names())
t2 = read_csv(io.StringIO('\n2,3\n4,5\n'), has_header=False)
print('first line blank ->', t2.shape, '(file has 3 records)')
viol = t.shape != (3, 3) or t2.shape[0] != 3
sys.exit(1 if viol else 0)
