# C18: "Tables built from vectors ... keep each source column's stored name in order"; quantifier
# "all compositions of the public operations over named and unnamed vectors".
# Two ordinary ways of building a table from vectors do not produce a table at all:
#  * Table({'x': some_vector}) - the documented dict form with a Vector as the value - raises
#    TypeError ("Vector cannot be used in a boolean context"), because Vector(values) evaluates
#    `if initial and ...` on the vector.  (Table({'x': [1, 2]}) and t >> {'x': some_vector} work.)
#  * Vector(v for v in (a, b)) / Table(generator): Vector.__new__ materialises iterators on purpose,
#    but Table.__init__ is then re-run with the exhausted generator and raises TypeError.
# Confidence low for C18 proper (a crash while building, not a wrong name) but a genuine defect.
import sys, warnings
from serif import Table, Vector
warnings.simplefilter('ignore')
a = Vector([1, 2], name='a'); b = Vector(['x', 'y'], name='b')
viol = False
for label, f, want in [("Table({'x': a, 'y': b})", lambda: Table({'x': a, 'y': b}), ['x', 'y']),
                       ('Vector(v for v in (a, b))', lambda: Vector(v for v in (a, b)), ['a', 'b']),
                       ('Table(iter([a, b]))', lambda: Table(iter([a, b])), ['a', 'b']),
                       ('control Table([a, b])', lambda: Table([a, b]), ['a', 'b'])]:
    try:
        r = f(); print(label, '->', r.column_names())
        viol |= r.column_names() != want
    except Exception as e:
        print(label, '-> raised', type(e).__name__, str(e)[:70]); viol = True
sys.exit(1 if viol else 0)
