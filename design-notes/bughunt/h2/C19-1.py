# C19: "read_csv returns a table ... QUANTIFIER: ... delimiter and has_header settings, path and
# file-object inputs"
# Only a `str` is recognised as a path. A pathlib.Path (the standard path object) is passed
# straight to csv.reader and the call dies with TypeError "'PosixPath' object is not iterable".
# Confidence low/medium: the docstring says "str or file-like".
import sys, pathlib, tempfile, os
from serif import read_csv
d = tempfile.mkdtemp()
p = pathlib.Path(d) / 'x.csv'
p.write_text('a,b\n1,2\n')
print('str path     ->', read_csv(str(p)).shape)
try:
    t = read_csv(p)
    print('pathlib.Path ->', t.shape)
    sys.exit(0)
except Exception as e:
    print('pathlib.Path -> raised', type(e).__name__, e)
    sys.exit(1)
