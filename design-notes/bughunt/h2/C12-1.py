# C12: "Whole-column reductions on a vector holding at least one non-None value agree with
# aggregating that column as a single group."
# Vector.stdev() computes sum((x-m)*(x-m)) while aggregate(stdev_over=...) computes
# sum((v-m)**2); for some float data the two differ in the last bit, so v.stdev() != the
# single-group aggregate value (exact comparison). Low confidence: only a 1-ulp disagreement.
import sys, warnings
from serif import Table, Vector
warnings.simplefilter('ignore')
xs = [834.3113829455829, 0.22130349156397766, 122.67412235825213, -764.751615882937]
v = Vector(xs, name='x')
agg = Table([Vector([0] * len(xs), name='k'), v]).aggregate(over='k', stdev_over='x')
a = agg.cols()[1][0]
print('Vector.stdev():', repr(v.stdev()))
print('aggregate     :', repr(a))
sys.exit(1 if v.stdev() != a else 0)
