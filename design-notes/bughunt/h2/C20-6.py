# C20: "repr never ... misstates shape, dtype or data" / "Its footer states ... the true dtype(s)
# with nullability". Two arguable points, both LOW confidence:
#  (a) float cells are printed with '%g' (6 significant digits): different values print identically
#      and a non-whole value prints like an integer (100000.5 -> '100000', while the whole float
#      100000.0 prints '100000.0'); 999999.5 prints as '1e+06'.
#  (b) for a table whose shown columns differ in dtype the footer says '<mixed>' instead of the
#      dtypes (they move to a '[int?] [str]' header row); docs/repr.md shows '<int, date>' there.
import sys, warnings
from serif import Vector, Table
warnings.simplefilter('ignore')
v = Vector([100000.5, 100000.0, 100000.4, 999999.5])
r = repr(v); print(r)
body = [l.strip() for l in r.split('\n')[:-2]]
t = Table({'a': [1, None], 'b': ['x', 'y']})
print(repr(t))
foot = repr(t).split('\n')[-1]
viol = body[0] == '100000' or 'int?' not in foot
sys.exit(1 if viol else 0)
