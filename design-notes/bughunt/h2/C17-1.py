# C17: "The accessor names a table advertises (tab completion through dir(), the dot row of its
# repr) are valid Python identifiers ... QUANTIFIER: all column-name lists (... reserved words ...)"
# A column whose name is a Python keyword ('class', 'for', 'import', 'if', ...) is advertised under
# that very keyword. A keyword is not a usable identifier: `t.class` is a SyntaxError, so the
# advertised accessor cannot be used for attribute access in source code. (Method names such as
# 'sum' do get a trailing underscore; keywords do not.)
import sys, keyword, warnings
from serif import Table
warnings.simplefilter('ignore')
t = Table({'class': [1, 2], 'for': [3, 4], 'x y': [5, 6]})
adv = [a for a in dir(t) if not a.startswith('_') and a in t._column_map]
print('advertised accessors:', adv)
print(repr(t))
bad = [a for a in adv if keyword.iskeyword(a)]
print('keywords advertised:', bad)
for a in bad:
    try:
        compile(f't.{a}', '<s>', 'eval')
    except SyntaxError as e:
        print(f't.{a} ->', 'SyntaxError')
sys.exit(1 if bad else 0)
