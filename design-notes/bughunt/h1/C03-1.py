# C03: "every non-None element belongs to the reported kind (counting only the documented widenings
#       bool->int->float->complex ... as belonging) ... Equivalently, writing any element back into its
#       own position is always accepted and never changes the dtype."
#
# Inference of [int, <float-subclass instance>] reports <int> (promote_with only looks at
# `type(v) is float`), so an <int> vector holds the non-integral float 1.5 (e.g. numpy.float64 is such
# a float subclass).  Writing that element back into its own position promotes the vector to <float>.
import sys, warnings
warnings.simplefilter("ignore")
from serif import Vector

class F(float): pass

v = Vector([1, F(1.5)])
before = v.schema()
print("elements:", list(v), "reported dtype:", before)
lie = before.kind is int and any(isinstance(x, float) for x in v)
v[1] = v[1]                     # write the element back into its own position
after = v.schema()
print("dtype after writing v[1] back:", after)
sys.exit(1 if (lie or before != after) else 0)
