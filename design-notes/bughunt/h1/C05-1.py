# C05: "For every arithmetic operator (+, -, *, /, //, %, **, unary -, unary +, abs and all reflected
#       forms) ... the result is a new vector of the same length whose i-th element is exactly what Python
#       computes ... arithmetic with a table ... is the same operation applied column by column."
#      (docs/invariants.md #4: "Math preserves shape")
#
# Unary -t, +t, abs(t) on a Table, and the reflected scalar + Table, iterate the table by ROWS
# (Vector._unary_operation / Vector.__radd__ use `for x in self`) and rebuild a table whose columns are
# the transformed rows: the result is transposed - shape (ncols, nrows), column names lost.
# The non-reflected and the other reflected forms (t + 1, 1 - t, 2 ** t) go column by column and keep the shape,
# so 1 + t and 1 - (-t) disagree in shape.
import sys, warnings
warnings.simplefilter("ignore")
from serif import Table

t = Table({'a': [1, -2, 3], 'b': [4.0, -5.0, 6.0]})
bad = 0
def cells(x): return [list(c) for c in x.cols()]
for label, f, expect in (("-t", lambda: -t, [[-1, 2, -3], [-4.0, 5.0, -6.0]]),
                         ("+t", lambda: +t, [[1, -2, 3], [4.0, -5.0, 6.0]]),
                         ("abs(t)", lambda: abs(t), [[1, 2, 3], [4.0, 5.0, 6.0]]),
                         ("1 + t", lambda: 1 + t, [[2, -1, 4], [5.0, -4.0, 7.0]]),
                         ("t + 1", lambda: t + 1, [[2, -1, 4], [5.0, -4.0, 7.0]]),
                         ("1 - t", lambda: 1 - t, [[0, 3, -2], [-3.0, 6.0, -5.0]])):
    r = f()
    ok = cells(r) == expect and r.shape == t.shape
    print(f"{label:7} shape {r.shape} cells {cells(r)}   {'ok' if ok else 'TRANSPOSED'}")
    if not ok: bad = 1
sys.exit(bad)
