# C02: "the i-th row obtained by indexing or iteration equals the tuple of the i-th values of its
#       columns in column order"
#
# Table.__iter__ yields ONE Row object and merely re-points it (`row_view.set_index(i)`), so every row
# obtained by iteration is the same object; once iteration has moved on, the i-th row obtained no longer
# equals the i-th values.  Any consumer that keeps rows - list(t), sorted(t, key=...), zip(t, t[1:]),
# max(t, key=...), dict(enumerate(t)) - sees only the last (or current) row.
import sys, warnings
warnings.simplefilter("ignore")
from serif import Table

t = Table({'a': [1, 2, 3], 'b': ['x', 'y', 'z']})
expected = [(1, 'x'), (2, 'y'), (3, 'z')]
rows = list(t)                               # rows obtained by iteration
got = [tuple(r) for r in rows]
print("list(t)            ->", got, "expected", expected)
best = max(t, key=lambda r: -r[0])           # the row with the smallest 'a'
print("max(t, key=-a)     ->", tuple(best), "expected", (1, 'x'))
print("rows by indexing   ->", [tuple(t[i]) for i in range(len(t))])
sys.exit(1 if (got != expected or tuple(best) != (1, 'x')) else 0)
