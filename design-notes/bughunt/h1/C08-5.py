# C08: "A value of a wider compatible kind promotes the whole column with existing elements converted"
# C06: "fillna(x) replaces exactly those positions ... for any x other than None ... report themselves non-nullable"
# (C03/C04 name the widenings: bool -> int -> float -> complex.)
#
# LOW/MEDIUM CONFIDENCE (depends on whether bool->int counts as a "wider compatible kind" for assignment).
# int->float, int->complex, float->complex and date->datetime promote on assignment, but the first rung of the
# documented ladder does not: writing an int (or float) into a bool vector, or fillna(int) on a nullable bool
# vector, is rejected ("Cannot set int in bool vector. Promotion not supported."), although inference of the
# same values ([True, 5]) yields <int> and arithmetic on bool vectors yields int.
import sys, warnings
warnings.simplefilter("ignore")
from serif import Vector

bad = 0
print("inference of [True, 5]:", Vector([True, 5]).schema())
v = Vector([True, False])
try:
    v[1] = 5
    print("bool vector after v[1] = 5:", list(v), v.schema())
except Exception as e:
    print("bool vector: v[1] = 5 raised", type(e).__name__, "-", e); bad = 1
i = Vector([1, 2]); i[1] = 2.5
print("int vector after v[1] = 2.5 :", list(i), i.schema(), "(promotes)")
try:
    print("Vector([True, None]).fillna(5) ->", list(Vector([True, None]).fillna(5)))
except Exception as e:
    print("Vector([True, None]).fillna(5) raised", type(e).__name__, "-", str(e)[:70]); bad = 1
sys.exit(bad)
