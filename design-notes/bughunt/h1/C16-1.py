# C16: "A write that changes any element to an unequal value (other than pairs Python's own hash()
#       cannot tell apart, such as -1 and -2) changes the fingerprint of the vector and of every table
#       containing it"
#
# Tuple/list elements are hashed by Vector._hash_element with a positional polynomial
# h = h*B + hash(elem) starting from 0, so leading zero-hash items vanish: (), (0,), (0,0,0) all hash
# to 0 (as do 0, False, 0.0), and (1,2) == (0,1,2) == (0,0,1,2).  Python's hash() tells all of these apart.
# A write that replaces one by the other leaves the vector's and the containing table's fingerprint unchanged.
import sys, warnings
warnings.simplefilter("ignore")
from serif import Vector, Table

bad = 0
def check(old, new):
    global bad
    v = Vector([old, (9, 9)])
    t = Table({'c': [old, (9, 9)], 'k': [1, 2]})
    fv, ft = v.fingerprint(), t.fingerprint()
    v[0] = new
    t['c'][0] = new          # write through the live column view
    same_v, same_t = v.fingerprint() == fv, t.fingerprint() == ft
    print(f"{old!r} -> {new!r}: equal={old == new} python-hash-equal={hash(old) == hash(new)} "
          f"vector fp unchanged={same_v} table fp unchanged={same_t}")
    if (same_v or same_t) and old != new and hash(old) != hash(new):
        bad = 1

check((), (0,))
check((0,), (0, 0, 0))
check((1, 2), (0, 1, 2))
check((5,), (0, 0, 5))
sys.exit(bad)
