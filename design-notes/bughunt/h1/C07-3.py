# C07: "row selection and column selection commute: t[rows][cols] equals t[cols][rows]"
#      (quantifier: "all vectors and tables, all integer indices, ...") and C02's
#      "row views agree with column views".
#
# Selecting a column from a row view by name - t[i][name], or the 2-D form t[i, name] which is
# implemented as t[i][name] - goes through getattr(row, name).  Ordinary attribute lookup wins over the
# column map, so for a column whose name is also a public Vector attribute the row view returns that
# attribute instead of the cell: 'name' -> None (Vector.name of the row), 'shape' -> (ncols,),
# 'max'/'sum'/'copy'... -> a bound method.  A column whose real name differs from its sanitized
# form ('A b') raises AttributeError although it exists.  The other order t[name][i] gives the cell.
import sys, warnings
warnings.simplefilter("ignore")
from serif import Table

t = Table({'name': ['ann', 'bob'], 'max': [3, 4], 'shape': [7, 8], 'A b': [5, 6]})
bad = 0
for col in ('name', 'max', 'shape', 'A b'):
    want = t[col][0]
    for label, f in ((f"t[0][{col!r}]", lambda: t[0][col]), (f"t[0, {col!r}]", lambda: t[0, col])):
        try:
            got = f()
            shown = repr(got) if not callable(got) else "<bound method>"
        except Exception as e:
            got, shown = e, f"raised {type(e).__name__}: {e}"
        ok = (not isinstance(got, Exception)) and got == want and not callable(got)
        print(f"{label:18} -> {shown:40} t[{col!r}][0] -> {want!r}   {'ok' if ok else 'MISMATCH'}")
        if not ok: bad = 1

# (b) integer row + tuple of column names: t[cols][0] is the row restricted to those columns, but
#     t[0][cols] (and t[0, cols]) is treated as multi-dimensional indexing of the row and raises SerifKeyError;
#     with a 1-tuple it returns the bare cell instead of a 1-column row.
t2 = Table({'a': [1, 2, 3], 'b': ['x', 'y', 'z'], 'c': [1.5, 2.5, 3.5]})
for cols in (('a', 'b'), ('b', 'a', 'c')):
    want = tuple(t2[cols][0])
    try:
        got = tuple(t2[0][cols]); shown = repr(got)
    except Exception as e:
        got, shown = None, f"raised {type(e).__name__}"
    print(f"t[0][{cols!r}] -> {shown:24} t[{cols!r}][0] -> {want!r}   {'ok' if got == want else 'MISMATCH'}")
    if got != want: bad = 1
sys.exit(bad)
