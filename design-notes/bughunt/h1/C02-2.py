# C02: "<< appends rows to every column"  (quantifier: "all tables reachable by any finite sequence of
#       constructions (from dicts, vectors, >>, <<, selections, joins, sorts, ...)")
#
# A table with columns but zero rows (built from a dict of empty lists, or returned by sort_by on an empty
# table, or by read_csv on a header-only file) cannot take a row: its columns carry no dtype
# (schema() is None) and Vector.__lshift__ dereferences `self._dtype.kind` unconditionally, so
# `t << row` dies with AttributeError instead of producing the one-row table.  Vector([]) << x fails the same way.
import sys, warnings
warnings.simplefilter("ignore")
from serif import Table, Vector

bad = 0
for label, make in (("Table({'a': [], 'b': []})", lambda: Table({'a': [], 'b': []})),
                    ("non-empty table filtered to 0 rows then sorted",
                     lambda: Table({'a': [1], 'b': ['x']})[0:0].sort_by('a'))):
    t = make()
    print(label, "shape", t.shape)
    try:
        r = t << [1, 'x']
        print("   << [1,'x'] ->", r.shape, [list(c) for c in r.cols()])
        if [list(c) for c in r.cols()] != [[1], ['x']]: bad = 1
    except Exception as e:
        print("   << [1,'x'] raised", type(e).__name__, e)
        bad = 1
try:
    print("Vector([]) << 1 ->", list(Vector([]) << 1))
except Exception as e:
    print("Vector([]) << 1 raised", type(e).__name__, e)
    bad = 1
sys.exit(bad)
