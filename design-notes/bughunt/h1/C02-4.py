# C02: "Input that would make a table ragged is rejected rather than stored."
#
# t >> column_of_wrong_length and t << row_containing_a_sequence are not rejected: Vector.__new__ only warns
# ("Passing vectors of different length will not produce a Table") and hands back a plain Vector that stores
# the ragged columns (the dict form t >> {'c': short} and Table(...) do raise).  The caller asked for a table
# and receives, without an exception, a ragged column collection that no longer behaves like one
# (len() is the column count, no column names, indexing returns whole columns).
import sys, warnings
from serif import Vector, Table

t = Table({'a': [1, 2, 3], 'b': ['x', 'y', 'z']})
bad = 0
with warnings.catch_warnings(record=True) as w:
    warnings.simplefilter("always")
    for label, f in (("t >> [7, 8]", lambda: t >> [7, 8]),
                     ("t >> Vector([7, 8])", lambda: t >> Vector([7, 8])),
                     ("t << [4, ['p', 'q']]", lambda: t << [4, ['p', 'q']])):
        try:
            r = f()
            lens = [len(c) for c in r]
            print(f"{label:22} -> accepted: {type(r).__name__}, is Table: {isinstance(r, Table)}, element lengths {lens}")
            bad = 1
        except Exception as e:
            print(f"{label:22} -> rejected with {type(e).__name__}")
# Worse (C01 "tables derived from it by ... stacking ... still show exactly their previous contents"): the
# accepted object holds the table's LIVE column vectors, not copies, so a write through it changes t.
with warnings.catch_warnings():
    warnings.simplefilter("ignore")
    r = t >> [7, 8]
    r[0][0] = 99
print("after writing r[0][0] = 99 through the ragged result, t['a'] =", list(t['a']))
if list(t['a']) != [1, 2, 3]: bad = 1
sys.exit(bad)
