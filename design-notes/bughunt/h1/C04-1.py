# C04: "The dtype inferred for a sequence depends only on which Python types occur in it and on
#       whether None occurs - never on element order, position of the first None, or length: ...
#       identical kinds stay ..."   (quantifier: "... str, bytes, date, datetime and arbitrary other classes")
#
# infer_kind() classifies the FIRST element with isinstance (a namedtuple -> tuple, a str subclass -> str,
# a float subclass -> float ...), but promote_with() compares every LATER element with `type(v) is kind`.
# So for instances of a subclass of a built-in the result depends on length and on order:
#   [P(1,2)]            -> <tuple>      [P(1,2), P(3,4)]   -> <object>     (same single type, other length)
#   [S('a')]            -> <str>        [S('a'), S('b')]   -> <object>
#   [S('b'), 'a']       -> <str>        ['a', S('b')]      -> <object>     (order)
#   [F(1.5), 1]         -> <float>      [1, F(1.5)]        -> <int>        (order)
#   [True, IntEnum.A]   -> <bool>       [IntEnum.A, True]  -> <int>        (order)
import sys, warnings, enum
from collections import namedtuple
warnings.simplefilter("ignore")
from serif import Vector

P = namedtuple('P', 'x y')
class S(str): pass
class F(float): pass
class E(enum.IntEnum):
    A = 1

bad = 0
def show(label, a, b):
    global bad
    da, db = Vector(a).schema(), Vector(b).schema()
    flag = "" if da == db else "   <-- differs"
    if da != db: bad = 1
    print(f"{label}: {da} vs {db}{flag}")

show("length  [P] vs [P,P]          ", [P(1, 2)], [P(1, 2), P(3, 4)])
show("length  [S] vs [S,S]          ", [S('a')], [S('a'), S('b')])
show("order   [S,str] vs [str,S]    ", [S('b'), 'a'], ['a', S('b')])
show("order   [F,int] vs [int,F]    ", [F(1.5), 1], [1, F(1.5)])
show("order   [bool,E] vs [E,bool]  ", [True, E.A], [E.A, True])
show("None pos [S,None,S] vs [None,S]", [S('a'), None, S('a')], [None, S('a')])
sys.exit(bad)
