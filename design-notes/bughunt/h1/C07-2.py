# C07: "v[mask] keeps exactly the positions where the mask is True, in order, keeping dtype kind and name"
#      (quantifier: "all vectors ..., all boolean masks of the right and of the wrong length")
#
# For a zero-length vector the (only) mask of the right length is the empty one.  Given as a plain list
# it is rejected with SerifTypeError instead of returning an empty vector, because
# `{type(e) for e in []} == {bool}` is False (the same empty list is also refused as an index list).
# The Vector form of the same mask works.
import sys, warnings
warnings.simplefilter("ignore")
from serif import Vector

v = Vector([], dtype=int, name='n')
print("Vector mask:", list(v[Vector([], dtype=bool)]))
try:
    r = v[[]]
    print("list mask  :", list(r))
    sys.exit(0)
except Exception as e:
    print("list mask  : raised", type(e).__name__, e)
    sys.exit(1)
