# C08: "table cell, row, column and region assignment do the same on the addressed cells only"
#      (i.e. leave "exactly the contents Python list assignment would produce"), quantifier "all key forms x
#      value forms".
#
# t[i, col] = value with an integer row treats EVERY iterable value as a row of cells ("CASE B"), even when a
# single cell is addressed.  A tuple/list that is meant as the cell's value is unpacked: in an object column
# t[0,'c'] = (9,) stores 9 (not (9,)); in a list/tuple column it is rejected (int into list column) or
# reported as a row-length mismatch.  Vector assignment v[0] = (9,) and the Python reference cols['c'][0] = (9,)
# store the tuple itself.
import sys, warnings
warnings.simplefilter("ignore")
from serif import Vector, Table

bad = 0
t = Table({'c': [(1, 2), 'x'], 'k': [1, 2]})       # object column
ref = [(1, 2), 'x']; ref[0] = (9,)
t[0, 'c'] = (9,)
print("object column after t[0,'c'] = (9,):", list(t['c']), "| list reference:", ref)
if list(t['c']) != ref: bad = 1

t = Table({'c': [[1, 2], [3]], 'k': [1, 2]})        # list column
ref = [[1, 2], [3]]; ref[0] = [7, 8]
try:
    t[0, 'c'] = [7, 8]
    print("list column after t[0,'c'] = [7, 8]:", list(t['c']), "| list reference:", ref)
    if list(t['c']) != ref: bad = 1
except Exception as e:
    print("list column: t[0,'c'] = [7, 8] raised", type(e).__name__, "-", e, "| list reference:", ref)
    bad = 1
v = Vector([[1, 2], [3]]); v[0] = [7, 8]
print("same write through the column vector works:", list(v))
sys.exit(bad)
