# C07: "v[mask] keeps exactly the positions where the mask is True, in order ... On tables the same row
#       selection is applied to every column alike"  (quantifier: "all boolean masks of the right and of
#       the wrong length")
#
# The mask branches test `key.schema().kind == bool and not key.schema().nullable`.  A boolean vector
# that holds only True/False but whose schema is <bool?> - e.g. a bool column that once held a None
# (nullability is never dropped), or any mask built by cast()/fillna(None) - is therefore not recognised:
#   * Vector.__getitem__ raises SerifTypeError ("indices must be boolean vectors ...") for a boolean vector,
#   * Table.__getitem__ falls off the end of the method and silently returns None (as it does for
#     t[[0, 1]], t[1.5], t[None]) instead of the selected rows or an error.
import sys, warnings
warnings.simplefilter("ignore")
from serif import Vector, Table

t = Table({'a': [1, 2, 3], 'flag': [True, False, True]})
flag = t['flag']
flag[1] = None
flag[1] = False                       # the column again holds only booleans; schema stays <bool?>
print("mask:", list(flag), flag.schema())
bad = 0
try:
    r = t['a'][flag]
    print("v[mask] ->", list(r))
    if list(r) != [1, 3]: bad = 1
except Exception as e:
    print("v[mask] raised", type(e).__name__, str(e)[:70]); bad = 1
r = t[flag]
print("t[mask] ->", r if r is None else [list(c) for c in r.cols()])
if r is None or [list(c) for c in r.cols()] != [[1, 3], [True, True]]: bad = 1
sys.exit(bad)
