# C16: "A write that changes any element to an unequal value (other than pairs Python's own hash()
#       cannot tell apart, such as -1 and -2) changes the fingerprint"
#
# Element hashes are reduced modulo P = 2**61-1 inside the rolling hash ((total*B + h) % P), but
# Python's hash() of an int keeps the sign: hash(1) == 1 and hash(1 - P) == 1 - P are different, yet
# congruent mod P.  So replacing x by x - P (x > 0) is invisible to fingerprint() although hash() tells the
# two values apart.  The same happens for None vs the int 0x9E3779B97F4A7C15 % P (the constant used for None).
import sys, warnings
warnings.simplefilter("ignore")
from serif import Vector

P = (1 << 61) - 1
bad = 0
for old, new in ((1, 1 - P), (12345, 12345 - P)):
    v = Vector([old, 2, 3])
    f0 = v.fingerprint()
    v[0] = new
    same = v.fingerprint() == f0
    print(f"{old} -> {new}: equal={old == new} hash-equal={hash(old) == hash(new)} fingerprint unchanged={same}")
    if same and hash(old) != hash(new): bad = 1
v = Vector([7, None])
f0 = v.fingerprint()
k = 0x9E3779B97F4A7C15 % P
v[1] = k
same = v.fingerprint() == f0
print(f"None -> {k}: fingerprint unchanged={same}")
if same: bad = 1
sys.exit(bad)
