# C08: "v[key] = value - for integer, slice, boolean-mask and index-list keys with a scalar or a same-length
#       sequence - leaves the vector with exactly the contents Python list assignment would produce ...;
#       table cell, row, column and region assignment do the same on the addressed cells only."
#
# Column / region assignment on a Table accepts a list, a tuple or a Table as the value, but a Vector - the
# library's own same-length sequence, and what t2['x'] or any arithmetic returns - is refused with
# SerifTypeError("Unsupported assignment value type") whenever the row key is a slice or mask
# (t[:, 'a'] = vec, t[0:2, 'a'] = vec, t[mask, 'a'] = vec).  The same value is accepted by the column
# vector itself (t['a'][:] = vec) and as list(vec).
import sys, warnings
warnings.simplefilter("ignore")
from serif import Vector, Table

t = Table({'a': [1, 2, 3], 'b': [4, 5, 6]})
vec = Vector([7, 8, 9])
bad = 0
try:
    t[:, 'a'] = vec
    print("t[:, 'a'] = Vector ->", list(t['a']))
    if list(t['a']) != [7, 8, 9]: bad = 1
except Exception as e:
    print("t[:, 'a'] = Vector raised", type(e).__name__, "-", e)
    bad = 1
t[:, 'a'] = list(vec); print("t[:, 'a'] = list(vec) ->", list(t['a']))
t['b'][:] = vec;        print("t['b'][:] = vec      ->", list(t['b']))
sys.exit(bad)
