# C02: "At every moment every Table has columns of one common length equal to len(table), its shape is
#       (rows, columns) ..."  (quantifier: "... in-place updates (cell, row, column, region, attribute
#       assignment, renames)")
#
# Attribute (column) assignment only checks len(value) == len(table).  A Table value with the same number
# of rows passes and is stored *as a column* (docs/invariants.md: "nested tables are never allowed").
# Because Table.__len__/shape special-case "first column is a Table", len(t) silently changes from the
# row count to the column count and shape grows a third dimension.
import sys, warnings
warnings.simplefilter("ignore")
from serif import Table

t = Table({'a': [1, 2, 3], 'b': [4, 5, 6]})
print("before:", len(t), t.shape)
t.a = Table({'q': [7, 8, 9]})          # same number of rows -> accepted
print("after :", len(t), t.shape, "column lengths", [len(c) for c in t.cols()])
ok = len(t) == 3 and t.shape == (3, 2) and all(len(c) == len(t) for c in t.cols())
sys.exit(0 if ok else 1)
