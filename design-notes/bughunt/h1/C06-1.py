# C06: "A None element ... is skipped by every reduction (sum, mean, min, max, stdev, any, all and the
#       per-group aggregates)"  (quantifier: "None at every subset of positions (including all-None ...)")
#
# LOW CONFIDENCE / arguable.  On an all-None vector sum() -> 0, mean() -> None, stdev() -> None, any() -> False,
# all() -> True and the per-group aggregates min_over/max_over -> None, but Vector.min()/max() raise
# ValueError("max() iterable argument is empty"): the Nones are skipped and the empty remainder is not handled,
# so min/max behave differently from every other reduction and from their own per-group form.
import sys, warnings
warnings.simplefilter("ignore")
from serif import Vector, Table

v = Vector([None, None])
bad = 0
for name in ("sum", "mean", "stdev", "any", "all", "min", "max"):
    try:
        print(f"Vector([None, None]).{name}() ->", getattr(v, name)())
    except Exception as e:
        print(f"Vector([None, None]).{name}() raised {type(e).__name__}: {e}")
        bad = 1
t = Table({'g': ['x', 'x'], 'a': [None, None]})
r = t.aggregate(over='g', min_over='a', max_over='a')
print("per-group min/max of the same data:", [list(c) for c in r.cols()][1:])
sys.exit(bad)
