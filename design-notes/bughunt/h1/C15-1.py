# C15: "A vector that shares storage with no other live vector - fresh vectors, copies, slices,
#       operation results, table columns ... - is always writable"  and
#      "two live vectors built over the same caller-supplied tuple" is the only legitimate way to share.
# C01: "Operations that return a new object ... never change their operands."
#
# v << [] (also [] << v, v << empty_vector, empty_vector << v) builds its result with
# `self._underlying + tuple(other)`; CPython returns the *same* tuple object for `t + ()`, so the
# "new" vector is registered on the operand's storage.  From then on BOTH the operand and the
# result refuse every write with AliasError, although the caller never supplied a shared tuple.
# Even a table column becomes unwritable after a read-only concatenation through its view.
import sys, warnings
warnings.simplefilter("ignore")
from serif import Vector, Table, AliasError

bad = 0
v = Vector([1, 2, 3])
w = v << []                     # read-only operation returning a "new" vector
print("result shares operand storage:", w._underlying is v._underlying)
for label, target in (("operand v", v), ("result w", w)):
    try:
        target[0] = 9
        print(label, "write accepted")
    except AliasError as e:
        print(label, "write refused with AliasError")
        bad = 1

t = Table({'a': [1, 2, 3]})
keep = t['a'] << []             # read-only use of the column view
try:
    t[0, 'a'] = 5
    print("table cell write accepted")
except AliasError:
    print("table cell write refused with AliasError after `t['a'] << []`")
    bad = 1
sys.exit(bad)
