# C07: "Comparison and logical operators return non-nullable boolean vectors computed elementwise by
#       Python's own comparison"
#
# Python defines date == datetime (False) and date != datetime (True).  A date vector compared with a
# datetime scalar or datetime vector (in either operand order, because _Date is a subclass and its
# reflected method wins) raises TypeError: _Date._elementwise_compare calls `datetime.time(0, 0)`,
# which is the unbound instance method datetime.datetime.time, not the `time` class.
import sys, warnings
from datetime import date, datetime
warnings.simplefilter("ignore")
from serif import Vector

d = Vector([date(2020, 1, 1), date(2020, 1, 2)])
dts = [datetime(2020, 1, 1), datetime(2020, 1, 2, 3)]
dt = Vector(dts)
bad = 0
cases = {
    "d == datetime scalar": (lambda: d == dts[0], [x == dts[0] for x in d]),
    "d != datetime scalar": (lambda: d != dts[0], [x != dts[0] for x in d]),
    "d == datetime vector": (lambda: d == dt, [x == y for x, y in zip(d, dts)]),
    "datetime vector == d": (lambda: dt == d, [y == x for x, y in zip(d, dts)]),
}
for label, (f, expected) in cases.items():
    try:
        got = list(f())
        print(label, "->", got, "expected", expected)
        if got != expected: bad = 1
    except Exception as e:
        print(label, "-> raised", type(e).__name__, e, "| Python gives", expected)
        bad = 1
sys.exit(bad)
