# C08: "table cell, row, column and region assignment do the same on the addressed cells only"
#
# Reading resolves a column name by EXACT match first (Table.__getitem__), but cell/region assignment
# resolves it only through the sanitized (lower-cased) dot-access map.  With two columns whose names differ
# only by case, t[i, 'B'] = x writes the column named 'b' (first to sanitize to 'b') and leaves the addressed
# column 'B' untouched.  With a name that is not its own sanitized form ('A b', 'sum', 'name' -> 'a_b', 'sum_',
# 'name_') the addressed, existing column is reported as "not found" and nothing can be assigned by name.
import sys, warnings
warnings.simplefilter("ignore")
from serif import Vector, Table

bad = 0
t = Table([Vector([1, 2], name='b'), Vector([3, 4], name='B')])
t[0, 'B'] = 99
print("after t[0,'B'] = 99:  t['b'] =", list(t['b']), " t['B'] =", list(t['B']))
if list(t['B']) != [99, 4] or list(t['b']) != [1, 2]:
    bad = 1

t = Table({'A b': [1, 2], 'sum': [3, 4]})
for name in ('A b', 'sum'):
    try:
        t[0, name] = 7
        print(f"t[0,{name!r}] = 7 ->", list(t[name]))
        if list(t[name])[0] != 7: bad = 1
    except Exception as e:
        print(f"t[0,{name!r}] = 7 raised {type(e).__name__}: {e}   (t[{name!r}] exists: {list(t[name])})")
        bad = 1
sys.exit(bad)
