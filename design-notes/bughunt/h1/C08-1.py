# C08: "an assignment that fails for any reason ... leaves the vector exactly as it was, as a failed
#       rename_columns leaves every column name"  (quantifier: "every point at which the supplied value,
#       index or name can raise or be found invalid during the operation")
#
# rename_columns() validates the *old* names on a simulated list, then writes all new names into the
# columns, and only afterwards rebuilds the column map.  Rebuilding can still fail: it calls
# _sanitize_user_name(str(name)) on every new name and issues a duplicate-name UserWarning.  When that
# step raises - a new name whose str() raises, or the duplicate warning under `-W error` /
# pytest filterwarnings=error with a column previously renamed through a live view - the call fails
# but every column has already been renamed (and the dot-access map is left stale).
import sys, warnings
from serif import Table

bad = 0
# (a) duplicate-name warning turned into an error
t = Table({'a': [1], 'b': [2], 'c': [3]})
t['c'].name = 'q'                       # rename through a live column view
before = t.column_names()
with warnings.catch_warnings():
    warnings.simplefilter("error")
    try:
        t.rename_columns(['a', 'b'], ['q', 'z'])
        print("(a) rename succeeded:", t.column_names())
    except Exception as e:
        print("(a) rename_columns failed with", type(e).__name__, "| names before", before, "after", t.column_names())
        if t.column_names() != before: bad = 1

# (b) a new name that cannot be turned into a string
class BadName:
    def __str__(self): raise RuntimeError("unprintable name")
t = Table({'a': [1], 'b': [2], 'c': [3]})
before = t.column_names()
try:
    t.rename_columns(['a', 'b'], ['x', BadName()])
    print("(b) rename succeeded")
except Exception as e:
    after = [n if isinstance(n, str) else type(n).__name__ for n in t.column_names()]
    print("(b) rename_columns failed with", type(e).__name__, "| names before", before, "after", after)
    if after != before: bad = 1
sys.exit(bad)
