# C16: "fingerprint() is a function of current contents only: after any sequence of writes through any
#       path ... it equals the fingerprint of a freshly built vector ... with the same contents, whether
#       or not it had been called, and cached, earlier"
# C01: "A write through any Vector ... handle changes only that object"
#
# Vector([...]) keeps Vector elements by reference when it does not turn into a Table (vectors of
# different lengths, or a vector next to scalars).  The outer vector memoises its fingerprint, so a
# write through the inner vector (a) is visible through the outer one and (b) leaves the outer
# fingerprint stale: it no longer equals that of a freshly built vector with the same contents.
# (Table.fingerprint() was given a recompute for exactly this reason; the generic Vector was not.)
import sys, warnings
warnings.simplefilter("ignore")
from serif import Vector

inner = Vector([1, 2])
outer = Vector([inner, Vector([7, 8, 9])])      # different lengths -> stays a plain Vector of vectors
print(type(outer).__name__, outer.schema())
before_contents = [list(x) for x in outer]
f0 = outer.fingerprint()
inner[0] = 99                                   # write through the other handle
after_contents = [list(x) for x in outer]
f1 = outer.fingerprint()
fresh = Vector([Vector([99, 2]), Vector([7, 8, 9])]).fingerprint()
print("outer contents before/after:", before_contents, after_contents)
print("fingerprint unchanged:", f0 == f1, "| equals fresh vector with same contents:", f1 == fresh)
sys.exit(1 if (f1 != fresh or before_contents != after_contents) else 0)
