import warnings, itertools, random, sys, math, functools
warnings.simplefilter("ignore")
from serif import *
bad=[]
def note(*a):
    if len(bad) < 30: bad.append(a)
def rows(t):
    cols=[list(c) for c in t.cols()]
    return [tuple(c[i] for c in cols) for i in range(len(cols[0]))] if cols else []
random.seed(3)
def spec_sort(K, rev, na_last, n):
    def cmp(i,j):
        for c,r in zip(K,rev):
            a,b=c[i],c[j]
            if a is None and b is None: continue
            if a is None: return 1 if na_last else -1
            if b is None: return -1 if na_last else 1
            if a==b: continue
            lt = a<b
            if r: lt = not lt
            return -1 if lt else 1
        return 0
    return sorted(range(n), key=functools.cmp_to_key(cmp))
cnt=0
for trial in range(20000):
    n=random.randint(1,6); nk=random.randint(1,3)
    K=[[random.choice([0,1,2,None]) for _ in range(n)] for _ in range(nk)]
    cols=[Vector(list(c),name='s%d'%i) for i,c in enumerate(K)]+[Vector(list(range(n)),name='pos')]
    t=Table(cols)
    rev=[random.random()<0.5 for _ in range(nk)]; na_last=random.random()<0.5
    byspec=['s%d'%i for i in range(nk)]
    if random.random()<0.3: byspec=[t['s%d'%i] for i in range(nk)]
    before=rows(t)
    res=t.sort_by(byspec if nk>1 else byspec[0], reverse=rev, na_last=na_last) if nk>1 else t.sort_by(byspec[0], reverse=rev[0], na_last=na_last)
    cnt+=1
    got=[r[-1] for r in rows(res)]
    exp=spec_sort(K,rev,na_last,n)
    if got!=exp: note('order',K,rev,na_last,got,exp)
    if rows(t)!=before: note('mutated')
    again=res.sort_by(['s%d'%i for i in range(nk)], reverse=rev, na_last=na_last)
    if rows(again)!=rows(res): note('idem',K,rev,na_last)
    if res.column_names()!=t.column_names(): note('names')
print('table sort',cnt,'bad',len(bad))
# vector sort
for trial in range(20000):
    n=random.randint(0,6)
    vals=[random.choice([0,1,2,None,True,1.0]) for _ in range(n)]
    rev=random.random()<0.5; na_last=random.random()<0.5
    v=Vector(vals,name='q')
    try: r=v.sort_by(reverse=rev, na_last=na_last)
    except Exception as e: note('vsort-exc',vals,type(e).__name__); continue
    exp_idx=spec_sort([vals],[rev],na_last,n)
    exp=[vals[i] for i in exp_idx]
    got=list(r)
    if [(type(x),x) for x in got]!=[(type(x),x) for x in exp]: note('vsort',vals,rev,na_last,got,exp)
    if r.name!='q': note('vsort-name')
print('vector sort bad',len(bad))
for b in bad[:10]: print(b)
