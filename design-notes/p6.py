import warnings, gc, io
warnings.simplefilter("ignore")
from serif import *
def show(label, f):
    try:
        r = f()
        print(label, "->", r if not isinstance(r, Vector) or isinstance(r, Table) else (list(r), r.schema(), r.name))
    except Exception as e:
        print(label, "!!", type(e).__name__, str(e)[:100])
def tb(t): return (t.column_names(), [list(c) for c in t.cols()], [c.schema() for c in t.cols()])
t = Table({'cols':[1], 'col__1':[2], 'copy':[3], 'Column Names':[4], 'col':[5], 'col7':[6], 'col 9 ':[7]})
m = t._build_column_map(); print(m)
for k,i in m.items():
    show(f" getattr {k} -> idx {i}", lambda: [j for j,c in enumerate(t.cols()) if c is getattr(t,k)])
    def f():
        t[0,k] = 100+i
        return [list(c)[0] for c in t.cols()]
    show(f" setitem {k}", f)
# wide table with hidden duplicate
cols = [Vector([i], name=('x' if i in (5,11) else f'n {i}')) for i in range(12)]
w = Table(cols)
print(w._build_column_map())
print(repr(w))
# setattr by accessor
t = Table({'a b':[1,2], 'a_b':[3,4]})
print(t._column_map)
t.a_b__1 = [9,9]
show("setattr idx", lambda: tb(t))
t.a_b = [7,7]
show("setattr base", lambda: tb(t))
# string indexing
t = Table([Vector([1],name='x'), Vector([2],name='x'), Vector([3],name='X')])
show("t['x']", lambda: [j for j,c in enumerate(t.cols()) if c is t['x']])
show("t['X']", lambda: [j for j,c in enumerate(t.cols()) if c is t['X']])
show("t['x__1']", lambda: [j for j,c in enumerate(t.cols()) if c is t['x__1']])
show("t['x__2']", lambda: [j for j,c in enumerate(t.cols()) if c is t['x__2']])
print(t._build_column_map())
