import warnings, gc, io
warnings.simplefilter("ignore")
from serif import *
from serif.alias_tracker import _ALIAS_TRACKER
def show(label, f):
    try:
        r = f()
        print(label, "->", r if not isinstance(r, Vector) or isinstance(r, Table) else (list(r), r.schema(), r.name))
    except Exception as e:
        print(label, "!!", type(e).__name__, str(e)[:100])
def tb(t): return (t.column_names(), [list(c) for c in t.cols()], [c.schema() for c in t.cols()])

print("== C15")
def trial(make, n=200):
    keep = make()
    bad = 0
    for i in range(n):
        v = Vector([i, i+1])
        try: v[0] = 5
        except AliasError: bad += 1
    return bad
a = Vector([1,2],name='a'); b = Vector([3,4],name='b')
show("baseline none", lambda: trial(lambda: None))
show("Table dict alive", lambda: trial(lambda: Table({'a':[1,2]})))
show("a>>b alive", lambda: trial(lambda: a >> b))
show("t>>dict alive", lambda: trial(lambda: Table({'a':[1,2]}) >> {'c':[1,2]}))
show("row slice alive", lambda: trial(lambda: Table({'a':[1,2]})[0:1]))
show("mask alive", lambda: trial(lambda: Table({'a':[1,2]})[[True,False]]))
def mk():
    t = Table({'a':[1,2]}); t.a = [5,6]; return t
show("attr assign alive", lambda: trial(mk))
show("registry size", lambda: len(_ALIAS_TRACKER._registry))
# empty vectors share ()
e1 = Vector([]); e2 = Vector([])
show("empty write", lambda: e1.__setitem__(slice(0,0), []))
# shared tuple, partner written
tup = (1,2,3)
x = Vector(tup); y = Vector(tup)
show("x write (shared)", lambda: x.__setitem__(0, 9))
del y; gc.collect()
show("x write after partner gc", lambda: x.__setitem__(0, 9))
x2 = Vector(tup); y2 = Vector(tup); z2 = y2.copy()
show("copy writable", lambda: z2.__setitem__(0, 9))
# deepcopy self-operand
v = Vector([1,2,3])
show("v + v", lambda: v + v)
show("v[v>1] self?", lambda: v[v>1])
# Vector(vector) shares?
p = Vector([1,2,3]); q = Vector(p._underlying)
show("Vector(vec) write", lambda: (q.__setitem__(0, 9), list(p), list(q)))
r = Vector(tuple([1,2,3])); 
# Table.copy
t = Table({'a':[1,2]})
c = t.copy()
show("copy type", lambda: type(c).__name__)
# two-element tuples ids
print("== C18")
a = Vector([1,2],name='a'); b = Vector([3,4],name='b')
show("a+b", lambda: (a+b).name)
show("a+1", lambda: (a+1).name)
show("a>1", lambda: (a>1).name)
show("-a", lambda: (-a).name)
show("a[0:1]", lambda: a[0:1].name)
show("a.sort_by", lambda: a.sort_by().name)
show("a.copy()", lambda: a.copy().name)
show("a.fillna", lambda: a.fillna(0).name)
show("a.dropna", lambda: a.dropna().name)
show("a.cast", lambda: a.cast(float).name)
show("a<<b", lambda: (a<<b).name)
show("a.T", lambda: a.T.name)
t = Table({'x y':[1,2],'x y ':[3,4],'sum':[5,6]})
show("agg names", lambda: t.aggregate(over='x y', sum_over=['x y ','sum'], count_over='sum', apply={'sum__sum':('sum', len)}).column_names())
show("win names", lambda: t.window(over='x y', sum_over=['x y ','sum'], count_over='sum', apply={'sum__sum':('sum', len)}).column_names())
show("agg unnamed", lambda: Table([Vector([1,2]),Vector([3,4])]).aggregate(over=Vector([1,1]), sum_over=Vector([1,2])).column_names())
show("agg name collide suffix", lambda: Table({'v':[1,2],'v_sum':[1,2],'g':[1,1]}).aggregate(over='g', sum_over=['v','v'], apply={'v_sum2':('v',len)}).column_names())
t1 = Table([Vector([1,2],name='a'),Vector([1,2])]); t2 = Table([Vector([1,2],name='a'),Vector([1,2],name='q')])
show("t+t names", lambda: (t1+t2).column_names())
show("t2+t1 names", lambda: (t2+t1).column_names())
show("t*2 names", lambda: (t2*2).column_names())
show("t slice names", lambda: t2[0:1].column_names())
show("t mask names", lambda: t2[[True,False]].column_names())
show("sorted names", lambda: t2.sort_by('a').column_names())
show("join names", lambda: t2.inner_join(t2,'a','a').column_names())
show("t2 >> vec", lambda: (t2 >> Vector([1,2],name='z')).column_names())
show("t2['q','a']", lambda: t2['q','a'].column_names())
show("t2.T.names", lambda: t2.T.column_names())
