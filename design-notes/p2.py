import warnings, gc
warnings.simplefilter("ignore")
from serif import *
from serif.typing import infer_dtype
from datetime import date, datetime
def show(label, f):
    try:
        r = f()
        print(label, "->", r if not isinstance(r, Vector) or isinstance(r, Table) else (list(r), r.schema(), r.name))
    except Exception as e:
        print(label, "!!", type(e).__name__, str(e)[:100])
def tb(t): return (t.column_names(), [list(c) for c in t.cols()], [c.schema() for c in t.cols()])

print("== C01")
t = Table({'a':[1,2,3],'b':[4,5,6]})
d = Vector([7,8,9])
t.a = d
d[0] = 100
show("attr-assign then donor write: t.a", lambda: list(t.a))
t.a[1] = 55
show("write via col: donor", lambda: list(d))
# stacked
a = Vector([1,2,3], name='a'); b = Vector([4,5,6], name='b')
s = a >> b
a[0] = 9
show("stack then write source", lambda: tb(s))
s.a[0] = 77
show("write through stacked col; src a", lambda: list(a))
# slice of table
u = s[0:2]
u.a[0] = -1
show("slice write: parent", lambda: tb(s))
# t >> t2
t1 = Table({'a':[1,2]}); t2 = Table({'b':[3,4]})
j = t1 >> t2
j.b[0] = 99
show("T>>T write: t2", lambda: tb(t2))
j2 = t1 >> b[0:2]
bb = Vector([3,4], name='bb')
j3 = t1 >> bb
j3.bb[0] = 99
show("T>>V write: bb", lambda: list(bb))
bb[1] = -5
show("T>>V donor write: j3", lambda: tb(j3))
# copy
c = t1.copy()
show("table copy", lambda: tb(c))
c.a[0] = 50
show("after copy write t1", lambda: tb(t1))
# Vector shares tuple
tup = (1,2,3)
x = Vector(tup); y = Vector(tup)
show("shared write", lambda: x.__setitem__(0, 9))
show("x,y", lambda: (list(x), list(y)))
# multi-select
m = t['a','b']; m.a[0] = 1234
show("multi-select write parent", lambda: tb(t))
# mask
k = t[[True, False, True]]
k.b[0] = -9
show("mask write parent", lambda: tb(t))
# T
tt = t.T
show("T", lambda: tb(tt))

print("== C02")
show("Table([v3, v2])", lambda: tb(Table([Vector([1,2,3]), Vector([1,2])])))
show("Table ragged len", lambda: len(Table([Vector([1,2,3]), Vector([1,2])])))
show("Table dict ragged", lambda: tb(Table({'a':[1,2,3],'b':[1,2]})))
show("attr assign wrong len", lambda: setattr(t, 'a', [1,2]))
show(">> dict wrong len", lambda: t >> {'c':[1]})
show(">> vec wrong len", lambda: tb(t >> Vector([1])))
show("<< row", lambda: tb(t << [1,2]))
show("<< table", lambda: tb(t << t))
show("<< wrong width", lambda: tb(t << [1]))
show("t[0]", lambda: list(t[0]))
show("T.T", lambda: tb(t.T.T))
show("shape", lambda: t.shape)
e = Table({'a':[], 'b':[]})
show("empty shape", lambda: (e.shape, len(e), tb(e)))
show("empty T", lambda: tb(e.T))
show("Table()", lambda: (Table().shape, len(Table())))
show("1x1 T", lambda: tb(Table({'a':[1]}).T))
z = Table({'a':[1,2,3]})
show("z << [[4]]", lambda: tb(z << [4]))
