import warnings, gc, io
warnings.simplefilter("ignore")
from serif import *
from serif.typing import infer_dtype
from datetime import date, datetime
def show(label, f):
    try:
        r = f()
        print(label, "->", r if not isinstance(r, Vector) or isinstance(r, Table) else (list(r), r.schema(), r.name))
    except Exception as e:
        print(label, "!!", type(e).__name__, str(e)[:100])
def tb(t): return (t.column_names(), [list(c) for c in t.cols()], [c.schema() for c in t.cols()])

print("== C12/C13")
t = Table({'g':['a','b','a',None,'b',None],'v':[1,None,3,4,None,None],'w':[1.0,2.0,3.0,4.0,5.0,6.0]})
show("agg", lambda: tb(t.aggregate(over='g', sum_over='v', mean_over='v', min_over='v', max_over='v', count_over='v', stdev_over='v')))
show("win", lambda: tb(t.window(over='g', sum_over='v', mean_over='v', min_over='v', max_over='v', count_over='v', stdev_over='v')))
show("agg apply", lambda: tb(t.aggregate(over='g', apply={'lst': ('v', lambda vals: str(vals))})))
show("agg same col twice", lambda: tb(t.aggregate(over='g', sum_over=['v','v'])))
show("agg ext key", lambda: tb(t.aggregate(over=Vector([1,1,2,2,1,1]), sum_over='w')))
show("agg key named like output", lambda: tb(Table({'v_sum':[1,1,2],'v':[1,2,3]}).aggregate(over='v_sum', sum_over='v')))
show("agg empty", lambda: tb(Table({'g':[], 'v':[]}).aggregate(over='g', sum_over='v')))
show("win empty", lambda: tb(Table({'g':[], 'v':[]}).window(over='g', sum_over='v')))
show("agg over only", lambda: tb(t.aggregate(over='g')))
show("agg two keys", lambda: tb(t.aggregate(over=['g', Vector([1,1,2,2,1,1],name='h')], count_over='w')))
show("Vector stdev vs agg", lambda: (Vector([1,None,3,7]).stdev(), list(Table({'g':[1,1,1,1],'v':[1,None,3,7]}).aggregate(over='g', stdev_over='v').cols()[1])))
show("max allnone group", lambda: tb(Table({'g':[1,1],'v':[None,None]}).aggregate(over='g', max_over='v', sum_over='v', count_over='v', mean_over='v')))

print("== C17")
t = Table({'First Name':[1],'first name':[2],'sum':[3],'2x':[4],'':[5],'a__1':[6],'x y':[7],'x_y':[8],'class':[9]})
show("names", lambda: t.column_names())
show("map", lambda: t._column_map)
show("dir cols", lambda: sorted(set(t._build_column_map().keys())))
show("class kw", lambda: getattr(t,'class'))
import keyword
print([k for k in t._build_column_map() if not k.isidentifier() or keyword.iskeyword(k)])
print(repr(t))
t2 = Table([Vector([1],name='a'), Vector([2]), Vector([3],name='col1_'), Vector([4], name='a__0'), Vector([5], name='a')])
show("map2", lambda: t2._build_column_map())
for k,i in t2._build_column_map().items():
    show(f" getattr {k} -> idx {i}", lambda: [j for j,c in enumerate(t2.cols()) if c is getattr(t2,k)])
t3 = Table({'a':[1],'b':[2]})
c = t3.a; c.name = 'zzz'
show("row attr after view rename", lambda: (t3._column_map, t3[0].zzz))
show("setitem after view rename", lambda: t3.__setitem__((0,'zzz'), 5))
show("t3.zzz", lambda: list(t3.zzz))
show("row attr after getattr", lambda: (t3._column_map, t3[0].zzz))
t4 = Table({'é':[1], 'ß':[2], '日本':[3], 'A-B':[4], 'a_b':[5], 'a b':[6]})
show("unicode", lambda: t4._build_column_map())
t5 = Table({'x':[1]}); t5 = t5 >> {'x':[2]} ; t5 = t5 >> {'x__1':[3]}
show("x dup", lambda: (t5.column_names(), t5._build_column_map()))
t6 = Table([Vector([1],name='x_'), Vector([2],name='x_'), Vector([3], name='x___1')])
show("x_ dup", lambda: (t6.column_names(), t6._build_column_map()))
t7 = Table([Vector([1],name='t'), Vector([2],name='T'), Vector([3], name='t_')])
show("reserved dup", lambda: (t7.column_names(), t7._build_column_map()))
t8 = Table([Vector([1],name='a'), Vector([2],name='a'), Vector([3], name='a__1')])
show("a, a, a__1", lambda: (t8.column_names(), t8._build_column_map()))
t9 = Table([Vector([1],name='col1_'), Vector([2])])
show("col1_ vs unnamed idx1", lambda: (t9.column_names(), t9._build_column_map()))
