# C15 exploration: spurious refusals / leaks under id reuse on patched tree
import warnings, random, gc
warnings.simplefilter("ignore")
from serif import *
from serif.alias_tracker import _ALIAS_TRACKER
bad=[]
def note(*a):
    if len(bad) < 20: bad.append(a)
random.seed(5)
stat={'writes':0,'refused':0,'refused_true_share':0}
def all_vectors(live):
    out=[]
    for o in live:
        out.append(o)
        if isinstance(o,Table): out.extend(o.cols())
    return out
for hist in range(1500):
    live=[]; tuples=[]
    for step in range(random.randint(5,30)):
        op=random.choice(['new','share','copy','slice','stack','stackdict','rowslice','mask','setattr','write','drop','gc','probe','promote','empty'])
        try:
            if op=='new': live.append(Vector([random.randint(0,3) for _ in range(random.choice([1,2,2,3]))], name='n'))
            elif op=='empty': live.append(Vector([]))
            elif op=='share':
                t=tuple(random.randint(0,3) for _ in range(2)); tuples.append(t)
                live.append(Vector(t)); live.append(Vector(t))
            elif op=='copy' and live: live.append(random.choice(live).copy())
            elif op=='slice' and live:
                o=random.choice(live)
                if not isinstance(o,Table): live.append(o[0:1])
            elif op=='stack':
                a=Vector([1,2],name='a'); b=Vector([3,4],name='b'); live.append(a>>b)
            elif op=='stackdict':
                live.append(Table({'a':[1,2]})>>{'c':[5,6]})
            elif op=='rowslice':
                live.append(Table({'a':[1,2],'b':[3,4]})[0:1])
            elif op=='mask':
                live.append(Table({'a':[1,2],'b':[3,4]})[[True,False]])
            elif op=='setattr':
                ts=[o for o in live if isinstance(o,Table) and o.cols() and len(o)==2]
                if ts:
                    t=random.choice(ts); acc=sorted(t._build_column_map()); setattr(t, acc[0], [7,8])
            elif op=='drop' and live: del live[random.randrange(len(live))]
            elif op=='gc': gc.collect()
            elif op in ('write','promote','probe'):
                if op=='probe':
                    cands=[Vector([random.randint(0,9), random.randint(0,9)]) for _ in range(10)]
                else:
                    vs=[v for v in all_vectors(live) if not isinstance(v,Table) and len(v)]
                    cands=[random.choice(vs)] if vs else []
                for v in cands:
                    others=[w for w in all_vectors(live)+cands if w is not v and w._underlying is v._underlying and len(v._underlying)>0]
                    snaps=[(w,list(w)) for w in all_vectors(live) if w is not v]
                    stat['writes']+=1
                    try:
                        v[0]= 2.5 if op=='promote' else 99
                        if others: note('write-accepted-while-shared',op)
                    except AliasError:
                        stat['refused']+=1
                        if others: stat['refused_true_share']+=1
                        else: note('spurious-refusal',op,len(v),hist,step)
                    for w,s in snaps:
                        if not any(w is c for t in live if isinstance(t,Table) for c in t.cols() if c is v) and list(w)!=s and not (isinstance(w,Table)):
                            note("leak",op)
                    del snaps, others
        except (TypeError,ValueError) as e:
            pass
print(stat,'registry size',len(_ALIAS_TRACKER._registry),'bad',len(bad))
for b in bad[:10]: print(b)
