# C07 / C08 exploration on patched tree: slices, masks, assignment vs list semantics, atomicity
import warnings, itertools, random, sys
warnings.simplefilter("ignore")
from serif import *
from serif.errors import *
def canon(v): return [(type(x).__name__, repr(x)) for x in v]
bad = []
def note(*a):
    if len(bad) < 40: bad.append(a)
# --- slices
rng = [None] + list(range(-7, 8))
steps = [None, 1, -1, 2, -2, 3, -3]
n_cases = 0
for n in range(0, 6):
    base = list(range(10, 10+n))
    v = Vector(base, name='x')
    for a in rng:
        for b in rng:
            for st in steps:
                n_cases += 1
                exp = base[slice(a,b,st)]
                try:
                    got = v[a:b:st]
                    if list(got) != exp or got.name != 'x' or (n and got.schema() is not None and got.schema().kind is not int):
                        note('slice', n, a, b, st, list(got), exp, got.schema())
                except Exception as e:
                    note('slice-exc', n, a, b, st, type(e).__name__)
print("slices", n_cases, "bad", len(bad))
# --- masks
for n in range(0, 5):
    base = list(range(n))
    v = Vector(base, name='m')
    for m in itertools.product([True, False], repeat=n):
        exp = [x for x, f in zip(base, m) if f]
        for form in ('list', 'vec'):
            key = list(m) if form == 'list' else Vector(list(m))
            if n == 0: continue
            try:
                got = v[key]
                if list(got) != exp or got.name != 'm': note('mask', n, m, form, list(got))
            except Exception as e:
                note('mask-exc', n, m, form, type(e).__name__, str(e)[:60])
print("masks bad", len(bad))
# --- assignment vs list assignment
def listassign(lst, key, val, kind):
    l = list(lst)
    if kind == 'int': l[key] = val
    elif kind == 'slice':
        idx = list(range(*key.indices(len(l))))
        vals = val if isinstance(val, list) else [val]*len(idx)
        assert len(vals) == len(idx)
        for i, x in zip(idx, vals): l[i] = x
    elif kind == 'mask':
        idx = [i for i, f in enumerate(key) if f]
        vals = val if isinstance(val, list) else [val]*len(idx)
        assert len(vals) == len(idx)
        for i, x in zip(idx, vals): l[i] = x
    elif kind == 'idx':
        vals = val if isinstance(val, list) else [val]*len(key)
        assert len(vals) == len(key)
        for i, x in zip(key, vals): l[i] = x
    return l
random.seed(1)
pools = {'int':[0,1,2], 'float':[0.5,1.5], 'str':['a','b'], 'bool':[True,False]}
cnt=0
for trial in range(20000):
    kind_col = random.choice(list(pools))
    n = random.randint(0, 4)
    base = [random.choice(pools[kind_col] + [None]) if random.random()<0.3 else random.choice(pools[kind_col]) for _ in range(n)]
    v = Vector(base, name='n')
    before = (canon(v), v.schema(), v.name)
    kk = random.choice(['int','slice','mask','idx'])
    if kk == 'int': key = random.randint(-n-1, n)
    elif kk == 'slice': key = slice(random.choice(rng), random.choice(rng), random.choice(steps))
    elif kk == 'mask': key = [random.random()<0.5 for _ in range(random.choice([n, n, n, n+1, max(0,n-1)]))]
    else: key = [random.randint(-n-1, n) for _ in range(random.randint(0,3))]
    vk = random.choice(list(pools))
    def rv(): return random.choice(pools[vk] + [None])
    if random.random() < 0.5: val = rv()
    else: val = [rv() for _ in range(random.randint(0, 4))]
    try:
        exp = listassign(base, key, val, kk); exp_ok = True
    except Exception:
        exp_ok = False
    try:
        v[key] = val; ok = True
    except (SerifError, AliasError, TypeError, ValueError, IndexError) as e:
        ok = False; err = type(e).__name__
    after = (canon(v), v.schema(), v.name)
    cnt+=1
    if not ok:
        if after != before: note('nonatomic', base, key, val, before, after)
        continue
    if not exp_ok:
        note('accepted-but-list-rejects', base, kk, key, val, list(v)); continue
    # compare by value (allow conversion)
    if len(v) != n or v.name != 'n': note('len/name', base, key, val)
    if [x for x in v] != exp and not all((a == b) for a, b in zip(v, exp)):
        note('contents', base, kk, key, val, list(v), exp)
    # truthful
    s = v.schema()
    if s is not None and s.kind is not object:
        for x in v:
            if x is None:
                if not s.nullable: note('untruthful-none', base, key, val, list(v), s); break
            else:
                ladder = {bool:[bool], int:[bool,int], float:[bool,int,float], complex:[bool,int,float,complex]}
                okk = type(x) is s.kind or type(x) in ladder.get(s.kind, [])
                if not okk: note('untruthful', base, key, val, list(v), s); break
print("assign trials", cnt, "bad total", len(bad))
for b in bad: print(b)
