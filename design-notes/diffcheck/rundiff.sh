#!/bin/bash
# usage: rundiff.sh <name> [ignore-list] [alias-list] -- compares /tmp/w14/wt/src against /repo/src
# ignore-list: comma separated private/implementation names that the refactor is documented to add or move
# alias-list: old.path=new.path,... (see DIFF_ALIAS in diffcheck.py); applied to the candidate only
set -u
name=${1:-cur}
ign=${2:-}
ali=${3:-}
export PYTHONHASHSEED=0
export DIFF_IGNORE=$ign
D=/tmp/w14/diffout
mkdir -p $D
key=$(echo -n "$ign" | md5sum | cut -c1-8)
ref=$D/ref_$key
if [ ! -s $ref.txt ] || [ /tmp/w14/diffcheck.py -nt $ref.txt ]; then
  (cd /tmp && PYTHONPATH=/repo/src /venv/bin/python -B /tmp/w14/diffcheck.py > $ref.txt 2>$ref.err; tail -1 $ref.err) &
  (cd /tmp && DIFF_MSGS=1 PYTHONPATH=/repo/src /venv/bin/python -B /tmp/w14/diffcheck.py > ${ref}_msgs.txt 2>/dev/null) &
fi
(cd /tmp && DIFF_ALIAS=$ali PYTHONPATH=/tmp/w14/wt/src /venv/bin/python -B /tmp/w14/diffcheck.py > $D/$name.txt 2>$D/$name.err; tail -1 $D/$name.err) &
(cd /tmp && DIFF_ALIAS=$ali DIFF_MSGS=1 PYTHONPATH=/tmp/w14/wt/src /venv/bin/python -B /tmp/w14/diffcheck.py > $D/${name}_msgs.txt 2>/dev/null) &
wait
if cmp -s $ref.txt $D/$name.txt; then echo "DIFFCHECK $name (ignore='$ign'): IDENTICAL ($(grep -c . $D/$name.txt) lines)"; else echo "DIFFCHECK $name: DIFFERENT"; diff $ref.txt $D/$name.txt | head -c 6000; fi
echo "message-level differing probes: $(diff ${ref}_msgs.txt $D/${name}_msgs.txt | grep -c '^<')"
