"""Randomized differential self-check.  Run with PYTHONPATH=<tree>/src and PYTHONHASHSEED=0;
prints one line per probe.  Two trees behave alike iff the outputs are identical.
DIFF_MSGS=1 also records exception / warning texts."""
import sys, os, re, random, signal, time, warnings, copy, pickle, io, operator, itertools
from datetime import date, datetime, timedelta
from decimal import Decimal
from fractions import Fraction

import serif
from serif import Vector, Table, DataType, AliasError, read_csv, set_repr_rows
from serif import typing as styping

MSGS = os.environ.get('DIFF_MSGS') == '1'

# DIFF_ALIAS="old.path=new.path,...": paths relative to the serif package.  When a refactor is documented to rename or move a
# private helper this harness calls by name, the old name is bound to the new object (only if the old name is absent) so the
# probes still exercise the behaviour.
import importlib
def _resolve(path):
	parts = path.split('.')
	obj = serif
	for i, part in enumerate(parts):
		if hasattr(obj, part):
			obj = getattr(obj, part)
		else:
			obj = importlib.import_module('serif.' + '.'.join(parts[:i + 1]))
	return obj
for _spec in filter(None, os.environ.get('DIFF_ALIAS', '').split(',')):
	_old, _new = _spec.split('=')
	_parent = _resolve(_old.rsplit('.', 1)[0])
	_attr = _old.rsplit('.', 1)[1]
	if _attr not in vars(_parent):
		_target = _resolve(_new)
		if isinstance(_parent, type) and type(_target).__name__ == 'function':
			_target = staticmethod(_target)
		setattr(_parent, _attr, _target)
N = int(os.environ.get('DIFF_N', '1'))
_ADDR = re.compile(r'0x[0-9a-fA-F]+')
OUT = []
warnings.simplefilter("ignore")

class Timeout(BaseException): pass
def _on_alarm(*a): raise Timeout()
signal.signal(signal.SIGALRM, _on_alarm)


class MyInt(int): pass
class MyFloat(float): pass
class MyStr(str): pass
class MyDate(date): pass
class MyDT(datetime): pass
class MyBytes(bytes): pass
class MyList(list): pass
class MyTuple(tuple): pass
class MyDict(dict): pass
class MyComplex(complex): pass

class OddEq:
	"""== does not return a bool"""
	def __init__(self, k): self.k = k
	def __eq__(self, o): return [self.k, o]
	def __hash__(self): return hash(('OddEq', self.k))
	def __repr__(self): return f'OddEq({self.k})'

class RaiseEq:
	def __init__(self, k): self.k = k
	def __eq__(self, o): raise RuntimeError('no eq')
	def __hash__(self): return 7
	def __repr__(self): return f'RaiseEq({self.k})'

class Plain:
	def __init__(self, k): self.k = k
	def __repr__(self): return f'Plain({self.k})'
	def __eq__(self, o): return isinstance(o, Plain) and o.k == self.k
	def __hash__(self): return hash(('Plain', self.k))

class Unhash:
	def __init__(self, k): self.k = k
	__hash__ = None
	def __eq__(self, o): return isinstance(o, Unhash) and o.k == self.k
	def __repr__(self): return f'Unhash({self.k})'


IGNORE = set(filter(None, os.environ.get('DIFF_IGNORE', '').split(',')))

def names(obj, dunder=False):
	"""dir() listing; the private names a refactor is documented to add are named in DIFF_IGNORE"""
	return sorted(k for k in dir(obj) if (dunder or not k.startswith('__')) and k not in IGNORE)


def srepr(x):
	try:
		return _ADDR.sub('0x', repr(x))
	except Exception as e:
		return f'<repr raised {type(e).__name__}>'


def safe(fn):
	try:
		return fn()
	except Exception as e:
		return f'!{type(e).__name__}' + (f':{e}' if MSGS else '')


def _unstable(x, depth=0):
	"""hash(complex nan) depends on object identity: fingerprints over such values are not reproducible"""
	import cmath
	if depth > 4:
		return False
	if isinstance(x, complex):
		return cmath.isnan(x)
	if isinstance(x, Vector):
		try:
			return any(_unstable(e, depth + 1) for e in x._underlying)
		except Exception:
			return False
	if isinstance(x, (list, tuple, set, frozenset)):
		return any(_unstable(e, depth + 1) for e in x)
	return False


def fp(x):
	if _unstable(x):
		return 'fp-unstable'
	return safe(lambda: x.fingerprint())


def elem(e, depth):
	if isinstance(e, Vector):
		return desc(e, depth + 1)
	return f'{type(e).__name__}:{srepr(e)}'


def desc(x, depth=0):
	if depth > 3:
		return '<deep>'
	if isinstance(x, Table):
		cols = safe(lambda: [desc(c, depth + 1) for c in x._underlying])
		return ('TABLE', type(x).__name__, srepr(x.__dict__.get('_name')), srepr(x.__dict__.get('_dtype')),
			safe(lambda: len(x)), safe(lambda: x.shape), safe(lambda: x.column_names()),
			safe(lambda: names(x)) if depth == 0 else None,
			safe(lambda: sorted(x._fresh_column_map().items())),
			cols, fp(x), srepr(x), x.__dict__.get('_display_as_row'), x.__dict__.get('_repr_rows'))
	if isinstance(x, Vector):
		return ('VEC', type(x).__name__, srepr(safe(lambda: x._name)), srepr(safe(lambda: x.schema())),
			safe(lambda: len(x)), safe(lambda: x.shape),
			safe(lambda: [elem(e, depth) for e in x]), fp(x), srepr(x),
			safe(lambda: x._display_as_row))
	if isinstance(x, (list, tuple)) and any(isinstance(e, Vector) for e in x):
		return (type(x).__name__, [desc(e, depth + 1) for e in x])
	if isinstance(x, DataType):
		return ('DT', srepr(x.kind), x.nullable, srepr(x))
	if isinstance(x, type):
		return ('TYPE', x.__name__)
	return (type(x).__name__, srepr(x))


def probe(label, fn, *keep):
	"""run fn, record result / exception / warnings, then the state of the `keep` objects"""
	with warnings.catch_warnings(record=True) as w:
		warnings.simplefilter('always')
		signal.alarm(20)
		try:
			r = fn()
			res = ('ok', desc(r))
		except Timeout:
			res = ('exc', 'TIMEOUT')
			sys.stderr.write(f'TIMEOUT {label[:300]}\n')
		except RecursionError:
			res = ('exc', 'RecursionError')
		except Exception as e:
			res = ('exc', type(e).__name__, str(e) if MSGS else '', type(e).__mro__[1].__name__)
		finally:
			signal.alarm(0)
		ws = [(x.category.__name__, str(x.message) if MSGS else '') for x in w]
	with warnings.catch_warnings():
		warnings.simplefilter('ignore')
		st = [desc(k) for k in keep]
	OUT.append(f'{label} | {res} | {ws} | {st}')


# ------------------------------------------------------------------ value pools
D0 = date(2024, 1, 31)
T0 = datetime(2024, 1, 31, 12, 30)

def pool(kind, rng):
	if kind == 'int': return rng.choice([0, 1, -3, 7, 2, 5, 12])
	if kind == 'bool': return rng.choice([True, False])
	if kind == 'float': return rng.choice([0.5, -2.25, 3.0, float('nan'), float('inf'), 1e300, 1e-7, 2.0])
	if kind == 'complex': return rng.choice([1j, 2 + 3j, complex(0, 0)])
	if kind == 'str': return rng.choice(['a', 'b', 'hello world', '', '2024-01-31', 'x,y', '...', 'Zed', '12'])
	if kind == 'bytes': return rng.choice([b'a', b'', b'xyz'])
	if kind == 'date': return D0 + timedelta(days=rng.choice([0, 1, -40, 400, 29]))
	if kind == 'datetime': return T0 + timedelta(hours=rng.choice([0, -12.5, 5, 24 * 31, -24*40]))
	if kind == 'myint': return MyInt(rng.choice([1, 2, 9]))
	if kind == 'myfloat': return MyFloat(rng.choice([1.5, 2.5]))
	if kind == 'mystr': return MyStr(rng.choice(['s', 'tt']))
	if kind == 'mydate': return MyDate(2023, 5, rng.choice([1, 17]))
	if kind == 'mydt': return MyDT(2023, 5, 1, rng.choice([0, 13]))
	if kind == 'mybytes': return MyBytes(b'q')
	if kind == 'mycomplex': return MyComplex(1, 1)
	if kind == 'list': return rng.choice([[1, 2], [], ['a']])
	if kind == 'mylist': return MyList([1])
	if kind == 'tuple': return rng.choice([(1, 2), (), ('a', None)])
	if kind == 'mytuple': return MyTuple((1,))
	if kind == 'dict': return rng.choice([{'a': 1}, {}])
	if kind == 'mydict': return MyDict(a=1)
	if kind == 'set': return rng.choice([{1, 2}, set()])
	if kind == 'decimal': return Decimal(rng.choice(['1.5', '2']))
	if kind == 'fraction': return Fraction(1, rng.choice([2, 3]))
	if kind == 'oddeq': return OddEq(rng.choice([1, 2]))
	if kind == 'raiseeq': return RaiseEq(1)
	if kind == 'plain': return Plain(rng.choice([1, 2]))
	if kind == 'unhash': return Unhash(1)
	if kind == 'none': return None
	if kind == 'hugeint_float': return rng.choice([1.5, 10**400])
	if kind == 'bigint': return rng.choice([2**70, -2**64, 3])
	raise KeyError(kind)

LADDER = ['int', 'bool', 'float', 'complex', 'str', 'bytes', 'date', 'datetime']
SUBS = ['myint', 'myfloat', 'mystr', 'mydate', 'mydt', 'mybytes', 'mycomplex']
ODD = ['list', 'mylist', 'tuple', 'mytuple', 'dict', 'mydict', 'set', 'decimal', 'fraction', 'oddeq', 'raiseeq', 'plain', 'unhash']
ALLK = LADDER + SUBS + ODD + ['none']
NAMES = [None, 'a', 'b', 'A', 'total', 'my col', 'sum', 'shape', 'class', 'for', 'col1_', 'a__1', 'x_', '1st', '', 'T',
	'name', 'None', 3, 2.5, ('t', 1), 'über', 'a-b', '_priv', 'copy', 'import', 'Sum', 'a b', 'a_b', 'col0_', '__', 'é', 'True']


def rscalar(rng, kinds=None):
	return pool(rng.choice(kinds or ALLK), rng)


def rvalues(rng, n=None, kinds=None, p_none=0.2):
	if n is None:
		n = rng.choice([0, 1, 2, 3, 3, 4, 5])
	mode = rng.random()
	if kinds is None:
		if mode < 0.55:
			kinds = [rng.choice(LADDER)]
		elif mode < 0.75:
			kinds = rng.sample(LADDER + SUBS, 2)
		elif mode < 0.9:
			kinds = rng.sample(ALLK, 2)
		else:
			kinds = rng.sample(ALLK, 3)
	out = []
	for _ in range(n):
		if rng.random() < p_none:
			out.append(None)
		else:
			out.append(pool(rng.choice(kinds), rng))
	return out


def rvec(rng, n=None, kinds=None, p_none=0.2, named=True):
	vals = rvalues(rng, n, kinds, p_none)
	name = rng.choice(NAMES) if named and rng.random() < 0.6 else None
	with warnings.catch_warnings():
		warnings.simplefilter('ignore')
		r = rng.random()
		if r < 0.1:
			return Vector(tuple(vals), name=name)
		if r < 0.15:
			return Vector(iter(vals), name=name)
		if r < 0.2 and vals:
			try:
				return Vector(vals, dtype=styping.infer_dtype(vals).with_nullable(True), name=name)
			except Exception:
				pass
		return Vector(vals, name=name)


def rtable(rng, nrows=None, ncols=None, kinds=None, p_none=0.15, names=None):
	if nrows is None:
		nrows = rng.choice([0, 1, 2, 3, 3, 4])
	if ncols is None:
		ncols = rng.choice([0, 1, 2, 2, 3, 3, 4])
	cols = []
	for i in range(ncols):
		v = rvec(rng, nrows, kinds=kinds and [rng.choice(kinds)], p_none=p_none, named=False)
		if names is not None:
			v._name = names[i % len(names)]
		elif rng.random() < 0.8:
			v._name = rng.choice(NAMES)
		cols.append(v)
	with warnings.catch_warnings():
		warnings.simplefilter('ignore')
		return Table(cols)


def rkey(rng, n):
	"""an index key for a vector/table of n rows"""
	r = rng.randrange(16)
	if r == 0: return rng.randrange(-n - 1, n + 1) if n else 0
	if r == 1: return slice(rng.choice([None, 0, 1, -1]), rng.choice([None, n, 2, -1]), rng.choice([None, 1, 2, -1]))
	if r == 2: return Vector([rng.random() < 0.5 for _ in range(n)])
	if r == 3: return [rng.random() < 0.5 for _ in range(n)]
	if r == 4: return Vector([rng.randrange(-n, n) for _ in range(rng.randrange(0, 4))] if n else [])
	if r == 5: return [rng.randrange(-n, n) for _ in range(rng.randrange(0, 4))] if n else []
	if r == 6: return Vector([])
	if r == 7: return Vector([], dtype=bool)
	if r == 8: return Vector([True, None, False][:n] if n else [None])
	if r == 9: return tuple(rng.randrange(-n, n) for _ in range(rng.randrange(1, 3))) if n else (0,)
	if r == 10: return Vector([rng.random() < 0.5 for _ in range(n + 1)])
	if r == 11: return [n + 2]
	if r == 12: return rng.choice(['a', 1.5, None, {1}, b'x'])
	if r == 13: return Vector([n + 3]) if n else Vector([0])
	if r == 14: return True
	return slice(None)


BIN = [('add', operator.add), ('sub', operator.sub), ('mul', operator.mul), ('truediv', operator.truediv),
	('floordiv', operator.floordiv), ('mod', operator.mod), ('pow', operator.pow)]
CMP = [('eq', operator.eq), ('ne', operator.ne), ('lt', operator.lt), ('le', operator.le), ('gt', operator.gt), ('ge', operator.ge),
	('and', operator.and_), ('or', operator.or_), ('xor', operator.xor)]
UNA = [('neg', operator.neg), ('pos', operator.pos), ('abs', abs), ('inv', operator.invert)]


# ------------------------------------------------------------------ scenarios
def s_typing(rng, tag):
	# infer_kind / infer_dtype / promote_with / validate_scalar over the whole pool
	for k in ALLK:
		v = pool(k, rng)
		probe(f'{tag} infer_kind {k}', lambda: styping.infer_kind(v))
	kinds_t = [int, bool, float, complex, str, bytes, date, datetime, object, list, dict, tuple, Decimal, MyInt, MyDate, set]
	for kt in kinds_t:
		for nullable in (False, True):
			dt = DataType(kt, nullable)
			probe(f'{tag} dt {kt.__name__}', lambda: (dt.is_numeric, dt.is_temporal, repr(dt), dt.with_nullable(not nullable), dt == DataType(kt, nullable), hash(dt) == hash(DataType(kt, nullable))))
			for k in ALLK:
				v = pool(k, rng)
				probe(f'{tag} promote {kt.__name__}{nullable} {k} {srepr(v)}', lambda: dt.promote_with(v))
				probe(f'{tag} validate {kt.__name__}{nullable} {k} {srepr(v)}', lambda: elem(styping.validate_scalar(v, dt), 0))
	for i in range(150):
		vals = rvalues(rng, kinds=rng.sample(ALLK, rng.choice([1, 2, 2, 3])), p_none=0.25)
		probe(f'{tag} infer_dtype {srepr(vals)}', lambda: styping.infer_dtype(vals))
		probe(f'{tag} infer_dtype-gen', lambda: styping.infer_dtype(x for x in vals))
		probe(f'{tag} infer_dtype-rev', lambda: styping.infer_dtype(list(reversed(vals))))
	probe(f'{tag} slice_length', lambda: [serif.typeutils.slice_length(slice(a, b, c), n)
		for a in (None, 0, 2, -1, -9, 9) for b in (None, 0, 3, -1, -9, 9) for c in (None, 1, 2, -1, -3) for n in (0, 1, 5)])
	probe(f'{tag} slice_length0', lambda: serif.typeutils.slice_length(slice(0, 3, 0), 5))


def s_construct(rng, tag):
	vals = rvalues(rng)
	name = rng.choice(NAMES)
	probe(f'{tag} Vector({srepr(vals)})', lambda: Vector(vals, name=name))
	probe(f'{tag} Vector(tuple)', lambda: Vector(tuple(vals)))
	probe(f'{tag} Vector(gen)', lambda: Vector(x for x in vals))
	for dt in (int, float, str, object, date, datetime, bool, complex, DataType(int, True), DataType(object, True)):
		probe(f'{tag} Vector(dtype={srepr(dt)})', lambda: Vector(vals, dtype=dt))
		probe(f'{tag} Vector([], dtype={srepr(dt)})', lambda: Vector([], dtype=dt, name=name))
	v = rvec(rng)
	probe(f'{tag} Vector(v)', lambda: Vector(v), v)
	probe(f'{tag} Vector(v,name)', lambda: Vector(v, name='z'), v)
	probe(f'{tag} Table(dict v)', lambda: Table({'a': v, 'b': list(v)}), v)
	probe(f'{tag} Table(dict empty v)', lambda: Table({'a': Vector([])}))
	probe(f'{tag} Vector(empty v)', lambda: Vector(Vector([])))
	w = rvec(rng, len(v))
	probe(f'{tag} Vector([v,w])', lambda: Vector([v, w]), v, w)
	probe(f'{tag} Vector((v,w2))', lambda: Vector((v, rvec(rng, len(v) + 1))))
	probe(f'{tag} Table([v,w2])', lambda: Table([v, rvec(rng, len(v) + 1)]))
	d = rscalar(rng)
	for n in (0, 1, 3):
		for ts in (False, True):
			probe(f'{tag} new({srepr(d)},{n},{ts})', lambda: Vector.new(d, n, typesafe=ts))
	probe(f'{tag} new(None)', lambda: [Vector.new(None, 2, True), Vector.new(None, 0, True), Vector.new(None, 2), Vector.new(None, 0)])
	probe(f'{tag} Table()', lambda: Table())
	probe(f'{tag} Table({{}})', lambda: Table({}))
	probe(f'{tag} Table ragged', lambda: Table({'a': [1, 2], 'b': [1]}))
	probe(f'{tag} Table scalar', lambda: Table({'a': 1}))
	probe(f'{tag} Table as_row', lambda: Table([Vector([1, 2])], name='nm', as_row=True))
	probe(f'{tag} Vector as_row', lambda: Vector(vals, as_row=True))
	probe(f'{tag} Vector kwargs', lambda: Vector(vals, foo=1))


def s_vec_methods(rng, tag):
	v = rvec(rng)
	lab = f'{tag} {srepr(list(v))}'
	for m in ('max', 'min', 'sum', 'all', 'any', 'mean', 'stdev', 'unique', 'argsort', 'dropna', 'isna', 'to_object', 'copy', 'ndims',
			'cols', 'schema', 'fingerprint', 'sort_by', '__copy__', '_mark_tame'):
		probe(f'{lab}.{m}()', lambda: getattr(v, m)(), v)
	probe(f'{lab}.T', lambda: v.T, v)
	probe(f'{lab}.T.T', lambda: v.T.T, v)
	probe(f'{lab}._', lambda: v._)
	probe(f'{lab}.shape', lambda: v.shape)
	probe(f'{lab}.name', lambda: v.name)
	probe(f'{lab} bool', lambda: bool(v))
	probe(f'{lab} len/iter', lambda: (len(v), list(iter(v))))
	probe(f'{lab} stdev pop', lambda: v.stdev(population=True))
	for rev in (False, True):
		for nl in (False, True):
			probe(f'{lab} sort_by({rev},{nl})', lambda: v.sort_by(reverse=rev, na_last=nl), v)
	for t in (int, float, str, date, datetime, bool, complex, (lambda x: x), object, bytes, list):
		probe(f'{lab}.cast({getattr(t, "__name__", "fn")})', lambda: v.cast(t), v)
	for fv in (0, 1.5, 'x', None, True, D0, T0, 2j, MyInt(4), [1], Decimal(1)):
		probe(f'{lab}.fillna({srepr(fv)})', lambda: v.fillna(fv), v)
	for ty in (int, (int, float), str, type(None), date):
		probe(f'{lab}.isinstance', lambda: v.isinstance(ty))
	probe(f'{lab}.pluck', lambda: (v.pluck(0), v.pluck('a', default=-1)))
	probe(f'{lab}.copy(args)', lambda: (v.copy([1, 2]), v.copy(name=None), v.copy(name='q'), v.copy(new_values=())), v)
	probe(f'{lab} copy.copy', lambda: copy.copy(v), v)
	probe(f'{lab} deepcopy', lambda: copy.deepcopy(v), v)
	probe(f'{lab} pickle', lambda: pickle.loads(pickle.dumps(v)), v)
	probe(f'{lab} alias', lambda: v.alias('al'), v)
	probe(f'{lab} rename', lambda: v.rename('rn'), v)
	def setname():
		v.name = 'newname'
		return v
	probe(f'{lab} name=', setname, v)
	for attr in ('year', 'upper', 'real', 'imag', 'bit_length', 'nope', 'day', 'hour', 'is_integer', 'numerator', 'hex', 'decode', '_x', 'conjugate'):
		probe(f'{lab}.{attr}', lambda: getattr(v, attr), v)
		probe(f'{lab}.{attr}()', lambda: getattr(v, attr)(), v)
	probe(f'{lab} dir', lambda: names(v))
	probe(f'{lab} bit', lambda: (v.bit_lshift(1), v.bit_rshift(1)))
	probe(f'{lab} hash', lambda: hash(v))
	probe(f'{lab} _check_native', lambda: [v._check_native_typesafe(x) for x in (1, 1.5, 'a', None, [1])])
	probe(f'{lab} contains', lambda: 1 in v)
	probe(f'{lab} reversed', lambda: list(reversed(v)))
	probe(f'{lab} str', lambda: str(v))
	probe(f'{lab} format', lambda: f'{v}')


def s_str_date_methods(rng, tag):
	s = rvec(rng, kinds=['str'], p_none=0.2)
	lab = f'{tag} {srepr(list(s))}'
	calls = [('upper',), ('lower',), ('capitalize',), ('casefold',), ('center', 7), ('count', 'a'), ('encode',), ('endswith', 'a'), ('expandtabs',),
		('find', 'l'), ('format', 1), ('format_map', {}), ('index', 'a'), ('isalnum',), ('isalpha',), ('isascii',), ('isdecimal',), ('isdigit',),
		('isidentifier',), ('islower',), ('isnumeric',), ('isprintable',), ('isspace',), ('istitle',), ('isupper',), ('join', 'ab'), ('ljust', 5),
		('lstrip',), ('maketrans', 'a', 'b'), ('partition', ' '), ('removeprefix', 'h'), ('removesuffix', 'd'), ('replace', 'a', 'b'), ('rfind', 'l'),
		('rindex', 'a'), ('rjust', 5), ('rpartition', ' '), ('rsplit',), ('rstrip',), ('split',), ('splitlines',), ('startswith', 'h'), ('strip',),
		('swapcase',), ('title',), ('translate', {97: 98}), ('upper',), ('zfill', 4), ('before', ' '), ('after', ' '), ('before_last', 'l'), ('after_last', 'l')]
	for c in calls:
		probe(f'{lab}.{c[0]}', lambda: getattr(s, c[0])(*c[1:]), s)
	d = rvec(rng, kinds=['date'], p_none=0.2)
	lab = f'{tag} {srepr(list(d))}'
	for c in [('ctime',), ('isocalendar',), ('isoformat',), ('isoweekday',), ('replace',), ('strftime', '%Y'), ('timetuple',), ('toordinal',), ('weekday',),
			('eomonth',), ('fromisoformat', '2020-01-01'), ('fromordinal', 730000), ('fromisocalendar', 2020, 1, 1)]:
		probe(f'{lab}.{c[0]}', lambda: getattr(d, c[0])(*c[1:]), d)
	probe(f'{lab}.replace(day=1)', lambda: d.replace(day=1))
	for attr in ('year', 'month', 'day', 'min', 'resolution'):
		probe(f'{lab}.{attr}', lambda: getattr(d, attr))
	for o in (1, -2, True, 1.5, 'x', None, timedelta(days=2), Vector([1] * len(d)), Vector([None] * len(d)), Vector([]), [1] * len(d),
			Vector([timedelta(1)] * len(d)), Vector([1.5] * len(d)), Vector([1, 2, 3, 4, 5, 6, 7])):
		probe(f'{lab} + {srepr(o)}', lambda: d + o, d)
		probe(f'{lab} - {srepr(o)}', lambda: d - o, d)
		probe(f'{srepr(o)} + {lab}', lambda: o + d, d)
	dt = rvec(rng, len(d), kinds=['datetime'], p_none=0.2)
	ds = Vector([None if x is None else x.isoformat() for x in d])
	others = [D0, T0, '2024-01-31', 'garbage', None, 5, dt, ds, Vector(list(d)), list(d), [T0] * len(d), Vector([T0] * len(d)),
		Vector([None] * len(d)), Vector([]), Vector(['2024-01-31'] * len(d)), Vector([D0] * (len(d) + 1)), MyDate(2024, 1, 31), MyDT(2024, 1, 31),
		Vector([MyDT(2024, 1, 31)] * len(d)), Vector([T0, None, D0][:len(d)]) if len(d) <= 3 else Vector([T0] * len(d)), d]
	for o in others:
		for nm, op in CMP[:6]:
			probe(f'{lab} {nm} {srepr(o)}', lambda: op(d, o), d)
			probe(f'{srepr(o)} {nm} {lab}', lambda: op(o, d), d)
	# datetime vector on the left
	for o in (D0, T0, d, list(d)):
		for nm, op in CMP[:6]:
			probe(f'{tag} dt {nm} {srepr(o)}', lambda: op(dt, o), dt)


def s_promote_in_place(rng, tag):
	n = rng.choice([1, 2, 3, 4])
	d = rvec(rng, n, kinds=['date'], p_none=0.25)
	lab = f'{tag} {srepr(list(d))}'
	before = copy.copy(d)
	k = rng.randrange(n)
	def w():
		d[k] = T0
		return d
	probe(f'{lab} [k]=T0', w, d)
	probe(f'{lab} type', lambda: type(d).__name__)
	probe(f'{lab} +1', lambda: d + 1, d)
	probe(f'{lab} + td', lambda: d + timedelta(days=1), d)
	for nm, op in CMP[:6]:
		probe(f'{lab} {nm} T0', lambda: op(d, T0), d)
		probe(f'{lab} {nm} D0', lambda: op(d, D0), d)
		probe(f'{lab} {nm} str', lambda: op(d, '2024-01-31'), d)
		probe(f'{lab} {nm} before', lambda: op(d, before), d, before)
		probe(f'{lab} before {nm}', lambda: op(before, d), d, before)
	probe(f'{lab} eomonth', lambda: d.eomonth())
	probe(f'{lab} year', lambda: d.year)
	def w2():
		d[0] = D0
		return d
	probe(f'{lab} [0]=D0', w2, d)
	# direct _promote calls
	for kinds, target in ((['int'], float), (['int'], complex), (['float'], complex), (['date'], datetime), (['int'], str), (['bool'], int),
			(['float'], int), (['str'], object), (['int'], DataType(float)), (['int'], 'float'), (['int'], int), (['date'], date), (['datetime'], date)):
		v = rvec(rng, 3, kinds=kinds)
		v2 = v  # same object
		probe(f'{tag} _promote {kinds}->{srepr(target)}', lambda: v._promote(target), v)
		def w3():
			v[0] = None
			return type(v).__name__
		probe(f'{tag} after promote write', w3, v)


def s_arith(rng, tag):
	v = rvec(rng)
	n = len(v)
	lab = f'{tag} {srepr(list(v))}'
	others = [rscalar(rng), rscalar(rng, LADDER), rvec(rng, n), rvec(rng, n, kinds=['int']), rvalues(rng, n), tuple(rvalues(rng, n, kinds=['float'])),
		rvec(rng, n + 1), [1] * (n + 1), Vector([]), [], v, None, 'ab', b'x', 2, 0, 1.5, True, range(n), (x for x in range(n)), {1: 2}, {1, 2}]
	for o in others:
		if hasattr(o, '__next__'):
			continue
		for nm, op in BIN:
			probe(f'{lab} {nm} {srepr(o)}', lambda: op(v, o), v)
			if not isinstance(o, Vector):
				probe(f'{srepr(o)} r{nm} {lab}', lambda: op(o, v), v)
		for nm, op in CMP:
			probe(f'{lab} {nm} {srepr(o)}', lambda: op(v, o), v)
			if not isinstance(o, Vector):
				probe(f'{srepr(o)} r{nm} {lab}', lambda: op(o, v), v)
		probe(f'{lab} @ {srepr(o)}', lambda: v @ o, v)
		probe(f'{srepr(o)} @ {lab}', lambda: o @ v, v)
	for nm, op in UNA:
		probe(f'{lab} {nm}', lambda: op(v), v)
	bn = Vector([True, None, False])
	probe(f'{tag} ~nullable bool', lambda: ~bn, bn)
	probe(f'{tag} ~empty bool', lambda: ~Vector([], dtype=bool))
	probe(f'{tag} -empty', lambda: (-Vector([]), -Vector([], dtype=int), abs(Vector([], dtype=DataType(float, True)))))


def s_concat(rng, tag):
	v = rvec(rng)
	n = len(v)
	lab = f'{tag} {srepr(list(v))}'
	t = rtable(rng, n)
	others = [rscalar(rng), rvec(rng), rvec(rng, n), rvec(rng, kinds=['int'], p_none=0), rvalues(rng), [], (), Vector([]), Vector([], dtype=int),
		Vector([], dtype=DataType(int, True)), t, rtable(rng), 1, True, 'ab', None, range(2), {1: 2}, v, Vector([None]), Table({'a': []}), Table({})]
	for o in others:
		probe(f'{lab} << {srepr(o)}', lambda: v << o, v)
		probe(f'{lab} >> {srepr(o)}', lambda: v >> o, v)
		if not isinstance(o, Vector):
			probe(f'{srepr(o)} r<< {lab}', lambda: o << v, v)
			probe(f'{srepr(o)} r>> {lab}', lambda: o >> v, v)
	for e in (Vector([]), Vector([], dtype=int), Vector([], dtype=DataType(str, True)), Vector([], dtype=object)):
		for o in others:
			probe(f'{tag} empty{srepr(e.schema())} << {srepr(o)}', lambda: e << o, e)
			probe(f'{tag} empty{srepr(e.schema())} >> {srepr(o)}', lambda: e >> o, e)
			if not isinstance(o, Vector):
				probe(f'{tag} {srepr(o)} << empty{srepr(e.schema())}', lambda: o << e, e)
				probe(f'{tag} {srepr(o)} >> empty{srepr(e.schema())}', lambda: o >> e, e)
	# freshness: results of << must not share storage with the operand
	for mk in (lambda: v << [], lambda: [] << v, lambda: v << Vector([]), lambda: Vector([]) << v, lambda: v << (), lambda: () << v, lambda: v << Vector([], dtype=int)):
		x = rvec(rng, 3, kinds=['int'], p_none=0)
		v = x
		def go():
			r = mk()
			out = []
			for obj in (r, x):
				try:
					obj[0] = 99
					out.append('w')
				except AliasError:
					out.append('alias')
			return out, r, x
		probe(f'{tag} fresh', go)


def s_vec_index(rng, tag):
	v = rvec(rng)
	n = len(v)
	lab = f'{tag} {srepr(list(v))}'
	for i in range(14):
		k = rkey(rng, n)
		probe(f'{lab}[{srepr(k)}]', lambda: v[k], v)
	probe(f'{lab}[v]', lambda: v[v], v)
	probe(f'{lab}[big]', lambda: Vector(range(1001))[Vector([0, 1])])
	probe(f'{lab}[biglist]', lambda: Vector(range(1001))[[0, 1]])
	for i in range(14):
		w = v.copy()
		k = rkey(rng, n)
		val = rng.choice([rscalar(rng), rscalar(rng, LADDER + SUBS), rvalues(rng, rng.choice([n, 1, 2])), rvec(rng, rng.choice([n, 1, 2])), None,
			pool(rng.choice(LADDER), rng), w, tuple(rvalues(rng, 2)), 'str', (x for x in [1, 2])])
		if hasattr(val, '__next__'):
			val = [1, 2]
		def go():
			w[k] = val
			return w
		probe(f'{lab}[{srepr(k)}]={srepr(val)}', go, w)
	# take back own element of a subclass kind
	for kinds in (['myint'], ['myint', 'int'], ['mystr'], ['mydate', 'date'], ['mydt'], ['myfloat', 'int'], ['mydate', 'mydt'], ['bool', 'myint']):
		w = rvec(rng, 3, kinds=kinds, p_none=0)
		def go2():
			w[0] = w[1]
			w[1:3] = [w[0], w[2]]
			return w
		probe(f'{tag} takeback {kinds}', go2, w)
		for sv in (MyInt(3), MyStr('q'), MyDate(2020, 1, 1), MyDT(2020, 1, 1), MyFloat(1.0), True, 1, 1.0, D0, T0, 'z'):
			w2 = w.copy()
			def go3():
				w2[0] = sv
				return w2
			probe(f'{tag} write {srepr(sv)} into {kinds}', go3, w2)
	# None into object vector, non-nullable
	o = Vector([1, 'a'], dtype=DataType(object))
	def go4():
		o[0] = None
		return o
	probe(f'{tag} None->object', go4, o)
	e = Vector([])
	def go5():
		e[:] = []
		return e
	probe(f'{tag} empty[:] = []', go5, e)
	def go6():
		e[0] = 1
	probe(f'{tag} empty[0] = 1', go6, e)
	def go7():
		e2 = Vector([], dtype=int)
		e2[Vector([])] = 1
		e2[[]] = 1
		e2[()] = 1
		return e2
	probe(f'{tag} empty keys', go7)
	for key in (Vector([]), [], (), Vector([], dtype=int), Vector([], dtype=bool)):
		w = rvec(rng, 3, kinds=['int'], p_none=0)
		def go8():
			w[key] = 5
			return w
		probe(f'{tag} [{srepr(key)}]=5', go8, w)
		def go9():
			w[key] = []
			return w
		probe(f'{tag} [{srepr(key)}]=[]', go9, w)
		probe(f'{tag} get[{srepr(key)}]', lambda: w[key], w)
	# atomicity: mixed good/bad values
	w = rvec(rng, 4, kinds=['int'], p_none=0)
	def go10():
		w[0:3] = [1.5, 'bad', 2]
	probe(f'{tag} atomic', go10, w)
	def go11():
		w[[0, 1, 9]] = [1.5, 2.5, 3.5]
	probe(f'{tag} atomic idx', go11, w)
	def go12():
		w[[0, 1, 9]] = [1.5, 2.5]
	probe(f'{tag} len-vs-range', go12, w)
	def go13():
		w[Vector([0, 9])] = 'x'
	probe(f'{tag} range-vs-type', go13, w)
	def go14():
		w[[0, -1, -4, 3]] = 2 + 1j
		return w
	probe(f'{tag} neg idx complex', go14, w)
	b = Vector([True, False])
	for val in (1, 1.5, 2j, None, 'x', False):
		bb = b.copy()
		def go15():
			bb[0] = val
			return bb
		probe(f'{tag} bool<-{srepr(val)}', go15, bb)


def s_alias(rng, tag):
	v = rvec(rng, rng.choice([0, 1, 3]), kinds=['int', 'float'], p_none=0.1)
	makers = [('copy.copy', lambda x: copy.copy(x)), ('deepcopy', lambda x: copy.deepcopy(x)), ('.copy', lambda x: x.copy()), ('Vector(x)', lambda x: Vector(x)),
		('x[:]', lambda x: x[:]), ('x.T', lambda x: x.T), ('+x', lambda x: +x), ('x<<[]', lambda x: x << []), ('[]<<x', lambda x: [] << x),
		('to_object', lambda x: x.to_object()), ('fillna', lambda x: x.fillna(0)), ('dropna', lambda x: x.dropna()), ('sort', lambda x: x.sort_by()),
		('cast', lambda x: x.cast(float)), ('pickle', lambda x: pickle.loads(pickle.dumps(x))), ('same', lambda x: x),
		('Table col', lambda x: Table([x])._underlying[0]), ('x<<Vector([])', lambda x: x << Vector([])), ('mask', lambda x: x[[True] * len(x)]),
		('reinit', lambda x: (x.__init__(list(x)), x)[1])]
	for nm, mk in makers:
		x = v.copy()
		def go():
			y = mk(x)
			out = []
			for obj in (y, x, y, x):
				try:
					obj[0:1] = [7][:min(1, len(obj))]
					out.append('w')
				except AliasError:
					out.append('alias')
				except Exception as e:
					out.append(type(e).__name__)
			return out, x, y
		probe(f'{tag} alias vec {nm} {srepr(list(v))}', go)
	t = rtable(rng, rng.choice([1, 2, 3]), rng.choice([1, 2, 3]), kinds=['int', 'float', 'str', 'date'], names=['a', 'b', 'c'])
	tmakers = [('copy.copy', copy.copy), ('deepcopy', copy.deepcopy), ('.copy', lambda x: x.copy()), ('[:]', lambda x: x[:]), ('Table(cols)', lambda x: Table(x.cols())),
		('pickle', lambda x: pickle.loads(pickle.dumps(x))), ('T.T', lambda x: x.T.T), ('+t', lambda x: +x), ('t>>{}', lambda x: x >> {}), ('same', lambda x: x),
		("t['a','b']", lambda x: x[tuple(n for n in ('a', 'b', 'c')[:len(x.cols())])]), ('Vector(t)', lambda x: Vector(x)), ('Vector(cols)', lambda x: Vector(x.cols()))]
	for nm, mk in tmakers:
		x = t.copy()
		def go():
			y = mk(x)
			out = []
			for obj in (y, x):
				for how in ('cell', 'col', 'attr', 'row'):
					try:
						if how == 'cell':
							obj[0, 0] = obj[0, 0]
						elif how == 'col':
							obj.cols()[0][0] = None
						elif how == 'attr':
							obj.a = list(obj.a)
						else:
							obj[0] = list(obj[0])
						out.append('w')
					except AliasError:
						out.append('alias')
					except Exception as e:
						out.append(type(e).__name__)
			return out, x, y
		probe(f'{tag} alias table {nm} {srepr(t)}', go)
	# a view of a column, then writes through table and view
	x = t.copy()
	def go2():
		c = x.a
		out = []
		for f in (lambda: c.__setitem__(0, None), lambda: x.__setitem__((0, 'a'), None), lambda: setattr(x, 'a', list(c)), lambda: c.__setitem__(0, None),
				lambda: x.cols()[0].__setitem__(0, None)):
			try:
				f(); out.append('w')
			except AliasError:
				out.append('alias')
			except Exception as e:
				out.append(type(e).__name__)
		return out, x, c
	probe(f'{tag} alias view', go2)
	# two vectors deliberately sharing storage
	a = Vector([1, 2, 3])
	b = Vector([1, 2, 3])
	b._underlying = a._underlying
	serif._ALIAS_TRACKER.register(b, id(b._underlying))
	def go3():
		out = []
		for obj in (a, b):
			for f in (lambda: obj.__setitem__(0, 5), lambda: obj.__setitem__(slice(None), [1, 2, 3]), lambda: obj.__setitem__([True, False, False], 1.5),
					lambda: obj._promote(float), lambda: obj.fillna(0), lambda: obj.__setitem__([], 1)):
				try:
					f(); out.append('w')
				except AliasError as e:
					out.append('alias' + (str(e) if MSGS else ''))
				except Exception as e:
					out.append(type(e).__name__)
		return out, a, b
	probe(f'{tag} alias shared', go3)
	tt = Table({'a': [1, 2, 3], 'b': [4, 5, 6]})
	tt._underlying[1]._underlying = a._underlying
	serif._ALIAS_TRACKER.register(tt._underlying[1], id(a._underlying))
	def go4():
		tt[0] = [9, 9]
	probe(f'{tag} alias table upfront', go4, tt, a)
	probe(f'{tag} tracker', lambda: names(serif._ALIAS_TRACKER))
	def go5():
		tr = type(serif._ALIAS_TRACKER)()
		q = Vector([1])
		tr.register(q, 5); tr.register(q, 5); tr.unregister(q, 5); tr.unregister(q, 6)
		tr.check_writable(q, 5); tr.check_writable(q, 7)
		r = Vector([2])
		tr.register(q, 8); tr.register(r, 8)
		try:
			tr.check_writable(q, 8)
			return 'no'
		except AliasError as e:
			return 'alias', (str(e) if MSGS else '')
	probe(f'{tag} tracker api', go5)


def s_table_basic(rng, tag):
	t = rtable(rng)
	lab = f'{tag} {srepr(t)}'
	probe(f'{lab} desc', lambda: t, t)
	for m in ('column_names', 'copy', '__copy__', 'fingerprint', 'cols', 'ndims', 'max', 'min', 'sum', 'mean', 'stdev', 'all', 'any', 'peek', 'schema',
			'unique', 'isna', 'dropna', 'to_object', 'argsort'):
		probe(f'{lab}.{m}()', lambda: getattr(t, m)(), t)
	probe(f'{lab}.T', lambda: t.T, t)
	probe(f'{lab}.T.T', lambda: t.T.T, t)
	probe(f'{lab} fp T', lambda: (t.fingerprint() == t.T.fingerprint(), t.T.fingerprint()))
	probe(f'{lab} copy.copy', lambda: copy.copy(t), t)
	probe(f'{lab} deepcopy', lambda: copy.deepcopy(t), t)
	probe(f'{lab} pickle', lambda: pickle.loads(pickle.dumps(t)), t)
	probe(f'{lab} rows', lambda: [(srepr(r), list(r), len(r), r.shape, srepr(r.schema())) for r in t], t)
	probe(f'{lab} bool', lambda: bool(t))
	for nm, op in UNA:
		probe(f'{lab} {nm}', lambda: op(t), t)
	for k in range(3):
		for s in (None, 0, 1, 2, 0.5, 1.0, 1.5, 'x', -1):
			probe(f'{lab}.peek({s},{k})', lambda: t.peek(sample=s, top_k=k))
	for a in list(t._fresh_column_map()) + ['a', 'A', 'col0_', 'col9_', 'a__0', 'a__1', 'a__9', '__1', 'sum', 'shape', 'class', 'class_', 'nope', 'T', '_x', 'total__2',
			'my_col', 'col_', 'colx_', 'name', '_name', 'x__', 'copy__3', 'sum__2', 'Sum']:
		probe(f'{lab}.{a}', lambda: getattr(t, a), t)
		probe(f'{lab}[{a!r}]', lambda: t[a], t)
		probe(f'{lab}[0].{a}', lambda: getattr(t[0], a) if len(t) else None)
		probe(f'{lab}[0][{a!r}]', lambda: t[0][a] if len(t) else None)
		probe(f'{lab}[0,{a!r}]', lambda: t[0, a] if len(t) else None)
		probe(f'{lab}[{a!r},0]', lambda: t[a, 0] if len(t) else None)
		probe(f'{lab}[:,{a!r}]', lambda: t[:, a])
		probe(f'{lab}[({a!r},)]', lambda: t[(a,)])
	for nm in t.column_names():
		probe(f'{lab}[name {srepr(nm)}]', lambda: t[nm] if isinstance(nm, str) else None)
	probe(f'{lab} dir', lambda: names(t, dunder=True))
	probe(f'{lab} hasattr', lambda: [hasattr(t, x) for x in ('a', 'zzz', '_underlying', '_column_map', '__deepcopy__', '__getstate__')])
	probe(f'{lab} set_repr_rows', lambda: [(set_repr_rows(k), srepr(t), srepr(t.cols()[0]) if t.cols() else None)[1:] for k in (0, 1, 2, 3, 100, None)])
	set_repr_rows(None)
	def rr():
		t2 = t.copy(); t2._repr_rows = 2
		return srepr(t2)
	probe(f'{lab} _repr_rows', rr)
	probe(f'{lab} set_repr_rows bad', lambda: [safe(lambda: set_repr_rows(k)) for k in (-1, 'a', 1.5, True)])
	set_repr_rows(None)


def s_table_index(rng, tag):
	t = rtable(rng)
	n = len(t)
	nc = len(t.cols())
	lab = f'{tag} {srepr(t)}'
	for i in range(10):
		k = rkey(rng, n)
		probe(f'{lab}[{srepr(k)}]', lambda: t[k], t)
	colspecs = [0, -1, nc, slice(None), slice(0, 1), 'a', 'A', ('a', 'b'), ('a',), (), ['a'], [0], None, 1.5, ('a', 0), Vector([0]), 'nope', ('nope',), 'sum']
	rowspecs = [0, -1, n, slice(None), slice(0, 2), slice(None, None, -1), Vector([True] * n), [True] * n, Vector([0]), [0], Vector([]), None, 'a', ('a', 'b')]
	for i in range(25):
		r, c = rng.choice(rowspecs), rng.choice(colspecs)
		probe(f'{lab}[{srepr(r)},{srepr(c)}]', lambda: t[r, c], t)
	probe(f'{lab}[0,0,0]', lambda: t[0, 0, 0])
	probe(f'{lab}[(0,)]', lambda: t[(0,)])
	probe(f'{lab}[t]', lambda: t[t])
	# row objects
	if n:
		r = t[rng.randrange(n)]
		for k in (0, -1, nc, slice(None), slice(0, 1), 'a', 'A', 'sum', 'shape', 'class', 'nope', [True] * nc, Vector([True] * nc), [0], Vector([0]), Vector([]), (0,), (0, 0), None, 1.5, True, MyStr('a')):
			probe(f'{lab} row[{srepr(k)}]', lambda: r[k])
		for a in ('a', 'A', 'sum', 'shape', 'nope', 'T', 'name', '_index', 'max', 'cast', 'class', 'copy', 'fingerprint', 'set_index', '_underlying'):
			probe(f'{lab} row.{a}', lambda: getattr(r, a))
		probe(f'{lab} row ops', lambda: (r + 1, r == r, r.copy(), r.sum(), r.T, -r, r << [1], r.to_object(), r.fingerprint(), r.isna(), r.cast(str), len(r), list(r), r.shape, r.ndims()))
		probe(f'{lab} row copy', lambda: (copy.copy(r), copy.deepcopy(r)))
		def rw():
			r[0] = 1
		probe(f'{lab} row write', rw, t)
		probe(f'{lab} row dir', lambda: names(r))
		probe(f'{lab} row set_index', lambda: srepr(r.set_index(0)))


def s_table_setitem(rng, tag):
	t0 = rtable(rng, rng.choice([1, 2, 3, 4]), rng.choice([1, 2, 3]), kinds=['int', 'float', 'str', 'date', 'bool', 'datetime'], names=rng.choice([['a', 'b', 'c'], ['a', 'a', 'b'], [None, 'sum', 'x y'], ['class', 'a', 'A']]))
	n, nc = len(t0), len(t0.cols())
	lab = f'{tag} {srepr(t0)}'
	rowspecs = [0, -1, n, slice(None), slice(0, 2), slice(None, None, 2), Vector([i % 2 == 0 for i in range(n)]), [True] * n, Vector([0]), [0, n - 1], Vector([]), (0,), None, 'a', Vector([n]), [False] * n]
	colspecs = [0, -1, nc, slice(None), slice(0, 1), 'a', 'A', 'b', ('a', 'b'), ['a', 0], [0, nc - 1], (), None, 1.5, 'nope', ('a', 'nope'), 'sum', 'class', 'col0_', 'a__1', 'x_y', [1.5]]
	for i in range(40):
		t = t0.copy()
		views = list(t.cols())
		r, c = rng.choice(rowspecs), rng.choice(colspecs)
		val = rng.choice([rscalar(rng, LADDER + SUBS + ['none']), None, 1, 1.5, 'z', D0, T0, rvalues(rng, nc), rvalues(rng, n), rvalues(rng, rng.choice([1, 2, 3])),
			[rvalues(rng, n) for _ in range(nc)], [rvalues(rng, 2) for _ in range(rng.choice([1, 2]))], rtable(rng, n, nc), rtable(rng, rng.choice([1, 2]), rng.choice([1, 2])),
			rvec(rng, n), rvec(rng, nc), tuple(rvalues(rng, nc)), (x for x in range(nc)), {1: 2}, [], [[]], [T0, 'bad'][:nc] + [1] * max(0, nc - 2),
			[T0] * (nc - 1) + [Plain(1)] if nc else [], [Vector(rvalues(rng, n)) for _ in range(nc)]])
		if hasattr(val, '__next__'):
			val = list(val)
		if rng.random() < 0.5:
			key = (r, c)
		else:
			key = r
		def go():
			t[key] = val
			return t
		probe(f'{lab}[{srepr(key)}]={srepr(val)}', go, t, *views)
		# after a failure the table must still be writable everywhere
		def again():
			out = []
			for col in t.cols():
				try:
					col[0:1] = [col[0]] if len(col) else []
					out.append('w')
				except AliasError:
					out.append('alias')
				except Exception as e:
					out.append(type(e).__name__)
			return out, [type(c).__name__ for c in t.cols()]
		probe(f'{lab} after', again, t)
	# roll-back with class restore: date column promoted to datetime, then a later column refuses
	t = Table({'d': [D0, D0 + timedelta(1)], 'i': [1, 2], 's': ['x', 'y']})
	dcol = t.d
	def rb():
		t[0] = [T0, 1.5, 5]
	probe(f'{tag} rollback class', rb, t, dcol)
	probe(f'{tag} rollback class after', lambda: (type(t.d).__name__, t.d + 1, t.d == T0, t.d == D0, t.fingerprint()), t)
	def rb2():
		t[0] = [T0, 1.5, 'ok']
		return t
	probe(f'{tag} no rollback', rb2, t, dcol)
	probe(f'{tag} no rollback after', lambda: (type(t.d).__name__, t.d + timedelta(1), t.d == T0, t.d == D0), t)
	# key is one of the table's own columns
	t = Table({'m': [True, False, True], 'x': [1, 2, 3], 'y': [1.5, 2.5, 3.5]})
	def own():
		t[t.m] = False
		return t
	probe(f'{tag} own mask key', own, t)
	t = Table({'p': [0, 1, 2], 'x': [10, 20, 30], 'y': [1.5, 2.5, 3.5]})
	def own2():
		t[t.p] = 2
		return t
	probe(f'{tag} own pos key', own2, t)
	t = Table({'p': [2, 0, 1], 'x': [10, 20, 30]})
	def own3():
		t[t.p, :] = [[0, 0, 1], [7, 8, 9]]
		return t
	probe(f'{tag} own pos key 2', own3, t)
	t = Table({'m': [True, False], 'x': [1, 2]})
	def own4():
		t[t.m, ('m', 'x')] = Table({'m': [False], 'x': [9]})
		return t
	probe(f'{tag} own mask key table', own4, t)
	# renames through a view are seen
	t = Table({'a': [1, 2], 'b': [3, 4]})
	def ren():
		c = t.a
		c.name = 'zed'
		t[0, 'zed'] = 9
		return t, t[0].zed, t.zed, sorted(k for k in dir(t) if not k.startswith('_'))[:3]
	probe(f'{tag} rename via view', ren, t)
	def ren2():
		t[0, 'a'] = 9
	probe(f'{tag} rename via view old', ren2, t)


def s_table_setattr(rng, tag):
	t0 = rtable(rng, rng.choice([0, 1, 2, 3]), rng.choice([1, 2, 3]), names=rng.choice([['a', 'b', 'c'], ['a', 'a', 'b'], [None, 'sum', 'x y'], ['class', 'a', 'A'], ['my col', 'My Col', 'b']]))
	n = len(t0)
	lab = f'{tag} {srepr(t0)}'
	for a in list(t0._fresh_column_map()) + ['a', 'A', 'a__0', 'a__1', 'a__7', '__1', 'zzz', 'col0_', 'col1_', 'sum', 'b__1', 'my_col', 'my_col__1', '_name', '_repr_rows', '_length', 'name', 'T', 'shape']:
		for val in (rvalues(rng, n), rvec(rng, n), rvalues(rng, n + 1), 5, None, 'str', rvec(rng, n + 1), rtable(rng, n, 1)):
			t = t0.copy()
			def go():
				setattr(t, a, val)
				return t
			probe(f'{lab}.{a}={srepr(val)}', go, t)
	t = t0.copy()
	for old, new in (('a', 'z'), ('nope', 'z'), (None, 'q'), ('z', 'sum'), ('sum', 'class'), ('b', 'z')):
		probe(f'{lab} rename_column({old!r},{new!r})', lambda: t.rename_column(old, new), t)
	for olds, news in ((['a', 'b'], ['b', 'a']), (['a'], ['x', 'y']), (['a', 'a'], ['p', 'q']), (['a', 'nope'], ['p', 'q']), ([], []), (['class'], ['for']), ([None], ['n']), (('a',), ('k',)), ('ab', 'cd'), (['a', 'p'], ['p', 'r'])):
		t = t0.copy()
		probe(f'{lab} rename_columns({olds!r},{news!r})', lambda: t.rename_columns(olds, news), t)
	probe(f'{lab} _resolve_column', lambda: [safe(lambda: desc(t0._resolve_column(s))) for s in ('a', 'nope', Vector([1]), 5, None)])
	def delattr_():
		del t.a
	probe(f'{lab} del', delattr_, t)


def s_table_arith(rng, tag):
	kinds = rng.choice([['int'], ['int', 'float'], ['int', 'float', 'str'], ['date', 'int'], ['bool'], ['int', 'bool', 'float', 'complex']])
	t = rtable(rng, kinds=kinds)
	n, nc = len(t), len(t.cols())
	lab = f'{tag} {srepr(t)}'
	u = rtable(rng, n, nc, kinds=kinds)
	others = [rscalar(rng, LADDER), 2, 1.5, 'a', None, True, rvalues(rng, n, kinds=kinds), rvalues(rng, nc, kinds=kinds), rvec(rng, n, kinds=kinds), rvec(rng, nc, kinds=kinds), u,
		rtable(rng, n, nc + 1, kinds=kinds), rtable(rng, n + 1, nc, kinds=kinds), t, [], (), Vector([]), Table({}), tuple(rvalues(rng, n, kinds=['int'])), range(n), {1: 2}, [rvalues(rng, nc, kinds=['int']) for _ in range(n)], D0, timedelta(1)]
	for o in others:
		for nm, op in BIN:
			probe(f'{lab} {nm} {srepr(o)}', lambda: op(t, o), t)
			probe(f'{srepr(o)} r{nm} {lab}', lambda: op(o, t), t)
		for nm, op in CMP:
			probe(f'{lab} {nm} {srepr(o)}', lambda: op(t, o), t)
			probe(f'{srepr(o)} r{nm} {lab}', lambda: op(o, t), t)
		probe(f'{lab} @ {srepr(o)}', lambda: t @ o, t)
		probe(f'{srepr(o)} @ {lab}', lambda: o @ t, t)
		probe(f'{lab} << {srepr(o)}', lambda: t << o, t)
		probe(f'{lab} >> {srepr(o)}', lambda: t >> o, t)
		probe(f'{srepr(o)} << {lab}', lambda: o << t, t)
		probe(f'{srepr(o)} >> {lab}', lambda: o >> t, t)
	for d in ({'new': rvalues(rng, n)}, {'a': rvec(rng, n)}, {'new': 5}, {'new': rvalues(rng, n + 1)}, {}, {'sum': rvalues(rng, n), 'class': rvalues(rng, n)}, {'n': 'str'}, {3: rvalues(rng, n)}):
		probe(f'{lab} >> {srepr(d)}', lambda: t >> d, t)
	for nm, op in UNA:
		probe(f'{lab} {nm}', lambda: op(t), t)
	b = Table({'x': [True, False], 'y': [False, None]})
	probe(f'{tag} ~bool table', lambda: (~b, -b, +b, abs(b)), b)
	def iops():
		x = t.copy()
		x += 1
		x >>= {'zz': [0] * n}
		x <<= x
		return x
	probe(f'{lab} inplace ops', iops, t)


def s_joins(rng, tag):
	kk = rng.choice([['int'], ['str'], ['int', 'str'], ['date'], ['bool'], ['float'], ['int', 'none'], ['list'], ['unhash', 'int'], ['datetime'], ['complex'], ['bytes'], ['myint']])
	def mk(nrows, names):
		cols = []
		for nm in names:
			if nm.startswith('k'):
				cols.append(Vector(rvalues(rng, nrows, kinds=[rng.choice(kk)], p_none=0.1), name=nm))
			else:
				cols.append(Vector(rvalues(rng, nrows, kinds=[rng.choice(['int', 'str', 'float'])], p_none=0.2), name=nm))
		with warnings.catch_warnings():
			warnings.simplefilter('ignore')
			return Table(cols)
	L = mk(rng.choice([0, 1, 3, 4, 5]), ['k', 'k2', 'lv'])
	R = mk(rng.choice([0, 1, 2, 3, 4]), ['k', 'k2', 'rv'])
	lab = f'{tag} {srepr(L)} {srepr(R)}'
	specs = [('k', 'k'), (['k', 'k2'], ['k', 'k2']), ('k', 'nope'), ('nope', 'k'), (['k'], ['k', 'k2']), ([], []), (L.cols()[0] if L.cols() else 'k', R.cols()[0] if R.cols() else 'k'),
		('lv', 'rv'), ('k', 'rv'), (5, 5), (('k',), ('k',)), (Vector([1]), 'k'), ('k', Vector([1, 2, 3, 4, 5, 6])), (['k', Vector([1])], ['k', 'k2']), ('K', 'k'), (None, None)]
	for meth in ('inner_join', 'join', 'full_join'):
		for lo, ro in specs:
			for ex in ('one_to_one', 'many_to_one', 'one_to_many', 'many_to_many', 'bogus', None):
				if ex is None:
					probe(f'{lab}.{meth}({srepr(lo)},{srepr(ro)})', lambda: getattr(L, meth)(R, lo, ro), L, R)
				else:
					probe(f'{lab}.{meth}({srepr(lo)},{srepr(ro)},{ex})', lambda: getattr(L, meth)(R, lo, ro, expect=ex), L, R)
	probe(f'{lab} hashable', lambda: [safe(lambda: Table._validate_key_tuple_hashable(k, [Vector([1], name='n'), Vector([2])], 3)) for k in ((1, 2), ([1], 2), (1, [2]), (1, {2: 3}))])


def s_group(rng, tag):
	n = rng.choice([0, 1, 3, 5, 6])
	g = Vector(rvalues(rng, n, kinds=[rng.choice(['int', 'str', 'bool', 'date'])], p_none=0.15), name=rng.choice(['g', 'sum', None, 'my g']))
	g2 = Vector(rvalues(rng, n, kinds=['bool'], p_none=0), name=rng.choice(['h', 'g', None]))
	x = Vector(rvalues(rng, n, kinds=[rng.choice(['int', 'float'])], p_none=0.2), name=rng.choice(['x', 'g', None, 'X y']))
	y = Vector(rvalues(rng, n, kinds=[rng.choice(['int', 'float', 'str'])], p_none=0.2), name=rng.choice(['y', 'x', None]))
	with warnings.catch_warnings():
		warnings.simplefilter('ignore')
		t = Table([g, g2, x, y])
	lab = f'{tag} {srepr(t)}'
	c = t.cols()
	overs = [c[0] if c else 'g', [c[0], c[1]] if c else [], 'g', ['g', 'h'], 'nope', Vector([1] * (n + 1)), [], (c[0],) if c else (), 5]
	aggs = ['sum_over', 'mean_over', 'min_over', 'max_over', 'stdev_over', 'count_over']
	for meth in ('aggregate', 'window'):
		for ov in overs:
			for i in range(6):
				kw = {}
				for a in rng.sample(aggs, rng.choice([1, 2, 3, 6])):
					kw[a] = rng.choice([c[2] if c else 'x', [c[2], c[3]] if c else [], 'x', ['x', 'y'], (c[2], c[2]) if c else (), Vector([1] * (n + 1)), 'nope', [], None, c[3] if c else 'y', [c[2], Vector([1] * (n + 1))] if c else None])
				if rng.random() < 0.4:
					kw['apply'] = rng.choice([{'cnt': (c[2] if c else 'x', len)}, {'x_sum': ('x', lambda v: sum(1 for _ in v)), 'x_sum2': ('x', len)}, {'bad': (Vector([1] * (n + 1)), len)}, {}, {'g': ('x', len)}, {'z': ('nope', len)}])
				probe(f'{lab}.{meth}({srepr(ov)},{srepr(sorted(kw))},{srepr(kw)})', lambda: getattr(t, meth)(over=ov, **kw), t)
			probe(f'{lab}.{meth}({srepr(ov)})', lambda: getattr(t, meth)(over=ov), t)
			probe(f'{lab}.{meth}({srepr(ov)}) all', lambda: getattr(t, meth)(ov, 'x', 'x', 'x', 'x', 'x', 'x'), t)
	bys = [c[0] if c else 'g', 'g', ['g', 'h'], ('x',), [], (), 'nope', 5, Vector([1] * (n + 1)), [c[2], c[0]] if c else ['x'], None, 'x']
	for by in bys:
		for rev in (False, True, [True], [True, False], (False, True), 'x', 1, []):
			for nl in (True, False):
				probe(f'{lab}.sort_by({srepr(by)},{srepr(rev)},{nl})', lambda: t.sort_by(by, reverse=rev, na_last=nl), t)


def s_display(rng, tag):
	# names that need quoting, odd values, wide tables, truncation
	names = ['a', 'my col', '1', '1.5', 'None', 'True', '', ' ', 'a,b', "it's", 'a"b', 'x' * 30, 'class', 'sum', 3, 2.5, None, ('t',), '-1', '1e5', 'nan', 'inf', '0x1', '1_000', 'é', 'a\nb', '...', '…', '.5', '5.', '+1', '1j']
	for nm in names:
		probe(f'{tag} name {srepr(nm)}', lambda: (srepr(Vector([1, 2], name=nm)), srepr(Table([Vector([1, 2], name=nm)])), srepr(Table([Vector([1, 2], name=nm), Vector([1, 2], name=nm)]))))
	for kinds in (['float'], ['hugeint_float'], ['bigint'], ['int'], ['str'], ['date'], ['datetime'], ['oddeq'], ['raiseeq'], ['plain', 'str'], ['list'], ['dict'], ['set'], ['bytes'], ['complex'], ['bool'], ['decimal'], ['str', 'int'], ['mystr'], ['tuple'], ['none']):
		for n in (0, 1, 2, 5, 13, 30):
			vals = rvalues(rng, n, kinds=kinds, p_none=0.15)
			probe(f'{tag} repr {kinds} {n}', lambda: (srepr(Vector(vals)), srepr(Vector(vals, name='nm').T), srepr(Table({'a': vals, 'b c': vals}))))
			probe(f'{tag} repr obj {kinds} {n}', lambda: srepr(Vector(vals, dtype=object)))
	probe(f'{tag} float huge', lambda: srepr(Vector([1.5, 10**400], dtype=float)))
	probe(f'{tag} "..." values', lambda: (srepr(Vector(['...', 'a'])), srepr(Vector([..., 1])), srepr(Table({'a': ['...', '..']}))))
	for nc in (1, 5, 9, 10, 11, 12, 15, 25):
		with warnings.catch_warnings():
			warnings.simplefilter('ignore')
			t = Table([Vector(rvalues(rng, 3, kinds=[rng.choice(LADDER)]), name=rng.choice(['a', 'b', None, 'long name here', 'sum'])) for _ in range(nc)])
		probe(f'{tag} wide {nc}', lambda: (srepr(t), srepr(t.T), srepr(t[0:0]), srepr(t.peek())))
	for e in (Vector([]), Vector([], dtype=int), Vector([], dtype=DataType(str, True)), Vector([], name='nm'), Vector([], dtype=object).T, Table({}), Table({'a': []}), Table({'a': [], 'b': []}), Vector([None]), Vector([None, None], name='x'),
			Vector([Vector([1, 2]), Vector([1])]), Vector([Table({'a': [1]}), Table({'a': [2]})])):
		probe(f'{tag} empty-ish', lambda: (srepr(e), safe(lambda: e.shape), safe(lambda: len(e))))
	for k in (0, 1, 2, 5, 12, 13, 100, None):
		set_repr_rows(k)
		probe(f'{tag} rows {k}', lambda: (srepr(Vector(range(40))), srepr(Table({'a': range(40), 'b': [str(i) for i in range(40)]})), srepr(Vector(range(3)))))
	set_repr_rows(None)
	from serif import display
	probe(f'{tag} display api', lambda: sorted(k for k in dir(display) if not k.startswith('_')))
	probe(f'{tag} _needs_quote', lambda: [display._needs_quote(str(x)) for x in names])


def s_csv(rng, tag):
	texts = ['a,b\n1,2\n3,4\n', 'a,b\n', '', 'a,a\n1,x\n', 'x\n1.5\n\n2\n', 'd,t\n2024-01-01,2024-01-01T10:00:00\n', 'class,sum\n1,2\n', 'a;b\n1;2\n', 'a,b\n1\n', 'a,b\ntrue,False\n,\n',
		'\n', 'a,b\n"x,y",2\n', ' a , b \n 1 , 2 \n', 'a,b\n1,2,3\n', 'a\n1\n2.5\nx\n']
	for tx in texts:
		for hh in (True, False):
			for dl in (',', ';'):
				probe(f'{tag} csv {tx!r} {hh} {dl}', lambda: read_csv(io.StringIO(tx), has_header=hh, delimiter=dl))
	probe(f'{tag} csv path', lambda: read_csv('/nonexistent/file.csv'))


def s_fingerprint(rng, tag):
	for i in range(6):
		vals = rvalues(rng, kinds=rng.sample(ALLK, 2))
		v = Vector(vals) if rng.random() < 0.7 else Vector(vals, dtype=object)
		probe(f'{tag} fp {srepr(vals)}', lambda: (v.fingerprint(), Vector(list(reversed(vals))).fingerprint(), Vector._hash_element(vals), [Vector._hash_element(x) for x in vals]))
	probe(f'{tag} fp consts', lambda: (Vector._FP_P, Vector._FP_B, Table._FP_B, Table._FP_P, Vector._hash_element(None), Vector._hash_element(float('nan')), Vector._hash_element(MyFloat('nan')),
		type(Vector._hash_element(None)).__name__, type(Vector._hash_element(float('nan'))).__name__, Vector._hash_element({3, 1, 2}), Vector._hash_element({'a', 1}), Vector._hash_element([[1], (2,)]), Vector._hash_element(Unhash(1)),
		Vector._hash_element(Vector([1, 2])), Vector._hash_element(-1), Vector._hash_element(True)))
	a = rng.sample(range(1, 50), 4)
	t = Table({'a': a[:2], 'b': a[2:]})
	u = Table({'a': [a[0], a[2]], 'b': [a[1], a[3]]})
	w = Table({'a': [a[0], a[3]], 'b': [a[2], a[1]]})
	probe(f'{tag} fp table', lambda: (t.fingerprint(), u.fingerprint(), w.fingerprint(), t.T.fingerprint(), t.fingerprint() == t.T.fingerprint(), t.fingerprint() == u.fingerprint()))
	def wr():
		f0 = t.fingerprint()
		t.a[0] = 77
		f1 = t.fingerprint()
		t[1, 'b'] = 78
		f2 = t.fingerprint()
		t.a = [1, 2]
		f3 = t.fingerprint()
		t.cols()[0].name = 'q'
		return f0, f1, f2, f3, t.fingerprint(), len({f0, f1, f2, f3})
	probe(f'{tag} fp writes', wr, t)
	v = rvec(rng, 4, kinds=['int'], p_none=0)
	def wr2():
		f0 = v.fingerprint()
		v[1] = 1000
		f1 = v.fingerprint()
		v[1] = 1.5
		f2 = v.fingerprint()
		v[[True, False, False, True]] = None
		return f0, f1, f2, v.fingerprint(), v._fp_powers
	probe(f'{tag} fp vec writes', wr2, v)


def s_misc(rng, tag):
	probe(f'{tag} all', lambda: (sorted(serif.__all__), serif.__version__))
	def public(mod):
		# names the module defines itself (imported helpers such as `re` or typing aliases are not its API)
		out = []
		for k in dir(mod):
			v = getattr(mod, k)
			if k.startswith('_') or k in IGNORE or type(v).__name__ == 'module':
				continue
			if getattr(v, '__module__', None) not in (None, mod.__name__):
				continue
			out.append(k)
		return out
	probe(f'{tag} modules', lambda: {m: public(getattr(serif, m)) for m in ('vector', 'table', 'typing', 'naming', 'display', 'csv', 'errors', 'alias_tracker', 'typeutils')})
	probe(f'{tag} table names', lambda: [hasattr(serif.table, k) for k in ('Row', 'Table', '_parse_indexed_attr', '_resolve_binary_name', '_missing_col_error', '_sanitize_user_name')])
	probe(f'{tag} mro', lambda: ([c.__name__ for c in Table.__mro__ if not c.__name__.startswith('_Table')], [c.__name__ for c in serif.table.Row.__mro__], serif.table.Row.__slots__))
	probe(f'{tag} vector names', lambda: (sorted(serif.vector._PROMOTABLE, key=repr), hasattr(serif.vector, '_is_hashable')))
	from serif import naming
	probe(f'{tag} sanitize', lambda: [naming._sanitize_user_name(x) for x in NAMES + ['class', 'Class', 'def', 'match', 'print', 'None_', 'a.b', 'a  b', '__init__', '9', 'Ünï', 'sum_', 'T', 't', 'yield', 'async', 'is']])
	probe(f'{tag} reserved', lambda: sorted(naming._get_reserved_names()))
	probe(f'{tag} parse', lambda: [safe(lambda: serif.table._parse_indexed_attr(x)) for x in ('a', 'a__1', '__1', 'a__b', 'sum__2', 'a__1__2', 'class__0', 'A__01', '')])
	probe(f'{tag} binname', lambda: [serif.table._resolve_binary_name(a, b) for a in (None, 'a', 'b') for b in (None, 'a', 'b')])
	probe(f'{tag} errors', lambda: [(e.__name__, [b.__name__ for b in e.__mro__]) for e in (serif.SerifError, serif.SerifKeyError, serif.SerifValueError, serif.SerifTypeError, serif.SerifIndexError, AliasError)])
	mp = Vector([5, None]).bit_length
	probe(f'{tag} proxy', lambda: (type(mp).__name__, mp(), mp._method_name, mp._vector))
	if 'slots' not in IGNORE:
		# whether helper objects carry an instance __dict__ (a refactor may document adding __slots__)
		def mp_set():
			mp.foo = 1
			return mp.foo
		probe(f'{tag} proxy setattr', mp_set)
		probe(f'{tag} proxy/tracker dict', lambda: (hasattr(mp, '__dict__'), hasattr(serif._ALIAS_TRACKER, '__dict__')))
	probe(f'{tag} matmul', lambda: (Table({'a': [1, 2], 'b': [3, 4]}) @ Vector([1, 2]), Table({'a': [1, 2], 'b': [3, 4]}) @ Table({'a': [1, 2], 'b': [3, 4]}), Vector([1, 2]) @ Vector([3, 4]), [1, 2] @ Vector([3, 4]), Vector([1, 2]) @ Table({'a': [1, 2]})))
	# nested vectors
	probe(f'{tag} nested', lambda: (Vector([Vector([1, 2]), Vector([3])]), Vector([Vector([1, 2]), Vector([3])])[0], Vector([Vector([1, 2]), Vector([3, 4])])[0, 1], Vector([Table({'a': [1]}), Table({'a': [2]})])))


SCENARIOS = [
	(s_typing, 1), (s_construct, 25), (s_vec_methods, 30), (s_str_date_methods, 8), (s_promote_in_place, 10), (s_arith, 25), (s_concat, 20), (s_vec_index, 30),
	(s_alias, 12), (s_table_basic, 25), (s_table_index, 25), (s_table_setitem, 25), (s_table_setattr, 12), (s_table_arith, 20), (s_joins, 14), (s_group, 12),
	(s_display, 2), (s_csv, 1), (s_fingerprint, 10), (s_misc, 1),
]


def main():
	only = os.environ.get('DIFF_ONLY')
	for fn, reps in SCENARIOS:
		if only and fn.__name__ not in only.split(','):
			continue
		t_start = time.time(); n0 = len(OUT)
		for i in range(reps * N):
			rng = random.Random(f'{fn.__name__}-{i}')
			tag = f'{fn.__name__}#{i}'
			try:
				fn(rng, tag)
			except Exception as e:
				import traceback
				OUT.append(f'{tag} HARNESS-ERROR {type(e).__name__} {e} {traceback.format_exc()[-600:]!r}')
		sys.stderr.write(f'{fn.__name__}: {len(OUT) - n0} probes {time.time() - t_start:.1f}s\n')
	sys.stdout.write('\n'.join(OUT) + '\n')
	sys.stderr.write(f'{len(OUT)} probes\n')


main()
