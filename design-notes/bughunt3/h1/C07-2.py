# C07: "v[mask] keeps exactly the positions where the mask is True ... all boolean masks of the right
#      and of the wrong length" / "all vectors"
# The right-length boolean mask of an EMPTY vector is the empty mask.  Given as a plain list ([]) it is
# refused with SerifTypeError, given as an untyped empty Vector it crashes with AttributeError, while
# the non-empty list/Vector forms work and v[[]] = x (assignment) accepts the same key.
# Low confidence: [] carries no bools, so it is debatable whether it "is" a boolean mask.
import sys, warnings
from serif import Vector
warnings.simplefilter('ignore')
bad = False
for label, mk in [("Vector([])", lambda: Vector([])), ("Vector([1,2])[[False,False]]", lambda: Vector([1, 2])[[False, False]])]:
    e = mk()
    for klabel, key in [("[]", []), ("Vector([])", Vector([]))]:
        try:
            r = e[key]; print(f"{label}[{klabel}] ->", list(r))
        except Exception as ex:
            print(f"{label}[{klabel}] raised", type(ex).__name__, ex); bad = True
    try:
        e[[]] = 5; print(f"{label}[[]] = 5 accepted")
    except Exception as ex:
        print(f"{label}[[]] = 5 raised", type(ex).__name__)
print("VIOLATION (low)" if bad else "ok")
sys.exit(1 if bad else 0)
