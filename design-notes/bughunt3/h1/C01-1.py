# C01: "A write through any Vector or Table handle changes only that object ... every other vector or
#       table the program holds - ... copies ... - still shows exactly its previous contents ...
#       A write that cannot be kept local is refused with AliasError and changes nothing."
# copy.copy(table) (made to work by the fix for the t == t RecursionError) returns a second Table
# object that shares the very same column Vector objects with the original.  A cell / column-view /
# row write (or a rename) through either handle silently changes the other one; no AliasError.
# (copy.deepcopy, pickle round trips and Table.copy() are independent; copy.copy of a Vector is safe
# because vector writes are copy-on-write.)
import copy, sys, warnings
from serif import Table
warnings.simplefilter('ignore')
bad = False
for label, write in [
    ("column view  c.a[0] = 99", lambda c: c.a.__setitem__(0, 99)),
    ("cell         c[1, 'a'] = 77", lambda c: c.__setitem__((1, 'a'), 77)),
    ("row          c[2] = [55, 'q']", lambda c: c.__setitem__(2, [55, 'q'])),
    ("rename       c.rename_column('b', 'zz')", lambda c: c.rename_column('b', 'zz')),
]:
    t = Table({'a': [1, 2, 3], 'b': ['x', 'y', 'z']})
    before = ([list(col) for col in t.cols()], t.column_names())
    c = copy.copy(t)
    try:
        write(c)
        err = None
    except Exception as e:
        err = e
    after = ([list(col) for col in t.cols()], t.column_names())
    print(f"{label:45s} original before={before} after={after} exc={err!r}")
    if after != before:
        bad = True
print("VIOLATION: a write through copy.copy(t) changed t" if bad else "ok")
sys.exit(1 if bad else 0)
