# C08: "table ... column and region assignment do the same [as Python list assignment] on the
#      addressed cells only"; C01: the right-hand side of an assignment is a value.
# Same root cause as C08-1, on the value side: the columns of the value are read lazily, one per
# target column, while the target columns are being written.  When the value holds live views of
# columns of the same table, a later target receives data that the same statement already overwrote:
#   t[0:3, ('a','b')] = [t.b, t.a]      ->  both columns end up equal to the old b
# whereas the (copying) selection t['b','a'] as value performs the swap.
import sys, warnings
from serif import Table
warnings.simplefilter('ignore')
t = Table({'a': [1, 2, 3], 'b': [4, 5, 6]})
t[0:3, ('a', 'b')] = [t.b, t.a]
got = [list(c) for c in t.cols()]
t2 = Table({'a': [1, 2, 3], 'b': [4, 5, 6]})
t2[0:3] = t2['b', 'a']
ref = [list(c) for c in t2.cols()]
print("with live views   :", got)
print("with t['b','a']   :", ref)
bad = got != [[4, 5, 6], [1, 2, 3]]
print("VIOLATION (low confidence: live views on the right-hand side)" if bad else "ok")
sys.exit(1 if bad else 0)
