# C08: "v[key] = value ... leaves the vector with exactly the contents Python list assignment would
#      produce ... an incompatible value is rejected with SerifTypeError"
# A float (or complex) vector may hold an int too large for a float -- Vector([10**400, 2.5]) is
# <float> and keeps the int un-coerced, as every int assigned into a float vector is kept un-coerced --
# but it refuses to take that same element back: v[0] = v[0] raises OverflowError (validate_scalar
# calls float(value) only to throw the result away).  An int is a compatible (narrower) kind for a
# float column, so the assignment should succeed like list assignment; it is neither accepted nor
# rejected with SerifTypeError.  (Atomicity holds: the vector is unchanged.)  Low confidence: edge of
# the "big ints" exclusions.
import sys, warnings
from serif import Vector
warnings.simplefilter('ignore')
bad = False
v = Vector([10**400, 2.5])
print("Vector([10**400, 2.5]) ->", v.schema(), "element type", type(v[0]).__name__)
for label, f in [("v[0] = v[0]", lambda: v.__setitem__(0, v[0])), ("v[1] = 10**400", lambda: v.__setitem__(1, 10**400))]:
    try:
        f(); print(label, "accepted")
    except Exception as e:
        print(label, "raised", type(e).__name__, e); bad = True
w = Vector([1.5, 2.5]); w[0] = 7
print("control: float vector takes int 7 un-coerced ->", [type(x).__name__ for x in w])
print("VIOLATION (low)" if bad else "ok")
sys.exit(1 if bad else 0)
