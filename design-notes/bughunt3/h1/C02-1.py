# C02: "Structural operations preserve cells: >> appends columns and leaves existing ones untouched"
#      "every Table has columns of one common length equal to len(table), its shape is (rows, columns),
#       and the i-th row ... equals the tuple of the i-th values of its columns"
# The reflected / vector-on-the-left forms of >> with a table on the right do not append columns:
#   [7, 8] >> t   (Vector.__rrshift__, inherited by Table) wraps the whole table as ONE cell-column:
#                 the result is a 2-column "table" whose second column is a nested Table, although no
#                 nested input was given (t >> [7, 8] gives the expected flat 3-column table);
#   v >> t        with a non-nullable vector v raises AttributeError ('NoneType' ... 'nullable').
import sys, warnings
from serif import Table, Vector
warnings.simplefilter('ignore')
bad = False
t = Table({'a': [1, 2], 'b': ['x', 'y']})
ok = t >> [7, 8]
print("t >> [7,8] :", ok.shape, [list(c) for c in ok.cols()])
r = [7, 8] >> t
cols = r.cols()
print("[7,8] >> t : columns =", len(cols), "types =", [type(c).__name__ for c in cols], "shape =", r.shape)
flat = len(cols) == 3 and all(not isinstance(c, Table) for c in cols) and \
       [list(c) for c in cols] == [[7, 8], [1, 2], ['x', 'y']]
if not flat:
    print("  -> not the flat table [[7,8],[1,2],['x','y']]; second column is", type(cols[1]).__name__)
    bad = True
try:
    r2 = Vector([5, 6], name='v') >> t
    print("v >> t     :", r2.shape, [list(c) for c in r2.cols()])
except Exception as e:
    print("v >> t     : raised", type(e).__name__, e)
    bad = True
print("control: Vector([5, None]) >> t ->", (Vector([5, None]) >> t).shape)
print("VIOLATION" if bad else "ok")
sys.exit(1 if bad else 0)
