# C05: "For every arithmetic operator ... applied to a vector and a ... scalar ..., the result is a new
#      vector of the same length whose i-th element is exactly what Python computes for the i-th operands"
#      quantifier: "all values for which Python itself defines the scalar operation"
# C07: "Comparison ... computed elementwise by Python's own comparison"
# C08: "v[key] = value ... with a scalar ..."
# Members of enum.IntFlag / enum.Flag are scalars (an IntFlag member IS an int; a vector of them is an
# <int> vector), but since Python 3.11 they are also iterable and have a len().  The library decides
# "scalar or sequence" with isinstance(x, Iterable), so such an operand is taken for a sequence of its
# single-bit members: it is recycled member by member when the lengths happen to agree, and raises a
# length mismatch otherwise.
import sys, enum, warnings
from serif import Vector, Table
warnings.simplefilter('ignore')
class P(enum.IntFlag):
    R = 4; W = 2; X = 1
RW = P.R | P.W                        # int value 6
bad = False
def check(label, f, exp):
    global bad
    try:
        got = list(f())
    except Exception as e:
        got = f'{type(e).__name__}: {e}'
    ok = got == exp
    print(f"{label:32s} -> {got}   python: {exp}   {'ok' if ok else 'WRONG'}")
    bad |= not ok
v = Vector([1, 2])
check("Vector([1,2]) + (P.R|P.W)", lambda: v + RW, [x + RW for x in (1, 2)])
check("(P.R|P.W) + Vector([1,2])", lambda: RW + v, [RW + x for x in (1, 2)])
check("Vector([1,2]) * P.R", lambda: v * P.R, [x * P.R for x in (1, 2)])
check("Vector([6,4]) == (P.R|P.W)", lambda: Vector([6, 4]) == RW, [6 == RW, 4 == RW])
check("Vector([6,4]) & (P.R|P.W)", lambda: Vector([6, 4]) & RW, [bool(6 & RW), bool(4 & RW)])
def assign():
    x = Vector([1, 2, 3]); x[0:2] = RW; return x
check("x[0:2] = P.R|P.W (scalar)", assign, [6, 6, 3])
def tassign():
    t = Table({'a': [1, 2], 'b': [3, 4]}); t[0] = RW; return [list(c) for c in t.cols()]
check("t[0] = P.R|P.W (scalar row fill)", tassign, [[6, 2], [6, 4]])
print("VIOLATION" if bad else "ok")
sys.exit(1 if bad else 0)
