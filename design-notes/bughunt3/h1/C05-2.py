# C05: "The broadcast string, numeric and date methods and properties (v.upper(), v.bit_length(),
#      dates.year, dates + days) obey the same rule ...: element i of the result is the method applied
#      to element i, None staying None" and operand forms "vector, scalar, list".
# dates + days is day arithmetic for an int scalar and for an int Vector, but for a plain LIST of days
# (and for a bool Vector, although a bool scalar counts as days) it silently returns an <object>
# vector of (date, n) tuples -- neither the dates nor an error.
# Low confidence: Python itself does not define date + int, so the list form may be read as outside
# the quantifier; the complaint is the silent tuple result for one operand form of a supported op.
import sys, warnings
from datetime import date
from serif import Vector
warnings.simplefilter('ignore')
d = Vector([date(2020, 1, 31), None])
print("d + 1            ->", list(d + 1))
print("d + Vector([1,2]) ->", list(d + Vector([1, 2])))
r = d + [1, 2]
print("d + [1, 2]        ->", list(r), r.schema())
r2 = Vector([date(2020, 1, 31)]) + Vector([True])
print("d + Vector([True]) ->", list(r2), " but d + True ->", list(Vector([date(2020, 1, 31)]) + True))
bad = list(r) != [date(2020, 2, 1), None]
print("VIOLATION (low)" if bad else "ok")
sys.exit(1 if bad else 0)
