# C02: "Structural operations preserve cells: >> appends columns and leaves existing ones untouched"
#      quantifier: "all tables reachable by any finite sequence of constructions (from dicts, vectors,
#      >>, <<, ...)"; docs/table-model.md: "Tables are built via column stacking: v1 >> v2 >> v3" and
#      "dtype is per-column".
# Vector.__rshift__ applies the row-concatenation ("typesafe") rule of << to COLUMN binding and reads the
# dtype unguarded:
#   Vector([1, 2]) >> Vector(['a', 'b'])      -> SerifTypeError "Cannot concatenate two typesafe Vectors of
#                                                 different types" (an int column next to a str column!)
#   Vector([1, None]) >> Vector(['a', 'b'])   -> works (a None in the data decides whether two columns may
#                                                 stand side by side); Table >> Vector(['a','b']) works too
#   Vector([]) >> Vector([]), t0.a >> t0.b    -> AttributeError 'NoneType' object has no attribute 'kind'
#                                                 (zero-row columns; sibling of the fixed `<<` crash)
# Medium/low confidence: these are refusals/crashes of valid column stacking, not corrupted cells.
import sys, warnings
from serif import Vector, Table
warnings.simplefilter('ignore')
bad = False
def attempt(label, f, expected_cells):
    global bad
    try:
        r = f()
        cells = [list(c) for c in r.cols()]
        print(label, '->', r.shape, cells)
        if cells != expected_cells: bad = True
    except Exception as e:
        print(label, 'raised', type(e).__name__, e); bad = True
attempt("Vector([1,2]) >> Vector(['a','b'])", lambda: Vector([1, 2]) >> Vector(['a', 'b']), [[1, 2], ['a', 'b']])
attempt("Vector([1,2]) >> Vector([1.5,2.5])", lambda: Vector([1, 2]) >> Vector([1.5, 2.5]), [[1, 2], [1.5, 2.5]])
attempt("control Vector([1,None]) >> Vector(['a','b'])", lambda: Vector([1, None]) >> Vector(['a', 'b']), [[1, None], ['a', 'b']])
attempt("control Table({'x':[1,2]}) >> Vector(['a','b'])", lambda: Table({'x': [1, 2]}) >> Vector(['a', 'b']), [[1, 2], ['a', 'b']])
attempt("Vector([]) >> Vector([])", lambda: Vector([]) >> Vector([]), [[], []])
t0 = Table({'a': [], 'b': []})
attempt("t0.a >> t0.b (zero-row columns)", lambda: t0.a >> t0.b, [[], []])
print("VIOLATION" if bad else "ok")
sys.exit(1 if bad else 0)
