# C07: "Comparison and logical operators return non-nullable boolean vectors computed elementwise"
#      (and C02: shape is (rows, columns)).
# Logical NOT of a boolean table -- the natural complement of a comparison result such as ~(t > 1) --
# is not applied cell by cell in place: Vector.__invert__ iterates the table's ROWS, so the result is
# the TRANSPOSED table (a 3x2 mask becomes 2x3).  This is the sibling of the fixed "-t, +t and abs(t)
# returned the transposed table" defect; Table got __neg__/__pos__/__abs__ but not __invert__.
import sys, warnings
from serif import Table
warnings.simplefilter('ignore')
t = Table({'a': [1, 2, 3], 'b': [3, 2, 1]})
m = t > 1
n = ~m
exp = [[not x for x in col] for col in m.cols()]
got = [list(c) for c in n.cols()]
print("t > 1    :", m.shape, [list(c) for c in m.cols()])
print("~(t > 1) :", n.shape, got, " expected", (3, 2), exp)
bad = n.shape != m.shape or got != exp
b = Table({'p': [True, False], 'q': [True, True]})
nb = ~b
print("~b       :", [list(c) for c in nb.cols()], "names", nb.column_names(), " expected [[False, True], [False, False]]")
bad |= [list(c) for c in nb.cols()] != [[False, True], [False, False]]
print("VIOLATION" if bad else "ok")
sys.exit(1 if bad else 0)
