# C08: "table cell, row, column and region assignment do the same on the addressed cells only"
#      (i.e. what list assignment would produce) -- and C02: "row slices and masks apply uniformly
#      to all columns".
# When the row key of a table assignment is a LIVE column of the same table (a bool column used as
# mask, or an int column used as index vector) and that column is itself among the addressed
# columns, it is overwritten first and the *modified* key is then used for the remaining columns.
# The assignment is applied to different rows in different columns, silently (no exception).
import sys, warnings
from serif import Table
warnings.simplefilter('ignore')
bad = False

t = Table({'m': [True, False, True], 'x': [True, True, True], 's': ['a', 'b', 'c']})
t[t.m, ('m', 'x')] = False          # rows 0 and 2 of columns m and x
got = [list(c) for c in t.cols()]
exp = [[False, False, False], [False, True, False], ['a', 'b', 'c']]
print("t[t.m, ('m','x')] = False ->", got, "expected", exp)
bad |= got != exp

t = Table({'m': [True, False, True], 'x': [1, 2, 3]})
t[t.m] = [False, 0]                 # list-of-columns: m -> False, x -> 0 on rows 0 and 2
got = [list(c) for c in t.cols()]
exp = [[False, False, False], [0, 2, 0]]
print("t[t.m] = [False, 0]        ->", got, "expected", exp)
bad |= got != exp

# same table, mask column last: works, which shows the intended meaning
t = Table({'x': [1, 2, 3], 'm': [True, False, True]})
t[t.m] = [0, False]
print("mask column last           ->", [list(c) for c in t.cols()])

t = Table({'i': [1, 2, 2], 'x': [5, 6, 7]})
t[t.i] = 0                          # index vector [1, 2, 2]: rows 1 and 2 of every column
got = [list(c) for c in t.cols()]
exp = [[1, 0, 0], [5, 0, 0]]
print("t[t.i] = 0                 ->", got, "expected", exp)
bad |= got != exp
print("VIOLATION" if bad else "ok")
sys.exit(1 if bad else 0)
