# C05: "For every arithmetic operator ... applied to a vector and a vector ... of the same length, the
#      result is a new vector ... whose i-th element is exactly what Python computes"
# C07: "Comparison ... operators return non-nullable boolean vectors computed elementwise"
# A table row (Row is a Vector subclass: "behaves like a Vector (math, logic, isinstance)") cannot be
# combined with ITSELF: row * row, row + row, row == row, row @ row raise
#   TypeError: Row.__new__() missing 1 required positional argument: 'table'
# because _check_duplicate deep-copies an operand that is the same object and a Row cannot be
# deep-copied.  row * other_row, row * 2 and v * v on a plain vector all work.  Same family as the
# fixed "t == t raised RecursionError".
import sys, warnings, operator
from serif import Table
warnings.simplefilter('ignore')
t = Table({'a': [1, 2, 3], 'b': [4, 5, 6]})
bad = False
r = t[1]
for name, f, exp in [('row*row', operator.mul, [4, 25]), ('row+row', operator.add, [4, 10]),
                     ('row-row', operator.sub, [0, 0]), ('row==row', operator.eq, [True, True]),
                     ('row<=row', operator.le, [True, True])]:
    try:
        got = list(f(r, r))
        print(name, '->', got, 'expected', exp)
        bad |= got != exp
    except Exception as e:
        print(name, 'raised', type(e).__name__, e, ' expected', exp)
        bad = True
try:
    print([list(row * row) for row in t])
except Exception as e:
    print('[row*row for row in t] raised', type(e).__name__, e)
    bad = True
print('control: row*t[1] ->', list(r * t[1]), ' row*2 ->', list(r * 2))
print("VIOLATION" if bad else "ok")
sys.exit(1 if bad else 0)
