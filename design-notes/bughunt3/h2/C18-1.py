# C18: "... structure keeps them" / by-design note: unary operators keep names. The fix
#   "-t, +t and abs(t) on a table returned the transposed table without column names" gave Table
#   its own __neg__/__pos__/__abs__ - but not __invert__.
# ~t still runs Vector._unary_operation over the ROWS of the table: the result is the transposed
# table with every column name dropped (a 3x2 table becomes 2x3), although ~column keeps its name
# and -t / +t / abs(t) keep shape and names.
import sys, warnings
warnings.simplefilter('ignore')
from serif import Table
t = Table({'a': [True, False, True], 'b': [False, False, True]})
r = ~t
print(r); print('shape', t.shape, '->', r.shape, ' names', t.column_names(), '->', r.column_names())
ok = r.shape == t.shape and r.column_names() == t.column_names() and list(r.cols()[0]) == [False, True, False]
print('(-t) for comparison:', (-t).shape, (-t).column_names())
sys.exit(0 if ok else 1)
