# C20: "repr ... never misstates shape, dtype or data ... shorter data shows every row"
# (low) Cells of <str> columns are printed raw: a cell containing a newline is split over several
# output lines, so a 2-element vector is listed on 3 lines and, in a table, the cells of the following
# columns land on the wrong line. Likewise the str 'None' and a real None print identically in a <str?>
# column. Names are escaped with repr(), cell values are not.
import sys, warnings
warnings.simplefilter('ignore')
from serif import Vector, Table
v = Vector(['a\nb', 'c'])
r = repr(v); print(r)
body = r.split('\n')[:-2]
t = Table({'s': ['a\nb', 'c'], 'n': [1, 2]})
print(repr(t))
w = Vector(['None', None]); print(repr(w))
wl = repr(w).split('\n')
bad = (len(body) != len(v)) or (wl[0].strip() == wl[1].strip())
sys.exit(1 if bad else 0)
