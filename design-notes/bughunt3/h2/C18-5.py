# C18: "aggregate and window name their outputs after the key names and <sanitised column>_<function>"
#      QUANTIFIER: tables with arbitrary (repeated, unsanitary, missing) column names
# A key column whose stored name is the empty string (what read_csv stores for an empty header cell)
# is not named after the key: aggregate()/window() use `col._name or "key"`, so the output key column is
# called 'key' although the source column is called ''. (An aggregated column named '' likewise becomes col_sum.)
import sys, io, warnings
warnings.simplefilter('ignore')
from serif import Table, Vector, read_csv
t = read_csv(io.StringIO(",v\n1,10\n1,20\n2,30\n"))
print('source names', t.column_names())
a = t.aggregate(over=t.cols()[0], sum_over=t.v)
w = t.window(over=t.cols()[0], sum_over=t.v)
print('aggregate names', a.column_names(), ' window names', w.column_names())
sys.exit(0 if a.column_names()[0] == '' and w.column_names()[0] == '' else 1)
