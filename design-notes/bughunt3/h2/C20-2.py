# C20: "... and column headers show the stored names."
# display.py uses the string "..." as the marker of the elided middle column. A column whose stored
# name is '...' is taken for that marker when the header is planned: any_display ignores it, so when
# no other column has a (truthy) name the whole name row is dropped and only the generated accessor
# row (.col0_) is printed - the stored name '...' appears nowhere. (Next to an ordinarily named column
# the name row is printed and '...' is shown.)
import sys, warnings
warnings.simplefilter('ignore')
from serif import Table, Vector
bad = 0
for t in (Table({'...': [1, 2]}), Table([Vector([1, 2], name='...'), Vector([3, 4], name='...')])):
    r = repr(t)
    print(r); print('stored names:', t.column_names())
    header = r.split('\n')[0]
    if '...' not in header:
        print("-> header row does not show the stored name '...'"); bad = 1
sys.exit(1 if bad else 0)
