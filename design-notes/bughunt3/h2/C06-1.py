# C06: "A None element ... is skipped by every reduction (sum, mean, min, max, stdev, any, all and the
#       per-group aggregates)"   QUANTIFIER: ... None at every subset of positions (including all-None)
# On an all-None vector sum/mean/stdev/any/all skip the Nones and return their empty-case value
# (0 / None / None / False / True), and the per-group min/max of an all-None group is None - but
# Vector.min() and Vector.max() raise a bare ValueError ("max() iterable argument is empty"); so does
# Table.max()/min() as soon as one column is all None.
import sys, warnings
warnings.simplefilter('ignore')
from serif import Vector, Table
v = Vector([None, None])
bad = 0
for name in ('sum', 'mean', 'stdev', 'any', 'all', 'min', 'max'):
    try:
        print(f'Vector([None, None]).{name}() ->', getattr(v, name)())
    except Exception as e:
        print(f'Vector([None, None]).{name}() raised', type(e).__name__, '-', e); bad = 1
t = Table({'k': [1, 1], 'x': [None, None]})
print('per-group:', list(t.aggregate(over='k', max_over='x', min_over='x').cols()[1]), list(t.aggregate(over='k', max_over='x', min_over='x').cols()[2]))
try: print('Table.max():', t.max())
except Exception as e: print('Table.max() raised', type(e).__name__, '-', e); bad = 1
sys.exit(1 if bad else 0)
