# C03: "... every vector returned or mutated by a library operation - ... casts, ... Equivalently,
#       writing any element back into its own position is always accepted and never changes the dtype."
# cast(T) stamps the result with DataType(T) whenever T is a class. If T is a SUBCLASS of a ladder
# type (an IntEnum, a float subclass such as a numpy scalar type, a str subclass, ...) the elements
# are classified as the base kind everywhere else (infer_kind is isinstance based: Vector(list(v))
# is <int>), so the <I> vector refuses every one of its own elements:
#   v = Vector([1, 2]).cast(I);  v[0] = v[0]  ->  SerifTypeError: Cannot set int in I vector.
# (Sibling of the round-2 fix "a vector refused to take back its own element when that element is an
#  instance of a subclass of its kind" - here the *kind itself* is the subclass.)
import sys, enum, warnings
warnings.simplefilter('ignore')
from serif import Vector
class Color(enum.IntEnum):
    RED = 1; GREEN = 2
class F(float): pass
class S(str): pass
bad = 0
for tgt, vals in [(Color, [1, 2]), (F, [1.5, 2.5]), (S, ['a', 'b'])]:
    v = Vector(vals).cast(tgt)
    before = v.schema()
    print(f'cast({tgt.__name__}) ->', before, '; the same elements re-inferred:', Vector(list(v)).schema())
    try:
        v[0] = v[0]
        if v.schema() != before: bad = 1; print('   dtype changed to', v.schema())
    except Exception as e:
        bad = 1; print('   v[0] = v[0] raised', type(e).__name__, '-', e)
sys.exit(1 if bad else 0)
