# C06: "A None element propagates through every elementwise arithmetic operation"
#      QUANTIFIER: all vectors of every dtype ... all operators
# When one element pair of a vector-vector (or vector-list) operation raises TypeError, the operation
# does not fail: it falls back to an <object> vector of (x, y) pairs for EVERY position - including the
# positions where an operand is None, which come out as (None, y) / (x, None) instead of None (the result
# also reports itself non-nullable). E.g. an object vector holding one str among ints. (low: the fallback
# is deliberate, but it is the one arithmetic path on which None does not propagate; `a + 1` raises instead.)
import sys, warnings
warnings.simplefilter('ignore')
from serif import Vector
cases = [('Vector([1, "a", None]) + Vector([1, 1, 1])', [1, 'a', None], [1, 1, 1], lambda a, b: Vector(a) + Vector(b)),
         ('Vector([1, "a", None]) - [1, 1, 1]',          [1, 'a', None], [1, 1, 1], lambda a, b: Vector(a) - b),
         ('Vector([1, None]) * Vector(["x", None]) (ok)', [1, None], ['x', None], lambda a, b: Vector(a) * Vector(b)),
         ('Vector([1, None]) + Vector(["x", "y"])',       [1, None], ['x', 'y'], lambda a, b: Vector(a) + Vector(b))]
bad = 0
for label, a, b, f in cases:
    r = f(a, b)
    print(label, '->', list(r), r.schema())
    for x, y, z in zip(a, b, r):
        if (x is None or y is None) and z is not None:
            bad = 1
sys.exit(1 if bad else 0)
