# C18: "Binary arithmetic and comparisons between vectors give unnamed results"
# Table._elementwise_compare builds its result with Vector(cols, False, bool, True); the positional
# parameters of Vector are (initial, dtype, name, as_row), so the result TABLE is given name=<class 'bool'>
# (and dtype=False, as_row=True). (t == 1).name is the builtin type bool, not None; slices of the result
# inherit it. (With no columns the same call yields the broken vector of C20-1.)
import sys, warnings
warnings.simplefilter('ignore')
from serif import Table
t = Table({'a': [1, 2], 'b': [3, 4]})
bad = 0
for label, r in [('t == 1', t == 1), ('t < t.copy()', t < t.copy()), ('(t != 1)[0:1]', (t != 1)[0:1])]:
    print(label, '-> .name =', repr(r.name), ' column names', r.column_names())
    if r.name is not None: bad = 1
sys.exit(1 if bad else 0)
