# C17: "The accessor names a table advertises ... are pairwise distinct within the table, and each
#       resolves by attribute access ... to the column at its own position"
# Table.peek() advertises an accessor per column in its 'attr' column ("Sanitized attribute name with
# dot prefix"), but computes it without the duplicate rule that dir() and the repr dot row apply:
# for repeated (or equal-after-sanitising) names it prints the same accessor several times, and that
# accessor resolves to the FIRST such column, not to the column of its own row. (Same slip as the
# round-1 fix "repr of a wide table shows the real accessor of a duplicate column".)
import sys, warnings
warnings.simplefilter('ignore')
from serif import Table, Vector
t = Table([Vector([1, 2], name='a'), Vector([3, 4], name='A'), Vector([5, 6], name='a b'), Vector([7, 8], name='a_b')])
adv = [s.lstrip('.') for s in t.peek().attr]
real = sorted(t._fresh_column_map().items(), key=lambda kv: kv[1])
print('peek() attr column :', adv)
print('dir()/repr accessors:', [k for k, _ in real])
bad = 0
if len(set(adv)) != len(adv):
    print('-> advertised accessors are not pairwise distinct'); bad = 1
for i, a in enumerate(adv):
    if getattr(t, a) is not t.cols()[i]:
        print(f'-> t.{a} (advertised for column {i}) resolves to another column'); bad = 1
sys.exit(1 if bad else 0)
