# C18: "table-with-scalar arithmetic keeps every column name" (and, per the fix "arithmetic with a
#   scalar or sequence on the left of a table lost the column names", a sequence on the left keeps
#   them too: [10, 20] + t keeps 'a', 'b').
# Whether  vector <op> table  keeps the table's column names depends on the dtype of the vector:
# Python prefers Table.__radd__ only when the left operand's class is a base class of Table. A
# bool/complex/object/datetime vector is a plain Vector -> Table.__radd__ runs -> names kept; an
# int/float/str/date vector is an _Int/_Float/_String/_Date instance -> Vector.__add__ runs
# (CASE B of _elementwise_operation) -> every column name is dropped.
import sys, warnings
warnings.simplefilter('ignore')
from serif import Table, Vector
t = Table({'a': [1, 2], 'b': [3, 4]})
res = {}
for label, left in [('list', [10, 20]), ('bool vector', Vector([True, False])), ('complex vector', Vector([1j, 2j])),
                    ('int vector', Vector([10, 20])), ('float vector', Vector([1.5, 2.5]))]:
    for sym, f in [('+', lambda l: l + t), ('-', lambda l: l - t), ('*', lambda l: l * t)]:
        res[(label, sym)] = f(left).column_names()
    print(f'{label:15s} + t -> names', res[(label, '+')], '   - t ->', res[(label, '-')])
print('t + int vector  -> names', (t + Vector([10, 20])).column_names())
sys.exit(0 if len({tuple(v) for v in res.values()}) == 1 else 1)
