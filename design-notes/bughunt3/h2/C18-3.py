# C18: "Tables built from vectors, stacked with >>, ... keep each source column's stored name in order"
# Stacking something in FRONT of a table with >> does not work unless the left operand is a nullable vector:
#   Vector([9, 9], name='v') >> t   raises AttributeError ('NoneType' object has no attribute 'nullable'):
#       Vector.__rshift__ reads other.schema().nullable, and a Table has no schema;
#   [9, 9] >> t                     (Vector.__rrshift__) does not splice the table's columns in: it builds
#       Vector((Vector(other), t)), a 2x2 table whose second "column" is the whole table t, all names lost.
# Only Vector([9, None], name='v') >> t gives the expected 2x3 table named ['v', 'a', 'b'].
# Related (same method, printed for information only): stacking onto/with an EMPTY untyped vector crashes too -
#   Vector([]) >> [1]  and  Vector([1])[0:0] >> Vector([])  raise AttributeError ('NoneType' ... 'kind'/'nullable'),
#   the slip that round 2 fixed for << only.
import sys, warnings
warnings.simplefilter('ignore')
from serif import Table, Vector
t = Table({'a': [1, 2], 'b': [3, 4]})
bad = 0
ok = Vector([9, None], name='v') >> t
print('nullable vector >> t :', ok.shape, ok.column_names())
try:
    r = Vector([9, 9], name='v') >> t
    print('vector >> t          :', r.shape, r.column_names())
    if r.column_names() != ['v', 'a', 'b']: bad = 1
except Exception as e:
    print('vector >> t          : raised', type(e).__name__, e); bad = 1
r = [9, 9] >> t
print('list >> t            :', r.shape, r.column_names(), '| second column holds', type(r.cols()[1][0]).__name__, 'objects')
if r.shape != (2, 3) or r.column_names() != [None, 'a', 'b']: bad = 1
for label, f in [('Vector([]) >> [1]', lambda: Vector([]) >> [1]), ('Vector([1])[0:0] >> Vector([])', lambda: Vector([1])[0:0] >> Vector([]))]:
    try: print(label, '->', type(f()).__name__)
    except Exception as e: print(label, '-> raised', type(e).__name__, e)
sys.exit(1 if bad else 0)
