# C06: "isna, dropna and fillna agree with one another: dropna removes exactly the positions isna marks,
#       fillna(x) replaces exactly those positions ... and for any x other than None both return vectors that
#       report themselves non-nullable."
# Table inherits fillna / dropna / isna from Vector unchanged; they treat the COLUMN OBJECTS as the elements
# (none of which is None). So on a table holding None cells: fillna(0) returns the table unchanged (None still
# there, columns still nullable), dropna() drops nothing, and isna() returns a flat vector with one False per
# column instead of a mask of the cells. No error, no warning. (Low: the quantifier says "vectors"; a Table is
# a Vector subclass and these are its public methods.)
import sys, warnings
warnings.simplefilter('ignore')
from serif import Table
t = Table({'a': [1, None, 3], 'b': ['x', 'y', None]})
f = t.fillna(0); d = t.dropna(); m = t.isna()
print('fillna(0):', [list(c) for c in f.cols()], [c.schema() for c in f.cols()])
print('dropna() :', [list(c) for c in d.cols()])
print('isna()   :', type(m).__name__, list(m))
bad = any(x is None for c in f.cols() for x in c) or any(c.schema().nullable for c in f.cols())
sys.exit(1 if bad else 0)
