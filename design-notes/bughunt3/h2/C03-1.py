# C03: "Equivalently, writing any element back into its own position is always accepted and
#       never changes the dtype."
# Vector([10**400, 2.5]) is inferred <float> (int widens to float; inference keeps the element as
# the raw int 10**400). Writing that very element back, v[0] = v[0], is REFUSED with OverflowError:
# validate_scalar() calls float(value) (complex(value) for a <complex> vector) merely to check it.
# The same holds for every vector an operation returns that holds such an int in a float/complex
# column, e.g. Vector([2.5]) << 10**400.
import sys, warnings
warnings.simplefilter('ignore')
from serif import Vector
bad = 0
big = 10**400
for label, v in [('Vector([10**400, 2.5])', Vector([big, 2.5])),
                 ('Vector([10**400, 1j])', Vector([big, 1j])),
                 ('Vector([2.5]) << 10**400', Vector([2.5]) << big)]:
    i = list(v).index(big)
    before = v.schema()
    try:
        v[i] = v[i]
        print(label, before, ': write-back accepted; dtype now', v.schema())
        if v.schema() != before: bad = 1
    except Exception as e:
        print(label, before, ': writing its own element back raised', type(e).__name__, '-', e)
        bad = 1
sys.exit(1 if bad else 0)
