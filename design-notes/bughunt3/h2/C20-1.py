# C20: "repr() of any vector or table returns a string without raising ..."
# C03: "The schema a vector reports never lies about its elements" (the reported kind must be a type)
# Comparing the 0x0 table (Table(), or what every join without result rows returns) with anything
# builds its result with Vector(cols, False, bool, True): the positional arguments land on
# dtype=False, name=bool, as_row=True. With no columns this is not turned into a Table, so the
# result is an empty Vector whose schema is DataType(kind=False). repr() of that vector - and
# repr() of its schema - raise AttributeError: 'bool' object has no attribute '__name__'.
import sys, warnings
warnings.simplefilter('ignore')
from serif import Vector, Table
bad = 0
left = Table({'k': [1, 2], 'a': [3, 4]}); right = Table({'k': [7], 'b': [9]})
empty_join = left.inner_join(right, 'k', 'k')          # documented: the 0x0 table
for label, make in [('Table() == 1', lambda: Table() == 1),
                    ('Table() != Table()', lambda: Table() != Table({})),
                    ('empty inner join < 5', lambda: empty_join < 5)]:
    r = make()
    print(label, '->', type(r).__name__, 'schema kind =', repr(r.schema().kind) if r.schema() is not None else None)
    if r.schema() is not None and not isinstance(r.schema().kind, type):
        bad = 1
    try:
        print(repr(r))
    except Exception as e:
        print('   repr raised', type(e).__name__, e); bad = 1
sys.exit(1 if bad else 0)
