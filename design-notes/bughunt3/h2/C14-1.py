# C14: "sort_by returns a permutation of the input rows ... ordered lexicographically by the given keys"
#      QUANTIFIER: all tables and vectors ...
# A vector may report <datetime> while holding raw date objects (date -> datetime is a documented
# widening): inference keeps the elements as they are (Vector([date, datetime])), and so does a write
# of a date into a datetime vector (validate_scalar accepts it, the raw date is stored). Python cannot
# order a date against a datetime, so such a homogeneously typed <datetime> key cannot be sorted at all:
# Vector.sort_by and Table.sort_by raise TypeError. (An int/float/bool mixture - the other ladder -
# sorts fine, and a date vector promoted IN PLACE converts its elements and sorts fine.)
import sys, warnings
from datetime import date, datetime
warnings.simplefilter('ignore')
from serif import Vector, Table
bad = 0
v = Vector([datetime(2021, 5, 1, 12), date(2020, 1, 1), None])
w = Vector([datetime(2021, 5, 1, 12), datetime(2020, 1, 1)]); w[1] = date(2020, 1, 1)
t = Table({'d': [datetime(2021, 5, 1, 12), date(2020, 1, 1)], 'x': [1, 2]})
for label, f in [(f'Vector([datetime, date, None]) {v.schema()}.sort_by()', lambda: list(v.sort_by())),
                 (f'datetime vector after v[1] = date {w.schema()}.sort_by()', lambda: list(w.sort_by())),
                 ("Table.sort_by('d') on a <datetime> column", lambda: list(t.sort_by('d').d))]:
    try:
        print(label, '->', f())
    except Exception as e:
        print(label, '-> raised', type(e).__name__, '-', e); bad = 1
sys.exit(1 if bad else 0)
