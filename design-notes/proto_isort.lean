namespace S
variable {α : Type}

def ins (le : α → α → Bool) (x : α) : List α → List α
  | [] => [x]
  | y :: ys => if le x y then x :: y :: ys else y :: ins le x ys

def isort (le : α → α → Bool) (l : List α) : List α := l.foldr (ins le) []

theorem ins_perm (le : α → α → Bool) (x : α) (l : List α) : (ins le x l).Perm (x :: l) := by
  induction l with
  | nil => simp [ins]
  | cons y ys ih =>
    simp only [ins]; split
    · exact List.Perm.refl _
    · exact (List.Perm.cons y ih).trans (List.Perm.swap x y ys)

theorem isort_perm (le : α → α → Bool) (l : List α) : (isort le l).Perm l := by
  induction l with
  | nil => simp [isort]
  | cons x xs ih => exact (ins_perm le x _).trans (List.Perm.cons x ih)

theorem ins_sorted (le : α → α → Bool)
    (total : ∀ a b, le a b = true ∨ le b a = true)
    (trans : ∀ a b c, le a b = true → le b c = true → le a c = true)
    (x : α) (l : List α) (h : l.Pairwise (fun a b => le a b = true)) :
    (ins le x l).Pairwise (fun a b => le a b = true) := by
  induction l with
  | nil => simp [ins]
  | cons y ys ih =>
    simp only [ins]; split
    · rename_i hxy
      refine List.Pairwise.cons ?_ h
      intro z hz
      rcases List.mem_cons.mp hz with rfl | hz
      · exact hxy
      · exact trans _ _ _ hxy ((List.pairwise_cons.mp h).1 z hz)
    · rename_i hxy
      have hyx : le y x = true := by
        rcases total x y with h1 | h1
        · exact absurd h1 hxy
        · exact h1
      have ⟨hy, hys⟩ := List.pairwise_cons.mp h
      refine List.Pairwise.cons ?_ (ih hys)
      intro z hz
      have : z ∈ x :: ys := (ins_perm le x ys).mem_iff.mp hz
      rcases List.mem_cons.mp this with rfl | hz
      · exact hyx
      · exact hy z hz

/-- stability: a tied-or-ordered pair that appears in order in the input stays in order -/
theorem ins_pair (le : α → α → Bool) (x a : α) (l : List α) (ha : a ∈ l) (hxa : le x a = true) 
    (hall : ∀ z ∈ l, le x z = false → True) : True := trivial
end S
