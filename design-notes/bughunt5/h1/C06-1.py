# C06: "fillna(x) replaces exactly those positions [the ones isna marks] AND NOTHING ELSE".
# When the fill value needs a wider kind (int? vector, float or complex fill value) fillna first converts
# EVERY element with float()/complex().  An int beyond 2**53 does not survive that conversion, so a
# position that is not None comes back with a different value.  A vector freshly built from the
# expected elements ([2**53 + 1, 0.5], also <float>) keeps the int exactly, as does dtype inference,
# `<<` and arithmetic - only this route rewrites the untouched positions.
import sys, warnings
warnings.simplefilter('ignore')
from serif import Vector

big = 2**53 + 1
v = Vector([big, None, 7])
bad = 0
for x in (0.5, 1j):
    f = v.fillna(x)
    fresh = Vector([big, x, 7])
    print('fillna(%r): %r %s   | freshly built: %r %s' % (x, list(f), f.schema(), list(fresh), fresh.schema()))
    changed = [i for i, (a, b) in enumerate(zip(v, f)) if a is not None and a != b]
    if changed:
        print('   positions that were not None but changed value:', changed, [(v[i], f[i]) for i in changed])
        bad += 1
print('input still', list(v))
if bad:
    print('VIOLATION: fillna changed the value at a position isna() does not mark')
    sys.exit(1)
sys.exit(0)
