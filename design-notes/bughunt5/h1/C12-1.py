# C12: "Whole-column reductions on a vector holding at least one non-None value agree with
#       aggregating that column as a single group."  (also: each built-in aggregate "equals the
#       textbook function ... sample standard deviation")
# Vector.stdev() squares the deviations with (x-m)*(x-m); Table.aggregate / Table.window square them
# with (v-mean)**2, i.e. C pow(), which is not correctly rounded.  For ordinary floats (no overflow,
# no huge spread - this is NOT the 1e154 overflow case of the by-design list) the two reductions of
# the very same column therefore return different numbers.
import sys, warnings, statistics
warnings.simplefilter('ignore')
from serif import Vector, Table

cases = [
    [0.00038020156780295503, -833746.5633597029, 0.1254303953398832],
    [3.988927549826096, 0.00047039090240279534, -3.340587560198074, 0.000676910515324983],
    [142174.51624446828, 5, 4.058212914924404, 987853.16975345],
]
bad = 0
for xs in cases:
    v = Vector(xs)
    t = Table({'k': [1] * len(xs), 'x': xs})
    agg = t.aggregate(over='k', stdev_over='x')['x_stdev'][0]
    win = t.window(over='k', stdev_over='x')['x_stdev'][0]
    vec = v.stdev()
    print(xs)
    print('   Vector.stdev()      =', repr(vec))
    print('   aggregate stdev_over=', repr(agg), ' window:', repr(win))
    print('   statistics.stdev    =', repr(statistics.stdev(xs)))
    if vec != agg:
        bad += 1
if bad:
    print('VIOLATION: whole-column stdev and single-group aggregate stdev disagree in', bad, 'cases')
    sys.exit(1)
sys.exit(0)
