# C05: "The broadcast string, numeric and date methods and properties (v.upper(), v.bit_length(),
#       dates.year, dates + days) obey the same rule AT EVERY DATA SIZE: element i of the result is
#       the method applied to element i" / "all lengths including 0 and 1".
# A selection that happens to match no row is a typed empty vector (<str>, <int>, <date>).  The first
# broadcast call on it works, but its result is an UNTYPED empty vector (schema None), and
# `v + scalar` on it is typed <object?> (while `scalar + v` and `-v` keep <int>).  The next broadcast
# call in the chain then crashes with AttributeError from inside the library, although the very same
# expression works for every selection with >= 1 row.  So whether `col.upper().strip()`,
# `(dates + 1).year` or `(ints + 1).bit_length()` works depends on the data size.
import sys, warnings, datetime as dt
warnings.simplefilter('ignore')
from serif import Vector, Table

t = Table({'who': ['ann ', 'bob'], 'age': [30, 40], 'd': [dt.date(2020, 1, 1), dt.date(2020, 2, 1)]})
bad = 0
for label, threshold in (('one row selected', 35), ('no row selected', 100)):
    m = t.age > threshold
    who, age, d = t.who[m], t.age[m], t.d[m]
    print('---', label, ': who', list(who), who.schema(), '| age', age.schema(), '| d', d.schema())
    for expr, f in (("who.upper().strip()", lambda: who.upper().strip()),
                    ("(who + '!').upper()", lambda: (who + '!').upper()),
                    ("(d + 1).year", lambda: (d + 1).year),
                    ("(age + 1).bit_length()", lambda: (age + 1).bit_length()),
                    ("(1 + age).bit_length()", lambda: (1 + age).bit_length()),
                    ("age.bit_length().bit_length()", lambda: age.bit_length().bit_length())):
        try:
            r = f()
            print('   %-32s -> %s %s' % (expr, list(r), r.schema()))
        except AttributeError as e:
            print('   %-32s -> AttributeError: %s' % (expr, e))
            bad += 1
print('schema of empty results: age+1 ->', (t.age[t.age > 100] + 1).schema(), ' 1+age ->', (1 + t.age[t.age > 100]).schema(),
      ' -age ->', (-t.age[t.age > 100]).schema(), ' who.upper() ->', t.who[t.age > 100].upper().schema())
if bad:
    print('VIOLATION: %d broadcast chains work on a 1-row selection and raise AttributeError on a 0-row selection' % bad)
    sys.exit(1)
sys.exit(0)
