# C04: "... and the results of arithmetic, joins, aggregates and CSV parsing are typed by the same rule
#       [the inference lattice] applied to their values."
# Two arithmetic routes do not type their result by inference:
#  (a) the operand-pair fallback of vector (+) vector / list (taken when Python raises TypeError, e.g.
#      Decimal + float) stamps DataType(object) on a vector whose elements are all tuples - inference
#      over the very same values says <tuple>;  (the fallback's VALUES are by design, this is its dtype)
#  (b) an EMPTY result of `v <op> x` is typed by infer_dtype(()) = <object?>, while `x <op> v`, `-v` and
#      every other empty result keep the operand's dtype and Vector([]) has no dtype at all - three
#      different answers for "the dtype of no values".
import sys, warnings
from decimal import Decimal
warnings.simplefilter('ignore')
from serif import Vector
from serif.typing import infer_dtype

bad = 0
r = Vector([Decimal(1), Decimal(2)]) + Vector([1.5, 2.5])
fresh = Vector(list(r))
print('(a) Decimal vector + float vector ->', list(r), 'reported', r.schema(), '| inferred from the same values:', fresh.schema())
if r.schema() != fresh.schema():
    bad += 1
e = Vector([1, 2, 3])[0:0]
res = {'e + 1': (e + 1).schema(), '1 + e': (1 + e).schema(), '-e': (-e).schema(), 'e * e': (e * e).schema(),
       'e << []': (e << []).schema(), 'Vector([])': Vector([]).schema()}
print('(b) empty <int> vector e:', res)
if len({repr(x) for x in res.values()}) > 1:
    bad += 1
if bad:
    print('VIOLATION: arithmetic results not typed by the inference rule applied to their values')
    sys.exit(1)
sys.exit(0)
