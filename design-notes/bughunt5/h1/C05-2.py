# C05: "the result is a new vector ... whose i-th element is exactly what Python computes for the i-th
#       operands IN THE WRITTEN OPERAND ORDER" (all reflected forms included).
# Vector.__rmul__ is `return self.__mul__(other)`: `s * v` is computed as v[i] * s, not s * v[i]
# (every other reflected operator swaps correctly).  For element types whose multiplication is not
# commutative (a user class with __mul__/__rmul__, a matrix / quaternion / symbolic type) the result is
# not what Python computes for `s * v[i]`.  Same through a table: `s * table`.
import sys, warnings
warnings.simplefilter('ignore')
from serif import Vector, Table

class Q:
    """a value whose product depends on the side it stands on (like a matrix or quaternion)"""
    def __init__(self, tag): self.tag = tag
    def __mul__(self, other): return 'Q(%s)*%r' % (self.tag, other)
    def __rmul__(self, other): return '%r*Q(%s)' % (other, self.tag)

els = [Q('a'), Q('b')]
v = Vector(els)
expected = [2 * x for x in els]
got_v = list(2 * v)
got_l = list([2, 3] * v)
expected_l = [s * x for s, x in zip([2, 3], els)]
got_t = [list(c) for c in (2 * Table({'c': els})).cols()]
print('python  2 * v[i]     :', expected)
print('serif   2 * v        :', got_v)
print('python  [2,3][i]*v[i]:', expected_l)
print('serif   [2,3] * v    :', got_l)
print('serif   2 * table    :', got_t)
print('(other reflected ops keep the order:  2 - v  etc. use other <op> v[i])')
if got_v != expected or got_l != expected_l or got_t != [expected]:
    print('VIOLATION: reflected multiplication evaluates v[i] * s instead of s * v[i]')
    sys.exit(1)
sys.exit(0)
