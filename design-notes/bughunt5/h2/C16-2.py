# C16: "fingerprint() is a function of current contents only: ... it equals the fingerprint of a
#       freshly built vector or table with the same contents"
#
# A set-valued cell is hashed over _safe_sortable_list(x) = sorted(x).  sorted() only gives a
# canonical order for a TOTAL order; frozensets are ordered by the subset relation, so sorted()
# does not raise but simply keeps the set's iteration order, which depends on the insertion
# history.  Two EQUAL sets (same members) can thus have different fingerprints, and a vector is
# not fingerprint-equal to a freshly built vector with the same contents.  (Sets as cells are
# inside C16 since the 'container' family; the remaining exclusions are dicts / unhashables.)
import sys, warnings, itertools
warnings.simplefilter('ignore')
from serif import Vector

fs = [frozenset({i}) for i in range(200)]
pair = None
for a, b in itertools.combinations(fs, 2):
    s1 = set(); s1.add(a); s1.add(b)
    s2 = set(); s2.add(b); s2.add(a)
    if list(s1) != list(s2):
        pair = (s1, s2)
        break
if pair is None:
    print("no order-sensitive pair found on this interpreter"); sys.exit(0)
s1, s2 = pair
print("s1 == s2:", s1 == s2, " iteration:", list(s1), "vs", list(s2))
f1 = Vector([s1, 0]).fingerprint()
f2 = Vector([s2, 0]).fingerprint()
print("fingerprints:", f1, f2)
v = Vector([s1, 0]); before = v.fingerprint(); v[0] = s2     # writes an EQUAL value
print("after writing the equal set: fp changed =", before != v.fingerprint())
sys.exit(1 if f1 != f2 else 0)
