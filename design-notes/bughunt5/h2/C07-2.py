# C07: "row selection and column selection commute: t[rows][cols] equals t[cols][rows]"
#       (quantifier: "all column-name tuples including missing and repeated names")
#
# For the EMPTY column-name tuple the two orders disagree.  t[()] is the 0x0 table (a table without
# columns cannot remember its row count), so a row selection applied afterwards no longer matches:
# a boolean mask of the right length for t is refused (AssertionError: len 0 != len(mask)), and a
# slice returns a plain empty Vector instead of a Table.  The other order, t[rows][()], returns the
# 0x0 Table in every case.  (Low severity: a degenerate selection, but inside the stated quantifier.)
import sys, warnings
warnings.simplefilter('ignore')
from serif import Vector, Table

t = Table({'a': [1, 2, 3], 'b': [4, 5, 6]})
mask = t.a > 1
bad = 0
def outcome(f):
    try:
        r = f()
        return f"{type(r).__name__} shape={getattr(r, 'shape', None)}"
    except Exception as e:
        return 'raised ' + type(e).__name__
for label, rows in [('mask', mask), ('slice 0:2', slice(0, 2)), ('positions', Vector([2, 0]))]:
    a = outcome(lambda: t[rows][()])
    b = outcome(lambda: t[()][rows])
    print(f"{label:10}  t[rows][()] -> {a:28}  t[()][rows] -> {b}")
    bad += a != b
sys.exit(1 if bad else 0)
