# C16: "fingerprint() is a function of current contents only: ... it equals the fingerprint of a
#       freshly built vector or table with the same contents, whether or not it had been called, and
#       cached, earlier"
# (Low severity, object "obtained by another route".)  The memo _fp is an ordinary instance attribute
# and travels with pickle.  Element hashes of str / bytes / date cells depend on the process's hash
# seed, so a vector whose fingerprint was cached in one process and which is unpickled in another
# (multiprocessing 'spawn', a cache on disk) answers fingerprint() with the STALE number of the old
# process: it differs from a freshly built vector with the same contents, and from the same vector
# pickled without a cached fingerprint.  __getstate__/__reduce__ should drop _fp (as copy() does).
import os, pickle, subprocess, sys, tempfile

if len(sys.argv) > 1 and sys.argv[1] == 'dump':
    from serif import Vector
    cached = Vector(['a', 'b', 'c']); cached.fingerprint()      # memo filled
    plain = Vector(['a', 'b', 'c'])                               # memo empty
    with open(sys.argv[2], 'wb') as f:
        pickle.dump((cached, plain), f)
    sys.exit(0)
if len(sys.argv) > 1 and sys.argv[1] == 'load':
    from serif import Vector
    with open(sys.argv[2], 'rb') as f:
        cached, plain = pickle.load(f)
    fresh = Vector(list(cached))
    print('contents equal:', list(cached) == list(plain) == list(fresh))
    print('unpickled (memo travelled):', cached.fingerprint())
    print('unpickled (no memo)       :', plain.fingerprint())
    print('freshly built             :', fresh.fingerprint())
    sys.exit(1 if cached.fingerprint() != fresh.fingerprint() else 0)

fd, path = tempfile.mkstemp(suffix='.pkl'); os.close(fd)
env1 = dict(os.environ, PYTHONHASHSEED='1'); env2 = dict(os.environ, PYTHONHASHSEED='2')
subprocess.run([sys.executable, __file__, 'dump', path], env=env1, check=True)
r = subprocess.run([sys.executable, __file__, 'load', path], env=env2)
os.unlink(path)
sys.exit(r.returncode)
